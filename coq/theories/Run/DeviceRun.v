(* Correspondence runner for the device state machine: observations recorded from the real Device (per event: MIDI bytes,
   termination signals, State()) are compared with the model inside the kernel VM, through per-property views. *)
From Coq Require Import List NArith ZArith Bool.
From HIDI Require Import Base.AList Model.Device.
Import ListNotations.
Open Scope N_scope.

Record ostep := { o_midi : list msg; o_sigs : nat; o_oct : Z; o_semi : Z; o_ch : N; o_notes : nat; o_map : N }.

Definition observe (c : config) (s : state) (o : out) : ostep :=
  {| o_midi := midi o; o_sigs := sigs o; o_oct := octave s; o_semi := semitone s; o_ch := channel s;
     o_notes := (length (noteT s) + length (analogT s))%nat; o_map := m_name (cur_mapping c s) |}.

Fixpoint trace_from (c : config) (s : state) (h : list ev) : state * list ostep :=
  match h with
  | [] => (s, [])
  | e :: r => let '(s1, o) := step c s e in
              let '(s2, os) := trace_from c s1 r in (s2, observe c s1 o :: os)
  end.

Definition model_trace (c : config) (h : list ev) : list ostep * list msg :=
  let '(s, os) := trace_from c (init c) h in (os, snd (cleanup c s)).

(* ---- equality tests *)
Fixpoint nlist_eqb (a b : list N) : bool :=
  match a, b with
  | [], [] => true
  | x :: a', y :: b' => (x =? y) && nlist_eqb a' b'
  | _, _ => false
  end.
Fixpoint msgs_eqb (a b : list msg) : bool :=
  match a, b with
  | [], [] => true
  | x :: a', y :: b' => nlist_eqb x y && msgs_eqb a' b'
  | _, _ => false
  end.
Definition ostep_eqb (a b : ostep) : bool :=
  msgs_eqb (o_midi a) (o_midi b) && Nat.eqb (o_sigs a) (o_sigs b) && (o_oct a =? o_oct b)%Z && (o_semi a =? o_semi b)%Z
  && (o_ch a =? o_ch b) && Nat.eqb (o_notes a) (o_notes b) && (o_map a =? o_map b).

(* multiset equality of message lists (clean-up order follows Go map iteration) *)
Fixpoint remove_first (m : msg) (l : list msg) : option (list msg) :=
  match l with
  | [] => None
  | x :: r => if nlist_eqb m x then Some r else
                match remove_first m r with Some r' => Some (x :: r') | None => None end
  end.
Fixpoint msgs_perm (a b : list msg) : bool :=
  match a with
  | [] => match b with [] => true | _ => false end
  | x :: a' => match remove_first x b with Some b' => msgs_perm a' b' | None => false end
  end.

Record kcase := { kc_cfg : config; kc_events : list ev; kc_obs : list ostep; kc_cleanup : list msg }.

(* first index at which two step lists differ under [eq]; [None] = equal *)
Fixpoint first_diff {A} (eq : A -> A -> bool) (i : nat) (a b : list A) : option nat :=
  match a, b with
  | [], [] => None
  | x :: a', y :: b' => if eq x y then first_diff eq (S i) a' b' else Some i
  | _, _ => Some i
  end.

(* full comparison (development aid and the strictest view) *)
Definition full_mismatch (k : kcase) : option nat :=
  let '(os, cl) := model_trace (kc_cfg k) (kc_events k) in
  match first_diff ostep_eqb 0 os (kc_obs k) with
  | Some i => Some i
  | None => if msgs_perm cl (kc_cleanup k) then None else Some (length os)
  end.

Fixpoint indexed_failures {A} (f : A -> bool) (i : nat) (l : list A) : list nat :=
  match l with
  | [] => []
  | x :: r => (if f x then [] else [i]) ++ indexed_failures f (S i) r
  end.

(* ====================================================================== C14: exit sequence *)
(* Monitor on the implementation's observations; the expected signal is computed from the history alone
   (the function the theorems C14_never_before / C14_fires_and_swallows are about). *)
Definition same_visible (a b : ostep) : bool :=
  (o_oct a =? o_oct b)%Z && (o_semi a =? o_semi b)%Z && (o_ch a =? o_ch b) && Nat.eqb (o_notes a) (o_notes b) && (o_map a =? o_map b).

Definition next_keys_r (kt : list N) (e : ev) : list N :=
  match e with
  | EKey _ k v => if (v =? 2)%Z then kt else if (v =? 1)%Z then sadd N.eqb k kt else srem N.eqb k kt
  | _ => kt
  end.

Fixpoint c14_scan (c : config) (kt : list N) (prev : ostep) (h : list ev) (obs : list ostep) (i : nat) : list nat :=
  match h, obs with
  | e :: r, o :: os =>
      let kt' := next_keys_r kt e in
      let expect := match e with EKey _ _ v => (v =? 1)%Z && exit_complete c kt' | _ => false end in
      let ok := if expect then Nat.eqb (o_sigs o) 1 && match o_midi o with [] => true | _ => false end && same_visible prev o
                else Nat.eqb (o_sigs o) 0 in
      (if ok then [] else [i]) ++ c14_scan c kt' o r os (S i)
  | [], [] => []
  | _, _ => [i]
  end.

(* the signal half of the C14 monitor; [c14_failures] (defined after the C04 spec interpreter below) adds "swallowed = no trace" *)
Definition c14_sig_failures (k : kcase) : list nat :=
  c14_scan (kc_cfg k) [] (observe (kc_cfg k) (init (kc_cfg k)) silent) (kc_events k) (kc_obs k) 0.

(* view comparison: model signal counts vs implementation signal counts ([c14_mismatch], defined after the C04 view below,
   adds State() and the Note-On triples: a swallowed press must leave no trace that shows later) *)
Definition c14_sig_mismatch (k : kcase) : option nat :=
  first_diff Nat.eqb 0 (map o_sigs (fst (model_trace (kc_cfg k) (kc_events k)))) (map o_sigs (kc_obs k)).

Definition c14_fired (k : kcase) : bool := existsb (fun o => negb (Nat.eqb (o_sigs o) 0)) (kc_obs k).

Fixpoint enum_fail {A B} (f : A -> list B) (i : nat) (l : list A) : list (nat * list B) :=
  match l with
  | [] => []
  | x :: r => match f x with [] => enum_fail f (S i) r | fl => (i, fl) :: enum_fail f (S i) r end
  end.
Fixpoint enum_some {A B} (f : A -> option B) (i : nat) (l : list A) : list (nat * B) :=
  match l with
  | [] => []
  | x :: r => match f x with None => enum_some f (S i) r | Some b => (i, b) :: enum_some f (S i) r end
  end.
Fixpoint enum_true {A} (f : A -> bool) (i : nat) (l : list A) : list nat :=
  match l with
  | [] => []
  | x :: r => (if f x then [i] else []) ++ enum_true f (S i) r
  end.

(* ====================================================================== walking a history with the implementation's observations *)
From HIDI Require Import Proofs.DeviceBasics Proofs.DeviceInv Proofs.DevicePlay Proofs.DeviceActions Proofs.DeviceWf Proofs.DevicePanic.

(* context maintained from the HISTORY and the implementation's OBSERVATIONS only (never from the model's state) *)
Record wctx := {
  w_kt : list N;                 (* keys down *)
  w_held : list action;          (* actions of the action keys down *)
  w_prev : ostep;                (* observation after the previous event *)
  w_trk : list (N * pair);       (* per key down: the pair its press resolved to in the observed state at the press *)
  w_exp : Z * Z * N * nat;       (* playing parameters expected by the property's wording (spec_action / reset) *)
  w_R : list pair                (* receiver-side sounding set reconstructed from the implementation's bytes *)
}.

Definition state_of_obs (c : config) (o : ostep) : state :=
  {| octave := o_oct o; semitone := o_semi o; channel := o_ch o; velocity := u8 (d_velocity c);
     mapidx := N.to_nat (o_map o); learning := false; noteT := []; analogT := []; counter := [];
     actionT := []; ccZ := []; keyT := [] |}.

Definition state_of_exp (c : config) (p : Z * Z * N * nat) : state :=
  let '(o, st, ch, m) := p in
  {| octave := o; semitone := st; channel := ch; velocity := u8 (d_velocity c);
     mapidx := m; learning := false; noteT := []; analogT := []; counter := [];
     actionT := []; ccZ := []; keyT := [] |}.

Definition first_complete (l : list action) : option pairkind :=
  if pair_complete l PMapping then Some PMapping
  else if pair_complete l POctave then Some POctave
  else if pair_complete l PSemitone then Some PSemitone
  else if pair_complete l PChannel then Some PChannel else None.

Definition reset4 (pk : pairkind) (p : Z * Z * N * nat) : Z * Z * N * nat :=
  let '(o, st, ch, m) := p in
  match pk with PMapping => (o, st, ch, 0%nat) | POctave => (0%Z, st, ch, m) | PSemitone => (o, 0%Z, ch, m) | PChannel => (o, st, 0, m) end.

Definition init_ctx (c : config) : wctx :=
  {| w_kt := []; w_held := []; w_prev := observe c (init c) silent; w_trk := [];
     w_exp := (d_octave c, d_semitone c, Z.to_N (d_channel c - 1), d_mapping c); w_R := [] |}.

Definition is_press (e : ev) : bool := match e with EKey _ _ v => (v =? 1)%Z | _ => false end.
Definition is_release (e : ev) : bool := match e with EKey _ _ v => (v =? 0)%Z | _ => false end.

Definition swallowed (c : config) (w : wctx) (e : ev) : bool := is_press e && exit_complete c (next_keys_r (w_kt w) e).

Definition ev_action (c : config) (e : ev) : option action :=
  match e with EKey _ k v => if (v =? 2)%Z then None else find_action c k | _ => None end.

Definition next_ctx (c : config) (w : wctx) (e : ev) (o : ostep) : wctx :=
  let sw := swallowed c w e in
  let held' := match ev_action c e with
               | Some a => if sw then w_held w else if is_press e then sadd action_eqb a (w_held w)
                           else if is_release e then srem action_eqb a (w_held w) else w_held w
               | None => w_held w end in
  let trk' := match e with
              | EKey sub k v =>
                  match find_action c k with
                  | Some _ => w_trk w
                  | None => if (v =? 1)%Z then
                              if sw then w_trk w else
                                match resolved c (state_of_obs c (w_prev w)) sub k with
                                | Some p => set N.eqb k p (w_trk w) | None => w_trk w end
                            else if (v =? 0)%Z then del N.eqb k (w_trk w) else w_trk w
                  end
              | _ => w_trk w end in
  let exp' := match ev_action c e with
              | Some a => if sw || negb (is_press e) then w_exp w else
                            match first_complete held' with
                            | Some pk => reset4 pk (w_exp w)
                            | None => spec_action (length (mappings c)) a (w_exp w)
                            end
              | None => w_exp w end in
  {| w_kt := next_keys_r (w_kt w) e; w_held := held'; w_prev := o; w_trk := trk'; w_exp := exp'; w_R := recv (w_R w) (o_midi o) |}.

Fixpoint walk (c : config) (f : wctx -> ev -> ostep -> bool) (w : wctx) (h : list ev) (obs : list ostep) (i : nat) : list nat * wctx :=
  match h, obs with
  | e :: r, o :: os => let '(fl, w') := walk c f (next_ctx c w e o) r os (S i) in
                       ((if f w e o then fl else i :: fl), w')
  | [], [] => ([], w)
  | _, _ => ([i], w)
  end.

Definition is_nilb {A} (l : list A) : bool := match l with [] => true | _ => false end.

(* ---------------------------------------------------------------------- C01 *)
Definition c01_step (c : config) (w : wctx) (e : ev) (o : ostep) : bool :=
  let kt' := next_keys_r (w_kt w) e in
  let R' := recv (w_R w) (o_midi o) in
  negb (is_nilb kt') || is_nilb R'.

Definition c01_failures (k : kcase) : list nat :=
  let c := kc_cfg k in
  let '(fl, w) := walk c (c01_step c) (init_ctx c) (kc_events k) (kc_obs k) 0 in
  fl ++ (if is_nilb (recv (w_R w) (kc_cleanup k)) then [] else [length (kc_events k)]).

(* view: sounding set at quiescent points and after clean-up, and the implementation's note count *)
Definition pairs_subset (a b : list pair) : bool := forallb (fun p => mem pair_eqb p b) a.
Definition pairs_seteq (a b : list pair) : bool := pairs_subset a b && pairs_subset b a.

Fixpoint c01_view (kt : list N) (R : list pair) (h : list ev) (obs : list ostep) : list (option (list pair) * nat) :=
  match h, obs with
  | e :: r, o :: os => let kt' := next_keys_r kt e in let R' := recv R (o_midi o) in
                       ((if is_nilb kt' then Some R' else None), o_notes o) :: c01_view kt' R' r os
  | _, _ => []
  end.
Definition c01_view_eqb (a b : option (list pair) * nat) : bool :=
  Nat.eqb (snd a) (snd b) &&
  match fst a, fst b with Some x, Some y => pairs_seteq x y | None, None => true | _, _ => false end.
Definition final_R (obs : list ostep) (cl : list msg) : list pair := recv (recv [] (flat_map o_midi obs)) cl.

Definition c01_mismatch (k : kcase) : option nat :=
  let '(os, cl) := model_trace (kc_cfg k) (kc_events k) in
  match first_diff c01_view_eqb 0 (c01_view [] [] (kc_events k) os) (c01_view [] [] (kc_events k) (kc_obs k)) with
  | Some i => Some i
  | None => if pairs_seteq (final_R os cl) (final_R (kc_obs k) (kc_cleanup k)) then None else Some (length (kc_events k))
  end.

(* ---------------------------------------------------------------------- C02 / C03 *)
Definition all_in (ms allowed : list msg) : bool := forallb (fun m => existsb (nlist_eqb m) allowed) ms.

(* C02: messages of a press are Note On / Note Off of the pair resolved in the observed state; messages of the release
   are Note Off of the pair recorded at the press; non-panic action keys are silent *)
Definition c02_step (c : config) (w : wctx) (e : ev) (o : ostep) : bool :=
  match e with
  | EKey sub k v =>
      if (v =? 2)%Z then is_nilb (o_midi o) else
      match find_action c k with
      | Some a => if action_eqb a Panic then true else is_nilb (o_midi o)
      | None =>
          if (v =? 1)%Z then
            if swallowed c w e then is_nilb (o_midi o) else
            match resolved c (state_of_obs c (w_prev w)) sub k with
            | Some (n, ch) => all_in (o_midi o) [note_on ch n (u8 (d_velocity c)); note_off ch n]
            | None => is_nilb (o_midi o)
            end
          else if (v =? 0)%Z then
            match get N.eqb k (w_trk w) with
            | Some (n, ch) => all_in (o_midi o) [note_off ch n]
            | None => is_nilb (o_midi o)
            end
          else true
      end
  | _ => true
  end.

Definition c02_failures (k : kcase) : list nat :=
  fst (walk (kc_cfg k) (c02_step (kc_cfg k)) (init_ctx (kc_cfg k)) (kc_events k) (kc_obs k) 0).

Definition is_panic_step (c : config) (e : ev) : bool :=
  match ev_action c e with Some a => action_eqb a Panic | None => false end.

(* view shared by C02 / C03: the messages of every step that is not a panic press *)
Fixpoint note_steps (c : config) (h : list ev) (obs : list ostep) : list (list msg) :=
  match h, obs with
  | e :: r, o :: os => (if is_panic_step c e then [] else o_midi o) :: note_steps c r os
  | _, _ => []
  end.
Definition notes_mismatch (k : kcase) : option nat :=
  first_diff msgs_eqb 0 (note_steps (kc_cfg k) (kc_events k) (fst (model_trace (kc_cfg k) (kc_events k))))
             (note_steps (kc_cfg k) (kc_events k) (kc_obs k)).

(* C03: exact messages from the rule, with the holders counted from the monitor's own history-based tracker *)
Definition c03_step (c : config) (w : wctx) (e : ev) (o : ostep) : bool :=
  match e with
  | EKey sub k v =>
      match find_action c k with
      | Some _ => true
      | None =>
          if (v =? 1)%Z then
            if swallowed c w e then is_nilb (o_midi o) else
            match resolved c (state_of_obs c (w_prev w)) sub k with
            | Some p => msgs_eqb (o_midi o) (press_msgs (cmode_of c) (u8 (d_velocity c)) p (Z.of_nat (mult p (vals (w_trk w)))))
            | None => is_nilb (o_midi o)
            end
          else if (v =? 0)%Z then
            match get N.eqb k (w_trk w) with
            | Some p => msgs_eqb (o_midi o) (release_msgs (cmode_of c) p (Z.of_nat (mult p (vals (w_trk w)))))
            | None => is_nilb (o_midi o)
            end
          else true
      end
  | _ => true
  end.
Definition c03_failures (k : kcase) : list nat :=
  fst (walk (kc_cfg k) (c03_step (kc_cfg k)) (init_ctx (kc_cfg k)) (kc_events k) (kc_obs k) 0).

(* non-trivial for C03: at some press the pitch already had a holder *)
Definition c03_collision_step (c : config) (w : wctx) (e : ev) (o : ostep) : bool :=
  match e with
  | EKey sub k v =>
      match find_action c k with
      | Some _ => true
      | None => if (v =? 1)%Z && negb (swallowed c w e) then
                  match resolved c (state_of_obs c (w_prev w)) sub k with
                  | Some p => Nat.eqb (mult p (vals (w_trk w))) 0 | None => true end
                else true
      end
  | _ => true
  end.
Definition c03_has_collision (k : kcase) : bool :=
  negb (is_nilb (fst (walk (kc_cfg k) (c03_collision_step (kc_cfg k)) (init_ctx (kc_cfg k)) (kc_events k) (kc_obs k) 0))).

(* ---------------------------------------------------------------------- C04 *)
Definition exp_matches (c : config) (p : Z * Z * N * nat) (o : ostep) : bool :=
  let '(oc, st, ch, m) := p in
  (o_oct o =? oc)%Z && (o_semi o =? st)%Z && (o_ch o =? ch) && (o_map o =? N.of_nat m).

Definition is_note_on_msg (m : msg) : bool := match m with [st; _; _] => N.land st 240 =? NOTE_ON | _ => false end.

Definition c04_step (c : config) (w : wctx) (e : ev) (o : ostep) : bool :=
  let w' := next_ctx c w e o in
  exp_matches c (w_exp w') o &&
  match e with
  | EKey sub k v =>
      match find_action c k with
      | Some _ => true
      | None =>
          if (v =? 1)%Z && negb (swallowed c w e) then
            let s := state_of_exp c (w_exp w) in
            match find_key c s sub k with
            | None => is_nilb (o_midi o)
            | Some key =>
                let '(oc, st, ch, _) := w_exp w in
                let p := (Z.of_N (k_note key) + 12 * oc + st)%Z in
                let chn := (ch + k_off key) mod 16 in
                if ((0 <=? p) && (p <=? 127))%Z then
                  (* C04_press_formula: exactly the collision rule applied to (p, ch, velocity); the number of holders is
                     counted from the monitor's own history-based tracker (a managed mode may legitimately stay silent or
                     send Note Off first, but only when the pitch is already held) *)
                  let pr := (Z.to_N p, chn) in
                  msgs_eqb (o_midi o) (press_msgs (cmode_of c) (u8 (d_velocity c)) pr (Z.of_nat (mult pr (vals (w_trk w)))))
                else is_nilb (o_midi o)
            end
          else true
      end
  | _ => true
  end.
Definition c04_failures (k : kcase) : list nat :=
  (if exp_matches (kc_cfg k) (w_exp (init_ctx (kc_cfg k))) (w_prev (init_ctx (kc_cfg k))) then [] else [0%nat]) ++
  fst (walk (kc_cfg k) (c04_step (kc_cfg k)) (init_ctx (kc_cfg k)) (kc_events k) (kc_obs k) 0).

(* view: Note-On triple (or silence) at press steps of note keys, and State() after every step *)
Definition c04_view_step (c : config) (e : ev) (o : ostep) : list msg * (Z * Z * N * N) :=
  ((match e with EKey _ k v => match find_action c k with None => if (v =? 1)%Z then filter is_note_on_msg (o_midi o) else [] | Some _ => [] end | _ => [] end),
   (o_oct o, o_semi o, o_ch o, o_map o)).
Definition c04_view_eqb (a b : list msg * (Z * Z * N * N)) : bool :=
  msgs_eqb (fst a) (fst b) &&
  let '(a1, a2, a3, a4) := snd a in let '(b1, b2, b3, b4) := snd b in (a1 =? b1)%Z && (a2 =? b2)%Z && (a3 =? b3) && (a4 =? b4).
Fixpoint map2 {A B C} (f : A -> B -> C) (l : list A) (m : list B) : list C :=
  match l, m with x :: l', y :: m' => f x y :: map2 f l' m' | _, _ => [] end.
Definition c04_mismatch (k : kcase) : option nat :=
  first_diff c04_view_eqb 0 (map2 (c04_view_step (kc_cfg k)) (kc_events k) (fst (model_trace (kc_cfg k) (kc_events k))))
             (map2 (c04_view_step (kc_cfg k)) (kc_events k) (kc_obs k)).

(* C14 monitor: signal exactly at the completing press, that press silent and state-neutral, AND a swallowed press leaves no trace:
   State() after every later event is what the property's arithmetic gives when the swallowed press is ignored by the action
   dispatch (the spec interpreter of C04: it neither steps nor counts the swallowed key as held for pair detection) *)
Definition c14_state_step (c : config) (w : wctx) (e : ev) (o : ostep) : bool := exp_matches c (w_exp (next_ctx c w e o)) o.
Definition c14_failures (k : kcase) : list nat :=
  c14_sig_failures k ++ fst (walk (kc_cfg k) (c14_state_step (kc_cfg k)) (init_ctx (kc_cfg k)) (kc_events k) (kc_obs k) 0).

(* C14 view: termination-signal counts, then State() after every event and the Note-On triple (or silence) of note-key presses *)
Definition c14_mismatch (k : kcase) : option nat :=
  match c14_sig_mismatch k with Some i => Some i | None => c04_mismatch k end.

(* ---------------------------------------------------------------------- C05 *)
Definition c05_failures (k : kcase) : list nat :=
  indexed_failures (fun o => forallb wf_msgb (o_midi o)) 0 (kc_obs k) ++
  (if forallb wf_msgb (kc_cleanup k) then [] else [length (kc_obs k)]).
(* view: per step (and for the clean-up) "all messages well-formed?" - deliberately not the number of messages: on histories
   that are not alternating the number of clean-up Note Offs depends on Go's map iteration order *)
Definition c05_mismatch (k : kcase) : option nat :=
  let '(os, cl) := model_trace (kc_cfg k) (kc_events k) in
  first_diff Bool.eqb 0
             (map (fun o => forallb wf_msgb (o_midi o)) os ++ [forallb wf_msgb cl])
             (map (fun o => forallb wf_msgb (o_midi o)) (kc_obs k) ++ [forallb wf_msgb (kc_cleanup k)]).

(* ---------------------------------------------------------------------- C13 *)
Definition panic_triggers_ctx (c : config) (w : wctx) (e : ev) : bool :=
  match e with
  | EKey _ k v => (v =? 1)%Z && negb (swallowed c w e) &&
                  match find_action c k with Some Panic => is_nilb (filter (fun pk => pair_complete (w_held w) pk) [PMapping; POctave; PSemitone; PChannel]) | _ => false end
  | _ => false
  end.
Definition c13_step (c : config) (w : wctx) (e : ev) (o : ostep) : bool :=
  if panic_triggers_ctx c w e then msgs_eqb (o_midi o) (panic_burst (o_ch (w_prev w))) && same_visible (w_prev w) o
  else true.
Definition c13_failures (k : kcase) : list nat :=
  fst (walk (kc_cfg k) (c13_step (kc_cfg k)) (init_ctx (kc_cfg k)) (kc_events k) (kc_obs k) 0).
Definition c13_has_trigger (k : kcase) : bool :=
  negb (is_nilb (fst (walk (kc_cfg k) (fun w e o => negb (panic_triggers_ctx (kc_cfg k) w e)) (init_ctx (kc_cfg k)) (kc_events k) (kc_obs k) 0))).

(* view: bytes of the panic steps *)
Fixpoint panic_steps (c : config) (h : list ev) (obs : list ostep) : list (list msg) :=
  match h, obs with
  | e :: r, o :: os => (if is_panic_step c e then o_midi o else []) :: panic_steps c r os
  | _, _ => []
  end.
Definition c13_mismatch (k : kcase) : option nat :=
  first_diff msgs_eqb 0 (panic_steps (kc_cfg k) (kc_events k) (fst (model_trace (kc_cfg k) (kc_events k))))
             (panic_steps (kc_cfg k) (kc_events k) (kc_obs k)).

(* twin histories: A = h1 ++ [P down; P up] ++ h2 and B = h1 ++ h2, both run on the implementation; [n] = length h1.
   Transparency (C13_transparent): A's observations = B's with the two panic steps inserted. *)
Record tcase := { tc_a : kcase; tc_b : kcase; tc_n : nat }.
Definition c13_twin_ok (t : tcase) : bool :=
  let oa := kc_obs (tc_a t) in let ob := kc_obs (tc_b t) in let n := tc_n t in
  match first_diff ostep_eqb 0 (firstn n oa ++ skipn (n + 2) oa) ob with
  | Some _ => false
  | None => msgs_perm (kc_cleanup (tc_a t)) (kc_cleanup (tc_b t)) &&
            match nth_error oa (S n) with Some o => is_nilb (o_midi o) | None => false end
  end.
