(* Correspondence runner for histories with axis events (C05 analog part, C06, C07, C08): the full machine
   (float layer + state machine) against observations of the real Device. *)
From Coq Require Import List NArith ZArith QArith Bool.
From Flocq Require Import Core.Core.
From HIDI Require Import Base.AList Model.Device Model.AnalogF Model.AnalogSpec Run.DeviceRun Proofs.DevicePlay Proofs.DeviceWf.
Import ListNotations.
Open Scope N_scope.

Record acase := {
  ac_cfg : config; ac_fcfg : fconfig; ac_abs : absinfos;
  ac_events : list fev; ac_obs : list ostep; ac_cleanup : list msg }.

Fixpoint atrace_from (c : config) (fc : fconfig) (ai : absinfos) (st : state * fstate) (h : list fev) : (state * fstate) * list ostep :=
  match h with
  | [] => (st, [])
  | e :: r =>
      match fstep c fc ai st e with
      | None => (st, [])        (* the model says the device panics here: the trace stops *)
      | Some (st1, o) => let '(st2, os) := atrace_from c fc ai st1 r in (st2, observe c (fst st1) o :: os)
      end
  end.

Definition amodel_trace (k : acase) : list ostep * list msg :=
  let '(st, os) := atrace_from (ac_cfg k) (ac_fcfg k) (ac_abs k) (init (ac_cfg k), []) (ac_events k) in
  (os, snd (cleanup (ac_cfg k) (fst st))).

Definition is_abs (e : fev) : bool := match e with FAbs _ _ _ => true | _ => false end.

(* strict comparison: every step's bytes, signals and State(); clean-up as a multiset *)
Definition afull_mismatch (k : acase) : option nat :=
  let '(os, cl) := amodel_trace k in
  match first_diff ostep_eqb 0 os (ac_obs k) with
  | Some i => Some i
  | None => if msgs_perm cl (ac_cleanup k) then None else Some (length os)
  end.

(* the same, insensitive to the ORDER of the messages inside one step (no property depends on it for axis events: all of them
   are stated after a processed event) *)
Definition ostep_permb (a b : ostep) : bool :=
  msgs_perm (o_midi a) (o_midi b) && Nat.eqb (o_sigs a) (o_sigs b) && (o_oct a =? o_oct b)%Z && (o_semi a =? o_semi b)%Z &&
  (o_ch a =? o_ch b) && Nat.eqb (o_notes a) (o_notes b) && (o_map a =? o_map b).
Definition afull_mismatch_perm (k : acase) : option nat :=
  let '(os, cl) := amodel_trace k in
  match first_diff ostep_permb 0 os (ac_obs k) with
  | Some i => Some i
  | None => if msgs_perm cl (ac_cleanup k) then None else Some (length os)
  end.

(* view for C06 / C07: the bytes of the axis events only *)
Fixpoint abs_steps (h : list fev) (obs : list ostep) : list (list msg) :=
  match h, obs with
  | e :: r, o :: os => (if is_abs e then o_midi o else []) :: abs_steps r os
  | _, _ => []
  end.
Definition abs_mismatch (k : acase) : option nat :=
  first_diff msgs_eqb 0 (abs_steps (ac_events k) (fst (amodel_trace k))) (abs_steps (ac_events k) (ac_obs k)).

(* view for C08: note messages of axis events and the implementation's note count *)
Definition is_note_msg (m : msg) : bool :=
  match m with [st; _; _] => (N.land st 240 =? NOTE_ON) || (N.land st 240 =? NOTE_OFF) | _ => false end.
Fixpoint c08_view (h : list fev) (obs : list ostep) : list (list msg * nat) :=
  match h, obs with
  | e :: r, o :: os => ((if is_abs e then filter is_note_msg (o_midi o) else []), o_notes o) :: c08_view r os
  | _, _ => []
  end.
Definition c08_mismatch (k : acase) : option nat :=
  first_diff (fun a b => msgs_eqb (fst a) (fst b) && Nat.eqb (snd a) (snd b)) 0
             (c08_view (ac_events k) (fst (amodel_trace k))) (c08_view (ac_events k) (ac_obs k)).

(* C05 on histories with axis events *)
Definition c05a_failures (k : acase) : list nat :=
  indexed_failures (fun o => forallb wf_msgb (o_midi o)) 0 (ac_obs k) ++
  (if forallb wf_msgb (ac_cleanup k) then [] else [length (ac_obs k)]).

(* ====================================================================== C06 (specification and monitor: Model/AnalogSpec.v) *)
Record c06case := { c6_g : c06cfg; c6_k : acase }.

Fixpoint raws_and_msgs (h : list fev) (obs : list ostep) : list (Z * list msg) :=
  match h, obs with
  | FAbs _ _ raw :: r, o :: os => (raw, o_midi o) :: raws_and_msgs r os
  | _ :: r, _ :: os => raws_and_msgs r os
  | _, _ => []
  end.

(* An axis event that transmits nothing (duplicate suppression) is justified only if what the receiver already holds is right
   for the new position: the last transmitted message must pass the same test for this raw value (nothing transmitted yet:
   nothing to compare).  This is the "(previous value, new value) pair" part of the property's quantifier. *)
Fixpoint c06_scan (g : c06cfg) (last : option msg) (l : list (Z * list msg)) (i : nat) : list nat :=
  match l with
  | [] => []
  | (raw, ms) :: r =>
      let ok := match ms, last with
                | [], Some m => c06_event_ok g raw [m]
                | _, _ => c06_event_ok g raw ms
                end in
      let last' := match ms with m :: _ => Some m | [] => last end in
      (if ok then [] else [i]) ++ c06_scan g last' r (S i)
  end.

Definition c06_failures (k : c06case) : list nat :=
  let l := raws_and_msgs (ac_events (c6_k k)) (ac_obs (c6_k k)) in
  c06_scan (c6_g k) None l 0 ++
  (if c06_monotone (c6_g k) l then [] else [length l]).
Definition c06_mismatch (k : c06case) : option nat := abs_mismatch (c6_k k).
Definition c06_transmitted (k : c06case) : nat :=
  length (filter (fun p => negb (is_nilb (snd p))) (raws_and_msgs (ac_events (c6_k k)) (ac_obs (c6_k k)))).

(* C06 across mapping switches: every mapping has its own deadzone / flip / kind for the axis.  The configuration in force for an
   axis event is the one of the mapping the implementation reported (State().Mapping) after the previous event.  The
   suppressed-event test starts afresh after a mapping change (the other mapping may address another controller);
   monotonicity is demanded over all events of the same mapping. *)
Record c06mcase := { c6m_gs : list (N * c06cfg); c6m_init : N; c6m_k : acase }.

Definition g_of (gs : list (N * c06cfg)) (m : N) : option c06cfg := get N.eqb m gs.

Fixpoint c06m_scan (gs : list (N * c06cfg)) (cur : N) (last : option msg) (h : list fev) (obs : list ostep) (i : nat) : list nat :=
  match h, obs with
  | e :: r, o :: os =>
      let cur' := o_map o in
      match e with
      | FAbs _ _ raw =>
          match g_of gs cur with
          | None => c06m_scan gs cur' last r os (S i)
          | Some g =>
              let ms := o_midi o in
              let ok := match ms, last with
                        | [], Some m => c06_event_ok g raw [m]
                        | _, _ => c06_event_ok g raw ms
                        end in
              let last' := match ms with m :: _ => Some m | [] => last end in
              (if ok then [] else [i]) ++ c06m_scan gs cur' last' r os (S i)
          end
      | _ => c06m_scan gs cur' (if cur' =? cur then last else None) r os (S i)
      end
  | _, _ => []
  end.

Fixpoint c06m_collect (m : N) (cur : N) (h : list fev) (obs : list ostep) : list (Z * list msg) :=
  match h, obs with
  | e :: r, o :: os =>
      match e with
      | FAbs _ _ raw => (if cur =? m then [(raw, o_midi o)] else []) ++ c06m_collect m (o_map o) r os
      | _ => c06m_collect m (o_map o) r os
      end
  | _, _ => []
  end.

Definition c06m_failures (k : c06mcase) : list nat :=
  let h := ac_events (c6m_k k) in let obs := ac_obs (c6m_k k) in
  c06m_scan (c6m_gs k) (c6m_init k) None h obs 0 ++
  (if forallb (fun mg => c06_monotone (snd mg) (c06m_collect (fst mg) (c6m_init k) h obs)) (c6m_gs k) then [] else [length h]).
Definition c06m_mismatch (k : c06mcase) : option nat := abs_mismatch (c6m_k k).
Definition c06m_transmitted (k : c06mcase) : nat :=
  length (filter (fun p => negb (is_nilb (snd p))) (raws_and_msgs (ac_events (c6m_k k)) (ac_obs (c6m_k k)))).

(* C06 with the same axis code on several sub-handlers of one device (as on the PS4 controller: stick and touchpad both report
   ABS_X): every sub-handler has its own configuration and its own controllers, so what the receiver holds for one handler
   must not depend on what another handler last reported. *)
Record c06hcase := { c6h_gs : list (N * c06cfg); c6h_k : acase }.

Fixpoint c06h_scan (gs : list (N * c06cfg)) (lasts : list (N * msg)) (h : list fev) (obs : list ostep) (i : nat) : list nat :=
  match h, obs with
  | e :: r, o :: os =>
      match e with
      | FAbs sub _ raw =>
          match get N.eqb sub gs with
          | None => c06h_scan gs lasts r os (S i)
          | Some g =>
              let ms := o_midi o in
              let ok := match ms, get N.eqb sub lasts with
                        | [], Some m => c06_event_ok g raw [m]
                        | _, _ => c06_event_ok g raw ms
                        end in
              let lasts' := match ms with m :: _ => set N.eqb sub m lasts | [] => lasts end in
              (if ok then [] else [i]) ++ c06h_scan gs lasts' r os (S i)
          end
      | _ => c06h_scan gs lasts r os (S i)
      end
  | _, _ => []
  end.

Fixpoint c06h_collect (s : N) (h : list fev) (obs : list ostep) : list (Z * list msg) :=
  match h, obs with
  | e :: r, o :: os =>
      match e with
      | FAbs sub _ raw => (if sub =? s then [(raw, o_midi o)] else []) ++ c06h_collect s r os
      | _ => c06h_collect s r os
      end
  | _, _ => []
  end.

Definition c06h_failures (k : c06hcase) : list nat :=
  let h := ac_events (c6h_k k) in let obs := ac_obs (c6h_k k) in
  c06h_scan (c6h_gs k) [] h obs 0 ++
  (if forallb (fun sg => c06_monotone (snd sg) (c06h_collect (fst sg) h obs)) (c6h_gs k) then [] else [length h]).
Definition c06h_mismatch (k : c06hcase) : option nat := abs_mismatch (c6h_k k).
Definition c06h_transmitted (k : c06hcase) : nat :=
  length (filter (fun p => negb (is_nilb (snd p))) (raws_and_msgs (ac_events (c6h_k k)) (ac_obs (c6h_k k)))).

(* ====================================================================== C07: bidirectional controllers at the receiver *)
(* pairs: ((cc, ch), (ccneg, chneg)) of every bidirectional axis of the case *)
Definition c07_pairs := list (pair * pair).

Fixpoint c07_scan (ps : c07_pairs) (R : list (pair * N)) (obs : list ostep) (i : nat) : list nat :=
  match obs with
  | [] => []
  | o :: os =>
      let R' := recv_cc R (o_midi o) in
      let ok := forallb (fun pq => (cc_value R' (fst pq) =? 0) || (cc_value R' (snd pq) =? 0)) ps &&
                (* leaving a side: if a controller of a pair was non-zero before and the other one is written now, a 0 for it is in this step *)
                forallb (fun pq =>
                           let wrote x := existsb (fun m => match m with [st; d1; _] => (N.land st 240 =? CONTROL_CHANGE) && (d1 =? fst x) && (N.land st 15 =? snd x) | _ => false end) (o_midi o) in
                           (if wrote (snd pq) && negb (cc_value R (fst pq) =? 0) then cc_value R' (fst pq) =? 0 else true) &&
                           (if wrote (fst pq) && negb (cc_value R (snd pq) =? 0) then cc_value R' (snd pq) =? 0 else true)) ps in
      (if ok then [] else [i]) ++ c07_scan ps R' os (S i)
  end.

Record c07case := { c7_pairs : c07_pairs; c7_k : acase }.
Definition c07_failures (k : c07case) : list nat := c07_scan (c7_pairs k) [] (ac_obs (c7_k k)) 0.

(* view: receiver-side values of all pair controllers after every event *)
Fixpoint c07_view (ps : c07_pairs) (R : list (pair * N)) (obs : list ostep) : list (list (N * N)) :=
  match obs with
  | [] => []
  | o :: os => let R' := recv_cc R (o_midi o) in map (fun pq => (cc_value R' (fst pq), cc_value R' (snd pq))) ps :: c07_view ps R' os
  end.
Definition c07_mismatch (k : c07case) : option nat :=
  first_diff (fun a b => forallb (fun x => x) (map2 (fun p q => (fst p =? fst q) && (snd p =? snd q)) a b) && Nat.eqb (length a) (length b)) 0
             (c07_view (c7_pairs k) [] (fst (amodel_trace (c7_k k)))) (c07_view (c7_pairs k) [] (ac_obs (c7_k k))).
Definition c07_crossed (k : c07case) : bool :=
  (* some controller of a pair went from non-zero to zero in a step that wrote its partner *)
  let fix go (R : list (pair * N)) (obs : list ostep) : bool :=
      match obs with
      | [] => false
      | o :: os => let R' := recv_cc R (o_midi o) in
                   existsb (fun pq => (negb (cc_value R (fst pq) =? 0) && negb (cc_value R' (snd pq) =? 0)) ||
                                      (negb (cc_value R (snd pq) =? 0) && negb (cc_value R' (fst pq) =? 0))) (c7_pairs k) || go R' os
      end in go [] (ac_obs (c7_k k)).

(* ====================================================================== C08: key emulation lifecycle on the implementation's bytes *)
From HIDI Require Import Proofs.DeviceKeysim.

Record c8ctx := { c8_fs : fstate; c8_trk : list (aid * pair); c8_prev : ostep }.

Definition c8_off (trk : list (aid * pair)) (id : aid) : list msg :=
  match get aid_eqb id trk with Some (n, ch) => [note_off ch n] | None => [] end.

(* expected note messages and tracker of one key-emulation sample: the statements of keysim_pos / keysim_neg / keysim_mid /
   keysim_gap, with transposition and channel read from the implementation's own State() *)
Definition c8_expect (c : config) (w : c8ctx) (sa : sample) : list msg * list (aid * pair) :=
  let s := state_of_obs c (c8_prev w) in
  let a := sa_an sa in
  let idp := (sa_code sa, false) in let idn := (sa_code sa, true) in
  let trk := c8_trk w in
  match sa_zone sa with
  | ZPos =>
      let '(m, trk1) := match get aid_eqb idp trk, dir_pair s (a_note a) (a_off a) with
                        | None, Some (n, ch) => ([note_on ch n 64], set aid_eqb idp (n, ch) trk)
                        | _, _ => ([], trk) end in
      (m ++ c8_off trk idn, del aid_eqb idn trk1)
  | ZNeg =>
      let '(m, trk1) := match get aid_eqb idn trk, (if a_bidi a then dir_pair s (a_noteneg a) (a_offneg a) else None) with
                        | None, Some (n, ch) => ([note_on ch n 64], set aid_eqb idn (n, ch) trk)
                        | _, _ => ([], trk) end in
      (m ++ c8_off trk idp, del aid_eqb idp trk1)
  | ZMid => (c8_off trk idp ++ c8_off trk idn, del aid_eqb idn (del aid_eqb idp trk))
  | ZGap => ([], trk)
  end.

(* the directions of one axis that are on; never both (C08 exclusive) *)
Definition get_both (trk : list (aid * pair)) (code : N) : list pair :=
  match get aid_eqb (code, false) trk, get aid_eqb (code, true) trk with
  | Some p, Some q => [p; q]
  | _, _ => []
  end.

Fixpoint c08_scan (c : config) (fc : fconfig) (ai : absinfos) (w : c8ctx) (h : list fev) (obs : list ostep) (i : nat) : list nat :=
  match h, obs with
  | e :: r, o :: os =>
      let s := state_of_obs c (c8_prev w) in
      let '(ok, fs', trk') :=
        match e with
        | FAbs sub code raw =>
            match digest (nth (mapidx s) fc empty_fmapping) ai (find_analog c s sub code) (c8_fs w) sub code raw with
            | (FSample sa, fs') =>
                match a_type (sa_an sa) with
                | AKeySim => let '(m, trk') := c8_expect c w sa in
                             (msgs_eqb (filter is_note_msg (o_midi o)) m && is_nilb (get_both trk' (sa_code sa)), fs', trk')
                | _ => (is_nilb (filter is_note_msg (o_midi o)), fs', c8_trk w)
                end
            | (_, fs') => (is_nilb (o_midi o), fs', c8_trk w)
            end
        | _ => (true, c8_fs w, c8_trk w)
        end in
      (if ok then [] else [i]) ++ c08_scan c fc ai {| c8_fs := fs'; c8_trk := trk'; c8_prev := o |} r os (S i)
  | _, _ => []
  end.

Record c08case := { c8_k : acase }.
Definition c08_failures (k : c08case) : list nat :=
  let a := c8_k k in
  c08_scan (ac_cfg a) (ac_fcfg a) (ac_abs a) {| c8_fs := []; c8_trk := []; c8_prev := observe (ac_cfg a) (init (ac_cfg a)) silent |}
           (ac_events a) (ac_obs a) 0.
Definition c08_notes (k : c08case) : bool :=
  existsb (fun o => negb (is_nilb (filter is_note_msg (o_midi o)))) (ac_obs (c8_k k)).

(* ====================================================================== C01 with key-emulating axes *)
(* an axis is physically at rest when its exact (rational) centred position is inside (-0.49, 0.49); never moved = at rest *)
Record c1axis := { x_code : N; x_mn : Z; x_mx : Z; x_dzc : bool; x_dz : f64 }.
Record c01acase := { c1_axes : list c1axis; c1_k : acase }.

Definition axis_at_rest (x : c1axis) (raw : Z) : bool :=
  match Q_of_f (x_dz x) with
  | None => false
  | Some dz =>
      let '(p, canneg) := exact_position (x_mn x) (x_mx x) (x_dzc x) false dz raw in
      let v := if canneg then p else (p * 2 - 1)%Q in
      Qltb (Qabs' v) (49 # 100)
  end.

Fixpoint c01a_scan (axes : list c1axis) (kt : list N) (last : list (N * Z)) (R : list pair) (h : list fev) (obs : list ostep) (i : nat) : list nat :=
  match h, obs with
  | e :: r, o :: os =>
      let kt' := match e with FKey _ k v => next_keys_r kt (EKey 0 k v) | _ => kt end in
      let last' := match e with FAbs _ code raw => set N.eqb code raw last | _ => last end in
      let R' := recv R (o_midi o) in
      let rest := forallb (fun x => match get N.eqb (x_code x) last' with Some raw => axis_at_rest x raw | None => true end) axes in
      (if is_nilb kt' && rest && negb (is_nilb R') then [i] else []) ++ c01a_scan axes kt' last' R' r os (S i)
  | _, _ => []
  end.

Definition c01a_failures (k : c01acase) : list nat :=
  let a := c1_k k in
  c01a_scan (c1_axes k) [] [] [] (ac_events a) (ac_obs a) 0 ++
  (if is_nilb (recv (recv [] (flat_map o_midi (ac_obs a))) (ac_cleanup a)) then [] else [length (ac_events a)]).
Definition c01a_mismatch (k : c01acase) : option nat := c08_mismatch (c1_k k).
