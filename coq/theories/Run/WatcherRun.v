(* C19 runner: monitors evaluated by vm_compute on histories recorded from the real DetectDeviceConfigChanges.

   A history = the scripted file operations with the times (microseconds, one monotonic clock) at which each began and
   returned, the times at which the consumer received a notification, how long the consumer sleeps between reads, until
   when it kept reading, and what was observed after cancel.  What a file operation makes the kernel + fsnotify v1.5.1
   deliver is the table [kernel_events] (the named unmodelled part); the harness runs a second, independent fsnotify
   watcher on the same directories and [table_ok] compares the set of distinct events it saw with the table, per run.
   The expected notifications are computed from the table by [notify], the function C19_filter is about. *)
From Coq Require Import List NArith Bool.
From HIDI Require Import Model.Watcher.
Import ListNotations.
Local Open Scope N_scope.

Inductive opkind :=
| TruncWrite    (* open(O_WRONLY|O_TRUNC); one write; close        -> MODIFY (truncate), MODIFY (write); may coalesce *)
| Append        (* open(O_WRONLY|O_APPEND); one write; close       -> MODIFY *)
| Overwrite     (* open(O_WRONLY); one write at offset 0; close    -> MODIFY *)
| Truncate      (* truncate(2)                                     -> MODIFY *)
| CreateWrite   (* new file, one write                             -> CREATE, MODIFY *)
| CreateEmpty   (* new file, nothing written                       -> CREATE *)
| Chmod         (* chmod(2)                                        -> ATTRIB *)
| Rename        (* rename(2) inside the directory                  -> MOVED_FROM old, MOVED_TO new *)
| Remove        (* unlink(2)                                       -> DELETE *)
| SuidTrunc.    (* chmod u+s; truncate(2) by a thread without CAP_FSETID: the kernel clears the set-id bit in the same
                   attribute change                                -> ATTRIB, then ONE event MODIFY|ATTRIB *)

Record fstep := mkStep {
  st_start : N; st_done : N; st_kind : opkind;
  st_watched : bool;            (* the file is directly inside one of the four directories (not in a sub-directory) *)
  st_path : list N; st_path2 : list N }.   (* event names as fsnotify reports them: directory ++ "/" ++ file name *)

Definition kernel_events (st : fstep) : list event :=
  if negb (st_watched st) then [] else
  let p := st_path st in
  match st_kind st with
  | TruncWrite => [mkEv OP_WRITE p; mkEv OP_WRITE p]
  | Append | Overwrite | Truncate => [mkEv OP_WRITE p]
  | CreateWrite => [mkEv OP_CREATE p; mkEv OP_WRITE p]
  | CreateEmpty => [mkEv OP_CREATE p]
  | Chmod => [mkEv OP_CHMOD p]
  | Rename => [mkEv OP_RENAME p; mkEv OP_CREATE (st_path2 st)]
  | Remove => [mkEv OP_REMOVE p]
  | SuidTrunc => [mkEv OP_CHMOD p; mkEv (OP_WRITE + OP_CHMOD) p]
  end.

(* at most that many notifications, at least one if positive (identical consecutive inotify events may coalesce) *)
Definition budget (st : fstep) : N := N.of_nat (length (filter notify (kernel_events st))).
Definition expects (st : fstep) : bool := existsb notify (kernel_events st).

Record history := mkHist {
  h_steps : list fstep;
  h_notes : list N;        (* receive times, ascending *)
  h_delay : N;             (* the consumer sleeps that long after every receive *)
  h_read_until : N }.      (* the consumer was reading (or sleeping between reads) up to that time *)

(* fsnotify discards an event other than Remove/Rename when its file no longer exists at the moment readEvents gets to it
   (Event.ignoreLinux: Lstat) - and with a late consumer that moment may be much later.  An event is therefore only
   certain if no later operation of the script renames its file away or removes it. *)
Definition moves_away (st : fstep) : bool :=
  st_watched st && match st_kind st with Rename | Remove => true | _ => false end.
Definition moved_later (later : list fstep) (name : list N) : bool :=
  existsb (fun s' => moves_away s' && list_eqb (st_path s') name) later.
Definition fragile (e : event) : bool := N.land (ev_op e) (OP_REMOVE + OP_RENAME) =? 0.
Definition sure (later : list fstep) (e : event) : bool := negb (fragile e && moved_later later (ev_name e)).

(* no loss: every modification (whose file stays) with its deadline inside the reading period is followed by a
   notification - received not before the operation began and at most [w] after it returned (plus the consumer's own sleep) *)
Definition obligated (w : N) (h : history) (later : list fstep) (st : fstep) : bool :=
  existsb (fun e => notify e && sure later e) (kernel_events st) && (st_done st + h_delay h + w <=? h_read_until h).

Definition step_notified (w : N) (h : history) (later : list fstep) (st : fstep) : bool :=
  if obligated w h later st
  then existsb (fun r => (st_start st <=? r) && (r <=? st_done st + h_delay h + w)) (h_notes h)
  else true.

Fixpoint with_later {A : Type} (f : list fstep -> fstep -> A) (l : list fstep) : list A :=
  match l with
  | [] => []
  | st :: r => f r st :: with_later f r
  end.

Fixpoint failing {A : Type} (f : A -> bool) (i : N) (l : list A) : list N :=
  match l with
  | [] => []
  | x :: r => if f x then failing f (i + 1) r else i :: failing f (i + 1) r
  end.

Definition obligations (w : N) (h : history) : list bool := with_later (obligated w h) (h_steps h).
Definition lost (w : N) (h : history) : list N :=
  failing (fun b : bool => b) 0 (with_later (step_notified w h) (h_steps h)).

(* no invention, by count: the k-th notification needs k accepted events among the operations begun before it *)
Definition budget_before (h : history) (r : N) : N :=
  fold_right N.add 0 (map (fun st => if st_start st <=? r then budget st else 0) (h_steps h)).

Fixpoint count_ok (h : history) (k : N) (notes : list N) : list N :=
  match notes with
  | [] => []
  | r :: rest => if k + 1 <=? budget_before h r then count_ok h (k + 1) rest else k :: count_ok h (k + 1) rest
  end.

(* no invention, by time: every notification is attributable to an accepted operation that began before it and returned
   at most [w] (plus the consumer's sleeps over the possible backlog) before it *)
Definition attributable (w : N) (h : history) (r : N) : bool :=
  existsb (fun st => expects st && (st_start st <=? r) &&
                     (r <=? st_done st + (budget_before h r + 1) * h_delay h + w)) (h_steps h).

Definition invented (w : N) (h : history) : list N :=
  count_ok h 0 (h_notes h) ++ failing (attributable w h) 0 (h_notes h).

(* shutdown: no goroutine of monitor.go left and the stream observed closed, both within [w] of cancel (the close is
   observed by a receive made after the goroutines are gone, or by the reading consumer: [slack] covers that receive) *)
Record shut := mkShut { sh_cancel : N; sh_gone : option N; sh_closed : option N }.

Definition shutdown_ok (w slack : N) (s : shut) : bool :=
  match sh_gone s, sh_closed s with
  | Some g, Some c => (g <=? sh_cancel s + w) && (c <=? sh_cancel s + w + slack)
  | _, _ => false
  end.

Definition accepts (w wshut slack : N) (h : history) (s : shut) : bool :=
  match lost w h, invented w h with [], [] => shutdown_ok wshut slack s | _, _ => false end.

(* ---- the table against the reference watcher: same set of distinct (Op, Name) *)
Definition ev_eqb (a b : event) : bool := (ev_op a =? ev_op b) && list_eqb (ev_name a) (ev_name b).
Definition subset_ev (a b : list event) : list event := filter (fun x => negb (existsb (ev_eqb x) b)) a.
Definition table_events (steps : list fstep) : list event := concat (map kernel_events steps).
Definition sure_events (steps : list fstep) : list event :=
  concat (with_later (fun later st => filter (sure later) (kernel_events st)) steps).
(* (events the table predicts for certain but the reference watcher did not see, events it saw that the table does not predict) *)
Definition table_diff (steps : list fstep) (ref : list event) : list event * list event :=
  (subset_ev (sure_events steps) ref, subset_ev ref (table_events steps)).

(* ---- strings.ToLower: runes >= 0x80 whose lower-case form is ASCII must not produce a byte of ".toml" *)
Definition lower_sweep_bad (pre : list (N * N)) : list (N * N) :=
  filter (fun p => existsb (N.eqb (snd p)) dot_toml) pre.
