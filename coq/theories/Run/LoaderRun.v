(* Correspondence runner for C12: what the real LoadDeviceConfigs / FindConfig did on generated hidi-config trees
   (observations written by the Go harness) against the model and the monitors of Model/Loader.v, inside the kernel VM. *)
From Coq Require Import List NArith Bool.
From HIDI Require Import Base.AList Model.Loader.
Import ListNotations.
Open Scope N_scope.

(* one entry of an observed ConfigMap: key, which file it came from (handle recovered from the content's marker),
   DeviceConfig.ConfigFile, DeviceConfig.ConfigType = "user" *)
Definition oentry := (id * handle * list N * bool)%type.

Inductive obs_load :=
| LPanic                                   (* LoadDeviceConfigs panicked or did not return *)
| LErr                                     (* returned an error *)
| LOk (fk fg uk ug : list oentry).         (* returned nil and these four maps *)

Inductive obs_find :=
| AFound (h : handle) (file : list N) (is_user : bool)   (* err = nil *)
| ANoDefault                                             (* an error that is not UnsupportedDeviceType *)
| AUnsupported                                           (* errors.Is(err, UnsupportedDeviceType) *)
| APanic.

Record c12_case := mk_case {
  t_fg : root; t_fk : root; t_ug : root; t_uk : root;   (* the four directories as materialised *)
  c_load : obs_load;
  c_reports : list (bool * list N);                     (* "load failed" log lines: (type = user, lower-cased name) *)
  c_queries : list (id * devtype * obs_find)
}.

Definition strip (m : list oentry) : cmap := map (fun e => let '(i, h, _, _) := e in (i, h)) m.

Definition obs_configs (fk fg uk ug : list oentry) : configs := mk_configs (strip fk) (strip fg) (strip uk) (strip ug).

Definition to_observed (o : obs_load) : observed :=
  match o with
  | LPanic => OPanic
  | LErr => OErr
  | LOk fk fg uk ug => OOk (obs_configs fk fg uk ug)
  end.

(* --- 1. the load monitor (C12_load_monitor / C12_contents / C12_no_crash) on the implementation's observation *)
Definition chk_load_monitor (c : c12_case) : bool :=
  load_ok (walk_root (t_fg c)) (walk_root (t_fk c)) (walk_root (t_ug c)) (walk_root (t_uk c)) (to_observed (c_load c)).

(* --- 2. view comparison with the model of a variant: outcome class, key sets, which file won each key *)
Definition cmap_sub (a b : cmap) : bool := forallb (fun p => opt_handle_eqb (lookup b (fst p)) (Some (snd p))) a.
Definition cmap_same (a b : cmap) : bool := cmap_sub a b && cmap_sub b a && (Nat.eqb (length a) (length b)).

Definition configs_same (a b : configs) : bool :=
  cmap_same (f_kb a) (f_kb b) && cmap_same (f_gp a) (f_gp b) && cmap_same (u_kb a) (u_kb b) && cmap_same (u_gp a) (u_gp b).

Definition model_load (v : variant) (c : c12_case) : outcome configs :=
  load_trees v (t_fg c) (t_fk c) (t_ug c) (t_uk c).

Definition chk_load_matches (v : variant) (c : c12_case) : bool :=
  match model_load v c, c_load c with
  | Crash, LPanic => true
  | Err, LErr => true
  | Ok cs, LOk fk fg uk ug => configs_same cs (obs_configs fk fg uk ug)
  | _, _ => false
  end.

(* --- 3. every observed entry carries the name of the file that won and the type of its directory *)
Fixpoint node_files (n : node) : list (handle * list N) :=
  match n with
  | NFile name _ (Some (_, h)) => [(h, name)]
  | NFile _ _ None => []
  | NDir _ _ children =>
      (fix each (cs : list node) : list (handle * list N) :=
         match cs with [] => [] | c :: r => node_files c ++ each r end) children
  end.

Definition root_files (r : root) : list (handle * list N) :=
  match r with RMissing => [] | RNode n => node_files n end.

Fixpoint list_eqb (a b : list N) : bool :=
  match a, b with
  | [], [] => true
  | x :: a', y :: b' => (x =? y) && list_eqb a' b'
  | _, _ => false
  end.

Definition entries_ok (r : root) (is_user : bool) (m : list oentry) : bool :=
  forallb (fun e => let '(_, h, file, u) := e in
             Bool.eqb u is_user &&
             existsb (fun p => (fst p =? h) && list_eqb (snd p) file) (root_files r)) m.

Definition chk_entries (c : c12_case) : bool :=
  match c_load c with
  | LOk fk fg uk ug =>
      entries_ok (t_fk c) false fk && entries_ok (t_fg c) false fg && entries_ok (t_uk c) true uk && entries_ok (t_ug c) true ug
  | _ => true
  end.

(* --- 4. FindConfig: the precedence monitor on the implementation's own maps (C12_find_monitor), the model's
         answer on the model's maps, and the returned DeviceConfig being the map's entry *)
Definition to_result (a : obs_find) : option result :=
  match a with
  | AFound h _ _ => Some (Found h)
  | ANoDefault => Some ErrNoDefault
  | AUnsupported => Some ErrUnsupported
  | APanic => None
  end.

Definition chk_find_monitor (c : c12_case) : list nat :=
  match c_load c with
  | LOk fk fg uk ug =>
      let cs := obs_configs fk fg uk ug in
      concat (map (fun nq => let '(n, (i, ty, a)) := nq in
                     match to_result a with
                     | Some r => if find_ok cs i ty r then [] else [n]
                     | None => [n]
                     end) (combine (seq 0 (length (c_queries c))) (c_queries c)))
  | _ => []
  end.

Definition chk_find_model (v : variant) (c : c12_case) : list nat :=
  match model_load v c, c_load c with
  | Ok cs, LOk _ _ _ _ =>
      concat (map (fun nq => let '(n, (i, ty, a)) := nq in
                     match to_result a with
                     | Some r => if result_eqb r (find_config cs i ty) then [] else [n]
                     | None => [n]
                     end) (combine (seq 0 (length (c_queries c))) (c_queries c)))
  | _, _ => []
  end.

Definition entry_in (h : handle) (file : list N) (u : bool) (m : list oentry) : bool :=
  existsb (fun e => let '(_, h', file', u') := e in (h =? h') && list_eqb file file' && Bool.eqb u u') m.

Definition chk_find_entry (c : c12_case) : list nat :=
  match c_load c with
  | LOk fk fg uk ug =>
      concat (map (fun nq => let '(n, (i, ty, a)) := nq in
                     match a with
                     | AFound h file u =>
                         let m := match ty, u with
                                  | Keyboard, true => uk | Keyboard, false => fk
                                  | Joystick, true => ug | Joystick, false => fg
                                  | _, _ => []
                                  end in
                         if entry_in h file u m then [] else [n]
                     | _ => []
                     end) (combine (seq 0 (length (c_queries c))) (c_queries c)))
  | _ => []
  end.

(* --- 5. "reported": on a complete load, exactly the failed *.toml files, in LoadDeviceConfigs' directory order *)
Definition expected_reports (c : c12_case) : list (bool * list N) :=
  map (fun n => (false, n)) (failed_names (walk_root (t_fg c))) ++
  map (fun n => (false, n)) (failed_names (walk_root (t_fk c))) ++
  map (fun n => (true, n)) (failed_names (walk_root (t_ug c))) ++
  map (fun n => (true, n)) (failed_names (walk_root (t_uk c))).

Fixpoint reports_eqb (a b : list (bool * list N)) : bool :=
  match a, b with
  | [], [] => true
  | (u, n) :: a', (u', n') :: b' => Bool.eqb u u' && list_eqb n n' && reports_eqb a' b'
  | _, _ => false
  end.

Definition chk_reports (c : c12_case) : bool :=
  match c_load c with
  | LOk _ _ _ _ => reports_eqb (c_reports c) (expected_reports c)
  | _ => true
  end.

(* --- summary per case: the codes of the checks that fail *)
Definition c12_check (c : c12_case) : list nat :=
  (if chk_load_monitor c then [] else [1%nat]) ++
  (if chk_entries c then [] else [3%nat]) ++
  (match chk_find_monitor c with [] => [] | _ => [4%nat] end) ++
  (match chk_find_entry c with [] => [] | _ => [6%nat] end) ++
  (if chk_reports c then [] else [7%nat]).

Definition c12_failures (cases : list c12_case) : list (nat * list nat) :=
  filter (fun p => match snd p with [] => false | _ => true end)
         (combine (seq 0 (length cases)) (map c12_check cases)).

(* cases whose observation differs from the model of a variant (load view, or FindConfig view) *)
Definition c12_not_matching (v : variant) (cases : list c12_case) : list nat :=
  concat (map (fun nc => let '(n, c) := nc in
                 if chk_load_matches v c then match chk_find_model v c with [] => [] | _ => [n] end else [n])
              (combine (seq 0 (length cases)) cases)).

(* failing query indices of one case, for the report *)
Definition c12_bad_queries (c : c12_case) : list nat := chk_find_monitor c ++ chk_find_entry c ++ chk_find_model Fixed c.

(* cases that tell the two variants apart (the models differ) *)
Definition c12_distinguishing (cases : list c12_case) : list nat :=
  concat (map (fun nc => let '(n, c) := nc in
                 match model_load Fixed c, model_load Original c with
                 | Ok _, Ok _ => []
                 | Err, Err => []
                 | Crash, Crash => []
                 | _, _ => [n]
                 end) (combine (seq 0 (length cases)) cases)).

(* the walk the model performs, for replays and samples: 0 = file that counts, 1 = skipped file, 2 = dir, 3 = unreadable dir, 4 = no info *)
Definition c12_walk_kinds (r : root) : list (nat * list N) :=
  map (fun it => match it with
                 | IFile name (Some _) => if is_toml name then (0%nat, name) else (1%nat, name)
                 | IFile name None => (1%nat, name)
                 | IDir name => (2%nat, name)
                 | IDirErr name => (3%nat, name)
                 | INoInfo => (4%nat, [])
                 end) (walk_root r).
