(* Correspondence runner for C11: compares what the real StringToNote / NoteToPitch / NoteToOctave did
   (observations written by the harness) with the model, inside the kernel VM. *)
From Coq Require Import List NArith ZArith Bool.
From HIDI Require Import Model.Notes Proofs.NotesProofs.
Import ListNotations.
Open Scope N_scope.

(* strings the implementation accepted although the model (= the proved specification) does not, or with another value *)
Definition c11_wrongly_accepted (acc : list (list N * N)) : list (list N * N) :=
  filter (fun p => negb (opt_eqb (string_to_note (fst p)) (Some (snd p)))) acc.

(* table entries inside the exhaustively swept space that the implementation did not accept *)
Definition c11_missing (maxlen : nat) (acc : list (list N * N)) : list (list N * N) :=
  filter (fun p => (Nat.leb (length (fst p)) maxlen) &&
                   negb (existsb (fun q => list_eqb (fst p) (fst q) && (snd p =? snd q)) acc)) accepted.

Fixpoint c11_names_wrong (n : N) (pitch : list (list N)) (oct : list Z) : list N :=
  match pitch, oct with
  | p :: ps, o :: os =>
      (if list_eqb p (note_to_pitch n) && (o =? note_to_octave n)%Z then [] else [n])
        ++ c11_names_wrong (n + 1) ps os
  | [], [] => []
  | _, _ => [n]
  end.
