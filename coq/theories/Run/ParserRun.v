(* Correspondence runner for C10 / C09: the model of ParseData / LoadHIDIConfig against what the real code did
   (observations written by harness/go/config/verif_parser_test.go and harness/go/main/verif_c09_test.go),
   evaluated inside the kernel VM.  The monitors are [reflects_b] and [wf_pconfig_b] of Model/Parser.v — the
   boolean functions C10_sound / C10_ranges are about (C10_monitors). *)
From Coq Require Import List NArith ZArith Bool.
From HIDI Require Import Base.AList Model.Notes Model.Device Model.Parser.
Import ListNotations.
Open Scope N_scope.

(* ------------------------------------------------------------------ short constructors for generated literals *)
Definition SZ (z : Z) : option Z := Some z.
Definition SS (s : str) : option str := Some s.
Definition AX := Build_t_axis.
Definition KS := Build_t_keysub.
Definition AS := Build_t_analogsub.
Definition TM := Build_t_mapping.
Definition TC := Build_toml_cfg.
Definition PM := Build_pmapping.
Definition PC := Build_pconfig.
Definition KY := Build_key.
Definition AN := mk_analog.
Definition TB := Build_tables.
Definition HR := Build_hidi_raw.

(* ------------------------------------------------------------------ equality of configurations, Go maps as sets *)
Definition amap_eqb {K V} (keqb : K -> K -> bool) (veqb : V -> V -> bool) (a b : list (K * V)) : bool :=
  nodup_b keqb (keys a) && nodup_b keqb (keys b) && Nat.eqb (length a) (length b) &&
  forallb (fun kv => match get keqb (fst kv) b with Some v => veqb (snd kv) v | None => false end) a.

Definition key_eqb (a b : key) : bool := (k_note a =? k_note b) && (k_off a =? k_off b).

Definition analog_eqb (a b : analog) : bool :=
  atype_eqb (a_type a) (a_type b) && (a_cc a =? a_cc b) && (a_ccneg a =? a_ccneg b) && (a_note a =? a_note b) &&
  (a_noteneg a =? a_noteneg b) && (a_off a =? a_off b) && (a_offneg a =? a_offneg b) &&
  action_eqb (a_act a) (a_act b) && action_eqb (a_actneg a) (a_actneg b) &&
  Bool.eqb (a_flip a) (a_flip b) && Bool.eqb (a_bidi a) (a_bidi b) && Bool.eqb (a_dzc a) (a_dzc b).

Definition pmapping_eqb (a b : pmapping) : bool :=
  str_eqb (pm_name a) (pm_name b) &&
  amap_eqb str_eqb (amap_eqb N.eqb key_eqb) (pm_midi a) (pm_midi b) &&
  amap_eqb str_eqb (amap_eqb N.eqb analog_eqb) (pm_analog a) (pm_analog b) &&
  amap_eqb str_eqb (amap_eqb N.eqb N.eqb) (pm_dz a) (pm_dz b) &&
  amap_eqb str_eqb N.eqb (pm_defdz a) (pm_defdz b).

Definition color_eqb (a b : color) : bool :=
  let '(r, g, bl) := a in let '(r', g', bl') := b in (r =? r') && (g =? g') && (bl =? bl').

(* the default mapping is compared by the NAME of the designated mapping: when several mappings carry the default name the
   property does not choose among them (the model takes the last one: C10_default_is_last) *)
Definition default_name_eqb (a b : pconfig) : bool :=
  match nth_error (p_mappings a) (p_mapping a), nth_error (p_mappings b) (p_mapping b) with
  | Some x, Some y => str_eqb (pm_name x) (pm_name y)
  | None, None => true
  | _, _ => false
  end.

(* one bit per field group so that a mismatch says where: returns the list of differing groups *)
Definition pconfig_diff (a b : pconfig) : list N :=
  (if (p_bus a =? p_bus b) && (p_vendor a =? p_vendor b) && (p_product a =? p_product b) && (p_version a =? p_version b)
      && str_eqb (p_uniq a) (p_uniq b) then [] else [10]) ++
  (if forall2b pmapping_eqb (p_mappings a) (p_mappings b) then [] else [11]) ++
  (if amap_eqb N.eqb action_eqb (p_actions a) (p_actions b) then [] else [12]) ++
  (if forall2b N.eqb (p_exit a) (p_exit b) then [] else [13]) ++
  (if cmode_eqb (p_cmode a) (p_cmode b) then [] else [14]) ++
  (if (p_octave a =? p_octave b)%Z && (p_semitone a =? p_semitone b)%Z && (p_channel a =? p_channel b)%Z &&
      default_name_eqb a b && (p_velocity a =? p_velocity b)%Z then [] else [15]) ++
  (if forall2b color_eqb (p_colors a) (p_colors b) then [] else [16]).

(* ------------------------------------------------------------------ C10 cases *)
Inductive impl_obs := IOk (c : pconfig) | IErr.

(* verdict codes: 1 model accepts / implementation rejects; 2 model rejects / implementation accepts;
   3 the model crashes (cannot happen: C09_convert_total); 4 [reflects_b] fails on the implementation's Config;
   5 [wf_pconfig_b] fails on it; 10.. the two configurations differ in that field group *)
Definition c10_verdict_gen (fx : fixes) (T : tables) (t : toml_cfg) (o : impl_obs) : list N :=
  match convert_gen fx T t, o with
  | Ok cm, IOk ci =>
      (if reflects_b T t ci then [] else [4]) ++ (if wf_pconfig_b ci then [] else [5]) ++ pconfig_diff cm ci
  | Ok _, IErr => [1]
  | Err _, IOk ci => 2 :: (if reflects_b T t ci then [] else [4]) ++ (if wf_pconfig_b ci then [] else [5])
  | Err _, IErr => []
  | Crash, _ => [3]
  end.

Definition c10_verdict : tables -> toml_cfg -> impl_obs -> list N := c10_verdict_gen all_fixed.

Fixpoint failures_from {A} (f : A -> list N) (l : list A) (i : N) : list (N * list N) :=
  match l with
  | [] => []
  | a :: r => match f a with [] => failures_from f r (i + 1) | v => (i, v) :: failures_from f r (i + 1) end
  end.

Definition c10_failures (T : tables) (cases : list (toml_cfg * impl_obs)) : list (N * list N) :=
  failures_from (fun c => c10_verdict T (fst c) (snd c)) cases 0.

(* self-test of the comparison: the ORIGINAL model (before F2-F4) run against the same observations must disagree
   with an implementation that has the fixes (and vice versa) on the corpus witnesses *)
Definition c10_selftest (T : tables) (cases : list (toml_cfg * impl_obs)) : list (N * list N) :=
  failures_from (fun c => c10_verdict_gen original T (fst c) (snd c)) cases 0.

(* how many cases the model accepts (reported as evidence) *)
Definition c10_model_accepts (T : tables) (cases : list (toml_cfg * impl_obs)) : N :=
  N.of_nat (length (filter (fun c => match convert T (fst c) with Ok _ => true | _ => false end) cases)).

(* ------------------------------------------------------------------ C09 cases: the guarded parser given the oracle's outcome *)
(* implementation class: 0 = configuration, 1 = error (panic / hang are failing inputs already on the python side) *)
Definition c09_verdict (T : tables) (d : dec_outcome toml_cfg) (cls : N) : list N :=
  match parse_data T d, cls with
  | Ok _, 0 => []
  | Err _, 1 => []
  | Ok _, _ => [1]
  | Err _, _ => [2]
  | Crash, _ => [3]
  end.

Definition c09_failures (T : tables) (cases : list (dec_outcome toml_cfg * N)) : list (N * list N) :=
  failures_from (fun c => c09_verdict T (fst c) (snd c)) cases 0.

(* hidi.toml: the observation carries the three durations (nanoseconds) *)
Inductive hidi_obs := HOk (throttle disc stab : Z) | HErr.

Definition hidi_verdict (d : dec_outcome hidi_raw) (o : hidi_obs) : list N :=
  match load_hidi d, o with
  | Ok c, HOk a b s => if ((hc_throttle c =? a) && (hc_disc c =? b) && (hc_stab c =? s))%Z then [] else [10]
  | Err _, HErr => []
  | Ok _, HErr => [1]
  | Err _, HOk _ _ _ => [2]
  | Crash, _ => [3]
  end.

Definition hidi_failures (cases : list (dec_outcome hidi_raw * hidi_obs)) : list (N * list N) :=
  failures_from (fun c => hidi_verdict (fst c) (snd c)) cases 0.

(* ------------------------------------------------------------------ the tables of the linked packages *)
Definition names_match {X} (dumped : list str) (tab : list (str * X)) : bool :=
  nodup_b str_eqb dumped && nodup_b str_eqb (keys tab) && Nat.eqb (length dumped) (length tab) &&
  forallb (fun s => match get str_eqb s tab with Some _ => true | None => false end) dumped.

(* SupportedActions / SupportedMappingTypes / SupportedCollisionModes are exactly the model's tables;
   the evdev tables are maps (unique names) with 16-bit codes and no name starting with 'x' (which TomlKeyToEvCode
   would read as a hex code) *)
Definition tables_ok (T : tables) (acts types cmodes : list str) : list N :=
  (if names_match acts action_table then [] else [1]) ++
  (if names_match types type_table then [] else [2]) ++
  (if names_match cmodes cmode_table then [] else [3]) ++
  (if nodup_b str_eqb (keys (tab_keys T)) && nodup_b str_eqb (keys (tab_abs T)) then [] else [4]) ++
  (if forallb (fun kv => snd kv <=? 65535) (tab_keys T ++ tab_abs T) then [] else [5]) ++
  (if forallb (fun kv => match fst kv with c :: _ => negb (c =? ch_x) | [] => true end) (tab_keys T ++ tab_abs T)
   then [] else [6]).
