(* C15 runner: decidable monitors evaluated by vm_compute on histories recorded from the real code
   (harness/go/utils/verif_c15_test.go, harness/go/midi/verif_c15_test.go).  Proofs/TransportProofs.v proves that every
   execution of the models (Model/Relay.v, Model/Fanout.v) is accepted by these very functions
   ([relay_monitor_sound], [in_monitor_sound], [fanout_monitor_sound]). *)
From Coq Require Import List NArith Bool.
Import ListNotations.
Local Open Scope N_scope.

Fixpoint list_eqb {A : Type} (eqb : A -> A -> bool) (a b : list A) : bool :=
  match a, b with
  | [], [] => true
  | x :: a', y :: b' => eqb x y && list_eqb eqb a' b'
  | _, _ => false
  end.

(* ---- relay, out-direction: [sent] = what each emitter put into the channel (in its own order), [port] = what the port
   received.  [tag m] = the emitter a message belongs to.  Accepted iff the port sequence is an interleaving of the
   emitters' sequences: every message exactly once, each emitter's order preserved, nothing else. *)
Definition relay_accepts {A : Type} (eqb : A -> A -> bool) (tag : A -> nat) (sent : list (list A)) (port : list A) : bool :=
  forallb (fun k => list_eqb eqb (filter (fun m => Nat.eqb (tag m) k) port) (nth k sent [])) (seq 0 (length sent))
  && forallb (fun m => Nat.ltb (tag m) (length sent)) port.

(* ---- relay, in-direction: what came out of midiEventsIn is what the port produced *)
Definition in_accepts {A : Type} (eqb : A -> A -> bool) (arrived got : list A) : bool := list_eqb eqb arrived got.

(* messages are byte strings; the emitter is the low nibble of the status byte *)
Definition msg := list N.
Definition msg_eqb : msg -> msg -> bool := list_eqb N.eqb.
Definition msg_tag (m : msg) : nat := match m with b :: _ => N.to_nat (N.land b 15) | [] => 0%nat end.

Definition relay_ok (sent : list (list msg)) (port : list msg) : bool := relay_accepts msg_eqb msg_tag sent port.
Definition in_ok (arrived got : list msg) : bool := in_accepts msg_eqb arrived got.
(* first position at which the two sequences differ (for the violation report) *)
Fixpoint first_diff (a b : list msg) (i : nat) : option nat :=
  match a, b with
  | [], [] => None
  | x :: a', y :: b' => if msg_eqb x y then first_diff a' b' (S i) else Some i
  | _, _ => Some i
  end.

(* ---- fan-out: the payload of the k-th item of the input stream is k.  One record per consumer:
   sc / dc = number of items whose push had completed when SpawnOutput / DespawnOutput was called,
   sr / dr = number of items whose push had been started when it returned,
   recv    = what the consumer received, drained = it read until its channel was closed. *)
Record crec := mkCrec { r_returned : bool; r_sc : N; r_sr : N; r_dc : N; r_dr : N; r_drained : bool; r_recv : list N }.

Fixpoint contiguous (l : list N) : bool :=
  match l with
  | x :: ((y :: _) as t) => (y =? x + 1) && contiguous t
  | _ => true
  end.

(* [slack] = capacity of the input channel + 2: items pushed but not yet broadcast (queue + the one held by run)
   and the one being broadcast. *)
Definition consumer_accepts (slack : N) (r : crec) : bool :=
  r_returned r && contiguous (r_recv r) &&
  match r_recv r with
  | [] => if r_drained r then r_dc r <=? r_sr r + slack else true
  | a :: _ =>
      let b := a + N.of_nat (length (r_recv r)) in
      (r_sc r <=? a + slack) && (a <=? r_sr r) && (b <=? r_dr r) && (if r_drained r then r_dc r <=? b + slack else true)
  end.

Definition fanout_accepts (slack : N) (rs : list crec) : bool := forallb (consumer_accepts slack) rs.

(* indices of the rejected consumers *)
Definition fanout_rejected (slack : N) (rs : list crec) : list nat :=
  map fst (filter (fun p => negb (consumer_accepts slack (snd p))) (combine (seq 0 (length rs)) rs)).

(* ---- one recorded history (either harness fills its half, the other half is empty and trivially accepted):
   [accepts_history] is the verdict lib/c15.py reads for every history. *)
Record history := mkHistory {
  h_sent : list (list msg); h_port : list msg;   (* relay, out-direction *)
  h_arrived : list msg; h_got : list msg;        (* relay, in-direction *)
  h_slack : N; h_consumers : list crec }.        (* fan-out *)

Definition accepts_history (h : history) : bool :=
  relay_ok (h_sent h) (h_port h) && in_ok (h_arrived h) (h_got h) && fanout_accepts (h_slack h) (h_consumers h).
