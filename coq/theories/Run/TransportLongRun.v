(* C15 runner, long sessions: compact notation for the long histories recorded by the long-session harnesses
   (harness/go/midi/verif_c15_test.go mode c15long, harness/go/utils/verif_c15_test.go mode c15fanlong).

   Nothing here judges anything: a long history (tens of thousands of tagged messages) is written as a list of *runs* of
   the harness' counter sequence instead of element by element (parsing literals costs 0.5 - 2.5 ms per element), the
   functions below expand the runs back into the plain lists, and the expanded lists go through the monitors of
   Run/TransportRun.v ([accepts_history] = [relay_ok] && [in_ok] && [fanout_accepts]) exactly like a short history.
   Any list can be written as runs (a stray element is a run of length 1 / an [MRaw]); lib/c15.py re-expands what it
   emits and compares it with the recorded history before coqc sees it.  Proofs/TransportLongProofs.v: the expansion of a
   run has the stated length, [cmsg] is injective on (emitter, counter) below 16 x 81920 and carries its emitter in
   [msg_tag] - so two histories differ as message lists exactly when they differ as counter lists. *)
From Coq Require Import List NArith Bool.
From HIDI Require Import Run.TransportRun.
Import ListNotations.
Local Open Scope N_scope.

(* start, start+1, ..., start+len-1 *)
Fixpoint nrange (start : N) (len : nat) : list N :=
  match len with
  | O => []
  | S n => start :: nrange (start + 1) n
  end.

(* fan-out: the payload of the j-th item of the stream is j; what a consumer received = concatenation of runs *)
Definition expand_nruns (rs : list (N * N)) : list N :=
  flat_map (fun r => nrange (fst r) (N.to_nat (snd r))) rs.

(* relay: the j-th message of emitter k (j < 81920, k < 16) is a well-formed 3-byte channel message:
   status nibble cycling over Note On, Note Off, Control Change, Pitch Bend, Poly Aftertouch with bits 14.. of j,
   channel nibble = emitter, two 7-bit data bytes = bits 7..13 and 0..6 of j.  (The same table is c15Statuses in the harness.) *)
Definition cstatus (s : N) : N :=
  match s with
  | 0 => 144 | 1 => 128 | 2 => 176 | 3 => 224 | _ => 160
  end.

Definition cmsg (k j : N) : msg := [cstatus (N.shiftr j 14) + k; N.land (N.shiftr j 7) 127; N.land j 127].

Inductive mseg : Type :=
| MRun (k start len : N)    (* cmsg k start, cmsg k (start+1), ... (len messages) *)
| MRaw (m : msg).           (* anything else, literally *)

Definition expand_mseg (s : mseg) : list msg :=
  match s with
  | MRun k start len => map (cmsg k) (nrange start (N.to_nat len))
  | MRaw m => [m]
  end.

Definition expand_msegs (l : list mseg) : list msg := flat_map expand_mseg l.

(* one long relay session: per emitter what it sent, what the port received, what the port produced, what midiEventsIn delivered *)
Definition long_relay_history (sent : list (list mseg)) (port arrived got : list mseg) : history :=
  mkHistory (map expand_msegs sent) (expand_msegs port) (expand_msegs arrived) (expand_msegs got) 0 [].

(* one consumer record of a long fan-out session *)
Definition long_crec (returned : bool) (sc sr dc dr : N) (drained : bool) (runs : list (N * N)) : crec :=
  mkCrec returned sc sr dc dr drained (expand_nruns runs).
