(* Correspondence runner for C18: evaluated with vm_compute on trees recorded from the real
   updateHIDIConfiguration (harness/go/main/verif_c18_test.go).  One case = the template dumped from the
   binary's embedded FS, the tree before, the trees after the first and the second call, how the calls returned,
   and (for crash cases) the original tree the crash state was derived from. *)
From Coq Require Import List NArith Bool.
From HIDI Require Import Base.AList Model.Upkeep.
Import ListNotations.
Open Scope N_scope.

Record c18case := mk_c18 {
  cT : template;
  cb : fs;          (* before *)
  ca : fs;          (* after the first call *)
  ca2 : fs;         (* after the second call *)
  cr : N;           (* first call: 0 = nil error, 1 = error, 2 = panic *)
  cr2 : N;          (* second call *)
  corig : fs        (* tree the crash state was derived from (= cb for ordinary cases) *)
}.

Definition result_code (r : result) : N := match r with Ok => 0 | Err => 1 | Panic => 2 end.

(* view: the tree and the outcome of the real call against the model's *)
Definition c18_view (T : template) (b a : fs) (r : N) : bool :=
  fs_eqb (run T b) a && (result_code (snd (upkeep T b)) =? r).

(* nodes of the original tree outside factory/ survive crash + recovery *)
Definition c18_orig_kept (orig a : fs) : bool :=
  forallb (fun e => is_under factoryp (fst e) || holds a e) orig.

(* [wf_template; fs_wf; type_consistent; view of call 1; view of call 2 (model run on the observed tree);
    full monitor; untouched part of the monitor; original nodes kept; the model issues at least one mutation] *)
Definition c18_eval (c : c18case) : list bool :=
  [ wf_templateb (cT c); fs_wfb (cb c); type_consistentb (cT c) (cb c);
    c18_view (cT c) (cb c) (ca c) (cr c);
    c18_view (cT c) (ca c) (ca2 c) (cr2 c);
    c18_monitor (cT c) (cb c) (ca c) (ca2 c);
    c18_untouched (cT c) (cb c) (ca c) && c18_untouched (cT c) (cb c) (ca2 c);
    c18_orig_kept (corig c) (ca c) && c18_orig_kept (corig c) (ca2 c);
    negb (match fst (upkeep (cT c) (cb c)) with [] => true | _ => false end) ].

Definition c18_ops (c : c18case) : list fsop * N := (fst (upkeep (cT c) (cb c)), result_code (snd (upkeep (cT c) (cb c)))).

(* crash states: the tree after the first k mutations, and - when the k-th mutation is a write - after only the first
   [cut p] symbols of it were written.  Result: (k, 0 | 1 = partial, state). *)
Definition cut_of (cuts : list (path * N)) (p : path) : nat :=
  match get path_eqb p cuts with Some j => N.to_nat j | None => O end.

Definition c18_crash (T : template) (b : fs) (cuts : list (path * N)) (k : N) : list (N * N * fs) :=
  let ops := fst (upkeep T b) in
  let pre := firstn (N.to_nat k) ops in
  (k, 0, apply b pre) ::
  match nth_error ops (N.to_nat k) with
  | Some (Write p d) => [(k, 1, apply b (pre ++ [Write p (firstn (cut_of cuts p) d)]))]
  | _ => []
  end.

Definition c18_crashes (T : template) (b : fs) (cuts : list (path * N)) (ks : list N) : list (N * N * fs) :=
  flat_map (c18_crash T b cuts) ks.
