(* Correspondence runner for C20: what the real input.Normalize / DeviceInfo.HandlerType returned (recorded by
   harness/go/input/verif_c20_test.go) is
     (a) checked directly against the property by the monitor [grouping_okb] (Properties/C20.v: C20_monitor,
         C20_monitor_implies) - this does not use the model's [normalize];
     (b) compared with the model's [normalize] through the order-insensitive view [view_eqb] (C20_view);
     (c) compared handler by handler with the model's [handler_type].
   An observed device is (phys bytes, handler ids in the order of Device.Handlers, DeviceType as a number). *)
From Coq Require Import List NArith Bool.
From HIDI Require Import Model.Discover Proofs.DiscoverProofs.
Import ListNotations.
Open Scope N_scope.

Definition odev := (phys * list N * N)%type.
Definition ccase := (list handler * list odev * list N)%type.

Definition dtype_of_code (n : N) : option dtype :=
  match n with 0 => Some DUnknown | 1 => Some DKeyboard | 2 => Some DMouse | 3 => Some DJoystick | _ => None end.

Fixpoint find_handler (l : list handler) (i : N) : option handler :=
  match l with
  | [] => None
  | h :: r => if hid h =? i then Some h else find_handler r i
  end.

Fixpoint resolve (l : list handler) (ids : list N) : option (list handler) :=
  match ids with
  | [] => Some []
  | i :: r => match find_handler l i, resolve l r with
              | Some h, Some hs => Some (h :: hs)
              | _, _ => None
              end
  end.

Fixpoint obs_groups (l : list handler) (obs : list odev) : option (list group) :=
  match obs with
  | [] => Some []
  | (p, ids, t) :: r =>
      match resolve l ids, dtype_of_code t, obs_groups l r with
      | Some hs, Some d, Some gs => Some (mkGroup p hs d :: gs)
      | _, _, _ => None
      end
  end.

Definition view_of (gs : list group) : list odev :=
  map (fun g => (gphys g, map hid (ghandlers g), dtype_code (gtype g))) gs.

Definition c20_model_view (l : list handler) : list odev := view_of (normalize l).
Definition c20_model_types (l : list handler) : list N := map (fun h => htype_code (handler_type (hcaps h))) l.

(* failure codes of one case:
   1 = the generated handler ids are not pairwise distinct (generator fault),
   2 = the observation names a handler that was not discovered, or an unknown DeviceType number,
   3 = the monitor rejects the observed devices (partition / same location / type rule violated),
   4 = the observed devices differ from the model's as a set of (location, multiset of handlers, type),
   5 = some HandlerType() differs from the model's *)
Definition c20_case (c : ccase) : list N :=
  let '(l, obs, hts) := c in
  (if nodupb N.eqb (map hid l) then [] else [1]) ++
  match obs_groups l obs with
  | None => [2]
  | Some gs =>
      (if grouping_okb l gs then [] else [3]) ++
      (if view_eqb (normalize l) gs then [] else [4])
  end ++
  (if listN_eqb (c20_model_types l) hts then [] else [5]).

Fixpoint c20_failures (i : N) (cs : list ccase) : list (N * list N) :=
  match cs with
  | [] => []
  | c :: r => match c20_case c with
              | [] => c20_failures (i + 1) r
              | f => (i, f) :: c20_failures (i + 1) r
              end
  end.

(* the model run through its own monitor on the same inputs (C20_monitor_model says this is always true) *)
Definition c20_model_selfcheck (cs : list ccase) : bool :=
  forallb (fun c : ccase => let '(l, _, _) := c in grouping_okb l (normalize l)) cs.

(* number of model devices with at least two handlers, over all cases (non-triviality measure) *)
Definition c20_multi_groups (cs : list ccase) : N :=
  fold_left (fun a (c : ccase) => let '(l, _, _) := c in
               a + N.of_nat (length (filter (fun g => Nat.leb 2 (length (ghandlers g))) (normalize l)))) cs 0.

(* sweep of HandlerType alone: (capability list, observed type number) pairs that differ from the model *)
Definition c20_ht_mismatch (cs : list (list N * N)) : list (list N * N * N) :=
  flat_map (fun p => let m := htype_code (handler_type (fst p)) in
                     if m =? snd p then [] else [(fst p, snd p, m)]) cs.

(* the constants the model was written with, to be compared with what the harness reads from the Go packages *)
Definition c20_ev_consts : list N := [EV_SYN; EV_KEY; EV_REL; EV_ABS; EV_MSC; EV_SW; EV_LED; EV_SND; EV_REP; EV_FF].
Definition c20_ht_consts : list N := map htype_code [HUnknown; HStdKbd; HNkroKbd; HMultimedia; HSystem; HMouse; HJoystick].
Definition c20_dt_consts : list N := map dtype_code [DUnknown; DKeyboard; DMouse; DJoystick].
Definition c20_consts_ok (ev ht dt : list N) : bool :=
  listN_eqb ev c20_ev_consts && listN_eqb ht c20_ht_consts && listN_eqb dt c20_dt_consts.
