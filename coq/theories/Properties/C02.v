(* C02 — Release is pinned to the press; state changes only affect new presses. *)
From Coq Require Import List NArith ZArith.
From HIDI Require Import Base.AList Model.Device Proofs.DeviceBasics Proofs.ExitSeq Proofs.DevicePlay.
Import ListNotations.
Open Scope N_scope.

(* For every configuration and every alternating history  h1 ++ [press k] ++ h2 ++ [release k]  in which h2 contains no
   press/release of key code k (h2 is otherwise arbitrary: any number of octave / semitone / channel / mapping / panic /
   learning actions, other keys, analog samples, switches to mappings where k is unmapped or mapped elsewhere):
   with (n, ch) := the pair the press resolved to in the state at the press ([press_pair]: current mapping, transposition,
   channel offset; None if unmapped, out of range or swallowed by the exit sequence),
   - every message of the press step is Note On (ch, n, velocity) or Note Off (ch, n),
   - every message of the release step is exactly Note Off (ch, n), whatever the state is by then,
   - the tracker still holds (n, ch) just before the release;
   and if the press resolved to nothing, neither step emits anything. *)
Theorem C02_release_pinned : forall c h1 sub k h2 sub',
  alternating (h1 ++ EKey sub k 1 :: h2 ++ [EKey sub' k 0]) ->
  Forall (not_key_event k) h2 ->
  find_action c k = None ->
  let s0 := fst (run c h1) in
  let H := h1 ++ EKey sub k 1 :: h2 ++ [EKey sub' k 0] in
  let o_press := out_at c H (length h1) in
  let o_rel := out_at c H (length h1 + 1 + length h2) in
  match press_pair c s0 sub k with
  | Some (n, ch) =>
      (forall m, In m (midi o_press) -> m = note_on ch n (velocity s0) \/ m = note_off ch n) /\
      (forall m, In m (midi o_rel) -> m = note_off ch n) /\
      get N.eqb k (noteT (fst (run c (h1 ++ EKey sub k 1 :: h2)))) = Some (n, ch)
  | None => midi o_press = [] /\ midi o_rel = []
  end.
Proof. exact release_pinned. Qed.
Print Assumptions C02_release_pinned.

(* Octave, semitone, channel, mapping, multinote and CC-learning keys (every action except panic) emit nothing, in any
   state, for press, release and repeat, and leave every tracker (held notes, counters, CC flags) untouched. *)
Theorem C02_actions_silent : forall c s sub k v a,
  find_action c k = Some a -> a <> Panic ->
  midi (snd (step c s (EKey sub k v))) = [] /\ same_trackers s (fst (step c s (EKey sub k v))).
Proof. exact action_key_silent. Qed.
Print Assumptions C02_actions_silent.

(* The tracker entry of a key is frozen by every event that is not a press/release of that key. *)
Theorem C02_tracker_frozen : forall c s e k,
  not_key_event k e -> get N.eqb k (noteT (fst (step c s e))) = get N.eqb k (noteT s).
Proof. exact step_noteT_other. Qed.
Print Assumptions C02_tracker_frozen.

(* non-vacuity: hold a key, go up an octave, switch to a mapping where the key is unmapped, change channel, release *)
Example C02_example :
  let c := {| mappings := [{| m_name := 0; m_midi := [((0, 30), {| k_note := 60; k_off := 2 |})]; m_analog := [] |};
                           {| m_name := 1; m_midi := []; m_analog := [] |}];
              actions := [(59, OctaveUp); (60, MappingUp); (61, ChannelUp)]; exitseq := []; cmode_of := CInterrupt;
              d_octave := 0; d_semitone := 0; d_channel := 1; d_mapping := 0; d_velocity := 100 |} in
  let h := [EKey 0 30 1; EKey 0 59 1; EKey 0 59 0; EKey 0 60 1; EKey 0 60 0; EKey 0 61 1; EKey 0 61 0; EKey 0 30 0] in
  alternating h /\ all_midi (snd (run c h)) = [note_on 2 60 100; note_off 2 60].
Proof. cbv zeta. split; [apply alternatingb_sound; vm_compute; reflexivity|vm_compute; reflexivity]. Qed.
