(* C12 — Config selection: user over factory, specific over default, bad files isolated.
   Only statements, each closed by [exact]; proofs live in Proofs/LoaderProofs.v.
   The model (Model/Loader.v) is loader.go with the walk callback checking its error first (fix F11);
   [Original] is the callback as first found. *)
From Coq Require Import List NArith Bool Permutation Sorted.
From HIDI Require Import Base.AList Model.Loader Proofs.LoaderProofs.
Import ListNotations.
Open Scope N_scope.

(* FindConfig: user exact, user default, factory exact, factory default — keyboard maps for keyboards,
   gamepad maps for joysticks; an error when none exists or the type is unsupported. *)
Theorem C12_precedence :
  forall (cs : configs) (i : id),
    find_config cs i Keyboard =
      match first_some [lookup (u_kb cs) i; lookup (u_kb cs) zero_id; lookup (f_kb cs) i; lookup (f_kb cs) zero_id] with
      | Some h => Found h | None => ErrNoDefault end
    /\ find_config cs i Joystick =
      match first_some [lookup (u_gp cs) i; lookup (u_gp cs) zero_id; lookup (f_gp cs) i; lookup (f_gp cs) zero_id] with
      | Some h => Found h | None => ErrNoDefault end
    /\ (find_config cs i Keyboard = ErrNoDefault <->
        lookup (u_kb cs) i = None /\ lookup (u_kb cs) zero_id = None /\ lookup (f_kb cs) i = None /\ lookup (f_kb cs) zero_id = None)
    /\ (find_config cs i Joystick = ErrNoDefault <->
        lookup (u_gp cs) i = None /\ lookup (u_gp cs) zero_id = None /\ lookup (f_gp cs) i = None /\ lookup (f_gp cs) zero_id = None)
    /\ (forall ty, ty <> Keyboard -> ty <> Joystick -> find_config cs i ty = ErrUnsupported)
    /\ find_config cs i Keyboard <> ErrUnsupported /\ find_config cs i Joystick <> ErrUnsupported
    (* keyboards never see the gamepad maps and vice versa: the result does not depend on the other class's maps *)
    /\ (forall fg' ug', find_config (mk_configs (f_kb cs) fg' (u_kb cs) ug') i Keyboard = find_config cs i Keyboard)
    /\ (forall fk' uk', find_config (mk_configs fk' (f_gp cs) uk' (u_gp cs)) i Joystick = find_config cs i Joystick).
Proof. exact precedence. Qed.
Print Assumptions C12_precedence.

(* the monitor evaluated on the implementation's answers (Run/LoaderRun.v) holds of the model, for every input *)
Theorem C12_find_monitor : forall cs i ty, find_ok cs i ty (find_config cs i ty) = true.
Proof. exact find_ok_model. Qed.
Print Assumptions C12_find_monitor.

(* A file that fails to parse, a file that is not *.toml (case-insensitive), or a directory entry, anywhere in
   the walk, leaves the result exactly what it is without that entry (either variant, any starting map). *)
Theorem C12_isolation :
  forall v l1 bad l2 m,
    match bad with
    | IFile name verdict => is_toml name = false \/ verdict = None
    | IDir _ => True
    | IDirErr _ | INoInfo => False
    end ->
    load_directory v (l1 ++ bad :: l2) m = load_directory v (l1 ++ l2) m.
Proof. exact isolation. Qed.
Print Assumptions C12_isolation.

(* ... and so for LoadDeviceConfigs as a whole, whichever of the four directories holds the entry *)
Theorem C12_isolation_all :
  forall v l1 bad l2 a b c, skippable bad ->
    load_all v (l1 ++ bad :: l2) a b c = load_all v (l1 ++ l2) a b c /\
    load_all v a (l1 ++ bad :: l2) b c = load_all v a (l1 ++ l2) b c /\
    load_all v a b (l1 ++ bad :: l2) c = load_all v a b (l1 ++ l2) c /\
    load_all v a b c (l1 ++ bad :: l2) = load_all v a b c (l1 ++ l2).
Proof. exact isolation_all. Qed.
Print Assumptions C12_isolation_all.

(* The resulting map holds, for each identifier, the LAST successfully parsed *.toml file with that identifier in
   walk order, and nothing else. *)
Theorem C12_contents :
  forall v l m, load_directory v l [] = Ok m ->
    (forall i, lookup m i = last_for i (parsed l))
    /\ (forall i h, In (i, h) m -> exists name, In (IFile name (Some (i, h))) l /\ is_toml name = true)
    /\ (forall name i h, In (IFile name (Some (i, h))) l -> is_toml name = true -> exists h', lookup m i = Some h')
    /\ NoDup (keys m).
Proof. exact contents_full. Qed.
Print Assumptions C12_contents.

Theorem C12_later_wins :
  forall v l1 name i h l2 m,
    is_toml name = true ->
    (forall n h', In (IFile n (Some (i, h'))) l2 -> is_toml n = false) ->
    load_directory v (l1 ++ IFile name (Some (i, h)) :: l2) [] = Ok m ->
    lookup m i = Some h.
Proof. exact later_wins. Qed.
Print Assumptions C12_later_wins.

(* "reported": a complete pass logs every *.toml file that failed to parse *)
Theorem C12_reported :
  forall v l m m' name, load_directory v l m = Ok m' ->
    In (IFile name None) l -> is_toml name = true -> In (map lower name) (reports v l).
Proof. exact reported. Qed.
Print Assumptions C12_reported.

(* No crash, for all listings and all trees, missing or unreadable directories included; those give an error. *)
Theorem C12_no_crash :
  (forall l m, load_directory Fixed l m <> Crash)
  /\ (forall fg fk ug uk, load_all Fixed fg fk ug uk <> Crash)
  /\ (forall fg fk ug uk, load_trees Fixed fg fk ug uk <> Crash)
  /\ (forall fg fk ug uk, load_all Fixed fg fk ug uk = Err <-> existsb is_error_item (fg ++ fk ++ ug ++ uk) = true)
  /\ (forall fg fk ug uk, fg = RMissing \/ fk = RMissing \/ ug = RMissing \/ uk = RMissing ->
        load_trees Fixed fg fk ug uk = Err)
  /\ (forall fg fk ug uk name ch,
        fg = RNode (NDir name false ch) \/ fk = RNode (NDir name false ch) \/
        ug = RNode (NDir name false ch) \/ uk = RNode (NDir name false ch) ->
        load_trees Fixed fg fk ug uk = Err).
Proof. exact no_crash. Qed.
Print Assumptions C12_no_crash.

(* the load monitor evaluated on the implementation's observations (no panic; an error only if something is
   missing/unreadable; otherwise the four maps are exactly the parsed files, unreadable parts counted as empty)
   holds of the model for all listings *)
Theorem C12_load_monitor : forall fg fk ug uk, load_ok fg fk ug uk (observe (load_all Fixed fg fk ug uk)) = true.
Proof. exact load_ok_fixed. Qed.
Print Assumptions C12_load_monitor.

(* filepath.Walk order of the tree model: a directory, then its entries sorted bytewise by name, each in place *)
Theorem C12_walk_order :
  (forall name ch, exists ch',
      Permutation ch ch' /\ StronglySorted (fun a b => name_leb (node_name a) (node_name b) = true) ch' /\
      walk (NDir name true ch) = IDir name :: flat_map walk ch')
  /\ (forall name ch, walk (NDir name false ch) = [IDirErr name])
  /\ (forall name r p, walk (NFile name r p) = [IFile name (if r then p else None)])
  /\ (forall a b, name_leb a b = true \/ name_leb b a = true)
  /\ (forall a b, name_leb a b = true -> name_leb b a = true -> a = b)
  /\ (forall a b c, name_leb a b = true -> name_leb b c = true -> name_leb a c = true).
Proof. exact walk_order. Qed.
Print Assumptions C12_walk_order.

(* D11: the original callback dereferences a nil FileInfo when hidi-config/user/keyboard is missing
   (Crash, the monitor is false); the fixed callback returns an error on the same tree. *)
Theorem C12_missing_dir_crash_refuted :
  load_trees Original (RNode (NDir [103] true [])) (RNode (NDir [107] true [NFile some_cfg true (Some (zero_id, 1))]))
                      (RNode (NDir [103] true [])) RMissing = Crash
  /\ load_ok (walk_root (RNode (NDir [103] true []))) (walk_root (RNode (NDir [107] true [NFile some_cfg true (Some (zero_id, 1))])))
             (walk_root (RNode (NDir [103] true []))) (walk_root RMissing)
             (observe (load_trees Original (RNode (NDir [103] true [])) (RNode (NDir [107] true [NFile some_cfg true (Some (zero_id, 1))]))
                                  (RNode (NDir [103] true [])) RMissing)) = false
  /\ load_trees Fixed (RNode (NDir [103] true [])) (RNode (NDir [107] true [NFile some_cfg true (Some (zero_id, 1))]))
                      (RNode (NDir [103] true [])) RMissing = Err.
Proof. exact missing_dir_crash. Qed.
Print Assumptions C12_missing_dir_crash_refuted.

(* the original callback crashes exactly when some callback invocation carries no FileInfo, never returns an
   error, and otherwise satisfies the monitor (an unreadable directory is counted as empty) *)
Theorem C12_original_crash_iff :
  forall fg fk ug uk,
    (load_all Original fg fk ug uk = Crash <->
     existsb (fun it => match it with INoInfo => true | _ => false end) (fg ++ fk ++ ug ++ uk) = true)
    /\ (load_all Original fg fk ug uk <> Crash ->
        load_ok fg fk ug uk (observe (load_all Original fg fk ug uk)) = true).
Proof. exact (fun fg fk ug uk => conj (original_crash_iff fg fk ug uk) (load_ok_original fg fk ug uk)). Qed.
Print Assumptions C12_original_crash_iff.

(* the hypotheses above are satisfiable / the vocabulary means what it says *)
Example C12_ex_precedence :
  let cs := mk_configs [((3, 1, 2, 0), 10); (zero_id, 11)] [(zero_id, 20)] [(zero_id, 12)] [] in
  find_config cs (3, 1, 2, 0) Keyboard = Found 12        (* user default beats factory exact *)
  /\ find_config cs (3, 1, 2, 0) Joystick = Found 20
  /\ find_config cs (3, 1, 2, 0) Mouse = ErrUnsupported
  /\ find_config empty_configs (3, 1, 2, 0) Keyboard = ErrNoDefault.
Proof. vm_compute. auto. Qed.

Example C12_ex_walk :
  (* "B.TOML" < "a" (directory, descended in place) < "a-b.toml" by name, although "a-b.toml" < "a/z.toml" as paths;
     "footoml" and the unparsable "bad.toml" are passed over; identifier (1,1,1,1) is won by the later a-b.toml *)
  let tree := NDir [107] true
    [ NFile [97; 45; 98; 46; 116; 111; 109; 108] true (Some ((1, 1, 1, 1), 3));
      NDir [97] true [NFile [122; 46; 116; 111; 109; 108] true (Some ((1, 1, 1, 1), 2))];
      NFile [98; 97; 100; 46; 116; 111; 109; 108] true None;
      NFile [102; 111; 111; 116; 111; 109; 108] true (Some ((9, 9, 9, 9), 5));
      NFile [66; 46; 84; 79; 77; 76] true (Some (zero_id, 1)) ] in
  load_directory Fixed (walk tree) [] = Ok [((1, 1, 1, 1), 3); (zero_id, 1)]
  /\ reports Fixed (walk tree) = [[98; 97; 100; 46; 116; 111; 109; 108]].
Proof. vm_compute. auto. Qed.
