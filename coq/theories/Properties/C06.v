(* C06 — Analog axis to CC / pitch-bend transfer function.
   [c06_event_ok g raw ms] (Model/AnalogSpec.v) says of the messages ms transmitted for raw position raw under configuration g:
   the value is within one step (+2^-20, see [within_one]) of the exact real-number transfer function [exact_position] /
   [exact_scaled] computed in rational arithmetic; an exact value at an end of the range (0, 127, 16383) or at the rest value
   (63 = floor(127/2) for a unidirectional controller on a signed/centred axis, 8192 for pitch bend) is transmitted exactly;
   the message goes to the right controller (the side the stick is on, for a pair) or is a pitch bend.
   [c06_monotone] : over all pairs of positions the (signed) transmitted value is monotone in the raw position (reversed by flip).
   [axis_msgs g raw] is what the model (bit-exact float64, Model/AnalogF.v) transmits. *)
From Coq Require Import List NArith ZArith Bool.
From HIDI Require Import Base.AList Model.Device Model.AnalogF Model.AnalogSpec Proofs.AnalogGrid Proofs.AnalogProofs.
Import ListNotations.

(* Every raw value of the 8-bit axes [0,255], [-128,127], [-127,127] and of a hat [-1,1], for each of the 20 deadzones of
   [dz_bits] (0 ... 0.99, incl. every value for which the original code missed the end stop), every combination of flip,
   deadzone_at_center (min = 0 only) and unidirectional CC / bidirectional CC / pitch bend: a finite domain, checked
   completely by the kernel (vm_compute) and lifted by forallb_forall; the bound is the statement's hypothesis. *)
Theorem C06_grid_value : forall b g raw,
  In b dz_bits -> In g (grid_for (f_of_bits b)) -> (q_mn g <= raw <= q_mx g)%Z ->
  c06_event_ok g raw (axis_msgs g raw) = true.
Proof. exact grid_event. Qed.
Print Assumptions C06_grid_value.

Theorem C06_grid_monotone : forall b g,
  In b dz_bits -> In g (grid_for (f_of_bits b)) ->
  c06_monotone g (map (fun raw => (raw, axis_msgs g raw)) (raws g)) = true.
Proof. exact grid_monotone. Qed.
Print Assumptions C06_grid_monotone.

(* rest position of a pitch-bend axis is the centre 8192 = (lsb 0, msb 64); the original truncation gave 8191 (D10) *)
Theorem C06_pitch_bend_centre : pb_bytes true f0 = (0%N, 64%N) /\ pb_target false f0 = 8191%Z.
Proof. vm_compute. split; reflexivity. Qed.
Print Assumptions C06_pitch_bend_centre.

(* D9: the original rescale by the rounded reciprocal misses the end stop for deadzone 0.05 *)
Theorem C06_reciprocal_endstop_refuted :
  let dz := f_of_bits 4587366580439587226 in
  cc_byte (fst (shape_gen true 0 255 false dz 255)) = 126%N /\ cc_byte (fst (shape 0 255 false dz 255)) = 127%N.
Proof. exact reciprocal_endstop_refuted. Qed.
Print Assumptions C06_reciprocal_endstop_refuted.
