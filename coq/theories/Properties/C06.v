(* C06 — Analog axis to CC / pitch-bend transfer function.
   [c06_event_ok g raw ms] (Model/AnalogSpec.v) says of the messages ms transmitted for raw position raw under configuration g:
   the value is within one step (+2^-20, see [within_one]) of the exact real-number transfer function [exact_position] /
   [exact_scaled] computed in rational arithmetic; an exact value at an end of the range (0, 127, 16383) or at the rest value
   (63 = floor(127/2) for a unidirectional controller on a signed/centred axis, 8192 for pitch bend) is transmitted exactly;
   the message goes to the right controller (the side the stick is on, for a pair) or is a pitch bend.
   [c06_monotone] : over all pairs of positions the (signed) transmitted value is monotone in the raw position (reversed by flip).
   [axis_msgs g raw] is what the model (bit-exact float64, Model/AnalogF.v) transmits. *)
From Coq Require Import List NArith ZArith Bool.
From Coq Require Import Reals.
From HIDI Require Import Base.AList Model.Device Model.AnalogF Model.AnalogSpec Proofs.AnalogGrid Proofs.AnalogProofs Proofs.AnalogEndstop.
Import ListNotations.

(* Every raw value of the 8-bit axes [0,255], [-128,127], [-127,127] and of a hat [-1,1], for each of the 20 deadzones of
   [dz_bits] (0 ... 0.99, incl. every value for which the original code missed the end stop), every combination of flip,
   deadzone_at_center (min = 0 only) and unidirectional CC / bidirectional CC / pitch bend: a finite domain, checked
   completely by the kernel (vm_compute) and lifted by forallb_forall; the bound is the statement's hypothesis. *)
Theorem C06_grid_value : forall b g raw,
  In b dz_bits -> In g (grid_for (f_of_bits b)) -> (q_mn g <= raw <= q_mx g)%Z ->
  c06_event_ok g raw (axis_msgs g raw) = true.
Proof. exact grid_event. Qed.
Print Assumptions C06_grid_value.

Theorem C06_grid_monotone : forall b g,
  In b dz_bits -> In g (grid_for (f_of_bits b)) ->
  c06_monotone g (map (fun raw => (raw, axis_msgs g raw)) (raws g)) = true.
Proof. exact grid_monotone. Qed.
Print Assumptions C06_grid_monotone.

(* rest position of a pitch-bend axis is the centre 8192 = (lsb 0, msb 64); the original truncation gave 8191 (D10) *)
Theorem C06_pitch_bend_centre : pb_bytes true f0 = (0%N, 64%N) /\ pb_target false f0 = 8191%Z.
Proof. vm_compute. split; reflexivity. Qed.
Print Assumptions C06_pitch_bend_centre.

(* D9: the original rescale by the rounded reciprocal misses the end stop for deadzone 0.05 *)
Theorem C06_reciprocal_endstop_refuted :
  let dz := f_of_bits 4587366580439587226 in
  cc_byte (fst (shape_gen true 0 255 false dz 255)) = 126%N /\ cc_byte (fst (shape 0 255 false dz 255)) = 127%N.
Proof. exact reciprocal_endstop_refuted. Qed.
Print Assumptions C06_reciprocal_endstop_refuted.

(* ---- General part (no grid, no bound): exactness of the end stop and of the rest value.
   For EVERY axis range with 0 < max < 2^31 (any minimum), EVERY finite deadzone 0 <= dz < 1 (as a real number), with or
   without deadzone_at_center: the shaped position at the physical end stop raw = max is exactly 1.0 - by x / x = 1 in
   IEEE arithmetic and monotone correct rounding (Flocq), not by evaluation. *)
Theorem C06_endstop_exact : forall mn mx dzc dz,
  (0 < mx < 2 ^ 31)%Z -> B.is_finite dz = true -> (0 <= B.B2R dz < 1)%R ->
  fst (shape mn mx dzc dz mx) = f1.
Proof. exact endstop_max. Qed.
Print Assumptions C06_endstop_exact.

(* ... and 1.0 is transmitted as 127 (unidirectional unsigned / signed, either side of a pair) resp. 16383 *)
Theorem C06_one_is_full_scale :
  cc_byte f1 = 127%N /\ cc_byte (fabs f1) = 127%N /\ cc_byte (fdiv (fadd f1 f1) f2) = 127%N /\
  pb_bytes true f1 = (127%N, 127%N).
Proof. exact transmit_one. Qed.
Print Assumptions C06_one_is_full_scale.

(* For EVERY range, raw value and deadzone (any float whatsoever): a position whose normalised value compares inside the
   deadzone is shaped to exactly +0.0 ... *)
Theorem C06_deadzone_rest : forall mn mx dzc dz raw,
  let v := normalised mn mx dzc raw in
  (flt v f0 = false /\ flt v dz = true) \/ (flt v f0 = true /\ fgt v (fneg dz) = true) ->
  fst (shape mn mx dzc dz raw) = f0.
Proof. exact deadzone_rest. Qed.
Print Assumptions C06_deadzone_rest.

(* ... and +0.0 is transmitted as the rest value: 0, 63 (mid-scale) or the pitch-bend centre 8192 *)
Theorem C06_zero_is_rest :
  cc_byte f0 = 0%N /\ cc_byte (fabs f0) = 0%N /\ cc_byte (fdiv (fadd f0 f1) f2) = 63%N /\ pb_bytes true f0 = (0%N, 64%N).
Proof. exact transmit_zero. Qed.
Print Assumptions C06_zero_is_rest.

(* The negative end stop of a signed axis: for EVERY range with -2^31 <= min < 0 (any maximum) and EVERY finite deadzone
   0 <= dz < 1, the shaped position at raw = min is exactly -1.0 (x / |x| = -1 exactly; -1 + dz rounds to the exact
   opposite of 1 - dz because round-to-nearest-even is symmetric) *)
Theorem C06_endstop_min_exact : forall mn mx dz,
  (- 2 ^ 31 <= mn < 0)%Z -> B.is_finite dz = true -> (0 <= B.B2R dz < 1)%R ->
  fst (shape mn mx false dz mn) = fm1.
Proof. exact endstop_min. Qed.
Print Assumptions C06_endstop_min_exact.

(* ... the lower end stop raw = 0 of an unsigned axis re-centred by deadzone_at_center as well *)
Theorem C06_endstop_min_centred : forall mx dz,
  (0 < mx < 2 ^ 31)%Z -> B.is_finite dz = true -> (0 <= B.B2R dz < 1)%R ->
  fst (shape 0 mx true dz 0) = fm1.
Proof. exact endstop_min_centred. Qed.
Print Assumptions C06_endstop_min_centred.

(* ... and -1.0 is transmitted as 127 on the negative controller of a pair, 0 on a unidirectional controller, 0 on pitch bend *)
Theorem C06_minus_one_is_full_scale :
  cc_encode true true fm1 = (true, 127%N) /\ cc_encode true false fm1 = (false, 0%N) /\ pb_bytes true fm1 = (0%N, 0%N).
Proof. exact transmit_minus_one. Qed.
Print Assumptions C06_minus_one_is_full_scale.
