(* C06 — Analog axis to CC / pitch-bend transfer function.
   [c06_event_ok g raw ms] (Model/AnalogSpec.v) says of the messages ms transmitted for raw position raw under configuration g:
   the value is within one step (+2^-20, see [within_one]) of the exact real-number transfer function [exact_position] /
   [exact_scaled] computed in rational arithmetic; an exact value at an end of the range (0, 127, 16383) or at the rest value
   (63 = floor(127/2) for a unidirectional controller on a signed/centred axis, 8192 for pitch bend) is transmitted exactly;
   the message goes to the right controller (for a pair: one of its two controllers, and for a non-zero value the one of the
   side the stick is on - with value 0 both controllers are 0 at the receiver) or is a pitch bend.
   [c06_monotone] : over all pairs of positions the (signed) transmitted value is monotone in the raw position (reversed by flip).
   [axis_msgs g raw] is what the model (bit-exact float64, Model/AnalogF.v) transmits. *)
From Coq Require Import List NArith ZArith Bool.
From Coq Require Import Reals.
From HIDI Require Import Base.AList Model.Device Model.AnalogF Model.AnalogSpec Proofs.AnalogGrid Proofs.AnalogProofs Proofs.AnalogEndstop
  Proofs.AnalogGeneral Proofs.AnalogGeneral2 Proofs.AnalogGeneral3 Proofs.AnalogGeneral4.
Import ListNotations.

(* Every raw value of the 8-bit axes [0,255], [-128,127], [-127,127] and of a hat [-1,1], for each of the 20 deadzones of
   [dz_bits] (0 ... 0.99, incl. every value for which the original code missed the end stop), every combination of flip,
   deadzone_at_center (min = 0 only) and unidirectional CC / bidirectional CC / pitch bend: a finite domain, checked
   completely by the kernel (vm_compute) and lifted by forallb_forall; the bound is the statement's hypothesis. *)
Theorem C06_grid_value : forall b g raw,
  In b dz_bits -> In g (grid_for (f_of_bits b)) -> (q_mn g <= raw <= q_mx g)%Z ->
  c06_event_ok g raw (axis_msgs g raw) = true.
Proof. exact grid_event. Qed.
Print Assumptions C06_grid_value.

Theorem C06_grid_monotone : forall b g,
  In b dz_bits -> In g (grid_for (f_of_bits b)) ->
  c06_monotone g (map (fun raw => (raw, axis_msgs g raw)) (raws g)) = true.
Proof. exact grid_monotone. Qed.
Print Assumptions C06_grid_monotone.

(* rest position of a pitch-bend axis is the centre 8192 = (lsb 0, msb 64); the original truncation gave 8191 (D10) *)
Theorem C06_pitch_bend_centre : pb_bytes true f0 = (0%N, 64%N) /\ pb_target false f0 = 8191%Z.
Proof. vm_compute. split; reflexivity. Qed.
Print Assumptions C06_pitch_bend_centre.

(* D9: the original rescale by the rounded reciprocal misses the end stop for deadzone 0.05 *)
Theorem C06_reciprocal_endstop_refuted :
  let dz := f_of_bits 4587366580439587226 in
  cc_byte (fst (shape_gen true 0 255 false dz 255)) = 126%N /\ cc_byte (fst (shape 0 255 false dz 255)) = 127%N.
Proof. exact reciprocal_endstop_refuted. Qed.
Print Assumptions C06_reciprocal_endstop_refuted.

(* ---- General part (no grid, no bound): exactness of the end stop and of the rest value.
   For EVERY axis range with 0 < max < 2^31 (any minimum), EVERY finite deadzone 0 <= dz < 1 (as a real number), with or
   without deadzone_at_center: the shaped position at the physical end stop raw = max is exactly 1.0 - by x / x = 1 in
   IEEE arithmetic and monotone correct rounding (Flocq), not by evaluation. *)
Theorem C06_endstop_exact : forall mn mx dzc dz,
  (0 < mx < 2 ^ 31)%Z -> B.is_finite dz = true -> (0 <= B.B2R dz < 1)%R ->
  fst (shape mn mx dzc dz mx) = f1.
Proof. exact endstop_max. Qed.
Print Assumptions C06_endstop_exact.

(* ... and 1.0 is transmitted as 127 (unidirectional unsigned / signed, either side of a pair) resp. 16383 *)
Theorem C06_one_is_full_scale :
  cc_byte f1 = 127%N /\ cc_byte (fabs f1) = 127%N /\ cc_byte (fdiv (fadd f1 f1) f2) = 127%N /\
  pb_bytes true f1 = (127%N, 127%N).
Proof. exact transmit_one. Qed.
Print Assumptions C06_one_is_full_scale.

(* For EVERY range, raw value and deadzone (any float whatsoever): a position whose normalised value compares inside the
   deadzone is shaped to exactly +0.0 ... *)
Theorem C06_deadzone_rest : forall mn mx dzc dz raw,
  let v := normalised mn mx dzc raw in
  (flt v f0 = false /\ flt v dz = true) \/ (flt v f0 = true /\ fgt v (fneg dz) = true) ->
  fst (shape mn mx dzc dz raw) = f0.
Proof. exact deadzone_rest. Qed.
Print Assumptions C06_deadzone_rest.

(* ... and +0.0 is transmitted as the rest value: 0, 63 (mid-scale) or the pitch-bend centre 8192 *)
Theorem C06_zero_is_rest :
  cc_byte f0 = 0%N /\ cc_byte (fabs f0) = 0%N /\ cc_byte (fdiv (fadd f0 f1) f2) = 63%N /\ pb_bytes true f0 = (0%N, 64%N).
Proof. exact transmit_zero. Qed.
Print Assumptions C06_zero_is_rest.

(* The negative end stop of a signed axis: for EVERY range with -2^31 <= min < 0 (any maximum) and EVERY finite deadzone
   0 <= dz < 1, the shaped position at raw = min is exactly -1.0 (x / |x| = -1 exactly; -1 + dz rounds to the exact
   opposite of 1 - dz because round-to-nearest-even is symmetric) *)
Theorem C06_endstop_min_exact : forall mn mx dz,
  (- 2 ^ 31 <= mn < 0)%Z -> B.is_finite dz = true -> (0 <= B.B2R dz < 1)%R ->
  fst (shape mn mx false dz mn) = fm1.
Proof. exact endstop_min. Qed.
Print Assumptions C06_endstop_min_exact.

(* ... the lower end stop raw = 0 of an unsigned axis re-centred by deadzone_at_center as well *)
Theorem C06_endstop_min_centred : forall mx dz,
  (0 < mx < 2 ^ 31)%Z -> B.is_finite dz = true -> (0 <= B.B2R dz < 1)%R ->
  fst (shape 0 mx true dz 0) = fm1.
Proof. exact endstop_min_centred. Qed.
Print Assumptions C06_endstop_min_centred.

(* ... and -1.0 is transmitted as 127 on the negative controller of a pair, 0 on a unidirectional controller, 0 on pitch bend *)
Theorem C06_minus_one_is_full_scale :
  cc_encode true true fm1 = (true, 127%N) /\ cc_encode true false fm1 = (false, 0%N) /\ pb_bytes true fm1 = (0%N, 0%N).
Proof. exact transmit_minus_one. Qed.
Print Assumptions C06_minus_one_is_full_scale.

(* ==== General theorems (no grid, no evaluation): range, monotonicity, accuracy and encoding for EVERY configuration of the domain
     [axis_dom mn mx dzc] : -2^31 <= mn <= 0 < mx < 2^31, and deadzone_at_center only on an axis with minimum 0;
     [dz_dom dz]          : the deadzone is a finite float with 0 <= dz <= 1 - 2^-10 (as a real number);
     raw                  : any integer of the axis range.
   Proved from Flocq's real-number semantics of binary64 (each operation = the exact operation rounded to nearest even; rounding
   is monotone, symmetric, the identity on representable numbers and moves |x| <= 2^e by at most 2^(e-53)).
   The deadzone bound 1 - 2^-10 makes the divisor 1 - dz at least 2^-10, so that the division amplifies the (at most 5 * 2^-53)
   error of the normalised position by at most 2^10; any bound 1 - 2^-k, k <= 30, would do with the accuracy 2^(k-49). *)
From Flocq Require Import Core.Core.

Example C06_general_domain_inhabited :
  axis_dom (-32768) 32767 false /\ axis_dom 0 255 true /\ axis_dom (- 2 ^ 31) (2 ^ 31 - 1) false /\
  dz_dom f0 /\ dz_dom (f_of_bits 4587366580439587226) (* 0.05 *).
Proof. exact (conj (proj1 dom_examples) (conj (proj1 (proj2 dom_examples)) (conj (proj2 (proj2 dom_examples)) (conj f0_dom dz005_dom)))). Qed.

(* 1. the shaped position is a finite float in [-1, 1] (never NaN / infinite / out of range) ... *)
Theorem C06_general_range : forall mn mx dzc dz raw,
  axis_dom mn mx dzc -> dz_dom dz -> (mn <= raw <= mx)%Z ->
  B.is_finite (fst (shape mn mx dzc dz raw)) = true /\ (-1 <= B.B2R (fst (shape mn mx dzc dz raw)) <= 1)%R.
Proof. exact shape_finite_range. Qed.
Print Assumptions C06_general_range.

(* ... and in [0, 1] on an unsigned axis without deadzone_at_center *)
Theorem C06_general_range_unsigned : forall mx dz raw,
  axis_dom 0 mx false -> dz_dom dz -> (0 <= raw <= mx)%Z ->
  (0 <= B.B2R (fst (shape 0 mx false dz raw)) <= 1)%R.
Proof. exact shape_unsigned_nonneg. Qed.
Print Assumptions C06_general_range_unsigned.

(* 2. the shaped position is monotone in the raw position *)
Theorem C06_general_monotone : forall mn mx dzc dz r1 r2,
  axis_dom mn mx dzc -> dz_dom dz -> (mn <= r1)%Z -> (r1 <= r2)%Z -> (r2 <= mx)%Z ->
  (B.B2R (fst (shape mn mx dzc dz r1)) <= B.B2R (fst (shape mn mx dzc dz r2)))%R.
Proof. exact shape_monotone. Qed.
Print Assumptions C06_general_monotone.

(* 3. the shaped position is within 2^-39 of the exact real transfer function [shape_R] (the formula of [exact_position]
      over the real numbers: raw / |min| or raw / |max|, re-centred by v * 2 - 1, deadzone cut out and rescaled by 1 - dz) *)
Theorem C06_general_accuracy : forall mn mx dzc dz raw,
  axis_dom mn mx dzc -> dz_dom dz -> (mn <= raw <= mx)%Z ->
  (Rabs (B.B2R (fst (shape mn mx dzc dz raw)) - shape_R mn mx dzc (B.B2R dz) raw) <= bpow radix2 (-39))%R.
Proof. exact shape_accuracy. Qed.
Print Assumptions C06_general_accuracy.

(* 4. the encoders on ANY finite float of the shaped range: the controller byte is floor(round_binary64(127 * a)), lies in
      [0, 127] and is within 1 + 2^-46 of 127 * a; the pitch-bend value is nearest(round_binary64(16383 * ((w + 1) / 2))), lies in
      [0, 16383] and is within 1/2 + 2^-37 of the exact value *)
Theorem C06_general_encoding_cc : forall a, B.is_finite a = true -> (0 <= B.B2R a <= 1)%R ->
  Z.of_N (cc_byte a) = Zfloor (rnd (127 * B.B2R a)) /\ (0 <= Z.of_N (cc_byte a) <= 127)%Z /\
  (Rabs (IZR (Z.of_N (cc_byte a)) - 127 * B.B2R a) <= 1 + bpow radix2 (-46))%R.
Proof. exact cc_byte_general. Qed.
Print Assumptions C06_general_encoding_cc.

Theorem C06_general_encoding_pb : forall w, B.is_finite w = true -> (-1 <= B.B2R w <= 1)%R ->
  pb_target true w = ZnearestA (rnd (16383 * rnd (rnd (B.B2R w + 1) / 2))) /\ (0 <= pb_target true w <= 16383)%Z /\
  (Rabs (IZR (pb_target true w) - 16383 * ((B.B2R w + 1) / 2)) <= / 2 + bpow radix2 (-37))%R.
Proof. exact pb_target_general. Qed.
Print Assumptions C06_general_encoding_pb.

(* every form of [cc_encode] / [pb_target] ([tx_int]: unidirectional unsigned / signed, either side of a pair, pitch bend) on a
   finite v of the range ([-1,1] if the axis can go negative, else [0,1]) that is within d <= 2^-38 of a real p: the transmitted
   integer is in the MIDI range and within 1 + 2^-23 of the exact scaled value of p *)
Theorem C06_general_encoding : forall k canneg v p d,
  B.is_finite v = true -> in_range canneg (B.B2R v) -> (0 <= d <= 32768 * u)%R -> (Rabs (B.B2R v - p) <= d)%R ->
  (0 <= tx_int k canneg v <= full k)%Z /\
  (Rabs (IZR (tx_int k canneg v) - scaled_R k canneg p) <= 1 + bpow radix2 (-23))%R.
Proof. exact encoding_general. Qed.
Print Assumptions C06_general_encoding.

(* [tx_int] is what [make_sample] hands to the device model: the controller value byte and the two pitch-bend data bytes *)
Theorem C06_general_sample : forall code a canneg v,
  Z.of_N (sa_ccv (make_sample code a canneg v)) = tx_int (if a_bidi a then KCCbidi else KCCuni) canneg v /\
  ((0 <= tx_int KPB canneg v <= 16383)%Z ->
   (Z.of_N (sa_lsb (make_sample code a canneg v)) + 128 * Z.of_N (sa_msb (make_sample code a canneg v))
    = tx_int KPB canneg v)%Z).
Proof. exact make_sample_tx. Qed.
Print Assumptions C06_general_sample.

(* 5. end to end, for the whole domain, each kind of output k, with and without flip: the transmitted integer
      [transmitted] = tx_int on the flipped shaped value lies in [0, 127] resp. [0, 16383] and is within 1 + 2^-20 of the exact
      real value on the MIDI scale [exact_R] ([exact_scaled] of [exact_position] over the real numbers) ... *)
Theorem C06_general : forall k flip mn mx dzc dz raw,
  axis_dom mn mx dzc -> dz_dom dz -> (mn <= raw <= mx)%Z ->
  (0 <= transmitted k flip mn mx dzc dz raw <= full k)%Z /\
  (Rabs (IZR (transmitted k flip mn mx dzc dz raw) - exact_R k flip mn mx dzc (B.B2R dz) raw) <= 1 + bpow radix2 (-20))%R.
Proof. exact c06_general. Qed.
Print Assumptions C06_general.

(* ... and the transmitted value (a value on the negative controller of a pair counted negative) is monotone in the raw position,
   reversed by flip *)
Theorem C06_general_tx_monotone : forall k (flip : bool) mn mx dzc dz r1 r2,
  axis_dom mn mx dzc -> dz_dom dz -> (mn <= r1)%Z -> (r1 <= r2)%Z -> (r2 <= mx)%Z ->
  if flip then (transmitted_signed k flip mn mx dzc dz r2 <= transmitted_signed k flip mn mx dzc dz r1)%Z
  else (transmitted_signed k flip mn mx dzc dz r1 <= transmitted_signed k flip mn mx dzc dz r2)%Z.
Proof. exact c06_general_monotone. Qed.
Print Assumptions C06_general_tx_monotone.

(* ==== The general theorems about the DEVICE MODEL's messages [axis_msgs] and the run-time monitor [c06_event_ok] / [c06_monotone]
   themselves (the general versions of C06_grid_value / C06_grid_monotone), for every configuration of
     [cfg_dom g] : axis_dom (q_mn g) (q_mx g) (q_dzc g) /\ dz_dom (q_dz g) /\ q_cc g < 128 /\ q_ccneg g < 128.
   Proved by reading the monitor's rational arithmetic over the real numbers (Q2R), the bounds above, and - for the clauses
   that demand exact values (0, 63, 127, 8192, 16383 at the ends of the range and at rest) - by showing that the exact
   function hits these values only at the end stops / inside the deadzone / at the exact half of an unsigned axis, where the
   float code computes exactly +-1.0 / +-0.0 / 0.5 (x / x = 1; a quotient that equals a dyadic rational is representable;
   halving commutes with rounding). *)

(* Every position of every configuration of the domain satisfies the monitor; the one hypothesis concerns a pitch-bend axis
   with deadzone_at_center only: where the exact function is inside the deadzone, the float code is too ([pb_centre_agree]:
   q_kind g = KPB -> q_dzc g = true -> |exact normalised position| <= dz -> |computed normalised position| <= dz) ... *)
Theorem C06_general_event_ok : forall g raw,
  cfg_dom g -> (q_mn g <= raw <= q_mx g)%Z -> pb_centre_agree g raw ->
  c06_event_ok g raw (axis_msgs g raw) = true.
Proof. exact event_ok_general. Qed.
Print Assumptions C06_general_event_ok.

(* ... so there is no hypothesis for controllers (unidirectional or pair) and for pitch bend without deadzone_at_center ... *)
Theorem C06_general_event_ok_plain : forall g raw,
  cfg_dom g -> (q_mn g <= raw <= q_mx g)%Z -> q_kind g <> KPB \/ q_dzc g = false ->
  c06_event_ok g raw (axis_msgs g raw) = true.
Proof. exact event_ok_plain. Qed.
Print Assumptions C06_general_event_ok_plain.

(* ... and with deadzone_at_center it holds whenever the exact normalised position [wR] = 2 * raw / max - 1 is outside the
   deadzone or at least 5 * 2^-53 inside it *)
Theorem C06_general_pb_centre_margin : forall g raw,
  cfg_dom g -> (q_mn g <= raw <= q_mx g)%Z ->
  (B.B2R (q_dz g) < Rabs (wR g raw) \/ Rabs (wR g raw) <= B.B2R (q_dz g) - 5 * u)%R -> pb_centre_agree g raw.
Proof. exact pb_centre_agree_margin. Qed.
Print Assumptions C06_general_pb_centre_margin.

(* The hypothesis is needed: axis 0..12, deadzone_at_center, flipped, deadzone 0.16666666666666669 (the float just above 1/6),
   raw = 7: exact normalised position 1/6, inside the deadzone (rest: 8192); the float code computes 2 * rnd(7/12) - 1 =
   0.16666666666666674, outside, and transmits 8191 = (lsb 127, msb 63).  The configuration is in the domain. *)
Example C06_pb_centre_needed :
  c06_event_ok corner_pb 7 (axis_msgs corner_pb 7) = false /\ axis_msgs corner_pb 7 = [[224; 127; 63]]%N.
Proof. exact pb_centre_needed. Qed.

(* Why the monitor's side clause is conditional on a non-zero value: at these positions of these configurations of the domain
   the float code and the exact function decide differently at the deadzone edge (a signed axis, flipped or not; a centred
   axis) resp. at the half threshold (an unsigned pair); the strict clause "the controller of the exact side" fails, the
   transmitted value is 0 and the other controller is zeroed in the same step: (strict clause, monitor, messages) *)
Example C06_side_immaterial_at_zero :
  corner_check corner_signed (-999) = (false, true, [[176; 20; 0]; [176; 21; 0]]%N) /\
  corner_check corner_signed_flip 999 = (false, true, [[176; 20; 0]; [176; 21; 0]]%N) /\
  corner_check corner_centred 3 = (false, true, [[176; 20; 0]; [176; 21; 0]]%N) /\
  corner_check corner_half 128 = (false, true, [[176; 20; 0]; [176; 21; 0]]%N).
Proof. exact side_immaterial_at_zero. Qed.

Example C06_corners_in_domain :
  cfg_dom corner_signed /\ cfg_dom corner_signed_flip /\ cfg_dom corner_centred /\ cfg_dom corner_half /\ cfg_dom corner_pb.
Proof. exact corners_in_domain. Qed.

(* every message of an axis event is well-formed MIDI (the controller VALUE byte off the grid: C05) *)
Theorem C06_general_wf : forall g raw,
  cfg_dom g -> (q_mn g <= raw <= q_mx g)%Z -> forallb wf_msgb (axis_msgs g raw) = true.
Proof. exact axis_msgs_wf. Qed.
Print Assumptions C06_general_wf.

(* the monotonicity monitor holds on ANY list of positions of the range, in any order; for a pair the two controllers must be
   different (the monitor tells the sides apart by the controller number) *)
Theorem C06_general_monotone_msgs : forall g l,
  cfg_dom g -> (q_kind g <> KCCbidi \/ q_cc g <> q_ccneg g) -> Forall (fun r => (q_mn g <= r <= q_mx g)%Z) l ->
  c06_monotone g (map (fun r => (r, axis_msgs g r)) l) = true.
Proof. exact axis_msgs_monotone. Qed.
Print Assumptions C06_general_monotone_msgs.
