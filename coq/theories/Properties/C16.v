(* C16 - Device lifecycle: processing for a device ends promptly once its event stream ends and leaves no background
   activity behind; event processing, MIDI-input tracking, LED refresh and disconnect clean-up never touch device state
   concurrently without synchronisation; what one device does never changes another device's output.

   PARTIAL BY NATURE.  The theorems are about Model/Lifecycle.v: ProcessEvents of one device as a labelled transition
   system of three goroutines (main, LED, MIDI-in) with two mutexes, a WaitGroup counter and a cancellable context, plus
   an access table (which goroutine reads / writes which Device field at which program point).  The goroutine structure
   and the access table are HAND-TRANSCRIBED from events.go / open_rgb.go / device.go; Go's scheduler, mutex, select and
   WaitGroup semantics are modelled, not proved (DESIGN 3.7, section 7).  Real memory races and real schedules are
   explored by the race-detector harness (1-8 real devices under `go test -race` with the LED rig), not proved here.
   [step] carries the variant in the state: [init true n] is the code with fix F13 (eventProcessMutex held around the
   clean-up loops), [init false n] the repository's code (defect D17); n = events already buffered in the input channel.
   All theorems quantify over every reachable state, i.e. all interleavings of the three goroutines with the
   environment (input events, close, MIDI-in messages, connect outcomes), of unbounded length, any number of events.

   Assumptions built into the model (Model/Lifecycle.v header): the output channel is drained (sends complete), the
   OpenRGB peer is responsive (UpdateLEDs / Connect return), timers fire, an event handler adds at most one tracked
   note.  NOT assumed: any fairness of the scheduler, of sync.Mutex or of select - see C16_terminates. *)
From Coq Require Import List Arith Bool NArith ZArith.
From HIDI Require Import Model.Relay Model.Lifecycle Proofs.LifecycleProofs.
From HIDI Require Model.Device.
Import ListNotations.

(* ---- termination.  From every reachable state in which the input stream has been closed (both variants):
   (1) along ANY execution, the number of the system's own steps is bounded by the ranking function [measure] of the
       start state plus what the environment added: every MIDI-in message taken adds at most 3 (lock, write, unlock),
       every LED frame that begins before main has executed cancel() at most 7 ([raise]); no other label adds anything
       (InputEvent / CloseInput are disabled once closed);
   (2) in particular every run of own steps only is finite, of length <= measure s: no fairness is needed, the system
       cannot loop on its own;
   (3) no deadlock: when no own step is enabled, ProcessEvents has returned and both background goroutines have
       finished - in particular while the LED goroutine holds eventProcessMutex and main waits for it, LED moves on.
   Honest reading of "always ends": Go's select chooses at random among ready cases, so with ctx cancelled AND MIDI-in
   messages arriving without pause, the exit of the MIDI-in goroutine needs select-fairness; and between close and
   cancel() the (endless by design) LED frame loop needs the scheduler to let main run.  Both are counted as environment
   labels here; after cancel() LFrameStart is disabled for good (C16_after_cancel). *)
Theorem C16_terminates : forall fx n s,
  reachable step (init fx n) s -> closed s = true ->
  forall ls s', exec step s ls s' ->
    count_own ls + measure s' <= measure s + total_raise ls /\
    (Forall (fun l => own l = true) ls -> length ls <= measure s) /\
    ((forall l, own l = true -> step s' l = None) -> finished s').
Proof. exact terminates. Qed.
Print Assumptions C16_terminates.

(* the ranking argument, one step: an own step lowers [measure] by at least 1, an environment label raises it by at most
   [raise] = 3 (MidiArrive), 7 (LFrameStart, InputEvent), 0 (CloseInput) - in ANY state *)
Theorem C16_measure_step : forall s l s',
  step s l = Some s' -> measure s' + (if own l then 1 else 0) <= measure s + raise l.
Proof. exact measure_step. Qed.
Print Assumptions C16_measure_step.

(* the size of the bound: 7 per buffered event, 1 per tracked note, 2 per remaining connect attempt, constants
   (one LED frame = 10, MIDI-in = 5, main = 12); [fuel s <= 20] *)
Theorem C16_measure_bound : forall fx n s,
  reachable step (init fx n) s ->
  measure s <= 7 * pending s + (n_keys s + n_analog s) + 2 * fuel s + 40 /\
  measure s <= 7 * pending s + (n_keys s + n_analog s) + 80.
Proof. exact measure_bound. Qed.
Print Assumptions C16_measure_bound.

(* progress, the heart of (3) *)
Theorem C16_progress : forall fx n s,
  reachable step (init fx n) s -> closed s = true -> pm s <> MReturned ->
  exists l, own l = true /\ step s l <> None.
Proof. exact progress_reachable. Qed.
Print Assumptions C16_progress.

(* after cancel() no LED frame begins any more, and cancellation is permanent; after close no input label is enabled *)
Theorem C16_after_cancel : forall s,
  (ctx s = true -> step s LFrameStart = None) /\
  (closed s = true -> step s InputEvent = None /\ step s CloseInput = None) /\
  (forall l s', step s l = Some s' -> (ctx s = true -> ctx s' = true) /\ (closed s = true -> closed s' = true)).
Proof. exact after_cancel. Qed.
Print Assumptions C16_after_cancel.

(* ---- nothing left behind: whenever ProcessEvents has returned, both goroutines have finished, the WaitGroup is at 0
   and both mutexes are free.  (The runtime timer of a pending time.After(250 ms) is not a goroutine; not modelled.) *)
Theorem C16_no_leftover : forall fx n s,
  reachable step (init fx n) s -> pm s = MReturned ->
  pl s = LDone /\ pi s = IDone /\ wg s = 0 /\ mu_ev s = None /\ mu_ext s = None.
Proof. exact no_leftover. Qed.
Print Assumptions C16_no_leftover.

(* ---- lock discipline of the fixed code.  Lockset form: whenever a goroutine is inside a region accessing field f it
   holds [guard f] (externalTrackerMutex for externalNoteTracker, eventProcessMutex for everything else).  Race form:
   no reachable state has two different goroutines simultaneously inside regions accessing a common field, at least
   one of them writing, without a common mutex ([conflictb], the same boolean the refutation below evaluates). *)
Theorem C16_lock_discipline : forall n s,
  reachable step (init true n) s ->
  (forall g f k, In (f, k) (accesses s g) -> holds s g (guard f) = true) /\ conflictb s = false.
Proof. exact lock_discipline. Qed.
Print Assumptions C16_lock_discipline.

(* ---- D17: in the repository's code a reachable state exists - one note held, input closed, the LED goroutine in the
   middle of a frame iterating noteTracker under eventProcessMutex - in which main runs the clean-up loops (deleting
   from noteTracker) without that mutex: a write/read conflict on noteTracker with no common mutex. *)
Theorem C16_cleanup_race_refuted :
  exists s, reachable step (init false 1) s /\ closed s = true /\
    pm s = MClean /\ n_keys s = 1 /\ pl s = LRead2 /\
    holds s GLed MuEvent = true /\ holds s GMain MuEvent = false /\
    conflict_on FNoteT s = true /\ conflictb s = true.
Proof. exact cleanup_race_refuted. Qed.
Print Assumptions C16_cleanup_race_refuted.

(* ---- no cross-talk.  The product of k device machines (Model/Device.v) with disjoint state: device j is element j of
   the list, a global schedule is a list of (device index, event), [prun] steps ONLY the addressed device.  For every
   schedule and every device j: its final state and its output list are exactly those of its stand-alone run on the
   events addressed to it, in order (with s = Device.init c this is [Device.run c]).
   This is a statement about the MODEL's product.  That the real devices share no package-level state is explored
   dynamically by the harness (several real devices side by side under -race), not proved. *)
Theorem C16_no_crosstalk : forall cs sched j c s,
  nth_error cs j = Some (c, s) ->
  exists d, nth_error (prun (pinit cs) sched) j = Some d /\
    pd_cfg d = c /\
    pd_st d = fst (Device.run_from c s (addressed j sched)) /\
    pd_out d = snd (Device.run_from c s (addressed j sched)).
Proof. exact no_crosstalk. Qed.
Print Assumptions C16_no_crosstalk.

(* two schedules that agree on the events addressed to j: device j cannot tell them apart *)
Theorem C16_no_crosstalk_schedules : forall cs sched1 sched2 j,
  addressed j sched1 = addressed j sched2 ->
  nth_error (prun (pinit cs) sched1) j = nth_error (prun (pinit cs) sched2) j.
Proof. exact no_crosstalk_schedules. Qed.
Print Assumptions C16_no_crosstalk_schedules.

(* ... including every device's disconnect clean-up at the end *)
Theorem C16_no_crosstalk_cleanup : forall cs sched j c s,
  nth_error cs j = Some (c, s) ->
  let r := Device.run_from c s (addressed j sched) in
  exists d, nth_error (pcleanup (prun (pinit cs) sched)) j = Some d /\
    pd_cfg d = c /\
    pd_st d = fst (Device.cleanup c (fst r)) /\
    Device.all_midi (pd_out d) = Device.all_midi (snd r) ++ snd (Device.cleanup c (fst r)).
Proof. exact no_crosstalk_cleanup. Qed.
Print Assumptions C16_no_crosstalk_cleanup.

(* ---- non-vacuity.  The D17 schedule in the fixed code: the same 16 steps are possible, but then main is blocked at
   the clean-up Lock (MCleanLockEv disabled) while the LED goroutine holds the mutex: no conflict; the stream is closed,
   so the hypotheses of C16_terminates hold in that state. *)
Example C16_example_fixed_blocks :
  match run_trace (init true 1) d17_trace with
  | Some s => closed s = true /\ pm s = MCleanLock /\ pl s = LRead2 /\ n_keys s = 1 /\
              step s MCleanLockEv = None /\ conflictb s = false /\ measure s = 13
  | None => False
  end.
Proof. vm_compute. repeat split; reflexivity. Qed.

(* ... and a complete run from there: LED finishes its frame and unlocks, main locks, releases the held note, unlocks,
   LED sees the cancellation and paints the final red frame, a last MIDI-in message is taken, both goroutines call
   wg.Done, wg.Wait returns.  16 own steps + one MidiArrive (raise 3): 16 <= 13 + 3, the bound is tight here. *)
Example C16_example_complete_run :
  let tail := [LReadDone; LUpdateDone; LUnlockEv; MCleanLockEv; MCleanKey; MCleanEnd; MCleanUnlockEv;
               LFrameEnd; LFinalDone; LWgDone; MidiArrive; ILockExt; IWriteDone; IUnlockExt; ICtxDone; IWgDone; MWaitDone] in
  match run_trace (init true 1) (d17_trace ++ tail) with
  | Some s => pm s = MReturned /\ pl s = LDone /\ pi s = IDone /\ wg s = 0 /\ n_keys s = 0 /\
              mu_ev s = None /\ mu_ext s = None /\ measure s = 0 /\
              count_own tail = 16 /\ total_raise tail = 3
  | None => False
  end.
Proof. vm_compute. repeat split; reflexivity. Qed.

(* the repository's code does not block there: the clean-up step is enabled while the LED goroutine reads *)
Example C16_example_original_no_lock :
  step d17_state MCleanLockEv = None /\ step d17_state MCleanKey <> None /\ step d17_state LReadDone <> None.
Proof. vm_compute. repeat split; discriminate. Qed.

(* a product of two devices: only the addressed one moves *)
Example C16_example_product :
  let c := {| Device.mappings := [{| Device.m_name := 0%N;
                                     Device.m_midi := [((0%N, 30%N), {| Device.k_note := 60%N; Device.k_off := 0%N |})];
                                     Device.m_analog := [] |}];
              Device.actions := []; Device.exitseq := []; Device.cmode_of := Device.COff;
              Device.d_octave := 0%Z; Device.d_semitone := 0%Z; Device.d_channel := 1%Z; Device.d_mapping := 0;
              Device.d_velocity := 64%Z |} in
  let sched := [(0, Device.EKey 0%N 30%N 1%Z); (1, Device.EKey 0%N 30%N 1%Z); (0, Device.EKey 0%N 30%N 0%Z)] in
  map (fun d => length (Device.all_midi (pd_out d))) (pcleanup (prun (pinit [(c, Device.init c); (c, Device.init c)]) sched))
  = [2; 2].
Proof. vm_compute. reflexivity. Qed.
