(* C13 — Panic silences the current channel and leaves the device consistent. *)
From Coq Require Import List NArith ZArith.
From HIDI Require Import Base.AList Model.Device Proofs.DeviceBasics Proofs.Recv Proofs.DeviceActions Proofs.DevicePanic
  Proofs.DevicePanicSim.
Import ListNotations.
Open Scope N_scope.

(* [panic_triggers c s k]: k is mapped to panic, its press does not complete the exit sequence, and no up/down pair is
   held (with a pair held, checkDoubleActions resets the pair again and the pressed action is not invoked). *)

(* the burst: in any state, any collision mode, any channel: All Notes Off + 128 explicit Note Offs on the current channel,
   nothing else; only the key and action trackers change *)
Theorem C13_burst : forall c s sub k,
  panic_triggers c s k ->
  step c s (EKey sub k 1) =
  (set_actionT (sadd action_eqb Panic (actionT s)) (set_keyT (sadd N.eqb k (keyT s)) s), emit (panic_burst (channel s))).
Proof. exact panic_press. Qed.
Print Assumptions C13_burst.

Theorem C13_burst_shape : forall ch,
  panic_burst ch = cc_event ch 123 0 :: map (fun n => note_off ch (N.of_nat n)) (seq 0 128) /\
  length (panic_burst ch) = 129%nat /\ (forall R, incl (recv R (panic_burst ch)) R).   (* starts no sound at any receiver state *)
Proof. exact burst_shape. Qed.
Print Assumptions C13_burst_shape.

(* transparency: for every history h1, every continuation h2 (keys still held release, later presses, anything):
   inserting a triggered press+release of the panic key between them changes no later output and not the final state.
   Hypotheses besides the trigger: the panic key is up (alternation) and no other panic source is currently engaged. *)
Theorem C13_transparent : forall c h1 sub sub' k h2,
  let s1 := fst (run c h1) in
  panic_triggers c s1 k -> ~ In k (keys_down h1) -> ~ In Panic (actionT s1) ->
  run c (h1 ++ EKey sub k 1 :: EKey sub' k 0 :: h2) =
  (fst (run c (h1 ++ h2)),
   snd (run c h1) ++ emit (panic_burst (channel s1)) :: silent :: snd (run_from c s1 h2)) /\
  run c (h1 ++ h2) = (fst (run c (h1 ++ h2)), snd (run c h1) ++ snd (run_from c s1 h2)).
Proof. exact panic_transparent. Qed.
Print Assumptions C13_transparent.

Example C13_example :
  let c := {| mappings := [{| m_name := 0; m_midi := [((0, 30), {| k_note := 60; k_off := 0 |})]; m_analog := [] |}];
              actions := [(1, Panic)]; exitseq := []; cmode_of := CNoRepeat;
              d_octave := 0; d_semitone := 0; d_channel := 3; d_mapping := 0; d_velocity := 64 |} in
  panic_triggers c (fst (run c [EKey 0 30 1])) 1 /\
  map (fun o => length (midi o)) (snd (run c [EKey 0 30 1; EKey 0 1 1; EKey 0 1 0; EKey 0 30 0])) = [1; 129; 0; 1]%nat.
Proof. cbv zeta. split; [split; [reflexivity|split; [reflexivity|intros []; reflexivity]]|vm_compute; reflexivity]. Qed.

(* transparency in general, without "no other panic source is engaged": [panic_eq s s'] = every field equal except the
   action tracker, and the action trackers equal apart from Panic.  Every event (keys, axis samples including
   action-emulating axes that track Panic themselves, EV_SYN) maps related states to related states with the same
   output, so nothing observable ever depends on the difference. *)
Theorem C13_step_sim : forall c s s' e,
  panic_eq s s' -> snd (step c s e) = snd (step c s' e) /\ panic_eq (fst (step c s e)) (fst (step c s' e)).
Proof. exact step_panic_eq. Qed.
Print Assumptions C13_step_sim.

Theorem C13_transparent_general : forall c h1 sub sub' k h2,
  let s1 := fst (run c h1) in
  panic_triggers c s1 k -> ~ In k (keys_down h1) ->
  snd (run c (h1 ++ EKey sub k 1 :: EKey sub' k 0 :: h2)) =
    snd (run c h1) ++ emit (panic_burst (channel s1)) :: silent :: snd (run_from c s1 h2)
  /\ snd (run c (h1 ++ h2)) = snd (run c h1) ++ snd (run_from c s1 h2)
  /\ panic_eq (fst (run c (h1 ++ EKey sub k 1 :: EKey sub' k 0 :: h2))) (fst (run c (h1 ++ h2))).
Proof. exact panic_transparent_general. Qed.
Print Assumptions C13_transparent_general.

(* what the two final states agree on *)
Theorem C13_transparent_observables : forall c h1 sub sub' k h2,
  let s1 := fst (run c h1) in
  panic_triggers c s1 k -> ~ In k (keys_down h1) ->
  let s := fst (run c (h1 ++ EKey sub k 1 :: EKey sub' k 0 :: h2)) in
  let s' := fst (run c (h1 ++ h2)) in
  octave s = octave s' /\ semitone s = semitone s' /\ channel s = channel s' /\ velocity s = velocity s' /\
  mapidx s = mapidx s' /\ learning s = learning s' /\ noteT s = noteT s' /\ analogT s = analogT s' /\
  counter s = counter s' /\ ccZ s = ccZ s' /\ keyT s = keyT s' /\
  (forall a, a <> Panic -> has_action s a = has_action s' a) /\
  (forall pk, pair_complete (actionT s) pk = pair_complete (actionT s') pk).
Proof. exact panic_transparent_observables. Qed.
Print Assumptions C13_transparent_observables.

(* two keys mapped to Panic, the first held while the second is pressed and released: the hypotheses of the general
   theorem hold, Panic is engaged, and the final states differ (in the action tracker only) - the relation is needed *)
Example C13_two_panic_keys :
  let c := {| mappings := [{| m_name := 0; m_midi := [((0, 30), {| k_note := 60; k_off := 0 |})]; m_analog := [] |}];
              actions := [(1, Panic); (2, Panic)]; exitseq := []; cmode_of := CNoRepeat;
              d_octave := 0; d_semitone := 0; d_channel := 3; d_mapping := 0; d_velocity := 64 |} in
  let h1 := [EKey 0 1 1] in
  let h2 := [EKey 0 30 1] in
  let s1 := fst (run c h1) in
  panic_triggers c s1 2 /\ ~ In 2 (keys_down h1) /\ In Panic (actionT s1) /\
  actionT (fst (run c (h1 ++ EKey 0 2 1 :: EKey 0 2 0 :: h2))) = [] /\
  actionT (fst (run c (h1 ++ h2))) = [Panic] /\
  fst (run c (h1 ++ EKey 0 2 1 :: EKey 0 2 0 :: h2)) <> fst (run c (h1 ++ h2)) /\
  map (fun o => length (midi o)) (snd (run c (h1 ++ EKey 0 2 1 :: EKey 0 2 0 :: h2))) = [129; 129; 0; 1]%nat.
Proof. exact two_panic_keys. Qed.

(* ---- the same at the PORT (Model/EndToEnd.v: any number of devices composed with the relay of C15, all interleavings,
   any channel capacities - in particular the 8 slots of production, far fewer than the 129 messages of a burst): once
   everything has drained, the port has received from device k exactly the stream of the history before the panic press,
   the complete burst, what the continuation produces from the state before the press, and the clean-up. *)
From HIDI Require Import Model.Relay Model.EndToEnd Proofs.EndToEndProofs.
Theorem C13_at_the_port : forall ds port_cap out_cap s k c h1 sub sub' kk h2,
  reachable (estep port_cap out_cap) (einit ds) s -> quiescent s ->
  nth_error ds k = Some (c, h1 ++ EKey sub kk 1 :: EKey sub' kk 0 :: h2) ->
  let s1 := fst (run c h1) in
  panic_triggers c s1 kk -> ~ In kk (keys_down h1) ->
  at_port s k = all_midi (snd (run c h1)) ++ panic_burst (channel s1) ++ all_midi (snd (run_from c s1 h2)) ++
                snd (cleanup c (fst (run c (h1 ++ EKey sub kk 1 :: EKey sub' kk 0 :: h2)))).
Proof. exact e2e_panic. Qed.
Print Assumptions C13_at_the_port.
