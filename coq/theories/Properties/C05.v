(* C05 — Every emitted message is well-formed MIDI. *)
From Coq Require Import List NArith ZArith.
From HIDI Require Import Base.AList Model.Device Proofs.DeviceBasics Proofs.DeviceWf.
Import ListNotations.
Open Scope N_scope.

(* [wf_msg m]: m = [status + channel; d1; d2] with status in {0x80, 0x90, 0xB0, 0xE0}, channel < 16, d1, d2 < 128.
   For every configuration whose defaults are what the (fixed) parser lets through ([wf_defaults]: 1 <= channel <= 16,
   0 <= velocity <= 127), EVERY history of key events (no alternation needed, any values) and analog samples whose
   data the float layer bounds ([wf_ev]: controller numbers and CC / pitch-bend data bytes < 128 - Model/AnalogF.v proves
   these for in-range axis positions), every message emitted while running and during the disconnect clean-up is
   well-formed, and the current channel stays below 16.  Partial only in that the sample bounds are a hypothesis here and
   a theorem of the float layer (C06) there. *)
Theorem C05_wf : forall c h,
  wf_defaults c -> Forall wf_ev h ->
  Forall wf_msg (all_midi (snd (run c h)) ++ snd (cleanup c (fst (run c h)))) /\ channel (fst (run c h)) < 16.
Proof. exact all_wf. Qed.
Print Assumptions C05_wf.

(* the decidable monitor evaluated on every message of every engine run is sound for wf_msg *)
Theorem C05_monitor_sound : forall m, wf_msgb m = true -> wf_msg m.
Proof. exact wf_msgb_sound. Qed.
Print Assumptions C05_monitor_sound.

(* D2: a default channel of 0 (accepted by the parser before the fix) makes Panic emit status byte 0xFF *)
Theorem C05_default_channel_refuted :
  let c := {| mappings := [empty_mapping]; actions := [(1, Panic)]; exitseq := []; cmode_of := COff;
              d_octave := 0; d_semitone := 0; d_channel := 0; d_mapping := 0; d_velocity := 64 |} in
  hd [] (all_midi (snd (run c [EKey 0 1 1]))) = [255; 123; 0] /\ wf_msgb [255; 123; 0] = false.
Proof. exact default_channel_zero_refuted. Qed.
Print Assumptions C05_default_channel_refuted.
