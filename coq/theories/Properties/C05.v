(* C05 — Every emitted message is well-formed MIDI. *)
From Coq Require Import List NArith ZArith.
From HIDI Require Import Base.AList Model.Notes Model.Device Model.Parser Model.AnalogF Model.AnalogSpec Proofs.DeviceBasics Proofs.DeviceWf
  Proofs.ParserDevice Proofs.AnalogGrid Proofs.AnalogProofs Proofs.AnalogGeneral Proofs.AnalogGeneral3 Proofs.AnalogMachine.
Import ListNotations.
Open Scope N_scope.

(* [wf_msg m]: m = [status + channel; d1; d2] with status in {0x80, 0x90, 0xB0, 0xE0}, channel < 16, d1, d2 < 128.
   For every configuration whose defaults are what the (fixed) parser lets through ([wf_defaults]: 1 <= channel <= 16,
   0 <= velocity <= 127), EVERY history of key events (no alternation needed, any values) and analog samples whose
   data the float layer bounds ([wf_ev]: controller numbers and CC / pitch-bend data bytes < 128 - Model/AnalogF.v proves
   these for in-range axis positions), every message emitted while running and during the disconnect clean-up is
   well-formed, and the current channel stays below 16.  Partial only in that the sample bounds are a hypothesis here and
   a theorem of the float layer (C06) there. *)
Theorem C05_wf : forall c h,
  wf_defaults c -> Forall wf_ev h ->
  Forall wf_msg (all_midi (snd (run c h)) ++ snd (cleanup c (fst (run c h)))) /\ channel (fst (run c h)) < 16.
Proof. exact all_wf. Qed.
Print Assumptions C05_wf.

(* the decidable monitor evaluated on every message of every engine run is sound for wf_msg *)
Theorem C05_monitor_sound : forall m, wf_msgb m = true -> wf_msg m.
Proof. exact wf_msgb_sound. Qed.
Print Assumptions C05_monitor_sound.

(* D2: a default channel of 0 (accepted by the parser before the fix) makes Panic emit status byte 0xFF *)
Theorem C05_default_channel_refuted :
  let c := {| mappings := [empty_mapping]; actions := [(1, Panic)]; exitseq := []; cmode_of := COff;
              d_octave := 0; d_semitone := 0; d_channel := 0; d_mapping := 0; d_velocity := 64 |} in
  hd [] (all_midi (snd (run c [EKey 0 1 1]))) = [255; 123; 0] /\ wf_msgb [255; 123; 0] = false.
Proof. exact default_channel_zero_refuted. Qed.
Print Assumptions C05_default_channel_refuted.

(* ---- where the hypotheses of C05_wf come from *)

(* every file the (fixed) parser accepts gives the device defaults satisfying [wf_defaults] and a valid default mapping,
   whatever numbering [subid] of the sub-handler names is used ... *)
Theorem C05_parser_gives_wf : forall T t c subid,
  convert T t = Ok c ->
  wf_defaults (to_device subid c) /\
  (d_mapping (to_device subid c) < length (mappings (to_device subid c)))%nat.
Proof. exact accepted_gives_wf. Qed.
Print Assumptions C05_parser_gives_wf.

(* ... and every axis entry the device can look up has controller numbers, notes and offsets in range *)
Theorem C05_parser_axis_in_range : forall T t c subid s sub code a,
  convert T t = Ok c ->
  find_analog (to_device subid c) s sub code = Some a ->
  a_cc a < 128 /\ a_ccneg a < 128 /\ a_note a < 128 /\ a_noteneg a < 128 /\ a_off a < 16 /\ a_offneg a < 16.
Proof. exact accepted_analog_in_range. Qed.
Print Assumptions C05_parser_axis_in_range.

(* the float layer: pitch-bend data bytes are below 128 for EVERY float (NaN and infinities included), and a sample
   carries exactly the axis entry it was built from *)
Theorem C05_sample_fields : forall code a canneg v,
  sa_an (make_sample code a canneg v) = a /\ sa_code (make_sample code a canneg v) = code /\
  sa_lsb (make_sample code a canneg v) < 128 /\ sa_msb (make_sample code a canneg v) < 128.
Proof. exact make_sample_fields. Qed.
Print Assumptions C05_sample_fields.

(* the controller VALUE byte: on the grid of C06 (every raw value of the 8-bit and hat axes, 20 deadzones, all flag and
   kind combinations) every transmitted message is well-formed - kernel evaluation; off the grid this conjunct is covered
   by the run-time monitor only (including non-finite and out-of-[0,1) deadzones, which the parser accepts) *)
Theorem C05_grid_axis_messages : forall b g raw,
  In b dz_bits -> In g (grid_for (f_of_bits b)) -> (q_mn g <= raw <= q_mx g)%Z ->
  forallb wf_msgb (axis_msgs g raw) = true.
Proof. exact grid_wf. Qed.
Print Assumptions C05_grid_axis_messages.

(* ... and off the grid as well: for EVERY axis range within int32 (minimum <= 0 < maximum, deadzone_at_center only with
   minimum 0), every raw value of the range, every finite deadzone 0 <= dz <= 1 - 2^-10, every flag / kind combination and
   controller numbers below 128 ([cfg_dom], Proofs/AnalogGeneral3.v) every message of an axis event is well-formed - from
   the real-number semantics of binary64 (Flocq), no evaluation.  Outside this domain (non-finite or larger deadzones, which
   the parser accepts) the run-time monitor remains the only check. *)
Theorem C05_general_axis_messages : forall g raw,
  cfg_dom g -> (q_mn g <= raw <= q_mx g)%Z -> forallb wf_msgb (axis_msgs g raw) = true.
Proof. exact axis_msgs_wf. Qed.
Print Assumptions C05_general_axis_messages.

(* ---- C05 for the FULL machine (float layer Model/AnalogF.v + state machine): this closes the partiality of C05_wf ("the sample
   bounds are a hypothesis") for configurations in the domain [machine_dom c fc ai] (Proofs/AnalogMachine.v): for every axis
   entry the device can look up in any mapping, the controller numbers are below 128 (C05_parser_axis_in_range), the axis'
   reported range satisfies -2^31 <= min <= 0 < max < 2^31 with deadzone_at_center only for min = 0 (an axis without absinfo
   reads as (0, 0) and is NOT in the domain), and a deadzone is configured for it and is a finite float in [0, 1 - 2^-10].
   For EVERY history of key events (any values), SYN events and axis events whose value lies in the reported range of its
   axis ([fev_in_range]; axes that no mapping mentions are unrestricted): the device never reaches the "no deadzone
   configured" panic ([frun] = Some ...), every message emitted while running and during the disconnect clean-up is
   well-formed, and the current channel stays below 16.
   Outside the domain - non-finite deadzones or deadzones above 1 - 2^-10 (the parser accepts them), axes without absinfo,
   raw values outside the reported range - the run-time monitor remains the only check. *)
Theorem C05_machine : forall c fc ai h,
  wf_defaults c -> machine_dom c fc ai -> Forall (fev_in_range c ai) h ->
  exists st outs, frun c fc ai h = Some (st, outs) /\
    Forall wf_msg (all_midi outs ++ snd (cleanup c (fst st))) /\ channel (fst st) < 16.
Proof. exact machine_wf. Qed.
Print Assumptions C05_machine.

(* the hypotheses are satisfiable: two mappings, a bidirectional controller pair on a 16-bit stick, a flipped pitch bend with
   deadzone_at_center on an 8-bit trigger, a history that moves both, switches the mapping and touches an unmapped axis *)
Example C05_machine_domain_inhabited :
  wf_defaults ex_config /\ machine_dom ex_config ex_fconfig ex_absinfos /\
  Forall (fev_in_range ex_config ex_absinfos) ex_history.
Proof. exact (conj (proj1 ex_machine_dom) (conj (proj2 ex_machine_dom) ex_history_in_range)). Qed.
