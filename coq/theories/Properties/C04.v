(* C04 — Transposition, channel arithmetic and state actions. *)
From Coq Require Import List NArith ZArith Bool.
From HIDI Require Import Base.AList Model.Device Proofs.DeviceBasics Proofs.ExitSeq Proofs.DevicePlay Proofs.DeviceActions.
Import ListNotations.
Open Scope N_scope.

(* A press of a mapped note key (not an action key, not completing the exit sequence), in ANY state s: with
   p = base + 12*octave + semitone and ch = (channel + offset) mod 16 (0-based; the user's numbering adds 1):
   inside 0..127 the step's messages are the collision rule applied to exactly (p, ch, velocity) and that pair is recorded;
   outside, nothing is sent and nothing but the key tracker changes. *)
Theorem C04_press_formula : forall c s sub k key,
  find_action c k = None -> exit_complete c (sadd N.eqb k (keyT s)) = false ->
  find_key c s sub k = Some key ->
  let p := (Z.of_N (k_note key) + 12 * octave s + semitone s)%Z in
  let ch := (channel s + k_off key) mod 16 in
  let st := step c s (EKey sub k 1) in
  if ((0 <=? p) && (p <=? 127))%Z
  then midi (snd st) = press_msgs (cmode_of c) (velocity s) (Z.to_N p, ch) (count_of s (Z.to_N p, ch)) /\
       get N.eqb k (noteT (fst st)) = Some (Z.to_N p, ch)
  else midi (snd st) = [] /\ fst st = set_keyT (sadd N.eqb k (keyT s)) s.
Proof. exact press_formula. Qed.
Print Assumptions C04_press_formula.

(* each Note On of a press is the triple (ch, p, velocity) *)
Theorem C04_press_messages : forall m vel p holders x,
  In x (press_msgs m vel p holders) -> x = note_on (snd p) (fst p) vel \/ x = note_off (snd p) (fst p).
Proof. exact press_msgs_note_on. Qed.
Print Assumptions C04_press_messages.

(* Unit steps and saturation: [spec_action] is the property's wording (octave/semitone +-1, channel min 15 (ch+1) /
   truncated ch-1, mapping min (n-1) (m+1) / pred m).  Partial: for octave and semitone strictly inside the int8 range;
   at the boundary the value wraps (C04_wrap_refuted, known finding K1). *)
Theorem C04_actions_partial : forall c a s,
  (-128 < octave s < 127)%Z -> (-128 < semitone s < 127)%Z -> channel s < 16 -> (mapidx s < length (mappings c))%nat ->
  play4 (fst (invoke_press c a s)) = spec_action (length (mappings c)) a (play4 s).
Proof. exact invoke_press_spec. Qed.
Print Assumptions C04_actions_partial.

Theorem C04_wrap_refuted : forall c s, octave s = 127%Z -> octave (fst (invoke_press c OctaveUp s)) = (-128)%Z.
Proof. exact octave_wrap_refuted. Qed.
Print Assumptions C04_wrap_refuted.

(* a press of an action key that completes no up/down pair applies exactly that action *)
Theorem C04_single_action : forall c s sub k a,
  find_action c k = Some a -> exit_complete c (sadd N.eqb k (keyT s)) = false ->
  let s2 := set_actionT (sadd action_eqb a (actionT s)) (set_keyT (sadd N.eqb k (keyT s)) s) in
  (forall pk, pair_complete (actionT s2) pk = false) ->
  step c s (EKey sub k 1) = (fst (invoke_press c a s2), emit (snd (invoke_press c a s2))).
Proof. exact action_press_single. Qed.
Print Assumptions C04_single_action.

(* a press that completes exactly one pair (the discipline of the quantifier) resets that parameter to its neutral
   value - octave 0, semitone 0, channel 1 (0-based 0), first mapping - and does NOT apply the single action *)
Theorem C04_pair_reset : forall c s sub k a pk,
  find_action c k = Some a -> exit_complete c (sadd N.eqb k (keyT s)) = false ->
  let held := sadd action_eqb a (actionT s) in
  pair_complete held pk = true -> (forall pk', pk' <> pk -> pair_complete held pk' = false) ->
  step c s (EKey sub k 1) = (reset_pair pk (set_actionT held (set_keyT (sadd N.eqb k (keyT s)) s)), silent).
Proof. exact action_press_pair. Qed.
Print Assumptions C04_pair_reset.

Theorem C04_initial : forall c,
  (-128 <= d_octave c <= 127)%Z -> (-128 <= d_semitone c <= 127)%Z -> (1 <= d_channel c <= 16)%Z -> (0 <= d_velocity c <= 127)%Z ->
  octave (init c) = d_octave c /\ semitone (init c) = d_semitone c /\
  Z.of_N (channel (init c)) = (d_channel c - 1)%Z /\ Z.of_N (velocity (init c)) = d_velocity c /\
  mapidx (init c) = d_mapping c /\ learning (init c) = false /\ noteT (init c) = [] /\ analogT (init c) = [].
Proof. exact initial_state. Qed.
Print Assumptions C04_initial.

(* mapping index stays inside the configured list along every history *)
Theorem C04_mapping_in_range : forall c h,
  (d_mapping c < length (mappings c))%nat -> (mapidx (fst (run c h)) < length (mappings c))%nat.
Proof. exact mapidx_run. Qed.
Print Assumptions C04_mapping_in_range.

(* D1 (fixed in /repo by "fix: compute the octave transposition in int, not int8"): the original expression
   int(d.octave*12) multiplied in int8; at octave 21 base note 10 sounded note 6 instead of staying silent. *)
Theorem C04_int8_product_refuted :
  let s := set_octave 21 (init {| mappings := []; actions := []; exitseq := []; cmode_of := COff; d_octave := 0; d_semitone := 0;
                                  d_channel := 1; d_mapping := 0; d_velocity := 64 |}) in
  transpose_orig s 10 = 6%Z /\ transpose s 10 = 262%Z.
Proof. vm_compute. split; reflexivity. Qed.
