(* C10 — Accepted configurations say what the file says; invalid values are rejected.
   Only statements, each closed by [exact]; definitions in Model/Parser.v, proofs in Proofs/ParserProofs.v.
   [convert T t] is ParseData after decoding (with fixes F2, F3, F4); [T] are the evdev name tables (arbitrary). *)
From Coq Require Import List NArith ZArith.
From HIDI Require Import Model.Device Model.Parser Proofs.ParserProofs.
Import ListNotations.
Open Scope N_scope.

(* Every accepted file is reflected field by field: every key's note and channel offset, every axis record with all
   its fields, deadzones and default deadzones per sub-handler (last table of a name wins), action keys, exit sequence,
   collision mode, identifier, colours, defaults with velocity 0 |-> 64, the default mapping index designates a mapping of that name. *)
Theorem C10_sound : forall T t c, convert T t = Ok c -> reflects T t c.
Proof. exact convert_sound. Qed.
Print Assumptions C10_sound.

(* When several mappings carry the default name, the index designates the last of them. *)
Theorem C10_default_is_last : forall T t c, convert T t = Ok c -> default_is_last t c.
Proof. exact convert_default_is_last. Qed.
Print Assumptions C10_default_is_last.

(* ... and every value is inside its MIDI range. *)
Theorem C10_ranges : forall T t c, convert T t = Ok c -> wf_pconfig c.
Proof. exact convert_ranges. Qed.
Print Assumptions C10_ranges.

(* Every class of invalid file named by the property is rejected with an error (never accepted, never a crash). *)
Theorem C10_rejects : forall T t, invalid T t -> exists e, convert T t = Err e.
Proof. exact convert_rejects. Qed.
Print Assumptions C10_rejects.

(* ... and nothing else is rejected. *)
Theorem C10_complete : forall T t, ~ invalid T t -> exists c, convert T t = Ok c.
Proof. exact convert_complete. Qed.
Print Assumptions C10_complete.

(* The run-time monitors are the relations of the theorems. *)
Theorem C10_monitors : forall T t c,
  (reflects_b T t c = true <-> reflects T t c) /\ (wf_pconfig_b c = true <-> wf_pconfig c).
Proof. exact (fun T t c => conj (reflects_b_spec T t c) (wf_pconfig_b_spec c)). Qed.
Print Assumptions C10_monitors.

Theorem C10_monitors_hold : forall T t c, convert T t = Ok c -> reflects_b T t c = true /\ wf_pconfig_b c = true.
Proof. exact (fun T t c H => conj (reflects_monitor T t c H) (ranges_monitor T t c H)). Qed.
Print Assumptions C10_monitors_hold.

(* The hypotheses are satisfiable: a valid file is accepted; invalid files exist. *)
Example C10_accepts_a_valid_file :
  exists c, convert T0 good_cfg = Ok c /\ reflects T0 good_cfg c /\ wf_pconfig c /\ ~ invalid T0 good_cfg.
Proof. exact good_cfg_accepted. Qed.

Example C10_invalid_files_exist : invalid T0 (cfg0 0 [] []) /\ invalid T0 (cfg0 1 [(s_key_a, [72; 49])] []).
Proof. exact invalid_inhabited. Qed.

(* The original code (before F2, F3, F4) violates the property. *)
Theorem C10_default_channel_refuted :
  exists c, convert_gen without_f2 T0 (cfg0 0 [] []) = Ok c /\ p_channel c = 0%Z /\ ~ wf_pconfig c /\ invalid T0 (cfg0 0 [] []).
Proof. exact default_channel_refuted. Qed.
Print Assumptions C10_default_channel_refuted.

Theorem C10_action_negative_refuted :
  convert_gen without_f3 T0 action_only = Crash /\
  (exists c, convert T0 action_only = Ok c) /\
  (exists c, convert_gen without_f3 T0 action_bogus_negative = Ok c /\ ~ wf_pconfig c) /\
  invalid T0 action_bogus_negative.
Proof. exact action_negative_refuted. Qed.
Print Assumptions C10_action_negative_refuted.

Theorem C10_analog_fields_refuted :
  (exists c, convert_gen without_f4 T0 good_cfg = Ok c /\ ~ reflects T0 good_cfg c) /\
  (exists c, convert_gen without_f4 T0 cc_offset_300 = Ok c /\ ~ wf_pconfig c /\ ~ reflects T0 cc_offset_300 c) /\
  invalid T0 cc_offset_300.
Proof. exact analog_fields_refuted. Qed.
Print Assumptions C10_analog_fields_refuted.
