(* C03 — Collision modes: emission rule per mode when keys share a pitch. *)
From Coq Require Import List NArith ZArith.
From HIDI Require Import Base.AList Model.Device Proofs.DeviceBasics Proofs.DeviceInv Proofs.DevicePlay.
Import ListNotations.
Open Scope N_scope.

(* [holders s p]: the number of keys whose tracker entry is the pair p = (note, channel), i.e. (by C02) the number of keys
   currently down whose most recent press resolved to p - directly, via offsets, or via transposition / channel changes
   made between presses.  [press_msgs] / [release_msgs] are the rule of the property:
     off        every press Note On, every release Note Off
     no_repeat  press: Note On only when there is no holder yet
     interrupt  press: Note Off then Note On when there already is a holder
     retrigger  press: always Note On
     managed modes: release sends Note Off iff the releasing key is the only holder. *)
Theorem C03_press : forall c h sub k p,
  alternating (h ++ [EKey sub k 1]) -> find_action c k = None ->
  let s := fst (run c h) in
  press_pair c s sub k = Some p ->
  midi (snd (step c s (EKey sub k 1))) = press_msgs (cmode_of c) (velocity s) p (Z.of_nat (holders s p)) /\
  holders (fst (step c s (EKey sub k 1))) p = S (holders s p).
Proof. exact collision_press. Qed.
Print Assumptions C03_press.

Theorem C03_release : forall c h sub k p,
  alternating (h ++ [EKey sub k 0]) -> find_action c k = None ->
  let s := fst (run c h) in
  get N.eqb k (noteT s) = Some p ->
  midi (snd (step c s (EKey sub k 0))) = release_msgs (cmode_of c) p (Z.of_nat (holders s p)) /\
  S (holders (fst (step c s (EKey sub k 0))) p) = holders s p.
Proof. exact collision_release. Qed.
Print Assumptions C03_release.

(* in the three managed modes the Note Off of an episode is sent exactly by the release of the last holder *)
Theorem C03_one_off_at_last_holder : forall c p n,
  cmode_of c <> COff ->
  release_msgs (cmode_of c) p (Z.of_nat n) = if Nat.eqb n 1 then [note_off (snd p) (fst p)] else [].
Proof. exact managed_release_last. Qed.
Print Assumptions C03_one_off_at_last_holder.

(* the rule itself, spelled out for one and two existing holders *)
Example C03_rule_table :
  forall v, map (fun m => (press_msgs m v (60, 0) 0, press_msgs m v (60, 0) 2, release_msgs m (60, 0) 2, release_msgs m (60, 0) 1))
                [COff; CNoRepeat; CInterrupt; CRetrigger] =
  [ ([note_on 0 60 v], [note_on 0 60 v], [note_off 0 60], [note_off 0 60]);
    ([note_on 0 60 v], [], [], [note_off 0 60]);
    ([note_on 0 60 v], [note_off 0 60; note_on 0 60 v], [], [note_off 0 60]);
    ([note_on 0 60 v], [note_on 0 60 v], [], [note_off 0 60]) ].
Proof. reflexivity. Qed.

(* non-vacuity: three keys reach one pitch (one directly, one by transposing between presses), released in press order *)
Example C03_example :
  let c := {| mappings := [{| m_name := 0; m_midi := [((0, 30), {| k_note := 60; k_off := 0 |}); ((0, 31), {| k_note := 60; k_off := 0 |});
                                                     ((0, 32), {| k_note := 48; k_off := 0 |})]; m_analog := [] |}];
              actions := [(59, OctaveUp)]; exitseq := []; cmode_of := CInterrupt;
              d_octave := 0; d_semitone := 0; d_channel := 1; d_mapping := 0; d_velocity := 64 |} in
  let h := [EKey 0 30 1; EKey 0 31 1; EKey 0 59 1; EKey 0 59 0; EKey 0 32 1; EKey 0 30 0; EKey 0 31 0; EKey 0 32 0] in
  alternating h /\
  all_midi (snd (run c h)) = [note_on 0 60 64; note_off 0 60; note_on 0 60 64; note_off 0 60; note_on 0 60 64; note_off 0 60].
Proof. cbv zeta. split; [apply alternatingb_sound; vm_compute; reflexivity|vm_compute; reflexivity]. Qed.
