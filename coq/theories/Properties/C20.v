(* C20 — Device discovery groups handlers into devices independently of order.
   Only statements, each closed by [exact]; definitions in Model/Discover.v, proofs in Proofs/DiscoverProofs.v.
   [l] is the list of discovered handlers in discovery order (any length, repetitions allowed),
   [normalize l] the devices built from it (Go: input.Normalize). *)
From Coq Require Import List NArith Bool Permutation.
From HIDI Require Import Model.Discover Proofs.DiscoverProofs.
Import ListNotations.
Open Scope N_scope.

(* every discovered handler ends up in a device, with its multiplicity and nothing else; devices have pairwise
   distinct physical locations and are never empty *)
Theorem C20_partition : forall l,
  Permutation (concat (map ghandlers (normalize l))) l /\ NoDup (map gphys (normalize l)) /\
  (forall g, In g (normalize l) -> ghandlers g <> []).
Proof. exact partition. Qed.
Print Assumptions C20_partition.

(* exactly one device per handler; two handlers share a device iff they report the same physical location;
   a device holds only discovered handlers, all of its own location *)
Theorem C20_same_phys : forall l,
  (forall h, In h l -> exists g, In g (normalize l) /\ In h (ghandlers g) /\
                                 forall g', In g' (normalize l) -> In h (ghandlers g') -> g' = g) /\
  (forall h1 h2, In h1 l -> In h2 l ->
     ((exists g, In g (normalize l) /\ In h1 (ghandlers g) /\ In h2 (ghandlers g)) <-> hphys h1 = hphys h2)) /\
  (forall g h, In g (normalize l) -> In h (ghandlers g) -> In h l /\ hphys h = gphys g).
Proof. exact same_phys. Qed.
Print Assumptions C20_same_phys.

(* joystick if any handler is joystick-like, otherwise keyboard if any handler is a standard keyboard,
   otherwise not a playable device (Mouse or Unknown; neither is started by the device manager) *)
Theorem C20_type : forall l g, In g (normalize l) ->
  let joy := exists h, In h (ghandlers g) /\ handler_type (hcaps h) = HJoystick in
  let kbd := exists h, In h (ghandlers g) /\ handler_type (hcaps h) = HStdKbd in
  (joy -> gtype g = DJoystick) /\
  (~ joy -> kbd -> gtype g = DKeyboard) /\
  (~ joy -> ~ kbd -> gtype g = DMouse \/ gtype g = DUnknown).
Proof. exact type_of_group. Qed.
Print Assumptions C20_type.

(* "joystick-like": reports force feedback or absolute axes and is not one of the keyboard+pointer composite sets *)
Theorem C20_joystick_like : forall c,
  handler_type c = HJoystick <->
  (In EV_FF c \/ In EV_ABS c) /\
  ~ same_set c [EV_SYN; EV_KEY; EV_REL; EV_ABS; EV_MSC; EV_LED; EV_REP] /\
  ~ same_set c [EV_SYN; EV_KEY; EV_REL; EV_ABS; EV_MSC].
Proof. exact joystick_like_spec. Qed.
Print Assumptions C20_joystick_like.

(* any two discovery orders of the same handlers give the same set of (location, multiset of handlers, type) *)
Theorem C20_order_free : forall l l', Permutation l l' -> view_equiv (normalize l) (normalize l').
Proof. exact order_free. Qed.
Print Assumptions C20_order_free.

(* the handler classification depends only on the set of reported capabilities (order, repetitions irrelevant) *)
Theorem C20_handler_type_set : forall c c', same_set c c' -> handler_type c = handler_type c'.
Proof. exact handler_type_set. Qed.
Print Assumptions C20_handler_type_set.

(* the run-time monitor [grouping_okb] decides the predicate the theorems above are instances of, the model passes it,
   and whatever passes it has the partition / same-location / type properties; [view_eqb] decides [view_equiv] *)
Theorem C20_monitor : forall l gs, grouping_okb l gs = true <-> grouping_ok l gs.
Proof. exact grouping_okb_spec. Qed.
Print Assumptions C20_monitor.

Theorem C20_monitor_model : forall l, grouping_okb l (normalize l) = true.
Proof. exact monitor_accepts_model. Qed.
Print Assumptions C20_monitor_model.

Theorem C20_monitor_implies : forall l gs, grouping_okb l gs = true ->
  Permutation (concat (map ghandlers gs)) l /\ NoDup (map gphys gs) /\
  (forall h, In h l -> exists g, In g gs /\ In h (ghandlers g) /\
                                 forall g', In g' gs -> In h (ghandlers g') -> g' = g) /\
  (forall h1 h2, In h1 l -> In h2 l ->
     ((exists g, In g gs /\ In h1 (ghandlers g) /\ In h2 (ghandlers g)) <-> hphys h1 = hphys h2)) /\
  (forall g, In g gs -> type_rule (ghandlers g) (gtype g)).
Proof. exact monitor_implies. Qed.
Print Assumptions C20_monitor_implies.

Theorem C20_view : forall a b, view_eqb a b = true <-> view_equiv a b.
Proof. exact view_eqb_spec. Qed.
Print Assumptions C20_view.

(* non-vacuity: a keyboard exposing a standard, an N-key-rollover and a mouse handler on location [117;49] ("u1"),
   a force-feedback gamepad and its motion sensor on [117;50], a lone mouse with an empty location, and a
   two-mouse device; discovered interleaved, and the same handlers in another order *)
Example C20_example :
  let kbd  := mkHandler 1 [117; 49] [EV_SYN; EV_KEY; EV_MSC; EV_LED; EV_REP] in
  let nkro := mkHandler 2 [117; 49] [EV_REP; EV_SYN; EV_KEY; EV_MSC; EV_KEY] in
  let kmou := mkHandler 3 [117; 49] [EV_SYN; EV_KEY; EV_REL; EV_MSC] in
  let pad  := mkHandler 4 [117; 50] [EV_SYN; EV_KEY; EV_ABS; EV_FF] in
  let sens := mkHandler 5 [117; 50] [EV_SYN; EV_ABS; EV_MSC] in
  let mou  := mkHandler 6 [] [EV_SYN; EV_KEY; EV_REL; EV_MSC] in
  let m2a  := mkHandler 7 [117; 51] [EV_SYN; EV_KEY; EV_REL; EV_MSC] in
  let m2b  := mkHandler 8 [117; 51] [EV_SYN; EV_KEY; EV_REL; EV_MSC] in
  normalize [nkro; pad; mou; kbd; m2a; sens; kmou; m2b] =
    [ mkGroup [117; 49] [nkro; kbd; kmou] DKeyboard; mkGroup [117; 50] [pad; sens] DJoystick;
      mkGroup [] [mou] DMouse; mkGroup [117; 51] [m2a; m2b] DUnknown ] /\
  normalize [m2b; sens; kmou; mou; m2a; kbd; pad; nkro] =
    [ mkGroup [117; 51] [m2b; m2a] DUnknown; mkGroup [117; 50] [sens; pad] DJoystick;
      mkGroup [117; 49] [kmou; kbd; nkro] DKeyboard; mkGroup [] [mou] DMouse ] /\
  view_eqb (normalize [nkro; pad; mou; kbd; m2a; sens; kmou; m2b]) (normalize [m2b; sens; kmou; mou; m2a; kbd; pad; nkro]) = true /\
  map (fun h => handler_type (hcaps h)) [kbd; nkro; kmou; pad; sens; mou] = [HStdKbd; HNkroKbd; HMouse; HJoystick; HJoystick; HMouse].
Proof. vm_compute. repeat split; reflexivity. Qed.
