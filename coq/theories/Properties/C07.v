(* C07 — Bidirectional CC: one side at a time, the side left behind is zeroed.
   Discrete level: the theorems quantify over ARBITRARY samples (any sequence of float positions, exact centre and direct
   jumps between opposite sides included); Model/AnalogF.v only decides which sample a position produces.
   [cc_value R (cc, ch)]: last value the receiver has seen for controller cc on channel ch (0 if never written). *)
From Coq Require Import List NArith ZArith Bool.
From HIDI Require Import Base.AList Model.Device Proofs.DeviceBasics Proofs.DeviceCC.
Import ListNotations.
Open Scope N_scope.

(* After every event of every history made of positions of a family of CC axes with pairwise distinct controller numbers
   and of presses/releases of the CC-learning key: for every bidirectional axis at most one of its two controllers is
   non-zero at the receiver. *)
Theorem C07_at_most_one : forall c A h r,
  cc_family A -> Forall (c07_event c A) (h ++ r) ->
  let s := fst (run c h) in let R := recv_cc [] (all_midi (snd (run c h))) in
  forall a, In a A -> a_bidi a = true -> cc_value R (pos_key s a) = 0 \/ cc_value R (neg_key s a) = 0.
Proof. intros c A h r HA He. apply at_most_one; [exact HA|exact (forall_prefix _ _ _ He)]. Qed.
Print Assumptions C07_at_most_one.

(* One transmitted event of a bidirectional axis (any state satisfying the invariant J, which every reachable state
   does): the controller of the side the stick is on carries the value, the other side is 0; a side that was non-zero and
   is being left gets an explicit 0 in this very step - also on a direct jump across the centre; nothing else changes at
   the receiver. *)
Theorem C07_side_and_zeroing : forall s R sa,
  let a := sa_an sa in
  a_bidi a = true -> a_cc a <> a_ccneg a -> J s R a ->
  let '(s', ms) := handle_cc s sa in
  let R' := recv_cc R ms in
  channel s' = channel s /\
  (if sa_neg sa
   then cc_value R' (neg_key s a) = sa_ccv sa /\ cc_value R' (pos_key s a) = 0
   else cc_value R' (pos_key s a) = sa_ccv sa /\ cc_value R' (neg_key s a) = 0) /\
  (sa_neg sa = true -> cc_value R (pos_key s a) <> 0 -> In (cc_event (snd (pos_key s a)) (a_cc a) 0) ms) /\
  (sa_neg sa = false -> cc_value R (neg_key s a) <> 0 -> In (cc_event (snd (neg_key s a)) (a_ccneg a) 0) ms) /\
  J s' R' a /\
  (forall k, k <> pos_key s a -> k <> neg_key s a -> cc_value R' k = cc_value R k) /\
  (forall cc, cc <> a_cc a -> cc <> a_ccneg a -> cc_zeroed s' cc = cc_zeroed s cc).
Proof. exact handle_cc_bidi. Qed.
Print Assumptions C07_side_and_zeroing.

(* the invariant holds in every reachable state of such histories, so the step theorem applies throughout *)
Theorem C07_invariant : forall c A h,
  cc_family A -> Forall (c07_event c A) h ->
  Inv7 A (fst (run c h)) (recv_cc [] (all_midi (snd (run c h)))).
Proof.
  intros c A h HA He. exact (proj2 (c07_run c A h (init c) [] HA He (init_no_pair c) (init_Inv7 c A))).
Qed.
Print Assumptions C07_invariant.

(* While CC-learning is held an event is processed iff the deflection is beyond half travel; a dropped event changes
   nothing, so the invariant - hence everything above - still holds afterwards. *)
Theorem C07_learning_gate : forall c s sa,
  learning s = true ->
  (sa_gate sa = false -> handle_sample c s sa = (s, silent)) /\
  (sa_gate sa = true -> a_type (sa_an sa) = ACC ->
   handle_sample c s sa = (fst (handle_cc s sa), emit (snd (handle_cc s sa)))).
Proof. intros c s sa H. split; [apply learning_gate; exact H|apply learning_gate_open; exact H]. Qed.
Print Assumptions C07_learning_gate.

(* ---- The FULL machine (float layer + state machine, [frun]; see C01_machine_bridge): C07's quantifier on the raw history is
   "any axis events, SYN, presses / releases of the CC-learning key" ([c07_fevent]); that every sample belongs to the family A
   becomes a hypothesis on the configuration: every axis entry the device can find in any mapping is in A ([axes_in]).
   Arbitrary deadzones (NaN included) and axis ranges. *)
From HIDI Require Import Model.AnalogF Proofs.MachineBridge.

Theorem C07_machine_at_most_one : forall c fc ai A h r st outs,
  cc_family A -> axes_in c A -> Forall (c07_fevent c) (h ++ r) -> frun c fc ai h = Some (st, outs) ->
  let s := fst st in let R := recv_cc [] (all_midi outs) in
  forall a, In a A -> a_bidi a = true -> cc_value R (pos_key s a) = 0 \/ cc_value R (neg_key s a) = 0.
Proof. exact machine_c07_at_most_one. Qed.
Print Assumptions C07_machine_at_most_one.

Theorem C07_machine_invariant : forall c fc ai A h st outs,
  cc_family A -> axes_in c A -> Forall (c07_fevent c) h -> frun c fc ai h = Some (st, outs) ->
  Inv7 A (fst st) (recv_cc [] (all_midi outs)).
Proof. exact machine_c07_invariant. Qed.
Print Assumptions C07_machine_invariant.

(* ---- at the PORT (Model/EndToEnd.v: any number of devices composed with the relay of C15, all interleavings, any channel
   capacities): at every event boundary of device k - nothing of the events it has taken left to hand over or in flight - at most
   one controller of each bidirectional pair is non-zero at the receiver behind the port. *)
From HIDI Require Import Model.Relay Model.EndToEnd Proofs.EndToEndProofs.
Theorem C07_at_the_port : forall ds port_cap out_cap s k d c h A,
  reachable (estep port_cap out_cap) (einit ds) s -> nth_error (e_devs s) k = Some d -> nth_error ds k = Some (c, h) ->
  at_boundary s k d -> cc_family A -> Forall (c07_event c A) h ->
  let R := recv_cc [] (at_port s k) in
  forall a, In a A -> a_bidi a = true ->
    cc_value R (pos_key (d_state d) a) = 0%N \/ cc_value R (neg_key (d_state d) a) = 0%N.
Proof. exact e2e_cc_at_most_one. Qed.
Print Assumptions C07_at_the_port.
