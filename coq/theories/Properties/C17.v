(* C17 — LED feedback shows the device's actual state.
   [Led.frame] transcribes open_rgb.go:497-648 as an ordered list of writes into the LED array (index maps built from the LED
   layout reported by the server, later writes win, uint8 subtraction); the theorems say that its value at an LED equals
   an independently written specification of what that LED must show.  Layouts, configurations, states and MIDI-input
   trackers are unbounded.  The model describes the code with the proposed fixes (velocity-0 Note On, action-LED
   guard); the original behaviour is refuted below.  Partial: |offset| <= 128 (K4 is a known finding). *)
From Coq Require Import List NArith ZArith Bool.
From HIDI Require Import Base.AList Model.Device Model.Led Proofs.DeviceBasics Proofs.LedProofs.
Import ListNotations.
Open Scope N_scope.

(* The LED [i] that the index map designates for key [kc]; [kc] is a note key of the current mapping (sub-handler "") with
   base note [k_note key] and carries no action.  Then LED [i] shows the first applicable of: Active (a held key sounds
   base+offset), ActiveExternal (MIDI input on the current channel has it), the colour of the lowest MIDI-input channel
   that has it, the pitch-class colour (C / black / white; white in the mapping named "Control") when base+offset is a
   MIDI note, Unavailable.  Hypotheses: |offset| <= 128; tracked notes are MIDI notes (invariants of reachable states,
   see C17_key_colour_reachable). *)
Theorem C17_key_colour_partial : forall c ctl ly s x kc key i,
  (-128 <= offset s <= 128)%Z ->
  imap ly kc = Some i ->
  find_key c s 0 kc = Some key -> k_note key < 128 ->
  find_action c kc = None ->
  held_valid s -> ext_valid x ->
  nth i (frame c ctl ly (s, x)) Off =
  spec_colour (m_name (cur_mapping c s) =? ctl) (offset s) (held_notes s) x (channel s) (k_note key).
Proof. exact key_colour. Qed.
Print Assumptions C17_key_colour_partial.

(* the same for every state reached from the initial state by any alternating key / axis history interleaved with any
   MIDI-input messages whose note numbers are data bytes *)
Theorem C17_key_colour_reachable : forall c ctl ly h ls os kc key i,
  lrun_from c (linit c) h = Some (ls, os) ->
  alternating (dev_events h) -> midi_valid h ->
  (-128 <= offset (fst ls) <= 128)%Z ->
  imap ly kc = Some i ->
  find_key c (fst ls) 0 kc = Some key -> k_note key < 128 ->
  find_action c kc = None ->
  nth i (frame c ctl ly ls) Off =
  spec_colour (m_name (cur_mapping c (fst ls)) =? ctl) (offset (fst ls)) (held_notes (fst ls)) (snd ls) (channel (fst ls)) (k_note key).
Proof. exact key_colour_reachable. Qed.
Print Assumptions C17_key_colour_reachable.

(* every LED of a key is the designated one when no two LEDs carry the same key *)
Theorem C17_led_designated : forall ly i0 code j, nth_error ly j = Some (Some code) -> exists j', imap_from i0 ly code = Some j'.
Proof. exact imap_from_complete. Qed.
Print Assumptions C17_led_designated.

(* octave / semitone / mapping / channel / multinote / panic keys: for ANY layout and configuration (with the action-LED
   guard nothing is required of the other actions); the key must not also be a note key of the current mapping *)
Theorem C17_state_keys : forall c ctl ly s x a kc i,
  is_state_action a = true -> a2c c a = Some kc -> imap ly kc = Some i -> find_key c s 0 kc = None ->
  nth i (frame c ctl ly (s, x)) Off = spec_action_colour (length (mappings c)) s a.
Proof. exact state_keys. Qed.
Print Assumptions C17_state_keys.

Theorem C17_frame_length : forall c ctl ly ls, length (frame c ctl ly ls) = length ly.
Proof. exact frame_length. Qed.
Print Assumptions C17_frame_length.

(* Note Off (with or without velocity byte) and Note On with velocity 0 remove the pair; Note On with velocity > 0 adds it *)
Theorem C17_ext_clear : forall x ch n v,
  ch < 16 ->
  midi_in x [NOTE_OFF + ch; n; v] = Some (srem pair_eqb (n, ch) x) /\
  midi_in x [NOTE_OFF + ch; n] = Some (srem pair_eqb (n, ch) x) /\
  midi_in x [NOTE_ON + ch; n; 0] = Some (srem pair_eqb (n, ch) x) /\
  (v <> 0 -> midi_in x [NOTE_ON + ch; n; v] = Some (sadd pair_eqb (n, ch) x)).
Proof. exact midi_in_rules. Qed.
Print Assumptions C17_ext_clear.

Theorem C17_ext_removed : forall (x : ext) p,
  ~ In p (srem pair_eqb p x) /\ (forall q, q <> p -> (In q (srem pair_eqb p x) <-> In q x)).
Proof. exact ext_removed. Qed.
Print Assumptions C17_ext_removed.

Theorem C17_ext_added : forall (x : ext) p,
  In p (sadd pair_eqb p x) /\ (forall q, q <> p -> (In q (sadd pair_eqb p x) <-> In q x)).
Proof. exact ext_added. Qed.
Print Assumptions C17_ext_added.

(* the panic action empties the tracker; every other device event leaves it; [fires_panic] is exactly the event on which
   the device emits the panic burst of C13 *)
Theorem C17_ext_clear_panic : forall c s x e,
  lstep c (s, x) (LDev e) = Some ((fst (step c s e), if fires_panic c s e then [] else x), snd (step c s e)).
Proof. exact panic_clears. Qed.
Print Assumptions C17_ext_clear_panic.

Theorem C17_panic_is_burst : forall c s e, fires_panic c s e = true -> midi (snd (step c s e)) = panic_burst (channel s).
Proof. exact fires_panic_burst. Qed.
Print Assumptions C17_panic_is_burst.

Theorem C17_final_red : forall ly,
  length (final_frame ly) = length ly /\ forall i, (i < length ly)%nat -> nth i (final_frame ly) Off = Red.
Proof. exact final_red. Qed.
Print Assumptions C17_final_red.

(* ---------------------------------------------------------------------- witnesses *)
Definition wcfg (oct : Z) : config :=
  {| mappings := [{| m_name := 0; m_midi := [((0, 16), {| k_note := 60; k_off := 0 |}); ((0, 17), {| k_note := 124; k_off := 0 |})];
                     m_analog := [] |}];
     actions := [(59, Panic); (60, OctaveUp)]; exitseq := []; cmode_of := COff;
     d_octave := oct; d_semitone := 0; d_channel := 1; d_mapping := 0; d_velocity := 64 |}.

(* the hypotheses are satisfiable: key Q held and sounding, MIDI input on channel 3 *)
Example C17_example :
  let c := wcfg 0 in
  match lrun_from c (linit c) [LDev (EKey 0 16 1); LMidi [146; 124; 90]; LDev (EKey 0 60 1)] with
  | Some (ls, _) => offset (fst ls) = 12%Z /\
                    frame c 9 [Some 17; None; Some 60; Some 16; Some 59] ls = [Unavailable; Unavailable; White2; ColC; Red]
  | None => False
  end /\
  match lrun_from c (linit c) [LDev (EKey 0 16 1); LMidi [146; 124; 90]] with
  | Some (ls, _) => frame c 9 [Some 17; None; Some 60; Some 16; Some 59] ls = [Chan 2; Unavailable; White1; Active; Red]
  | None => False
  end.
Proof. vm_compute. repeat split. Qed.

(* D18: in the original a Note On with velocity 0 switches the highlight ON and nothing but a Note Off or panic clears it *)
Theorem C17_velocity0_refuted :
  midi_in_orig [] [144; 60; 0] = Some [(60, 0)] /\ midi_in [] [144; 60; 0] = Some [] /\
  midi_in_orig [(60, 0)] [144; 60; 0] = Some [(60, 0)] /\
  match lstep_orig (wcfg 0) (linit (wcfg 0)) (LMidi [144; 60; 0]) with
  | Some (ls, _) => frame_orig (wcfg 0) 9 [Some 16] ls = Some [ActiveExternal]
  | None => False
  end.
Proof. vm_compute. repeat split. Qed.
Print Assumptions C17_velocity0_refuted.

(* K3: an action without key (here multinote, ..., as in the factory keyboard configuration) or whose key has no LED
   makes the original code write LED 0: the panic key's LED shows white1 instead of red; a note key that is out of range
   shows white1 instead of the unavailable colour; with no LED at all the goroutine indexes out of range *)
Theorem C17_led0_refuted :
  frame_orig (wcfg 0) 9 [Some 59; Some 16] (linit (wcfg 0)) = Some [White1; ColC] /\
  spec_action_colour 1 (init (wcfg 0)) Panic = Red /\
  frame (wcfg 0) 9 [Some 59; Some 16] (linit (wcfg 0)) = [Red; ColC] /\
  frame_orig (wcfg 1) 9 [Some 17; Some 59] (linit (wcfg 1)) = Some [White1; Red] /\
  frame (wcfg 1) 9 [Some 17; Some 59] (linit (wcfg 1)) = [Unavailable; Red] /\
  frame_orig (wcfg 0) 9 [] (linit (wcfg 0)) = None.
Proof. vm_compute. repeat split. Qed.
Print Assumptions C17_led0_refuted.

(* K4: |offset| >= 129: with octave 11 (offset 132) MIDI-input note 0 lights the key with base note 124, whose pitch
   124+132 = 256 is not note 0 (and not a MIDI note at all); the specification says "unavailable" *)
Theorem C17_alias_refuted :
  let c := wcfg 11 in
  offset (init c) = 132%Z /\
  frame c 9 [Some 17] (init c, [(0, 0)]) = [ActiveExternal] /\
  spec_colour false 132 [] [(0, 0)] 0 124 = Unavailable /\
  sub8 0 132 = 124.
Proof. vm_compute. repeat split. Qed.
Print Assumptions C17_alias_refuted.
