(* C19 - Configuration changes are noticed.

   Model: Model/Watcher.v - the event filter [notify] of internal/pkg/midi/device/config/monitor.go as a pure function on
   (fsnotify Op bit mask, name bytes), and DetectDeviceConfigChanges as a labelled transition system
   {inotify queue -> fsnotify readEvents -> unbuffered Events -> filter -> unbuffered hand-off `change` -> consumer;
    ctx cancellation -> helper -> watcher.Close -> Events closed -> range ends -> close(change)}.
   [step true] / [notify] = the code with fix F15 (patches/C19-watcher.diff); [step false] / [notify_v false] = the
   repository's code, for which the three D19 witnesses below are stated.
   All theorems quantify over every reachable state, i.e. all interleavings of the three goroutines with the environment
   (kernel events of any mask and name at any moment, a consumer that reads or does not, cancellation at any point), for
   unboundedly long executions.  What is modelled rather than proved: Go's scheduler, channel and select semantics
   (DESIGN 3.7), fsnotify v1.5.1 and the kernel's inotify (which events a file operation produces: Run/WatcherRun.v
   [kernel_events], validated per run against a second watcher). *)
From Coq Require Import List NArith Arith Bool.
From HIDI Require Import Model.Relay Model.Watcher Run.WatcherRun Proofs.WatcherProofs.
Import ListNotations.

(* ---- the filter, for every Op mask and every byte string (indeed every list of numbers): an event is notified exactly
   when its mask has the Write bit and its lower-cased name ends in ".toml" *)
Theorem C19_filter : forall e : event,
  notify e = true <-> N.testbit (ev_op e) 1 = true /\ exists pre, lower (ev_name e) = pre ++ dot_toml.
Proof. exact filter_spec. Qed.
Print Assumptions C19_filter.

(* the same on the name itself: its last five bytes are '.', 't'|'T', 'o'|'O', 'm'|'M', 'l'|'L' *)
Theorem C19_filter_bytes : forall e : event,
  notify e = true <->
  N.testbit (ev_op e) 1 = true /\
  exists pre t o m l, ev_name e = pre ++ [46; t; o; m; l]%N /\
                      (t = 116 \/ t = 116 - 32)%N /\ (o = 111 \/ o = 111 - 32)%N /\
                      (m = 109 \/ m = 109 - 32)%N /\ (l = 108 \/ l = 108 - 32)%N.
Proof. exact filter_spec_bytes. Qed.
Print Assumptions C19_filter_bytes.

(* ---- no loss, no invention (both variants).  [seen s] = the events the filter has judged so far, in order.  The number of
   them it accepted equals the notifications taken by the consumer + the one being handed over + the one abandoned at
   shutdown (at most one, and none before cancel); events it rejected contribute nothing.  The kernel's events are
   judged in order, none skipped: [enq s] (everything queued) = judged ++ in the pipeline ++ discarded at shutdown (nothing
   before cancel).  Hence never more notifications than accepted events queued. *)
Theorem C19_every_write_notified : forall (fixed : bool) (s : state),
  reachable (step fixed) init s ->
  count_notified fixed (seen s) = delivered s + pending s + aborted s /\
  aborted s <= 1 /\
  (ctx_done s = false -> aborted s = 0 /\ dropped s = []) /\
  enq s = seen s ++ got_list s ++ opt_list (rd s) ++ kq s ++ dropped s /\
  delivered s <= count_notified fixed (enq s).
Proof. exact every_write_notified. Qed.
Print Assumptions C19_every_write_notified.

(* ... and with a consumer that keeps reading, every queued event is processed: before cancel, every sequence of system
   steps and consumer reads (no new kernel event) is finite - explicit bound [measure] - and when neither the system nor
   the consumer can move the pipeline is empty, every event has been judged and the consumer has received exactly one
   notification per accepted event. *)
Theorem C19_all_delivered : forall (fixed : bool) (s : state),
  reachable (step fixed) init s -> ctx_done s = false -> reader s = RRun ->
  forall ls s', exec (step fixed) s ls s' -> Forall (fun l => no_input l = true) ls ->
    length ls <= measure s /\
    ((forall l, no_input l = true -> step fixed s' l = None) ->
     drained s' /\ seen s' = enq s /\ delivered s' = count_notified fixed (enq s)).
Proof. exact all_delivered. Qed.
Print Assumptions C19_all_delivered.

(* ---- shutdown, fixed code.  From every reachable state after cancel - a hand-off pending or not, events queued or not -
   every sequence of system steps and consumer reads is finite (bound [measure]; in particular every run of system steps
   alone: the consumer need never read again), and a state in which no system step is enabled is completely shut down:
   notification stream closed, range-loop goroutine, helper goroutine and fsnotify's reader all returned. *)
Theorem C19_shutdown : forall s : state,
  reachable (step true) init s -> ctx_done s = true ->
  forall ls s', exec (step true) s ls s' -> Forall (fun l => no_input l = true) ls ->
    length ls <= measure s /\
    ((forall l, is_system l = true -> step true s' l = None) -> finished s').
Proof. exact shutdown. Qed.
Print Assumptions C19_shutdown.

(* progress form: after cancel, until everything is shut down some system step is enabled *)
Theorem C19_shutdown_progress : forall s : state,
  reachable (step true) init s -> ctx_done s = true -> ~ finished s ->
  exists l, is_system l = true /\ step true s l <> None.
Proof. exact shutdown_progress. Qed.
Print Assumptions C19_shutdown_progress.

(* ---- D19 (c), repository's code: a reachable state after cancel with the hand-off pending in which no system step is
   enabled and the stream is not closed - the goroutine stays blocked in `change <- true` until somebody reads. *)
Theorem C19_shutdown_stuck_refuted :
  exists s : state,
    reachable (step false) init s /\ ctx_done s = true /\ pending s = 1 /\
    (forall l, is_system l = true -> step false s l = None) /\
    change_closed s = false /\ pc s <> Done /\ step false s Read <> None.
Proof. exact shutdown_stuck_refuted. Qed.
Print Assumptions C19_shutdown_stuck_refuted.

(* ---- D19 (a): the repository's filter accepts a write to "footoml", which is not a .toml name *)
Theorem C19_suffix_refuted :
  notify_v false (mkEv OP_WRITE footoml) = true /\ notify (mkEv OP_WRITE footoml) = false /\
  ~ (exists pre, lower footoml = pre ++ dot_toml).
Proof. exact suffix_refuted. Qed.
Print Assumptions C19_suffix_refuted.

(* ---- D19 (b): the repository's filter drops the event Write|Chmod on "a.toml" (what inotify delivers when a set-id file
   is truncated by a process without CAP_FSETID: one event IN_MODIFY|IN_ATTRIB) *)
Theorem C19_opmask_refuted :
  notify_v false (mkEv (OP_WRITE + OP_CHMOD) a_toml) = false /\ notify (mkEv (OP_WRITE + OP_CHMOD) a_toml) = true.
Proof. exact opmask_refuted. Qed.
Print Assumptions C19_opmask_refuted.

(* ---- non-vacuity *)
(* the D19 (c) schedule exists in the fixed code too; there the hand-off is abandoned and everything shuts down *)
Example C19_example_fixed_unblocks :
  match run_trace true init (stuck_trace ++ [SendAbort; CloseChange]) with
  | Some s => pc s = Done /\ change_closed s = true /\ helper s = HDone /\ reader s = RExit /\ aborted s = 1 /\ delivered s = 0
  | None => False
  end.
Proof. vm_compute. repeat split; reflexivity. Qed.

Example C19_example_original_no_abort : step false stuck_state SendAbort = None.
Proof. reflexivity. Qed.

(* hypotheses of C19_shutdown / C19_all_delivered are satisfiable *)
Example C19_example_pending_at_cancel :
  match run_trace true init stuck_trace with
  | Some s => ctx_done s = true /\ pending s = 1 /\ measure s = 4
  | None => False
  end.
Proof. vm_compute. repeat split; reflexivity. Qed.

Example C19_example_delivery :
  match run_trace true init [StartOk; KernelEvent toml_write; KernelEvent (mkEv OP_CHMOD a_toml); KernelEvent toml_write;
                             FsRead; Recv; Filter; FsRead; Read; Recv; Filter; FsRead; Recv; Filter; Read] with
  | Some s => drained s /\ delivered s = 2 /\ length (seen s) = 3 /\ ctx_done s = false /\ reader s = RRun
  | None => False
  end.
Proof. vm_compute. repeat split; reflexivity. Qed.

(* the filter on concrete names; the monitors on small histories *)
Local Open Scope N_scope.
Example C19_example_filter :
  notify (mkEv OP_WRITE [80; 46; 84; 79; 77; 76]) = true /\           (* "P.TOML" *)
  notify (mkEv OP_CREATE a_toml) = false /\
  notify (mkEv OP_WRITE [97; 46; 116; 111; 109; 108; 126]) = false /\  (* "a.toml~" *)
  notify (mkEv OP_WRITE [46; 116; 111; 109; 108]) = true /\            (* ".toml" *)
  notify (mkEv OP_WRITE [116; 111; 109; 108]) = false.                 (* "toml" *)
Proof. vm_compute. repeat split; reflexivity. Qed.

Example C19_example_monitors :
  let w := mkStep 1000 1100 Append true a_toml [] in
  let x := mkStep 700000 700100 Append true footoml [] in
  accepts 500000 1000000 300000 (mkHist [w; x] [1200] 0 2000000) (mkShut 2000000 (Some 2000900) (Some 2001000)) = true /\
  lost 500000 (mkHist [w; x] [] 0 2000000) = [0] /\                                (* write not notified *)
  invented 500000 (mkHist [w; x] [1200; 700300] 0 2000000) = [1; 1] /\             (* notification for "footoml" *)
  lost 500000 (mkHist [w] [] 0 400000) = [] /\                                     (* consumer stopped before the deadline *)
  shutdown_ok 1000000 300000 (mkShut 5 None None) = false /\
  budget (mkStep 0 1 SuidTrunc true a_toml []) = 1 /\ budget (mkStep 0 1 Rename true a_toml a_toml) = 0 /\
  budget (mkStep 0 1 TruncWrite false a_toml []) = 0 /\
  (* the file is renamed away afterwards: fsnotify may discard the Write event, no obligation *)
  lost 500000 (mkHist [w; mkStep 1200 1300 Rename true a_toml footoml] [] 0 2000000) = [] /\
  obligations 500000 (mkHist [w; x] [] 0 2000000) = [true; false].
Proof. vm_compute. repeat split; reflexivity. Qed.
