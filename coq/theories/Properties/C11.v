(* C11 — Note names and numbers are a bijection; nothing else is a note name.
   Only statements, each closed by [exact]; proofs live in Proofs/NotesProofs.v. *)
From Coq Require Import List NArith ZArith.
From HIDI Require Import Model.Notes Proofs.NotesProofs.
Import ListNotations.
Open Scope N_scope.

(* For every byte string (no length bound) the uint8 implementation equals the independent
   specification: letter A-G in either case, optional '#', no E#/B#, octave -2..8, value <= 127. *)
Theorem C11_spec : forall s : list N, string_to_note s = spec s.
Proof. exact string_to_note_spec. Qed.
Print Assumptions C11_spec.

Theorem C11_roundtrip : forall n, n < 128 -> string_to_note (name n) = Some n.
Proof. exact roundtrip. Qed.
Print Assumptions C11_roundtrip.

Theorem C11_inverse : forall s n, string_to_note s = Some n -> n < 128 /\ canon s = name n.
Proof. exact inverse. Qed.
Print Assumptions C11_inverse.

(* The accepted language is exactly the explicit 280-entry table the implementation is swept against. *)
Theorem C11_table : forall s n, string_to_note s = Some n <-> In (s, n) accepted.
Proof. exact (accepted_iff true). Qed.
Print Assumptions C11_table.

Theorem C11_table_size : length accepted = 280%nat /\ NoDup (map fst accepted).
Proof. exact (conj accepted_count accepted_nodup). Qed.
Print Assumptions C11_table_size.

(* The original, unchecked table lookup violates the property (witnesses "H1", "E#1"). *)
Theorem C11_unchecked_lookup_refuted :
  string_to_note_gen false [72; 49] = Some 36 /\ string_to_note_gen false [69; 35; 49] = Some 36 /\
  spec [72; 49] = None /\ spec [69; 35; 49] = None.
Proof. exact unchecked_lookup_refuted. Qed.
Print Assumptions C11_unchecked_lookup_refuted.
