(* C14 — Exit sequence fires exactly when all its keys are down, and swallows that press.
   [keys_down] is defined from the history alone (Proofs/DeviceBasics.v): a press adds the code, a release removes it,
   repeats are ignored.  [out_at c h i] is the output of the i-th event of history h from the initial state. *)
From Coq Require Import List NArith ZArith.
From HIDI Require Import Base.AList Model.Device Proofs.DeviceBasics Proofs.ExitSeq.
Import ListNotations.
Open Scope N_scope.

(* never before: for every history, every configuration (no hypothesis at all - keys may be note or action keys) *)
Theorem C14_never_before : forall c h1 e h2,
  sigs (out_at c (h1 ++ e :: h2) (length h1)) <> 0%nat ->
  (exists sub k, e = EKey sub k 1) /\ exitseq c <> [] /\
  forall k, In k (exitseq c) -> In k (keys_down (h1 ++ [e])).
Proof. exact never_before. Qed.
Print Assumptions C14_never_before.

(* fires, exactly once, on the completing press; that press emits nothing and changes only the key tracker *)
Theorem C14_fires_and_swallows : forall c h1 sub k h2,
  exitseq c <> [] -> (forall x, In x (exitseq c) -> In x (keys_down (h1 ++ [EKey sub k 1]))) ->
  out_at c (h1 ++ EKey sub k 1 :: h2) (length h1) = {| midi := []; sigs := 1 |} /\
  fst (step c (fst (run c h1)) (EKey sub k 1)) = set_keyT (keys_down (h1 ++ [EKey sub k 1])) (fst (run c h1)).
Proof. exact fires. Qed.
Print Assumptions C14_fires_and_swallows.

Theorem C14_empty : forall c h i, exitseq c = [] -> sigs (out_at c h i) = 0%nat.
Proof. exact empty_never. Qed.
Print Assumptions C14_empty.

(* non-vacuity: a two-key sequence whose keys are an action key and a note key *)
Example C14_example :
  let c := {| mappings := [{| m_name := 0; m_midi := [((0, 30), {| k_note := 60; k_off := 0 |})]; m_analog := [] |}];
              actions := [(1, Panic)]; exitseq := [1; 30]; cmode_of := COff;
              d_octave := 0; d_semitone := 0; d_channel := 1; d_mapping := 0; d_velocity := 64 |} in
  map sigs (snd (run c [EKey 0 1 1; EKey 0 1 0; EKey 0 30 1; EKey 0 1 1])) = [0; 0; 0; 1]%nat /\
  midi (out_at c [EKey 0 1 1; EKey 0 1 0; EKey 0 30 1; EKey 0 1 1] 3) = [].
Proof. vm_compute. split; reflexivity. Qed.
