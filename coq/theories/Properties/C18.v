(* C18 — Start-up upkeep never touches user files and always restores factory files.
   Only statements, each closed by [exact]; proofs live in Proofs/UpkeepProofs.v, the model of
   cmd/hidi/config.go:updateHIDIConfiguration in Model/Upkeep.v.

   Quantification: every template [T] in fs.WalkDir order ([wf_template], checked by the kernel on the template
   dumped from the real binary on every run), every tree [s] ([fs_wf]: it is a tree), of any size; where stated,
   [type_consistent T s]: no directory where the template has a file and vice versa.  Paths are innermost name
   first; [is_under factoryp p] = "p is hidi-config/factory or below". *)
From Coq Require Import List NArith Bool.
From HIDI Require Import Base.AList Model.Upkeep Proofs.UpkeepProofs.
Import ListNotations.
Open Scope N_scope.

(* Whatever the tree looks like (type conflicts included), after ANY prefix of the mutations of a run (a run
   interrupted after k system calls): every node that existed outside factory/ - user/**, hidi.toml, an existing
   blacklist, other files - is unchanged, and no path the template does not name (extra files, also inside
   factory/) is created, removed or changed. *)
Theorem C18_user_untouched : forall T s, wf_template T -> fs_wf s ->
  forall k,
    (forall p n, lookup s p = Some n -> is_under factoryp p = false ->
                 lookup (apply s (firstn k (fst (upkeep T s)))) p = Some n) /\
    (forall p, ~ In p (keys T) -> lookup (apply s (firstn k (fst (upkeep T s)))) p = lookup s p).
Proof. exact user_untouched. Qed.
Print Assumptions C18_user_untouched.

(* A complete run succeeds and every template path under factory/ then holds exactly the template node
   (absent, truncated, modified, longer or shorter files; absent directories). *)
Theorem C18_factory_restored : forall T s, wf_template T -> fs_wf s -> type_consistent T s ->
  snd (upkeep T s) = Ok /\
  forall p n, In (p, n) T -> is_under factoryp p = true -> lookup (run T s) p = Some n.
Proof. exact factory_restored. Qed.
Print Assumptions C18_factory_restored.

(* The blacklist is created from the template iff it is absent: absent -> afterwards the template's content;
   present -> no operation of the run targets it and it keeps its content at every point of the run. *)
Theorem C18_blacklist : forall T s, wf_template T -> fs_wf s -> type_consistent T s ->
  (lookup s blp = None -> exists d, In (blp, File d) T /\ lookup (run T s) blp = Some (File d)) /\
  (forall n, lookup s blp = Some n ->
     Forall (fun op => target op <> blp) (fst (upkeep T s)) /\
     forall k, lookup (apply s (firstn k (fst (upkeep T s)))) blp = Some n).
Proof. exact blacklist_rule. Qed.
Print Assumptions C18_blacklist.

(* No configuration directory: the run succeeds and the result is exactly the template tree (every template path
   holds its template node) laid over what was there (every other path is as before). *)
Theorem C18_fresh : forall T s, wf_template T -> fs_wf s -> lookup s cfgp = None ->
  snd (upkeep T s) = Ok /\
  forall p, lookup (run T s) p = match lookup T p with Some n => Some n | None => lookup s p end.
Proof. exact fresh_tree. Qed.
Print Assumptions C18_fresh.

(* Running it again issues no mutation at all. *)
Theorem C18_idempotent : forall T s, wf_template T -> fs_wf s -> type_consistent T s ->
  upkeep T (run T s) = ([], Ok).
Proof. exact idempotent. Qed.
Print Assumptions C18_idempotent.

(* A run interrupted after any number k of its mutations - or in the middle of the k-th write, with any prefix of
   the data written - leaves a tree on which a later run succeeds, restores every factory entry, still has every
   node that originally existed outside factory/, and after which a further run does nothing. *)
Theorem C18_crash_recovery : forall T s, wf_template T -> fs_wf s -> type_consistent T s ->
  forall crash, crash_prefix (fst (upkeep T s)) crash ->
    let s' := apply s crash in
    snd (upkeep T s') = Ok /\
    (forall p n, In (p, n) T -> is_under factoryp p = true -> lookup (run T s') p = Some n) /\
    (forall p n, lookup s p = Some n -> is_under factoryp p = false -> lookup (run T s') p = Some n) /\
    upkeep T (run T s') = ([], Ok).
Proof. exact crash_recovery. Qed.
Print Assumptions C18_crash_recovery.

(* Type conflict below factory/ (a directory where the template has file p, or a regular file at an ancestor of p):
   the run reports an error, and - as for every tree, C18_user_untouched assumes no type consistency - at every point
   of the failed run every node that existed outside factory/ is unchanged. *)
Theorem C18_type_conflict_safe : forall T s p d, wf_template T -> fs_wf s -> lookup s cfgp <> None ->
  In (p, File d) T -> is_under factoryp p = true -> conflict s p ->
  snd (upkeep T s) = Err /\
  forall k q n, lookup s q = Some n -> is_under factoryp q = false ->
                lookup (apply s (firstn k (fst (upkeep T s)))) q = Some n.
Proof. exact type_conflict_safe. Qed.
Print Assumptions C18_type_conflict_safe.

(* The decidable monitor evaluated on the observed before/after/after-again trees of the real code implies the
   specification, and the model satisfies that specification on its whole domain. *)
Theorem C18_monitor_sound : forall T b a a2, c18_monitor T b a a2 = true -> c18_spec T b a a2.
Proof. exact monitor_sound. Qed.
Print Assumptions C18_monitor_sound.

Theorem C18_model_spec : forall T s, wf_template T -> fs_wf s -> type_consistent T s ->
  c18_spec T s (run T s) (run T (run T s)).
Proof. exact model_spec. Qed.
Print Assumptions C18_model_spec.

(* The decidable domain checks evaluated on every generated case imply the hypotheses of the theorems. *)
Theorem C18_domain_checks : forall T s,
  (wf_templateb T = true -> wf_template T) /\ (fs_wfb s = true -> fs_wf s) /\
  (type_consistentb T s = true -> type_consistent T s).
Proof. exact (fun T s => conj (wf_templateb_sound T) (conj (fs_wfb_sound s) (type_consistentb_sound T s))). Qed.
Print Assumptions C18_domain_checks.

(* The hypotheses are satisfiable and the run is not trivial: a template with factory/README (content [7;8;9]),
   factory/kbd/ with a file, hidi.toml, user/ and the blacklist; a tree in which README is modified and longer,
   factory/kbd is missing, the blacklist is missing, a user file and an extra file inside factory/ exist. *)
Definition ex_T : template :=
  [([0], Dir); ([2; 0], File [1; 1]); ([1; 0], Dir); ([10; 1; 0], File [7; 8; 9]); ([11; 1; 0], Dir);
   ([12; 11; 1; 0], File [5]); ([13; 0], File [3]); ([14; 0], Dir)].
Definition ex_s : fs :=
  [([], Dir); ([0], Dir); ([1; 0], Dir); ([10; 1; 0], File [7; 0; 9; 9; 9]); ([20; 1; 0], File [4; 4]);
   ([14; 0], Dir); ([21; 14; 0], File [6]); ([13; 0], File [])].

Example C18_example :
  wf_template ex_T /\ fs_wf ex_s /\ type_consistent ex_T ex_s /\
  upkeep ex_T ex_s =
    ([Truncate [10; 1; 0]; Write [10; 1; 0] [7; 8; 9]; Mkdir [11; 1; 0]; Create [12; 11; 1; 0]; Write [12; 11; 1; 0] [5];
      Create [2; 0]; Write [2; 0] [1; 1]], Ok) /\
  lookup (run ex_T ex_s) [10; 1; 0] = Some (File [7; 8; 9]) /\
  lookup (run ex_T ex_s) [21; 14; 0] = Some (File [6]) /\
  lookup (run ex_T ex_s) [20; 1; 0] = Some (File [4; 4]) /\
  lookup (run ex_T ex_s) [13; 0] = Some (File []) /\
  c18_monitor ex_T ex_s (run ex_T ex_s) (run ex_T (run ex_T ex_s)) = true.
Proof.
  split; [apply wf_templateb_sound; reflexivity|].
  split; [apply fs_wfb_sound; reflexivity|].
  split; [apply type_consistentb_sound; reflexivity|].
  repeat split; reflexivity.
Qed.

(* without O_TRUNC on the overwrite a longer modified file would keep its tail: the model's [Write] shows it *)
Example C18_write_keeps_tail :
  lookup (apply ex_s [Create [10; 1; 0]; Write [10; 1; 0] [7; 8; 9]]) [10; 1; 0] = Some (File [7; 8; 9; 9; 9]).
Proof. reflexivity. Qed.

(* a type conflict: a directory sits where factory/README should be *)
Example C18_conflict_example :
  let s := [([], Dir); ([0], Dir); ([1; 0], Dir); ([10; 1; 0], Dir); ([14; 0], Dir); ([21; 14; 0], File [6])] in
  fs_wf s /\ conflict s [10; 1; 0] /\ upkeep ex_T s = ([], Err).
Proof. split; [apply fs_wfb_sound; reflexivity|]. split; [left; reflexivity|reflexivity]. Qed.
