(* C09 — Configuration parsing is total: error or configuration, never a crash.
   Only statements, each closed by [exact]; definitions in Model/Parser.v, proofs in Proofs/ParserProofs.v.
   The go-toml decoder is an oracle with outcomes DecOk / DecErr / DecPanic; [guard] is the recover wrapper (F8).
   Not provable here, assumed: the decoder terminates and its panics are recoverable ones (exercised by the search). *)
From Coq Require Import List NArith ZArith.
From HIDI Require Import Model.Device Model.Parser Proofs.ParserProofs.
Import ListNotations.
Open Scope N_scope.

(* The conversion of a decoded device configuration never panics, whatever the tables and the decoded values (after F3). *)
Theorem C09_convert_total : forall T t, convert T t <> Crash.
Proof. exact convert_total. Qed.
Print Assumptions C09_convert_total.

(* The conversion of a decoded hidi.toml never panics (after F7) ... *)
Theorem C09_hidi_total : forall r, hidi_convert r <> Crash.
Proof. exact hidi_total. Qed.
Print Assumptions C09_hidi_total.

(* ... and what it accepts has positive rates and non-negative periods. *)
Theorem C09_hidi_periods : forall r c, hidi_convert r = Ok c ->
  (0 < h_pool r /\ 0 < h_disc r /\ 0 <= hc_throttle c /\ 0 <= hc_disc c /\
   hc_throttle c = 1000000000 / h_pool r /\ hc_disc c = 1000000000 / h_disc r)%Z.
Proof. exact hidi_periods. Qed.
Print Assumptions C09_hidi_periods.

(* ParseData / LoadHIDIConfig for EVERY decoder outcome, including a panicking decoder (after F8). *)
Theorem C09_parse_total : forall T (dec : dec_outcome toml_cfg), guard dec (convert T) <> Crash.
Proof. exact parse_data_total. Qed.
Print Assumptions C09_parse_total.

Theorem C09_load_hidi_total : forall (dec : dec_outcome hidi_raw), guard dec hidi_convert <> Crash.
Proof. exact load_hidi_total. Qed.
Print Assumptions C09_load_hidi_total.

(* The original code violates the property. *)
Theorem C09_action_negative_refuted :
  convert_gen without_f3 T0 action_only = Crash /\
  (exists c, convert T0 action_only = Ok c) /\
  (exists c, convert_gen without_f3 T0 action_bogus_negative = Ok c /\ ~ wf_pconfig c) /\
  invalid T0 action_bogus_negative.
Proof. exact action_negative_refuted. Qed.
Print Assumptions C09_action_negative_refuted.

Theorem C09_hidi_rates_refuted :
  hidi_convert_gen false {| h_pool := 0; h_disc := 1; h_stab := 500 |} = Crash /\
  hidi_convert_gen false {| h_pool := 120; h_disc := 0; h_stab := 500 |} = Crash /\
  (exists c, hidi_convert_gen false {| h_pool := -4; h_disc := 1; h_stab := 500 |} = Ok c /\ (hc_throttle c < 0)%Z) /\
  hidi_convert {| h_pool := 120; h_disc := 1; h_stab := 500 |}
    = Ok {| hc_throttle := 8333333; hc_disc := 1000000000; hc_stab := 500000000 |}.
Proof. exact hidi_rates_refuted. Qed.
Print Assumptions C09_hidi_rates_refuted.

Theorem C09_decoder_panic_refuted :
  guard_gen false (@DecPanic toml_cfg) (convert T0) = Crash /\ guard_gen false (@DecPanic hidi_raw) hidi_convert = Crash.
Proof. exact decoder_panic_refuted. Qed.
Print Assumptions C09_decoder_panic_refuted.
