(* C15 - MIDI transport: in order, exactly once; device removal always completes.

   Models: Model/Relay.v (ProcessMidiEvents: both directions are chains of bounded FIFO stages) and Model/Fanout.v
   (DynamicFanOut as a labelled transition system; [step fixed icap]: fixed = false is the algorithm of the repository,
   fixed = true the algorithm with fix F12; icap = capacity of the input channel, also the capacity of every output).
   All theorems quantify over every reachable state, i.e. over all interleavings of the system's goroutines with the
   environment labels (emitters, input stream, consumers that read or do not, SpawnOutput / DespawnOutput calls at
   arbitrary moments), for unboundedly long executions and any number of consumers.
   What is modelled rather than proved: Go's scheduler, channel, select and mutex semantics (DESIGN 3.7, section 7). *)
From Coq Require Import List Arith Bool NArith.
From HIDI Require Import Model.Relay Model.Fanout Run.TransportRun Proofs.TransportProofs.
Import ListNotations.

(* ---- relay, out-direction: what the port has received, followed by what is in flight (relay's [ev], the channels), is
   exactly the sequence in which messages entered midiEventsOut - nothing lost, duplicated or reordered - and the
   subsequence of each emitter k is exactly what k has sent, in its order. *)
Theorem C15_relay_fifo : forall (M : Type) (port_cap out_cap : nat) (s : @ostate M),
  reachable (ostep port_cap out_cap) oinit s ->
  delivered (o_pipe s) ++ in_flight (o_pipe s) = o_entered s /\
  forall k, proj k (delivered (o_pipe s) ++ in_flight (o_pipe s)) = o_sent s k.
Proof. intros M. exact relay_fifo. Qed.
Print Assumptions C15_relay_fifo.

(* in-direction: port -> receive channel -> pump goroutine -> inEvents (cap 10) -> relay goroutine -> midiEventsIn -> fan-out *)
Theorem C15_relay_in_fifo : forall (M : Type) (in_cap recv_cap : nat) (s : @istate M),
  reachable (istep in_cap recv_cap) iinit s ->
  delivered (i_pipe s) ++ in_flight (i_pipe s) = i_arrived s.
Proof. intros M. exact in_fifo. Qed.
Print Assumptions C15_relay_in_fifo.

(* ---- fan-out safety.  [hist s] = the input stream as broadcast so far; a consumer inserted at stream position
   a = |c_pre o| has received (read ++ still buffered) exactly the stream from a up to the current position - minus at
   most the element being broadcast that it has still to get ([pending]) - in order, without duplicate or gap.
   Only in the fixed algorithm, and only for a consumer whose DespawnOutput has been called ([c_leaving]), the segment
   may stop early ([c_skipped]): it is then a gap-free prefix.  A removed consumer (in [gone]) was sent a gap-free
   prefix of the segment [a, b) where b = g_b is the position at its removal - all of it unless it was skipped, and
   always all of it in the repository's algorithm. *)
Theorem C15_fanout_segment : forall (T : Type) (fixed : bool) (icap : nat) (s : @state T),
  reachable (step fixed icap) init s ->
  (forall o, In o (outs s) ->
     (c_skipped o = false -> hist s = c_pre o ++ c_read o ++ c_q o ++ pending s (c_id o)) /\
     (c_skipped o = true -> fixed = true /\ c_leaving o = true /\
                            exists rest, hist s = c_pre o ++ c_read o ++ c_q o ++ rest) /\
     c_read o ++ c_q o = firstn (length (c_read o ++ c_q o)) (skipn (length (c_pre o)) (hist s)) /\
     length (c_q o) <= icap) /\
  (forall g, In g (gone s) ->
     let o := g_out g in
     (exists rest, hist s = c_pre o ++ c_read o ++ c_q o ++ rest) /\
     c_read o ++ c_q o = firstn (length (c_read o ++ c_q o)) (skipn (length (c_pre o)) (hist s)) /\
     length (c_pre o) + length (c_read o ++ c_q o) <= g_b g /\ g_b g <= length (hist s) /\
     (c_skipped o = false -> length (c_pre o) + length (c_read o ++ c_q o) = g_b g) /\
     (fixed = false -> c_skipped o = false)) /\
  NoDup (ids (outs s)).
Proof. intros T. exact fanout_segment. Qed.
Print Assumptions C15_fanout_segment.

(* every step of attaching or detaching another consumer leaves consumer i's record (queue, what it has read, its
   segment start), the stream and what is pending for i untouched *)
Theorem C15_independent : forall (T : Type) (fixed : bool) (icap : nat) (s : @state T) l s' i o,
  step fixed icap s l = Some s' -> attach_detach_other i l = true -> get_out i (outs s) = Some o ->
  get_out i (outs s') = Some o /\ hist s' = hist s /\ pending s' i = pending s i.
Proof. intros T. exact independent. Qed.
Print Assumptions C15_independent.

(* ---- liveness of DespawnOutput, fixed algorithm.  From every reachable state in which DespawnOutput(i) is pending,
   every sequence of steps of the system and of reads by consumers other than i - no read by i is needed - is finite
   (explicit bound: the ranking function [measure]); and in a state where no such step is enabled the call has
   returned.  (Steps of the environment that create new work - Produce, CallSpawn, CallDespawn - are excluded from the
   run: with a never-ending input stream completion additionally needs the fairness of sync.Mutex, which is assumed.) *)
Theorem C15_despawn_completes : forall (T : Type) (icap : nat) (s : @state T) (i : nat),
  1 <= icap -> reachable (step true icap) init s -> despawn_pending s i = true ->
  forall ls s', exec (step true icap) s ls s' -> Forall (fun l => allowed i l = true) ls ->
    length ls <= measure s /\
    ((forall l, allowed i l = true -> step true icap s' l = None) -> despawn_pending s' i = false).
Proof. intros T. exact despawn_completes. Qed.
Print Assumptions C15_despawn_completes.

(* progress, the heart of it: while DespawnOutput(i) is pending some system step or some read by another consumer is enabled *)
Theorem C15_despawn_progress : forall (T : Type) (icap : nat) (s : @state T) (i : nat),
  1 <= icap -> reachable (step true icap) init s -> despawn_pending s i = true ->
  exists l, allowed i l = true /\ step true icap s l <> None.
Proof.
  intros T icap s i Hc R Hp. exact (progress true icap s i eq_refl Hc (inv_reachable true icap s R) Hp).
Qed.
Print Assumptions C15_despawn_progress.

(* a pending call stops being pending only by its own return *)
Theorem C15_despawn_returns : forall (T : Type) (fixed : bool) (icap : nat) (s : @state T) l s' i,
  step fixed icap s l = Some s' -> despawn_pending s i = true -> despawn_pending s' i = false -> l = DespawnRelease i.
Proof. intros T. exact pending_ends_by_return. Qed.
Print Assumptions C15_despawn_returns.

(* ---- D16: in the repository's algorithm a reachable state exists in which DespawnOutput(0) is pending and no system
   step at all is enabled (run holds the mutex, blocked on consumer 0's full queue); consumer 1 is starved. *)
Theorem C15_despawn_stuck_refuted :
  exists s : @state nat,
    reachable (step false 1) init s /\ despawn_pending s 0 = true /\
    (forall l, is_system l = true -> step false 1 s l = None) /\
    pending s 1 = [11] /\ step false 1 s (Read 1) = None.
Proof. exact despawn_stuck_refuted. Qed.
Print Assumptions C15_despawn_stuck_refuted.

(* ---- the monitors of Run/TransportRun.v (the functions evaluated on the histories recorded from the Go code) accept
   every execution of the models *)
Theorem C15_relay_monitor_sound : forall (M : Type) port_cap out_cap n (eqb : M -> M -> bool) (s : @ostate M),
  (forall x, eqb x x = true) ->
  reachable (ostep port_cap out_cap) oinit s -> in_flight (o_pipe s) = [] ->
  (forall p, In p (o_entered s) -> fst p < n) ->
  relay_accepts (fun a b => (fst a =? fst b) && eqb (snd a) (snd b)) fst
    (map (fun k => map (pair k) (o_sent s k)) (seq 0 n)) (delivered (o_pipe s)) = true.
Proof. intros M. exact relay_monitor_sound. Qed.
Print Assumptions C15_relay_monitor_sound.

Theorem C15_in_monitor_sound : forall (M : Type) in_cap recv_cap (eqb : M -> M -> bool) (s : @istate M),
  (forall x, eqb x x = true) -> reachable (istep in_cap recv_cap) iinit s -> in_flight (i_pipe s) = [] ->
  in_accepts eqb (i_arrived s) (delivered (i_pipe s)) = true.
Proof. intros M. exact in_monitor_sound. Qed.
Print Assumptions C15_in_monitor_sound.

(* payload of the k-th input item = k (the harness' tagging); g = any removed consumer, k = how many items it took from
   its channel.  The record uses the model's stream positions at the Spawn call / insert and the Despawn call / removal;
   the harness' counters bound them from the accepting side ([C15_monitor_mono]). *)
Theorem C15_fanout_monitor_sound : forall fixed icap (s : @state nat) g k,
  reachable (step fixed icap) init s -> hist s = seq 0 (length (hist s)) -> In g (gone s) ->
  consumer_accepts (N.of_nat (icap + 2)) (obs (fun x => x) g k) = true.
Proof. exact fanout_monitor_sound. Qed.
Print Assumptions C15_fanout_monitor_sound.

Theorem C15_monitor_mono : forall slack r sc sr dc dr,
  consumer_accepts slack r = true -> (sc <= r_sc r)%N -> (r_sr r <= sr)%N -> (dc <= r_dc r)%N -> (r_dr r <= dr)%N ->
  consumer_accepts slack (mkCrec (r_returned r) sc sr dc dr (r_drained r) (r_recv r)) = true.
Proof. exact consumer_accepts_mono. Qed.
Print Assumptions C15_monitor_mono.

(* ---- non-vacuity.  The D16 schedule in the fixed algorithm: the same 23 steps are possible, then run aborts the
   blocked send, serves consumer 1, and DespawnOutput(0) returns; consumer 0 got the prefix [10] of its segment. *)
Example C15_example_fixed_unblocks :
  match run_trace (step true 1) init
          (d16_trace ++ [RunAbort 0; RunCheck 1; RunSend 1; RunUnlock; DespawnAcquire 0; DespawnRemove 0; DespawnRelease 0]) with
  | Some s => despawn_pending s 0 = false /\ map (fun g => (c_pre (g_out g), sent (g_out g), g_b g)) (gone s) = [([], [10], 2)] /\
              map (fun o => (c_id o, c_read o, c_q o)) (outs s) = [(1, [10], [11])] /\ own s = Free
  | None => False
  end.
Proof. vm_compute. repeat split; reflexivity. Qed.

(* in the repository's algorithm the abort step does not exist *)
Example C15_example_original_no_abort : step false 1 d16_state (RunAbort 0) = None.
Proof. reflexivity. Qed.

(* the hypotheses of C15_despawn_completes are satisfiable: the same state, in the fixed model, has the call pending *)
Example C15_example_pending :
  match run_trace (step true 1) init d16_trace with
  | Some s => despawn_pending s 0 = true /\ measure s = 10
  | None => False
  end.
Proof. vm_compute. split; reflexivity. Qed.

(* the monitors on small concrete histories: accepted, and rejected when a message is lost / reordered / duplicated *)
Local Open Scope N_scope.
Example C15_example_monitors :
  relay_ok [[[144; 0; 0]; [144; 0; 1]]; [[129; 0; 0]]] [[144; 0; 0]; [129; 0; 0]; [144; 0; 1]] = true /\
  relay_ok [[[144; 0; 0]; [144; 0; 1]]; [[129; 0; 0]]] [[144; 0; 1]; [129; 0; 0]; [144; 0; 0]] = false /\
  relay_ok [[[144; 0; 0]; [144; 0; 1]]; [[129; 0; 0]]] [[144; 0; 0]; [129; 0; 0]] = false /\
  consumer_accepts 10 (mkCrec true 5 5 40 41 true [5; 6; 7; 8]) = false /\       (* ended long before the despawn call *)
  consumer_accepts 10 (mkCrec true 5 5 40 41 true (map N.of_nat (seq 5 35)%nat)) = true /\
  consumer_accepts 10 (mkCrec true 5 5 40 41 true [5; 6; 8; 9]) = false /\       (* gap *)
  consumer_accepts 10 (mkCrec false 5 5 40 41 false [5; 6]) = false.             (* DespawnOutput did not return *)
Proof. vm_compute. repeat split; reflexivity. Qed.

(* ---- attaching: a new consumer is inserted behind everything any consumer has already received.  From a reachable state in which
   consumer o has read the stream up to position q = |c_pre o| + |c_read o|, after ANY steps of anybody, a consumer inserted then starts at a
   position >= q with nothing read and nothing queued.  (The run-time check uses this: the first item of a consumer must lie behind the
   highest item somebody had already received when its SpawnOutput was called.) *)
From HIDI Require Import Proofs.FanoutAttach.
Theorem C15_attach_behind_received : forall (T : Type) (fixed : bool) (icap : nat) (s s1 s2 : @state T) o ls i n,
  reachable (step fixed icap) init s -> In o (outs s) ->
  exec (step fixed icap) s ls s1 -> step fixed icap s1 (SpawnInsert i) = Some s2 -> get_out i (outs s2) = Some n ->
  (length (c_pre o) + length (c_read o) <= length (c_pre n))%nat /\ c_read n = [] /\ c_q n = [].
Proof. intros T. exact insert_behind_received. Qed.
Print Assumptions C15_attach_behind_received.

(* ---- end to end: device models composed with the relay (Model/EndToEnd.v).  Any number of devices, each executing its
   own history with the device model of C01-C08/C13/C14 and handing its messages over one at a time with blocking sends;
   the relay goroutine and the port interleave arbitrarily; channel capacities are arbitrary.  In every reachable state,
   for every device k: received by the port from k ++ in flight for k ++ still to be sent by k = the stream the device
   model prescribes for k's history (the messages of every step in order, then the clean-up) - nothing lost, duplicated,
   reordered or taken from another device.  Tie to the code: the stream stage of the device checks (production
   capacity, lagging consumer) on top of the stepped correspondence. *)
From Coq Require Import ZArith.
From HIDI Require Import Base.AList Model.Device Model.EndToEnd Proofs.EndToEndProofs.
Local Close Scope N_scope.
Theorem C15_device_to_port : forall ds port_cap out_cap s,
  reachable (estep port_cap out_cap) (einit ds) s ->
  forall k d c h, nth_error (e_devs s) k = Some d -> nth_error ds k = Some (c, h) ->
    at_port s k ++ in_relay s k ++ remaining d = device_stream c h.
Proof. exact e2e_stream. Qed.
Print Assumptions C15_device_to_port.

(* when nothing is left to do anywhere, the port has received exactly that stream from every device *)
Theorem C15_device_to_port_complete : forall ds port_cap out_cap s,
  reachable (estep port_cap out_cap) (einit ds) s -> quiescent s ->
  forall k c h, nth_error ds k = Some (c, h) -> at_port s k = device_stream c h.
Proof. exact e2e_quiescent. Qed.
Print Assumptions C15_device_to_port_complete.

(* before that, at every event boundary of a device (it has handed over everything of the events it has taken and nothing of it is
   in flight), the port has received exactly the model's output for the prefix of the history processed so far - so every theorem
   about the outputs of prefixes (C01 quiescence, C07 ...) holds at the port at those moments, whatever the other devices are doing *)
Theorem C15_device_to_port_boundary : forall ds port_cap out_cap s k d c h,
  reachable (estep port_cap out_cap) (einit ds) s -> nth_error (e_devs s) k = Some d -> nth_error ds k = Some (c, h) ->
  at_boundary s k d ->
  d_done d ++ d_todo d = h /\ d_state d = fst (run c (d_done d)) /\ at_port s k = all_midi (snd (run c (d_done d))).
Proof. exact e2e_boundary. Qed.
Print Assumptions C15_device_to_port_boundary.

(* and that point is always reachable: a state that is not quiescent has an enabled step (the port reads; a blocked
   sender is blocked only while something is in flight) *)
Theorem C15_pipeline_progress : forall ds port_cap out_cap s,
  reachable (estep port_cap out_cap) (einit ds) s -> quiescent s \/ exists l s', estep port_cap out_cap s l = Some s'.
Proof. exact e2e_progress. Qed.
Print Assumptions C15_pipeline_progress.

(* non-vacuity: two devices (a key tapped on one, a key held at disconnect on the other) under two different schedules
   (relay first / devices first) with the production capacities: both runs end quiescent, and the port has received the
   same per-device streams *)
Local Open Scope N_scope.
Definition e2e_cfg (ch : Z) : config :=
  {| mappings := [{| m_name := 0; m_midi := [((0, 30), {| k_note := 60; k_off := 0 |}); ((0, 31), {| k_note := 62; k_off := 1 |})]; m_analog := [] |}];
     actions := [(1, Panic)]; exitseq := []; cmode_of := CInterrupt;
     d_octave := 0%Z; d_semitone := 0%Z; d_channel := ch; d_mapping := 0%nat; d_velocity := 64%Z |}.
Definition e2e_ds : list (config * list ev) :=
  [(e2e_cfg 1%Z, [EKey 0 30 1%Z; EKey 0 31 1%Z; EKey 0 30 0%Z; EKey 0 1 1%Z; EKey 0 1 0%Z; EKey 0 31 0%Z]); (e2e_cfg 5%Z, [EKey 0 31 1%Z; EKey 0 30 1%Z; EKey 0 30 0%Z])].
Definition relay_first : list elabel :=
  [RelayL Deliver; RelayL (Move 0); RelayL (Move 1); DSend 0; DSend 1; DTake 0; DTake 1; DClose 0; DClose 1]%nat.
Definition devices_first : list elabel :=
  [DSend 1; DTake 1; DClose 1; DSend 0; DTake 0; DClose 0; RelayL (Move 1); RelayL (Move 0); RelayL Deliver]%nat.
Example C15_end_to_end_example :
  let a := sched 16 8 relay_first 2000 (einit e2e_ds) in
  let b := sched 16 8 devices_first 2000 (einit e2e_ds) in
  reachable (estep 16 8) (einit e2e_ds) a /\ reachable (estep 16 8) (einit e2e_ds) b /\ quiescent a /\ quiescent b /\
  at_port a 0 = at_port b 0 /\ at_port a 1 = at_port b 1 /\
  (length (at_port a 0) = 133 /\ length (at_port a 1) = 4)%nat /\
  delivered (o_pipe (e_relay a)) <> delivered (o_pipe (e_relay b)).
Proof.
  cbv zeta. split; [apply sched_reachable; constructor|]. split; [apply sched_reachable; constructor|].
  split; [apply quiescentb_sound; vm_compute; reflexivity|]. split; [apply quiescentb_sound; vm_compute; reflexivity|].
  vm_compute. repeat split; try reflexivity. discriminate.
Qed.

(* non-vacuity of the boundary theorem: 15 steps into the relay-first schedule device 0 has processed three of its six events,
   handed everything over, nothing is in flight - and the port holds the three messages of those events *)
Example C15_boundary_example :
  let s := sched 16 8 relay_first 15 (einit e2e_ds) in
  reachable (estep 16 8) (einit e2e_ds) s /\
  match nth_error (e_devs s) 0 with
  | Some d => at_boundary s 0 d /\ length (d_done d) = 3%nat /\ length (d_todo d) = 3%nat /\
              at_port s 0 = [[144; 60; 64]; [145; 62; 64]; [128; 60; 0]]
  | None => False
  end.
Proof.
  cbv zeta. split; [apply sched_reachable; constructor|]. vm_compute. repeat split; reflexivity.
Qed.
