(* C01 — No stuck notes: quiescence and disconnect leave nothing sounding.
   [alternating h]: a key code is pressed only while it is up (what the kernel delivers), values are 0/1/2.
   [keys_down h]: the key codes down after h, computed from the history alone.
   [recv [] ms]: the set of (note, channel) pairs sounding at a receiver that has seen the messages ms.
   Histories range over key events AND arbitrary analog samples (Model/Device.v [ESample]): the float layer
   (Model/AnalogF.v) only decides which samples an axis position produces. *)
From Coq Require Import List NArith ZArith.
From HIDI Require Import Base.AList Model.Device Proofs.DeviceBasics Proofs.DeviceInv.
Import ListNotations.
Open Scope N_scope.

(* Disconnect at any moment: for every configuration, every collision mode, every alternating history (so for every
   prefix of every alternating history), after the clean-up that ProcessEvents runs when its event stream ends,
   nothing the device started is still sounding. No side hypothesis. *)
Theorem C01_disconnect : forall c h r,
  alternating (h ++ r) ->
  recv [] (all_midi (snd (run c h)) ++ snd (cleanup c (fst (run c h)))) = [].
Proof. intros c h r H. apply disconnect_silences. exact (alternating_prefix h r H). Qed.
Print Assumptions C01_disconnect.

(* Quiescence: whenever no key is down and no key-emulating axis direction is engaged, nothing is sounding -
   whatever octave / semitone / channel / mapping / panic / learning actions and collisions happened before.
   Partial in one respect: "no key-emulating axis is held" is stated on the axis tracker ([analogT] empty), not on the
   physical axis position; the two differ exactly in the situation of C01_keysim_mapping_refuted below. *)
Theorem C01_quiescent_partial : forall c h r,
  alternating (h ++ r) -> keys_down h = [] -> analogT (fst (run c h)) = [] ->
  recv [] (all_midi (snd (run c h))) = [].
Proof. intros c h r H. apply quiescent_silent. exact (alternating_prefix h r H). Qed.
Print Assumptions C01_quiescent_partial.

(* The invariants behind both theorems, for every reachable state: tracked keys are down (I1), the collision counter
   equals the number of trackers per pair (I2), everything sounding is backed by a tracker entry (I3). *)
Theorem C01_invariants : forall c h,
  alternating h ->
  let s := fst (run c h) in
  (forall k, In k (keys (noteT s)) -> In k (keys_down h)) /\
  (forall p, count_of s p = Z.of_nat (mult p (vals (noteT s)))) /\
  incl (recv [] (all_midi (snd (run c h)))) (vals (noteT s) ++ vals (analogT s)).
Proof.
  intros c h H s. destruct (run_inv c h H) as (HI&HSub&HS). split; [|split].
  - intros k Hk. rewrite <- (run_keyT c). apply HSub. exact Hk.
  - exact (inv_count c _ HI).
  - exact HS.
Qed.
Print Assumptions C01_invariants.

(* Known finding K2: a key-emulating axis is deflected, the mapping is switched to one that does not map the axis, the
   stick returns to centre (no sample can be produced: the axis is unmapped there) - the note keeps sounding although
   no key is down. *)
Definition k2_cfg : config :=
  {| mappings := [ {| m_name := 0; m_midi := [];
                      m_analog := [((0, 0), {| a_type := AKeySim; a_cc := 0; a_ccneg := 0; a_note := 60; a_noteneg := 0;
                                               a_off := 0; a_offneg := 0; a_act := ANone; a_actneg := ANone;
                                               a_flip := false; a_bidi := false; a_dzc := false |})] |};
                   {| m_name := 1; m_midi := []; m_analog := [] |} ];
     actions := [(59, MappingUp)]; exitseq := []; cmode_of := COff;
     d_octave := 0; d_semitone := 0; d_channel := 1; d_mapping := 0; d_velocity := 64 |}.
Definition k2_sample : sample :=
  {| sa_code := 0; sa_an := {| a_type := AKeySim; a_cc := 0; a_ccneg := 0; a_note := 60; a_noteneg := 0; a_off := 0; a_offneg := 0;
                               a_act := ANone; a_actneg := ANone; a_flip := false; a_bidi := false; a_dzc := false |};
     sa_gate := true; sa_neg := false; sa_ccv := 127; sa_lsb := 127; sa_msb := 127; sa_zone := ZPos |}.
Theorem C01_keysim_mapping_refuted :
  let h := [ESample k2_sample; EKey 0 59 1; EKey 0 59 0] in
  alternating h /\ keys_down h = [] /\
  find_analog k2_cfg (fst (run k2_cfg h)) 0 0 = None /\
  recv [] (all_midi (snd (run k2_cfg h))) = [(60, 0)].
Proof.
  cbv zeta. split; [apply alternatingb_sound; vm_compute; reflexivity|vm_compute; auto].
Qed.
Print Assumptions C01_keysim_mapping_refuted.

(* non-vacuity: two keys on one pitch, transposition while held, other-order release, in no_repeat mode *)
Example C01_example :
  let c := {| mappings := [{| m_name := 0; m_midi := [((0, 30), {| k_note := 60; k_off := 0 |}); ((0, 31), {| k_note := 48; k_off := 0 |})];
                             m_analog := [] |}];
              actions := [(59, OctaveUp)]; exitseq := []; cmode_of := CNoRepeat;
              d_octave := 0; d_semitone := 0; d_channel := 1; d_mapping := 0; d_velocity := 64 |} in
  let h := [EKey 0 30 1; EKey 0 59 1; EKey 0 59 0; EKey 0 31 1; EKey 0 30 0; EKey 0 31 0] in
  alternating h /\ keys_down h = [] /\
  all_midi (snd (run c h)) = [note_on 0 60 64; note_off 0 60].
Proof.
  cbv zeta. split; [apply alternatingb_sound; vm_compute; reflexivity|vm_compute; auto].
Qed.

(* ---- The FULL machine (float layer + state machine, Model/AnalogF.v [frun]) that the correspondence runs exercise.
   [frun c fc ai h = Some (st, outs)]: the machine ran the raw history h (key events, SYN, EV_ABS events with raw values)
   without hitting the "no deadzone configured" panic; [fc] are the deadzones (ANY floats: NaN, infinities, out of range),
   [ai] the reported axis ranges (any).  The bridge: the machine's final state, messages and exit signals are those of the
   state machine on the discrete history [discrete c fc ai h] that the float layer makes of h (an axis event becomes the
   sample it produces, or nothing when the axis is unmapped / the shaped value did not change).  Nothing below looks inside
   the float computation, so there is no domain hypothesis. *)
From HIDI Require Import Model.AnalogF Proofs.MachineBridge.

Theorem C01_machine_bridge : forall c fc ai h st outs,
  frun c fc ai h = Some (st, outs) ->
  fst (run c (discrete c fc ai h)) = fst st /\
  all_midi (snd (run c (discrete c fc ai h))) = all_midi outs /\
  all_sigs (snd (run c (discrete c fc ai h))) = all_sigs outs.
Proof. exact frun_discrete. Qed.
Print Assumptions C01_machine_bridge.

(* Disconnect at any moment of the full machine: [fkeys h] are the key events of the raw history (alternation is a property of
   the key events alone; axis events are unrestricted) *)
Theorem C01_machine_disconnect : forall c fc ai h r st outs,
  alternating (fkeys (h ++ r)) -> frun c fc ai h = Some (st, outs) ->
  recv [] (all_midi outs ++ snd (cleanup c (fst st))) = [].
Proof. exact machine_disconnect. Qed.
Print Assumptions C01_machine_disconnect.

(* Quiescence of the full machine, with the same partiality as C01_quiescent_partial (axis tracker, not physical position) *)
Theorem C01_machine_quiescent_partial : forall c fc ai h r st outs,
  alternating (fkeys (h ++ r)) -> frun c fc ai h = Some (st, outs) ->
  keys_down (fkeys h) = [] -> analogT (fst st) = [] -> recv [] (all_midi outs) = [].
Proof. exact machine_quiescent. Qed.
Print Assumptions C01_machine_quiescent_partial.

(* ---- the same at the PORT (Model/EndToEnd.v: any number of devices composed with the relay of C15, all interleavings of
   their goroutines, any channel capacities): once device k's history has been processed, its input closed and
   everything delivered, nothing it started is sounding at the receiver behind the port. *)
From HIDI Require Import Model.Relay Model.EndToEnd Proofs.EndToEndProofs.
Theorem C01_at_the_port : forall ds port_cap out_cap s k c h,
  reachable (estep port_cap out_cap) (einit ds) s -> quiescent s -> nth_error ds k = Some (c, h) -> alternating h ->
  recv [] (at_port s k) = [].
Proof. exact e2e_disconnect. Qed.
Print Assumptions C01_at_the_port.

(* quiescence at the port: at every event boundary of device k at which no key is down and no emulated key is engaged *)
Theorem C01_quiescent_at_the_port_partial : forall ds port_cap out_cap s k d c h,
  reachable (estep port_cap out_cap) (einit ds) s -> nth_error (e_devs s) k = Some d -> nth_error ds k = Some (c, h) ->
  at_boundary s k d -> alternating h -> keys_down (d_done d) = [] -> analogT (d_state d) = [] ->
  recv [] (at_port s k) = [].
Proof. exact e2e_quiescent_silent. Qed.
Print Assumptions C01_quiescent_at_the_port_partial.
