(* C08 — Analog key emulation has a clean note lifecycle.
   Discrete level: the theorems quantify over ARBITRARY samples; a sample's [sa_zone] is what the float layer made of
   the position: ZPos (>= half travel), ZNeg (<= -half), ZMid (|v| < 0.49), ZGap (anything else, NaN included).
   [tracked s (code, neg?)] = the (note, channel) a direction of the axis currently has sounding.
   [dir_pair s note off] = transposed note (silent outside 0-127) and (channel + offset) mod 16, as for key notes. *)
From Coq Require Import List NArith ZArith Bool.
From HIDI Require Import Base.AList Model.Device Proofs.DeviceBasics Proofs.DeviceKeysim.
Import ListNotations.
Open Scope N_scope.

Theorem C08_positive : forall s sa,
  sa_zone sa = ZPos ->
  let a := sa_an sa in let idp := (sa_code sa, false) in let idn := (sa_code sa, true) in
  snd (handle_keysim s sa) =
    (match tracked s idp, dir_pair s (a_note a) (a_off a) with
     | None, Some (n, ch) => [note_on ch n 64]
     | _, _ => []
     end) ++ off_msgs s idn /\
  tracked (fst (handle_keysim s sa)) idn = None /\
  tracked (fst (handle_keysim s sa)) idp =
    match tracked s idp with Some p => Some p | None => dir_pair s (a_note a) (a_off a) end.
Proof. exact keysim_pos. Qed.
Print Assumptions C08_positive.

(* the negative direction sounds only when a negative note is configured ([a_bidi]); otherwise it stays silent *)
Theorem C08_negative : forall s sa,
  sa_zone sa = ZNeg ->
  let a := sa_an sa in let idp := (sa_code sa, false) in let idn := (sa_code sa, true) in
  snd (handle_keysim s sa) =
    (match tracked s idn, (if a_bidi a then dir_pair s (a_noteneg a) (a_offneg a) else None) with
     | None, Some (n, ch) => [note_on ch n 64]
     | _, _ => []
     end) ++ off_msgs s idp /\
  tracked (fst (handle_keysim s sa)) idp = None /\
  tracked (fst (handle_keysim s sa)) idn =
    match tracked s idn with Some p => Some p | None => if a_bidi a then dir_pair s (a_noteneg a) (a_offneg a) else None end.
Proof. exact keysim_neg. Qed.
Print Assumptions C08_negative.

(* back towards centre: every sounding direction is released with exactly its recorded pair; nothing stays tracked *)
Theorem C08_centre : forall s sa,
  sa_zone sa = ZMid ->
  snd (handle_keysim s sa) = off_msgs s (sa_code sa, false) ++ off_msgs s (sa_code sa, true) /\
  tracked (fst (handle_keysim s sa)) (sa_code sa, false) = None /\
  tracked (fst (handle_keysim s sa)) (sa_code sa, true) = None.
Proof. exact keysim_mid. Qed.
Print Assumptions C08_centre.

Theorem C08_gap : forall s sa, sa_zone sa = ZGap -> handle_keysim s sa = (s, []).
Proof. exact keysim_gap. Qed.
Print Assumptions C08_gap.

(* never both directions together: for every configuration and EVERY history (keys, actions, samples of any axis) *)
Theorem C08_exclusive : forall c h code,
  tracked (fst (run c h)) (code, false) = None \/ tracked (fst (run c h)) (code, true) = None.
Proof. intros c h. exact (run_exclusive c h). Qed.
Print Assumptions C08_exclusive.

(* pairing: every Note Off of key emulation carries exactly the pair recorded when that direction was turned on, whatever
   transposition or channel are by then; every Note On records the pair it sent *)
Theorem C08_pairing : forall s sa m,
  In m (snd (handle_keysim s sa)) ->
  (exists b n ch, tracked s (sa_code sa, b) = Some (n, ch) /\ m = note_off ch n) \/
  (exists b n ch, tracked s (sa_code sa, b) = None /\ tracked (fst (handle_keysim s sa)) (sa_code sa, b) = Some (n, ch) /\
                  m = note_on ch n 64).
Proof. exact keysim_messages. Qed.
Print Assumptions C08_pairing.

(* the recorded pair of a direction is frozen by samples of every other axis *)
Theorem C08_frozen : forall s sa code b,
  code <> sa_code sa -> tracked (fst (handle_keysim s sa)) (code, b) = tracked s (code, b).
Proof. exact keysim_other_code. Qed.
Print Assumptions C08_frozen.

(* ---- The FULL machine (float layer + state machine, [frun]; see C01_machine_bridge), arbitrary deadzones and axis ranges:
   never both directions of an axis together, after every raw history ... *)
From HIDI Require Import Model.AnalogF Proofs.MachineBridge.

Theorem C08_machine_exclusive : forall c fc ai h st outs code,
  frun c fc ai h = Some (st, outs) ->
  tracked (fst st) (code, false) = None \/ tracked (fst st) (code, true) = None.
Proof. exact machine_exclusive. Qed.
Print Assumptions C08_machine_exclusive.

(* ... and pairing for one EV_ABS event of a key-emulating axis in any state of the full machine: every message of the step is
   the Note Off of exactly the pair recorded when that direction was turned on, or a Note On whose pair is recorded.
   (The tracker is keyed by the evdev code and the direction, not by the sub-handler: as in Go.) *)
Theorem C08_machine_pairing : forall c fc ai s fs sub code raw s' fs' o a m,
  fstep c fc ai (s, fs) (FAbs sub code raw) = Some ((s', fs'), o) ->
  find_analog c s sub code = Some a -> a_type a = AKeySim -> In m (midi o) ->
  (exists b n ch, tracked s (code, b) = Some (n, ch) /\ m = note_off ch n) \/
  (exists b n ch, tracked s (code, b) = None /\ tracked s' (code, b) = Some (n, ch) /\ m = note_on ch n 64).
Proof. exact machine_pairing. Qed.
Print Assumptions C08_machine_pairing.
