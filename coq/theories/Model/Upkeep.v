(* Model of cmd/hidi/config.go: updateHIDIConfiguration (start-up upkeep of ./hidi-config), lines 73-223.

   File system.  A state [fs] is an association list from paths to nodes.  A path is the list of its
   name ids INNERMOST NAME FIRST ("hidi-config/factory/README" = [README; factory; cfg]); the parent of
   a path is its tail and [] is the working directory of the process (present in every state as a [Dir]).
   A file's content is a list of symbols (bytes; the correspondence run feeds it chunk ids, see lib/c18.py).

   Operations.  [upkeep T s] returns the exact ordered list of MUTATING system calls the Go code issues
   on state [s] for the embedded template [T] (the entries of fs.WalkDir(templateConfig, "hidi-config"),
   in that order), and how the function returns:
     Mkdir p      os.Mkdir(p, 0777)
     Create p     os.OpenFile(p, O_CREATE|O_WRONLY, 0666)          -- no O_TRUNC
     Truncate p   os.OpenFile(p, O_CREATE|O_WRONLY|O_TRUNC, 0666)
     Write p d    File.Write(d)      on the descriptor just opened for p (offset 0)
   Only calls that succeed are listed: where a call of the Go code fails (or a read-only probe fails with an
   error the code does not tolerate) the function returns an error at that point and the model returns [Err]
   with the operations issued so far.  A nil-pointer panic of the walk callback (fs.WalkDir on a root that
   is not in the embedded tree) is [Panic].  [apply] is the effect of operations on a state; an operation
   the kernel would refuse leaves the state unchanged.

   Not modelled (outside the domain, see [fs_wf] and lib/c18.py): permissions, symbolic links, I/O errors
   and short writes, concurrent modification of the tree, log output. *)
From Coq Require Import List NArith Bool.
From HIDI Require Import Base.AList.
Import ListNotations.
Open Scope N_scope.

Definition name := N.
Definition path := list name.

Inductive node := Dir | File (data : list N).

Definition fs := list (path * node).
Definition template := list (path * node).

Fixpoint list_eqb (a b : list N) : bool :=
  match a, b with
  | [], [] => true
  | x :: a', y :: b' => (x =? y) && list_eqb a' b'
  | _, _ => false
  end.

Definition path_eqb : path -> path -> bool := list_eqb.
Definition data_eqb : list N -> list N -> bool := list_eqb.

Definition lookup (s : list (path * node)) (p : path) : option node := get path_eqb p s.
Definition update (s : fs) (p : path) (n : node) : fs := set path_eqb p n s.
Definition parent (p : path) : path := tl p.

(* the three names the Go code spells out: configDir, "factory", "device blacklist.txt" *)
Definition cfg : name := 0.
Definition factory : name := 1.
Definition blacklist : name := 2.
Definition cfgp : path := [cfg].
Definition factoryp : path := [factory; cfg].
Definition blp : path := [blacklist; cfg].

(* [is_under q p]: p is q or lies below q *)
Fixpoint is_under (q p : path) {struct p} : bool :=
  path_eqb p q || match p with [] => false | _ :: p' => is_under q p' end.

Definition is_dir (o : option node) : bool := match o with Some Dir => true | _ => false end.
Definition is_file (o : option node) : bool := match o with Some (File _) => true | _ => false end.
Definition same_kind (a b : node) : bool :=
  match a, b with Dir, Dir => true | File _, File _ => true | _, _ => false end.

(* ---------------------------------------------------------------- mutations *)

Inductive fsop :=
| Mkdir (p : path)
| Create (p : path)
| Truncate (p : path)
| Write (p : path) (d : list N).

Definition target (op : fsop) : path :=
  match op with Mkdir p | Create p | Truncate p | Write p _ => p end.

(* write(2) at offset 0 on a descriptor opened without O_APPEND: the first |d| bytes are replaced,
   a longer old content keeps its tail *)
Definition overwrite (d old : list N) : list N := d ++ skipn (length d) old.

Definition apply_op (s : fs) (op : fsop) : fs :=
  match op with
  | Mkdir p =>
      match lookup s p with
      | None => if is_dir (lookup s (parent p)) then update s p Dir else s   (* ENOENT / ENOTDIR *)
      | Some _ => s                                                          (* EEXIST *)
      end
  | Create p =>
      match lookup s p with
      | None => if is_dir (lookup s (parent p)) then update s p (File []) else s
      | Some _ => s                                        (* existing file: opened, content kept; directory: EISDIR *)
      end
  | Truncate p =>
      match lookup s p with
      | None => if is_dir (lookup s (parent p)) then update s p (File []) else s
      | Some (File _) => update s p (File [])
      | Some Dir => s                                                        (* EISDIR *)
      end
  | Write p d =>
      match lookup s p with
      | Some (File old) => update s p (File (overwrite d old))
      | _ => s
      end
  end.

Definition apply (s : fs) (ops : list fsop) : fs := fold_left apply_op ops s.

(* ---------------------------------------------------------------- probes *)

(* os.Stat / os.OpenFile(O_RDONLY) as far as the code distinguishes results: the node, ENOENT, or another
   error (ENOTDIR: a proper ancestor is a regular file) *)
Inductive statr := SNode (n : node) | SNoEnt | SNotDir.

Fixpoint file_ancestor (s : fs) (p : path) : bool :=
  match p with
  | [] => false
  | _ :: q => is_file (lookup s q) || file_ancestor s q
  end.

Definition stat (s : fs) (p : path) : statr :=
  match lookup s p with
  | Some n => SNode n
  | None => if file_ancestor s p then SNotDir else SNoEnt
  end.

(* ---------------------------------------------------------------- the two walk callbacks *)

(* config.go:82-109, directory absent: every template entry is created *)
Definition fresh_step (s : fs) (e : path * node) : list fsop * bool :=
  match e with
  | (p, Dir) =>
      match lookup s p with
      | None => if is_dir (lookup s (parent p)) then ([Mkdir p], true) else ([], false)
      | Some _ => ([], false)                                   (* os.Mkdir: EEXIST *)
      end
  | (p, File d) =>
      match lookup s p with
      | None => if is_dir (lookup s (parent p)) then ([Create p; Write p d], true) else ([], false)
      | Some (File _) => ([Create p; Write p d], true)          (* O_CREATE without O_TRUNC on an existing file *)
      | Some Dir => ([], false)                                 (* EISDIR *)
      end
  end.

(* config.go:121-191, directory present: walk of hidi-config/factory *)
Definition factory_step (s : fs) (e : path * node) : list fsop * bool :=
  match e with
  | (p, Dir) =>
      match stat s p with
      | SNode _ => ([], true)                                   (* os.Stat succeeded: nothing to do *)
      | SNotDir => ([], false)                                  (* "unexpected error when reading" *)
      | SNoEnt => if is_dir (lookup s (parent p)) then ([Mkdir p], true) else ([], false)
      end
  | (p, File d) =>
      match stat s p with
      | SNode Dir => ([], false)                                (* open succeeds, io.ReadAll: EISDIR *)
      | SNode (File old) => if data_eqb old d then ([], true) else ([Truncate p; Write p d], true)
      | SNotDir => ([], false)
      | SNoEnt => if is_dir (lookup s (parent p)) then ([Create p; Write p d], true) else ([], false)
      end
  end.

Inductive result := Ok | Err | Panic.

(* fs.WalkDir over the given entries; the callback's error aborts the walk *)
Fixpoint walk (step : fs -> path * node -> list fsop * bool) (es : template) (s : fs) : list fsop * result :=
  match es with
  | [] => ([], Ok)
  | e :: es' =>
      let (ops, ok) := step s e in
      if ok then let (ops', r) := walk step es' (apply s ops) in (ops ++ ops', r)
      else (ops, Err)
  end.

Definition factory_part (T : template) : template := filter (fun e => is_under factoryp (fst e)) T.

(* config.go:197-222 *)
Definition blacklist_step (T : template) (s : fs) : list fsop * result :=
  match stat s blp with
  | SNoEnt =>
      if is_dir (lookup s (parent blp)) then
        match lookup T blp with
        | Some (File d) => ([Create blp; Write blp d], Ok)
        | _ => ([Create blp], Err)                              (* fs.ReadFile of the template fails after the create *)
        end
      else ([], Err)
  | _ => ([], Ok)             (* exists (whatever it is), or an error other than ENOENT: fd.Close() on nil, return nil *)
  end.

Definition upkeep (T : template) (s : fs) : list fsop * result :=
  match stat s cfgp with
  | SNotDir => ([], Err)                                        (* "cannot open config directory" *)
  | SNoEnt => match T with [] => ([], Panic) | _ => walk fresh_step T s end
  | SNode _ =>
      match factory_part T with
      | [] => ([], Panic)
      | Tf =>
          let (ops, r) := walk factory_step Tf s in
          match r with
          | Ok => let (ops2, r2) := blacklist_step T (apply s ops) in (ops ++ ops2, r2)
          | _ => (ops, r)
          end
      end
  end.

(* the state after a complete run *)
Definition run (T : template) (s : fs) : fs := apply s (fst (upkeep T s)).

(* ---------------------------------------------------------------- the modelled domain *)

(* a state is a tree: the working directory is there and every node's parent is a directory *)
Definition fs_wf (s : fs) : Prop :=
  lookup s [] = Some Dir /\ forall p n, lookup s p = Some n -> lookup s (parent p) = Some Dir.

(* fs.WalkDir order: every entry is listed after its parent directory, exactly once.
   [dirs] = directories already known when the walk reaches the entry. *)
Fixpoint ordered (dirs : list path) (es : template) : Prop :=
  match es with
  | [] => True
  | (p, n) :: es' =>
      p <> [] /\ In (parent p) dirs /\ ~ In p dirs /\ ~ In p (keys es') /\
      ordered (match n with Dir => p :: dirs | File _ => dirs end) es'
  end.

Definition wf_template (T : template) : Prop :=
  ordered [[]] T /\
  Forall (fun p => is_under cfgp p = true) (keys T) /\
  In (cfgp, Dir) T /\ In (factoryp, Dir) T /\ (exists d, In (blp, File d) T).

(* no directory where the template has a file and vice versa *)
Definition type_consistent (T : template) (s : fs) : Prop :=
  forall p n m, In (p, n) T -> lookup s p = Some m -> same_kind n m = true.

(* an operation that writes a template-typed node at a template path *)
Definition op_for (T : template) (op : fsop) : Prop :=
  match op with
  | Mkdir p => In (p, Dir) T
  | Create p | Truncate p | Write p _ => exists d, In (p, File d) T
  end.

(* ---------------------------------------------------------------- decidable versions (used by Run/UpkeepRun.v) *)

Definition pmem (p : path) (l : list path) : bool := existsb (path_eqb p) l.

Fixpoint orderedb (dirs : list path) (es : template) : bool :=
  match es with
  | [] => true
  | (p, n) :: es' =>
      negb (path_eqb p []) && pmem (parent p) dirs && negb (pmem p dirs) && negb (pmem p (keys es')) &&
      orderedb (match n with Dir => p :: dirs | File _ => dirs end) es'
  end.

Definition node_eqb (a b : node) : bool :=
  match a, b with
  | Dir, Dir => true
  | File x, File y => data_eqb x y
  | _, _ => false
  end.

Definition onode_eqb (a b : option node) : bool :=
  match a, b with
  | None, None => true
  | Some x, Some y => node_eqb x y
  | _, _ => false
  end.

Definition wf_templateb (T : template) : bool :=
  orderedb [[]] T && forallb (fun p => is_under cfgp p) (keys T) &&
  onode_eqb (lookup T cfgp) (Some Dir) && onode_eqb (lookup T factoryp) (Some Dir) && is_file (lookup T blp).

Fixpoint nodupb (l : list path) : bool :=
  match l with [] => true | p :: r => negb (pmem p r) && nodupb r end.

Definition fs_wfb (s : fs) : bool :=
  nodupb (keys s) && is_dir (lookup s []) && forallb (fun e => is_dir (lookup s (parent (fst e)))) s.

Definition type_consistentb (T : template) (s : fs) : bool :=
  forallb (fun e => match lookup s (fst e) with Some m => same_kind (snd e) m | None => true end) T.

(* ---------------------------------------------------------------- the property as a decidable monitor on observed trees
   [b] = tree before start-up, [a] = tree after the first call, [a2] = tree after a second call *)

Definition is_some (o : option node) : bool := match o with Some _ => true | None => false end.

Definition holds (s : fs) (e : path * node) : bool := onode_eqb (lookup s (fst e)) (Some (snd e)).

Definition same_at (x y : fs) (p : path) : bool := onode_eqb (lookup x p) (lookup y p).

Definition fs_eqb (x y : fs) : bool := forallb (same_at x y) (keys x ++ keys y).

Definition overlay (T : template) (b : fs) (p : path) : option node :=
  match lookup T p with Some n => Some n | None => lookup b p end.

(* the part that must hold for ANY tree and any (also failed or interrupted) run *)
Definition c18_untouched (T : template) (b a : fs) : bool :=
  (* every node outside factory/ that existed is still there, byte for byte *)
  forallb (fun e => is_under factoryp (fst e) || holds a e) b &&
  (* paths the template does not know are neither created, removed nor changed *)
  forallb (fun p => is_some (lookup T p) || same_at a b p) (keys a ++ keys b).

Definition c18_monitor (T : template) (b a a2 : fs) : bool :=
  c18_untouched T b a &&
  (* every built-in factory entry is present and equal to its template *)
  forallb (fun e => negb (is_under factoryp (fst e)) || holds a e) T &&
  (* the blacklist is created from the template when it was missing *)
  (is_some (lookup b blp) || onode_eqb (lookup a blp) (lookup T blp)) &&
  (* no configuration directory: the result is the template tree laid over what was there *)
  (is_some (lookup b cfgp) || forallb (fun p => onode_eqb (lookup a p) (overlay T b p)) (keys a ++ keys T ++ keys b)) &&
  (* running it again changes nothing *)
  fs_eqb a2 a.

Definition c18_spec (T : template) (b a a2 : fs) : Prop :=
  (forall p n, lookup b p = Some n -> is_under factoryp p = false -> lookup a p = Some n) /\
  (forall p, lookup T p = None -> lookup a p = lookup b p) /\
  (forall p n, In (p, n) T -> is_under factoryp p = true -> lookup a p = Some n) /\
  (lookup b blp = None -> lookup a blp = lookup T blp) /\
  (lookup b cfgp = None -> forall p, lookup a p = overlay T b p) /\
  (forall p, lookup a2 p = lookup a p).
