(* Model of internal/pkg/midi/device/{device.go,events.go}: the per-device key / action / analog state machine.
   Discrete part only: an EV_ABS event reaches this machine as a [sample] computed by the float layer
   (Model/AnalogF.v).  Every theorem about [step] therefore quantifies over arbitrary samples. *)
From Coq Require Import List NArith ZArith Bool.
From HIDI Require Import Base.AList.
Import ListNotations.
Open Scope N_scope.

(* ------------------------------------------------------------------ MIDI bytes (midi/event.go) *)
Definition msg := list N.

Definition NOTE_OFF : N := 128.   (* 0b1000 << 4 *)
Definition NOTE_ON : N := 144.    (* 0b1001 << 4 *)
Definition CONTROL_CHANGE : N := 176.
Definition PITCH_WHEEL : N := 224.
Definition ALL_NOTES_OFF : N := 123.

(* NoteEvent: Event{messageType | channel, note, velocity}; the channel is OR-ed in unmasked *)
Definition note_event (ty ch note vel : N) : msg := [N.lor ty ch; note; vel].
Definition cc_event (ch fn v : N) : msg := [N.lor CONTROL_CHANGE ch; fn; v].
Definition pb_event (ch lsb msb : N) : msg := [N.lor PITCH_WHEEL ch; lsb; msb].
Definition note_on (ch n vel : N) := note_event NOTE_ON ch n vel.
Definition note_off (ch n : N) := note_event NOTE_OFF ch n 0.

(* ------------------------------------------------------------------ configuration (config/config.go) *)
Inductive action :=
| MappingUp | MappingDown | AMapping | OctaveUp | OctaveDown | SemitoneUp | SemitoneDown
| ChannelUp | ChannelDown | AChannel | Multinote | Panic | Learning | Exit
| ANone.   (* the empty / any unsupported action string *)

Definition action_eqb (a b : action) : bool :=
  match a, b with
  | MappingUp, MappingUp | MappingDown, MappingDown | AMapping, AMapping | OctaveUp, OctaveUp
  | OctaveDown, OctaveDown | SemitoneUp, SemitoneUp | SemitoneDown, SemitoneDown | ChannelUp, ChannelUp
  | ChannelDown, ChannelDown | AChannel, AChannel | Multinote, Multinote | Panic, Panic
  | Learning, Learning | Exit, Exit | ANone, ANone => true
  | _, _ => false
  end.

Inductive cmode := COff | CNoRepeat | CInterrupt | CRetrigger.
Inductive atype := ACC | APitchBend | AKeySim | AActionSim | AUnknown.

Record key := { k_note : N; k_off : N }.

Record analog := {
  a_type : atype;
  a_cc : N; a_ccneg : N;
  a_note : N; a_noteneg : N;
  a_off : N; a_offneg : N;
  a_act : action; a_actneg : action;
  a_flip : bool; a_bidi : bool; a_dzc : bool }.

Definition skey := (N * N)%type.      (* (sub-handler id, evdev code) *)
Definition skey_eqb (a b : skey) : bool := (fst a =? fst b) && (snd a =? snd b).

Record mapping := {
  m_name : N;
  m_midi : list (skey * key);
  m_analog : list (skey * analog) }.

Record config := {
  mappings : list mapping;
  actions : list (N * action);       (* ActionMapping: code -> action *)
  exitseq : list N;
  cmode_of : cmode;
  d_octave : Z; d_semitone : Z; d_channel : Z; d_mapping : nat; d_velocity : Z }.

Definition empty_mapping : mapping := {| m_name := 0; m_midi := []; m_analog := [] |}.

(* ------------------------------------------------------------------ state (device.go:25-69) *)
Definition wrap8 (z : Z) : Z := ((z + 128) mod 256 - 128)%Z.        (* int8(z) *)
Definition u8 (z : Z) : N := Z.to_N (z mod 256)%Z.                   (* uint8(z) *)

Definition pair := (N * N)%type.     (* (note, channel) as stored in the trackers *)
Definition pair_eqb (a b : pair) : bool := (fst a =? fst b) && (snd a =? snd b).

Definition aid := (N * bool)%type.   (* analog identifier: "%d" = (code,false), "%d_neg" = (code,true) *)
Definition aid_eqb (a b : aid) : bool := (fst a =? fst b) && Bool.eqb (snd a) (snd b).

Record state := {
  octave : Z; semitone : Z;          (* int8 *)
  channel : N; velocity : N;         (* uint8 *)
  mapidx : nat;
  learning : bool;
  noteT : list (N * pair);           (* noteTracker: code -> (note, channel) *)
  analogT : list (aid * pair);       (* analogNoteTracker *)
  counter : list (pair * Z);         (* activeNotesCounter, keyed (note, channel); absent = 0 *)
  actionT : list action;             (* actionTracker (set) *)
  ccZ : list (N * bool);             (* ccZeroed *)
  keyT : list N                      (* keyTracker (set) *)
}.
(* The MIDI-input tracker (externalNoteTracker) is written by Panic and by the MIDI-input goroutine and read only by
   the LED loop; it is not part of the playing state and lives in Model/Led.v. *)

Definition init (c : config) : state := {|
  octave := wrap8 (d_octave c); semitone := wrap8 (d_semitone c);
  channel := u8 (d_channel c - 1); velocity := u8 (d_velocity c);
  mapidx := d_mapping c; learning := false;
  noteT := []; analogT := []; counter := []; actionT := []; ccZ := []; keyT := [] |}.

Record out := { midi : list msg; sigs : nat }.
Definition silent : out := {| midi := []; sigs := 0 |}.
Definition emit (l : list msg) : out := {| midi := l; sigs := 0 |}.

(* setters *)
Definition set_octave v s := {| octave := v; semitone := semitone s; channel := channel s; velocity := velocity s; mapidx := mapidx s; learning := learning s; noteT := noteT s; analogT := analogT s; counter := counter s; actionT := actionT s; ccZ := ccZ s; keyT := keyT s |}.
Definition set_semitone v s := {| octave := octave s; semitone := v; channel := channel s; velocity := velocity s; mapidx := mapidx s; learning := learning s; noteT := noteT s; analogT := analogT s; counter := counter s; actionT := actionT s; ccZ := ccZ s; keyT := keyT s |}.
Definition set_channel v s := {| octave := octave s; semitone := semitone s; channel := v; velocity := velocity s; mapidx := mapidx s; learning := learning s; noteT := noteT s; analogT := analogT s; counter := counter s; actionT := actionT s; ccZ := ccZ s; keyT := keyT s |}.
Definition set_mapidx v s := {| octave := octave s; semitone := semitone s; channel := channel s; velocity := velocity s; mapidx := v; learning := learning s; noteT := noteT s; analogT := analogT s; counter := counter s; actionT := actionT s; ccZ := ccZ s; keyT := keyT s |}.
Definition set_learning v s := {| octave := octave s; semitone := semitone s; channel := channel s; velocity := velocity s; mapidx := mapidx s; learning := v; noteT := noteT s; analogT := analogT s; counter := counter s; actionT := actionT s; ccZ := ccZ s; keyT := keyT s |}.
Definition set_noteT v s := {| octave := octave s; semitone := semitone s; channel := channel s; velocity := velocity s; mapidx := mapidx s; learning := learning s; noteT := v; analogT := analogT s; counter := counter s; actionT := actionT s; ccZ := ccZ s; keyT := keyT s |}.
Definition set_analogT v s := {| octave := octave s; semitone := semitone s; channel := channel s; velocity := velocity s; mapidx := mapidx s; learning := learning s; noteT := noteT s; analogT := v; counter := counter s; actionT := actionT s; ccZ := ccZ s; keyT := keyT s |}.
Definition set_counter v s := {| octave := octave s; semitone := semitone s; channel := channel s; velocity := velocity s; mapidx := mapidx s; learning := learning s; noteT := noteT s; analogT := analogT s; counter := v; actionT := actionT s; ccZ := ccZ s; keyT := keyT s |}.
Definition set_actionT v s := {| octave := octave s; semitone := semitone s; channel := channel s; velocity := velocity s; mapidx := mapidx s; learning := learning s; noteT := noteT s; analogT := analogT s; counter := counter s; actionT := v; ccZ := ccZ s; keyT := keyT s |}.
Definition set_ccZ v s := {| octave := octave s; semitone := semitone s; channel := channel s; velocity := velocity s; mapidx := mapidx s; learning := learning s; noteT := noteT s; analogT := analogT s; counter := counter s; actionT := actionT s; ccZ := v; keyT := keyT s |}.
Definition set_keyT v s := {| octave := octave s; semitone := semitone s; channel := channel s; velocity := velocity s; mapidx := mapidx s; learning := learning s; noteT := noteT s; analogT := analogT s; counter := counter s; actionT := actionT s; ccZ := ccZ s; keyT := v |}.

(* ------------------------------------------------------------------ lookups *)
Definition cur_mapping (c : config) (s : state) : mapping := nth (mapidx s) (mappings c) empty_mapping.
Definition find_key (c : config) (s : state) (sub code : N) : option key :=
  get skey_eqb (sub, code) (m_midi (cur_mapping c s)).
Definition find_analog (c : config) (s : state) (sub code : N) : option analog :=
  get skey_eqb (sub, code) (m_analog (cur_mapping c s)).
Definition find_action (c : config) (code : N) : option action := get N.eqb code (actions c).

Definition count_of (s : state) (p : pair) : Z :=
  match get pair_eqb p (counter s) with Some z => z | None => 0%Z end.
Definition has_action (s : state) (a : action) : bool := mem action_eqb a (actionT s).
Definition cc_zeroed (s : state) (cc : N) : bool :=
  match get N.eqb cc (ccZ s) with Some b => b | None => false end.

(* note := int(note) + int(d.octave)*12 + int(d.semitone)   (device.go:199, after the int8 fix) *)
Definition transpose (s : state) (note : N) : Z := (Z.of_N note + octave s * 12 + semitone s)%Z.
(* the original expression int(d.octave*12): the product is taken in int8 *)
Definition transpose_orig (s : state) (note : N) : Z := (Z.of_N note + wrap8 (octave s * 12) + semitone s)%Z.
Definition in_midi_range (z : Z) : bool := ((0 <=? z) && (z <=? 127))%Z.
(* channel := (d.channel + offset) % 16 in uint8 *)
Definition chan_of (s : state) (off : N) : N := ((channel s + off) mod 256) mod 16.

(* ------------------------------------------------------------------ actions (device.go:309-473) *)
Definition panic_burst (ch : N) : list msg :=
  cc_event ch ALL_NOTES_OFF 0 :: map (fun n => note_event NOTE_OFF ch (N.of_nat n) 0) (seq 0 128).

Definition invoke_press (c : config) (a : action) (s : state) : state * list msg :=
  match a with
  | Panic => (s, panic_burst (channel s))   (* also clears the MIDI-input tracker: Model/Led.v *)
  | MappingUp => (if Nat.eqb (mapidx s) (length (mappings c) - 1) then s else set_mapidx (S (mapidx s)) s, [])
  | MappingDown => (if Nat.eqb (mapidx s) 0 then s else set_mapidx (pred (mapidx s)) s, [])
  | OctaveUp => (set_octave (wrap8 (octave s + 1)) s, [])
  | OctaveDown => (set_octave (wrap8 (octave s - 1)) s, [])
  | SemitoneUp => (set_semitone (wrap8 (semitone s + 1)) s, [])
  | SemitoneDown => (set_semitone (wrap8 (semitone s - 1)) s, [])
  | ChannelUp => (if channel s =? 15 then s else set_channel ((channel s + 1) mod 256) s, [])
  | ChannelDown => (if channel s =? 0 then s else set_channel (channel s - 1) s, [])
  | Learning => (set_learning true s, [])
  | _ => (s, [])   (* Multinote: on release only; mapping / channel / exit / unknown: not in the table *)
  end.

Definition invoke_release (a : action) (s : state) : state :=
  match a with Learning => set_learning false s | _ => s end.

(* checkDoubleActions (device.go:174-191): [Some s'] = a pair was held and has been reset *)
Definition check_double (s : state) : option state :=
  if Nat.ltb 1 (length (actionT s)) then
    if has_action s MappingUp && has_action s MappingDown then Some (set_mapidx 0%nat s)
    else if has_action s OctaveUp && has_action s OctaveDown then Some (set_octave 0%Z s)
    else if has_action s SemitoneUp && has_action s SemitoneDown then Some (set_semitone 0%Z s)
    else if has_action s ChannelUp && has_action s ChannelDown then Some (set_channel 0 s)
    else None
  else None.

(* ------------------------------------------------------------------ notes (device.go:193-307) *)
Definition bump (p : pair) (d : Z) (s : state) : state :=
  set_counter (set pair_eqb p (count_of s p + d)%Z (counter s)) s.

Definition note_on_key (c : config) (s : state) (sub code : N) : state * list msg :=
  match find_key c s sub code with
  | None => (s, [])
  | Some k =>
      let t := transpose s (k_note k) in
      if in_midi_range t then
        let note := Z.to_N t in
        let ch := chan_of s (k_off k) in
        let p := (note, ch) in
        let held := (0 <? count_of s p)%Z in
        let msgs :=
          match cmode_of c with
          | COff | CRetrigger => [note_on ch note (velocity s)]
          | CNoRepeat => if held then [] else [note_on ch note (velocity s)]
          | CInterrupt => if held then [note_off ch note; note_on ch note (velocity s)]
                          else [note_on ch note (velocity s)]
          end in
        (bump p 1 (set_noteT (set N.eqb code p (noteT s)) s), msgs)
      else (s, [])
  end.

Definition note_off_key (c : config) (s : state) (code : N) : state * list msg :=
  match get N.eqb code (noteT s) with
  | None => (s, [])
  | Some p =>
      let '(note, ch) := p in
      let s1 := set_noteT (del N.eqb code (noteT s)) s in
      let msgs :=
        match cmode_of c with
        | COff => [note_off ch note]
        | _ => if (count_of s p =? 1)%Z then [note_off ch note] else []
        end in
      (bump p (-1) s1, msgs)
  end.

Definition analog_note_on (s : state) (id : aid) (note off : N) : state * list msg :=
  let t := transpose s note in
  if in_midi_range t then
    let n := Z.to_N t in
    let ch := chan_of s off in
    (set_analogT (set aid_eqb id (n, ch) (analogT s)) s, [note_on ch n 64])
  else (s, []).

Definition analog_note_off (s : state) (id : aid) : state * list msg :=
  match get aid_eqb id (analogT s) with
  | None => (s, [])
  | Some (n, ch) => (set_analogT (del aid_eqb id (analogT s)) s, [note_off ch n])
  end.

(* ------------------------------------------------------------------ key events (events.go:17-93) *)
Definition exit_complete (c : config) (kt : list N) : bool :=
  match exitseq c with
  | [] => false
  | l => forallb (fun k => mem N.eqb k kt) l
  end.

Definition handle_key (c : config) (s : state) (sub code : N) (val : Z) : state * out :=
  let press := (val =? 1)%Z in
  let release := (val =? 0)%Z in
  let note_ok := match find_key c s sub code with Some _ => true | None => false end in
  let s1 := if press then set_keyT (sadd N.eqb code (keyT s)) s
            else set_keyT (srem N.eqb code (keyT s)) s in
  if press && exit_complete c (keyT s1) then (s1, {| midi := []; sigs := 1 |})
  else
    match find_action c code with
    | Some a =>
        if press then
          let s2 := set_actionT (sadd action_eqb a (actionT s1)) s1 in
          match check_double s2 with
          | Some s3 => (s3, silent)
          | None => let '(s3, m) := invoke_press c a s2 in (s3, emit m)
          end
        else if release then
          let s2 := invoke_release a s1 in
          (set_actionT (srem action_eqb a (actionT s2)) s2, silent)
        else (s1, silent)
    | None =>
        if note_ok then
          if press then let '(s2, m) := note_on_key c s1 sub code in (s2, emit m)
          else if release then let '(s2, m) := note_off_key c s1 code in (s2, emit m)
          else (s1, silent)
        else
          if release then let '(s2, m) := note_off_key c s1 code in (s2, emit m)
          else (s1, silent)
    end.

(* ------------------------------------------------------------------ analog events (events.go:174-303) *)
Inductive zone := ZNeg | ZMid | ZPos | ZGap.

(* What the float layer hands over for one EV_ABS event that was not suppressed (mapped axis, value changed). *)
Record sample := {
  sa_code : N;
  sa_an : analog;          (* the Analog entry of the current mapping *)
  sa_gate : bool;          (* value < -0.5 || value > 0.5 (after flip): passes the CC-learning gate *)
  sa_neg : bool;           (* bidirectional CC: value < 0 (signed axis) resp. value < 0.5 (unsigned) *)
  sa_ccv : N;              (* byte(int(127 * adjusted)) for the applicable case *)
  sa_lsb : N; sa_msb : N;  (* pitch-bend data bytes *)
  sa_zone : zone }.        (* key / action emulation: <= -0.5 | (-0.49, 0.49) | >= 0.5 | none of these *)

Definition set_ccz (cc : N) (b : bool) (s : state) : state := set_ccZ (set N.eqb cc b (ccZ s)) s.

Definition handle_cc (s : state) (sa : sample) : state * list msg :=
  let a := sa_an sa in
  let ch := chan_of s (a_off a) in
  let chn := chan_of s (a_offneg a) in
  if a_bidi a then
    if sa_neg sa then
      let m1 := [cc_event chn (a_ccneg a) (sa_ccv sa)] in
      let '(s1, m2) := if cc_zeroed s (a_cc a) then (s, []) else (set_ccz (a_cc a) true s, [cc_event ch (a_cc a) 0]) in
      (set_ccz (a_ccneg a) false s1, m1 ++ m2)
    else
      let m1 := [cc_event ch (a_cc a) (sa_ccv sa)] in
      let '(s1, m2) := if cc_zeroed s (a_ccneg a) then (s, []) else (set_ccz (a_ccneg a) true s, [cc_event chn (a_ccneg a) 0]) in
      (set_ccz (a_cc a) false s1, m1 ++ m2)
  else (s, [cc_event ch (a_cc a) (sa_ccv sa)]).

Definition handle_keysim (s : state) (sa : sample) : state * list msg :=
  let a := sa_an sa in
  let idp := (sa_code sa, false) in
  let idn := (sa_code sa, true) in
  match sa_zone sa with
  | ZNeg =>
      let '(s1, m1) := match get aid_eqb idn (analogT s) with
                       | Some _ => (s, [])
                       | None => if a_bidi a then analog_note_on s idn (a_noteneg a) (a_offneg a) else (s, [])
                       end in
      let '(s2, m2) := analog_note_off s1 idp in (s2, m1 ++ m2)
  | ZMid =>
      let '(s1, m1) := analog_note_off s idp in
      let '(s2, m2) := analog_note_off s1 idn in (s2, m1 ++ m2)
  | ZPos =>
      let '(s1, m1) := match get aid_eqb idp (analogT s) with
                       | Some _ => (s, [])
                       | None => analog_note_on s idp (a_note a) (a_off a)
                       end in
      let '(s2, m2) := analog_note_off s1 idn in (s2, m1 ++ m2)
  | ZGap => (s, [])
  end.

Definition track_action (a : action) (s : state) := set_actionT (sadd action_eqb a (actionT s)) s.
Definition untrack_action (a : action) (s : state) := set_actionT (srem action_eqb a (actionT s)) s.

Definition handle_actionsim (c : config) (s : state) (sa : sample) : state * list msg :=
  let a := sa_an sa in
  match check_double s with
  | Some s' => (s', [])
  | None =>
      match sa_zone sa with
      | ZNeg =>
          let '(s1, m) := invoke_press c (a_actneg a) s in
          let s2 := track_action (a_actneg a) s1 in
          (untrack_action (a_act a) (invoke_release (a_act a) s2), m)
      | ZMid =>
          let s1 := invoke_release (a_act a) (invoke_release (a_actneg a) s) in
          (untrack_action (a_act a) (untrack_action (a_actneg a) s1), [])
      | ZPos =>
          let '(s1, m) := invoke_press c (a_act a) s in
          let s2 := track_action (a_act a) s1 in
          (invoke_release (a_actneg a) (untrack_action (a_actneg a) s2), m)
      | ZGap => (s, [])
      end
  end.

Definition handle_sample (c : config) (s : state) (sa : sample) : state * out :=
  if learning s && negb (sa_gate sa) then (s, silent)
  else
    let '(s', m) :=
      match a_type (sa_an sa) with
      | ACC => handle_cc s sa
      | APitchBend => (s, [pb_event (chan_of s (a_off (sa_an sa))) (sa_lsb sa) (sa_msb sa)])
      | AKeySim => handle_keysim s sa
      | AActionSim => handle_actionsim c s sa
      | AUnknown => (s, [])
      end in (s', emit m).

(* ------------------------------------------------------------------ events, runs, clean-up *)
Inductive ev :=
| EKey (sub code : N) (val : Z)
| ESample (sa : sample)
| ESyn.

Definition step (c : config) (s : state) (e : ev) : state * out :=
  match e with
  | ESyn => (s, silent)
  | EKey sub code val => if (val =? 2)%Z then (s, silent) else handle_key c s sub code val
  | ESample sa => handle_sample c s sa
  end.

Fixpoint run_from (c : config) (s : state) (h : list ev) : state * list out :=
  match h with
  | [] => (s, [])
  | e :: r => let '(s1, o) := step c s e in let '(s2, os) := run_from c s1 r in (s2, o :: os)
  end.

Definition run (c : config) (h : list ev) : state * list out := run_from c (init c) h.

Definition all_midi (os : list out) : list msg := flat_map midi os.

(* ProcessEvents after the input channel closes (events.go:347-363): NoteOff for every tracked key, AnalogNoteOff for
   every analog entry.  Go iterates the maps in arbitrary order; the model uses list order. *)
Fixpoint cleanup_keys (c : config) (s : state) (codes : list N) : state * list msg :=
  match codes with
  | [] => (s, [])
  | k :: r => let '(s1, m1) := note_off_key c s k in let '(s2, m2) := cleanup_keys c s1 r in (s2, m1 ++ m2)
  end.

Fixpoint cleanup_analog (s : state) (ids : list aid) : state * list msg :=
  match ids with
  | [] => (s, [])
  | i :: r => let '(s1, m1) := analog_note_off s i in let '(s2, m2) := cleanup_analog s1 r in (s2, m1 ++ m2)
  end.

Definition cleanup (c : config) (s : state) : state * list msg :=
  let '(s1, m1) := cleanup_keys c s (keys (noteT s)) in
  let '(s2, m2) := cleanup_analog s1 (keys (analogT s1)) in (s2, m1 ++ m2).

(* ------------------------------------------------------------------ receiver semantics *)
(* sounding set at the receiver: Note On with velocity > 0 adds, Note Off / Note On velocity 0 removes,
   CC 123 (All Notes Off) removes every note of the channel.  Pairs are (note, channel). *)
Definition recv1 (r : list pair) (m : msg) : list pair :=
  match m with
  | [st; d1; d2] =>
      let ty := N.land st 240 in
      let ch := N.land st 15 in
      if ty =? NOTE_ON then
        if d2 =? 0 then srem pair_eqb (d1, ch) r else sadd pair_eqb (d1, ch) r
      else if ty =? NOTE_OFF then srem pair_eqb (d1, ch) r
      else if (ty =? CONTROL_CHANGE) && (d1 =? ALL_NOTES_OFF) then filter (fun p => negb (snd p =? ch)) r
      else r
  | _ => r
  end.

Definition recv (r : list pair) (ms : list msg) : list pair := fold_left recv1 ms r.

(* last value per (controller, channel) at the receiver; absent = never set (0) *)
Definition recv_cc1 (r : list (pair * N)) (m : msg) : list (pair * N) :=
  match m with
  | [st; d1; d2] =>
      if N.land st 240 =? CONTROL_CHANGE then set pair_eqb (d1, N.land st 15) d2 r else r
  | _ => r
  end.
Definition recv_cc (r : list (pair * N)) (ms : list msg) := fold_left recv_cc1 ms r.
Definition cc_value (r : list (pair * N)) (p : pair) : N :=
  match get pair_eqb p r with Some v => v | None => 0 end.

(* decidable well-formedness of one message (C05): status 0x8n/0x9n/0xBn/0xEn, two data bytes below 128 *)
Definition wf_msgb (m : msg) : bool :=
  match m with
  | [st; d1; d2] =>
      (mem N.eqb (N.land st 240) [128; 144; 176; 224]) && (128 <=? st) && (st <? 256) && (d1 <? 128) && (d2 <? 128)
  | _ => false
  end.

