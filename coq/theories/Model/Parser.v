(* Model of internal/pkg/midi/device/config/parser.go (TomlKeyToEvCode, ParseData after decoding) and of
   cmd/hidi/config.go (LoadHIDIConfig after decoding), WITH the fixes F2 (default channel 1-16), F3 (negative action
   nil-checked and validated), F4 (negative note, axis channel offsets validated and copied), F7 (rates > 0) and
   F8 (recover around the decoder).  The original behaviour is kept behind flags ([fixes], [hidi_convert_gen false],
   [guard_gen false]) for the [_refuted] witnesses only.

   The go-toml decoder is NOT modelled: [toml_cfg] is TOMLDeviceConfig after decoding (pointer fields = option,
   Go maps = lists of (key bytes, value) with unique keys in arbitrary order, int = Z, string = list of bytes,
   float64 = its IEEE bit pattern, only ever copied).  The evdev name tables are data ([tables]) dumped from the
   linked library on every run.

   Go map iteration order decides WHICH error is returned when several fields are invalid, and which entry wins
   when two names of one map denote the same code; the model walks the lists left to right (later entries
   overwrite); views compare ok / error classes and the generator never aliases two codes inside one map.

   Second half of the file: the specification side of C10 ([reflects], [wf_pconfig], [invalid]) written
   without reference to [convert], and their boolean versions used as run-time monitors. *)
From Coq Require Import List NArith ZArith Bool.
From HIDI Require Import Base.AList Model.Notes Model.Device.
Import ListNotations.
Open Scope N_scope.

(* ------------------------------------------------------------------ outcomes *)
Inductive err :=
| EDecode | EPanic
| EKeyName | EFieldCount | EOffset | EOffsetRange | ENoteRange | ENoteName
| EAxisName | EMapType | ECCMissing | ECCRange | ENoteMissing | EActionMissing | EAction | EAxisOffset
| EDeadzoneName | EActionKey | EActionName | ECollision | EDefaultMapping | EExitName | EVelocity | EChannel
| ERate.

Inductive outcome (A : Type) := Ok (a : A) | Err (e : err) | Crash.
Arguments Ok {A} a.
Arguments Err {A} e.
Arguments Crash {A}.

Definition bind {A B} (o : outcome A) (k : A -> outcome B) : outcome B :=
  match o with Ok a => k a | Err e => Err e | Crash => Crash end.

Notation "x <- e ;; k" := (bind e (fun x => k)) (at level 61, e at next level, right associativity).

Fixpoint mapM {A B} (f : A -> outcome B) (l : list A) : outcome (list B) :=
  match l with
  | [] => Ok []
  | a :: r => b <- f a ;; bs <- mapM f r ;; Ok (b :: bs)
  end.

(* ------------------------------------------------------------------ byte strings *)
Definition str := list N.

Fixpoint str_eqb (a b : str) : bool :=
  match a, b with
  | [], [] => true
  | x :: a', y :: b' => (x =? y) && str_eqb a' b'
  | _, _ => false
  end.

Definition ch_comma : N := 44.
Definition ch_x : N := 120.
Definition ch_plus : N := 43.

(* strings.Split(s, ",") : never empty *)
Fixpoint split_comma (s : str) : list str :=
  match s with
  | [] => [[]]
  | c :: r =>
      if c =? ch_comma then [] :: split_comma r
      else match split_comma r with
           | p :: ps => (c :: p) :: ps
           | [] => [[c]]
           end
  end.

(* strconv.Atoi: optional sign, at least one decimal digit, nothing else (no '_' with an explicit base);
   a value outside int64 is an error *)
Fixpoint parse_dec_acc (s : str) (n : Z) : option Z :=
  match s with
  | [] => Some n
  | c :: r => if is_digit c then parse_dec_acc r (n * 10 + Z.of_N (c - 48))%Z else None
  end.

Definition two63 : Z := 9223372036854775808%Z.

Definition atoi (s : str) : option Z :=
  let '(neg, ds) := match s with
                    | c :: r => if c =? ch_minus then (true, r) else if c =? ch_plus then (false, r) else (false, s)
                    | [] => (false, s)
                    end in
  match ds with
  | [] => None
  | _ => match parse_dec_acc ds 0%Z with
         | None => None
         | Some u => if neg then (if (u <=? two63)%Z then Some (- u)%Z else None)
                     else (if (u <? two63)%Z then Some u else None)
         end
  end.

(* strconv.ParseUint(s, 16, 16): non-empty, hex digits of either case only, value <= 0xffff (leading zeros allowed) *)
Definition hex_digit (b : N) : option N :=
  if (48 <=? b) && (b <=? 57) then Some (b - 48)
  else if (97 <=? b) && (b <=? 102) then Some (b - 87)
  else if (65 <=? b) && (b <=? 70) then Some (b - 55)
  else None.

Fixpoint parse_hex_acc (s : str) (n : N) : option N :=
  match s with
  | [] => Some n
  | c :: r => match hex_digit c with
              | None => None
              | Some d => let n1 := n * 16 + d in if n1 <=? 65535 then parse_hex_acc r n1 else None
              end
  end.

Definition parse_uint16_hex (s : str) : option N :=
  match s with [] => None | _ => parse_hex_acc s 0 end.

(* TomlKeyToEvCode *)
Definition toml_key_to_evcode (tab : list (str * N)) (k : str) : option N :=
  match k with
  | c :: r => if c =? ch_x then parse_uint16_hex r else get str_eqb k tab
  | [] => get str_eqb k tab
  end.

Record tables := { tab_keys : list (str * N); tab_abs : list (str * N) }.

(* ------------------------------------------------------------------ name tables of config.go *)
Definition action_table : list (str * action) := [
  ([109; 97; 112; 112; 105; 110; 103; 95; 117; 112], MappingUp);                    (* mapping_up *)
  ([109; 97; 112; 112; 105; 110; 103; 95; 100; 111; 119; 110], MappingDown);        (* mapping_down *)
  ([109; 97; 112; 112; 105; 110; 103], AMapping);                                    (* mapping *)
  ([111; 99; 116; 97; 118; 101; 95; 117; 112], OctaveUp);                            (* octave_up *)
  ([111; 99; 116; 97; 118; 101; 95; 100; 111; 119; 110], OctaveDown);                (* octave_down *)
  ([115; 101; 109; 105; 116; 111; 110; 101; 95; 117; 112], SemitoneUp);              (* semitone_up *)
  ([115; 101; 109; 105; 116; 111; 110; 101; 95; 100; 111; 119; 110], SemitoneDown);  (* semitone_down *)
  ([99; 104; 97; 110; 110; 101; 108; 95; 117; 112], ChannelUp);                      (* channel_up *)
  ([99; 104; 97; 110; 110; 101; 108; 95; 100; 111; 119; 110], ChannelDown);          (* channel_down *)
  ([99; 104; 97; 110; 110; 101; 108], AChannel);                                     (* channel *)
  ([109; 117; 108; 116; 105; 110; 111; 116; 101], Multinote);                        (* multinote *)
  ([112; 97; 110; 105; 99], Panic);                                                  (* panic *)
  ([99; 99; 95; 108; 101; 97; 114; 110; 105; 110; 103], Learning);                   (* cc_learning *)
  ([101; 120; 105; 116], Exit)                                                       (* exit *)
].

Definition type_table : list (str * atype) := [
  ([112; 105; 116; 99; 104; 95; 98; 101; 110; 100], APitchBend);   (* pitch_bend *)
  ([99; 99], ACC);                                                 (* cc *)
  ([107; 101; 121], AKeySim);                                      (* key *)
  ([97; 99; 116; 105; 111; 110], AActionSim)                       (* action *)
].

Definition cmode_table : list (str * cmode) := [
  ([111; 102; 102], COff);                                         (* off *)
  ([110; 111; 95; 114; 101; 112; 101; 97; 116], CNoRepeat);        (* no_repeat *)
  ([105; 110; 116; 101; 114; 114; 117; 112; 116], CInterrupt);     (* interrupt *)
  ([114; 101; 116; 114; 105; 103; 103; 101; 114], CRetrigger)      (* retrigger *)
].

(* SupportedActions[Action(s)] etc.: [None] = not supported *)
Definition action_of_string (s : str) : option action := get str_eqb s action_table.
Definition type_of_string (s : str) : option atype := get str_eqb s type_table.
Definition cmode_of_string (s : str) : option cmode := get str_eqb s cmode_table.

(* ------------------------------------------------------------------ the decoded file *)
Record t_axis := {
  x_type : str;
  x_cc : option Z; x_ccneg : option Z;
  x_note : option Z; x_noteneg : option Z;
  x_off : Z; x_offneg : Z;
  x_act : option str; x_actneg : option str;
  x_flip : bool; x_dzc : bool }.

Record t_keysub := { ks_sub : str; ks_map : list (str * str) }.

Record t_analogsub := {
  as_sub : str;
  as_defdz : N;                          (* float64 bits *)
  as_map : list (str * t_axis);
  as_dz : list (str * N) }.              (* float64 bits *)

Record t_mapping := { tm_name : str; tm_keys : list t_keysub; tm_analog : list t_analogsub }.

Record toml_cfg := {
  t_cmode : str;
  t_exit : list str;
  t_bus : N; t_vendor : N; t_product : N; t_version : N; t_uniq : str;
  t_octave : Z; t_semitone : Z; t_channel : Z; t_defmap : str; t_velocity : Z;
  t_actions : list (str * str);
  t_rgb : list Z;                        (* white black c unavailable other active active_external *)
  t_mappings : list t_mapping }.

(* ------------------------------------------------------------------ the resulting Config *)
Record pmapping := {
  pm_name : str;
  pm_midi : list (str * list (N * key));        (* sub-handler -> code -> Key *)
  pm_analog : list (str * list (N * analog));
  pm_dz : list (str * list (N * N));
  pm_defdz : list (str * N) }.

Definition color := (N * N * N)%type.

Record pconfig := {
  p_bus : N; p_vendor : N; p_product : N; p_version : N; p_uniq : str;
  p_mappings : list pmapping;
  p_actions : list (N * action);
  p_exit : list N;
  p_cmode : cmode;
  p_octave : Z; p_semitone : Z; p_channel : Z; p_mapping : nat; p_velocity : Z;
  p_colors : list color }.

(* ------------------------------------------------------------------ conversion *)
(* which of the fixes are present; the model of the code under verification is [all_fixed] *)
Record fixes := { fx_channel : bool; fx_actneg : bool; fx_axis : bool }.
Definition all_fixed : fixes := {| fx_channel := true; fx_actneg := true; fx_axis := true |}.
Definition original : fixes := {| fx_channel := false; fx_actneg := false; fx_axis := false |}.

Definition in_range (lo hi z : Z) : bool := ((lo <=? z) && (z <=? hi))%Z.
Definition byte_of (z : Z) : N := Z.to_N (z mod 256).       (* byte(int) *)

Definition note_of_string (s : str) : outcome N :=
  match atoi s with
  | Some z => if in_range 0 127 z then Ok (Z.to_N z) else Err ENoteRange
  | None => match string_to_note s with Some n => Ok n | None => Err ENoteName end
  end.

Definition offset_of_string (s : str) : outcome N :=
  match atoi s with
  | None => Err EOffset
  | Some z => if in_range 0 15 z then Ok (Z.to_N z) else Err EOffsetRange
  end.

Definition conv_key_value (v : str) : outcome key :=
  match split_comma v with
  | [n] => o <- offset_of_string [48] ;; nn <- note_of_string n ;; Ok {| k_note := nn; k_off := o |}
  | [n; os] => o <- offset_of_string os ;; nn <- note_of_string n ;; Ok {| k_note := nn; k_off := o |}
  | _ => Err EFieldCount
  end.

Definition conv_key_entry (T : tables) (k v : str) : outcome (N * key) :=
  match toml_key_to_evcode (tab_keys T) k with
  | None => Err EKeyName
  | Some code => r <- conv_key_value v ;; Ok (code, r)
  end.

Definition mk_analog ty cc ccneg note noteneg off offneg act actneg flip bidi dzc : analog :=
  {| a_type := ty; a_cc := cc; a_ccneg := ccneg; a_note := note; a_noteneg := noteneg; a_off := off; a_offneg := offneg;
     a_act := act; a_actneg := actneg; a_flip := flip; a_bidi := bidi; a_dzc := dzc |}.

(* an optional second value with range check: (value, present) *)
Definition opt_ranged (hi : Z) (e : err) (o : option Z) : outcome (N * bool) :=
  match o with
  | None => Ok (0, false)
  | Some z => if in_range 0 hi z then Ok (byte_of z, true) else Err e
  end.

(* channel_offset of cc / pitch_bend axes: byte(int) without a check in the original *)
Definition axis_offset (fx : fixes) (z : Z) : outcome N :=
  if fx_axis fx then (if in_range 0 15 z then Ok (byte_of z) else Err EAxisOffset) else Ok (byte_of z).
(* channel_offset of key axes: not copied at all in the original *)
Definition key_axis_offset (fx : fixes) (z : Z) : outcome N :=
  if fx_axis fx then (if in_range 0 15 z then Ok (byte_of z) else Err EAxisOffset) else Ok 0.

Definition conv_axis (fx : fixes) (x : t_axis) : outcome analog :=
  match type_of_string (x_type x) with
  | None => Err EMapType
  | Some ACC =>
      match x_cc x with
      | None => Err ECCMissing
      | Some cc =>
          if in_range 0 119 cc then
            n <- opt_ranged 119 ECCRange (x_ccneg x) ;;
            o <- axis_offset fx (x_off x) ;;
            on <- axis_offset fx (x_offneg x) ;;
            Ok (mk_analog ACC (byte_of cc) (fst n) 0 0 o on ANone ANone (x_flip x) (snd n) (x_dzc x))
          else Err ECCRange
      end
  | Some APitchBend =>
      o <- axis_offset fx (x_off x) ;;
      Ok (mk_analog APitchBend 0 0 0 0 o 0 ANone ANone (x_flip x) false (x_dzc x))
  | Some AActionSim =>
      match x_act x with
      | None => Err EActionMissing
      | Some s =>
          match action_of_string s with
          | None => Err EAction
          | Some a =>
              if fx_actneg fx then
                match x_actneg x with
                | None => Ok (mk_analog AActionSim 0 0 0 0 0 0 a ANone (x_flip x) false (x_dzc x))
                | Some sn =>
                    match action_of_string sn with
                    | None => Err EAction
                    | Some an => Ok (mk_analog AActionSim 0 0 0 0 0 0 a an (x_flip x) true (x_dzc x))
                    end
                end
              else
                (* original: [if analog.Action != nil { actionNegative = Action( *analog.ActionNegative )]: nil dereference,
                   and the re-check of the positive action validates nothing *)
                match x_actneg x with
                | None => Crash
                | Some sn =>
                    let an := match action_of_string sn with Some an => an | None => ANone end in
                    Ok (mk_analog AActionSim 0 0 0 0 0 0 a an (x_flip x) true (x_dzc x))
                end
          end
      end
  | Some AKeySim =>
      match x_note x with
      | None => Err ENoteMissing
      | Some nt =>
          if in_range 0 127 nt then
            n <- opt_ranged 127 ENoteRange (x_noteneg x) ;;
            o <- key_axis_offset fx (x_off x) ;;
            on <- key_axis_offset fx (x_offneg x) ;;
            (* original: noteNeg = byte( *analog.Note ) *)
            let nn := if fx_axis fx then fst n else (if snd n then byte_of nt else 0) in
            Ok (mk_analog AKeySim 0 0 (byte_of nt) nn o on ANone ANone (x_flip x) (snd n) (x_dzc x))
          else Err ENoteRange
      end
  | Some AUnknown => Err EMapType
  end.

Definition conv_axis_entry (fx : fixes) (T : tables) (k : str) (x : t_axis) : outcome (N * analog) :=
  match toml_key_to_evcode (tab_abs T) k with
  | None => Err EAxisName
  | Some code => a <- conv_axis fx x ;; Ok (code, a)
  end.

Definition conv_dz_entry (T : tables) (k : str) (bits : N) : outcome (N * N) :=
  match toml_key_to_evcode (tab_abs T) k with
  | None => Err EDeadzoneName
  | Some code => Ok (code, bits)
  end.

Definition conv_action_entry (T : tables) (k v : str) : outcome (N * action) :=
  match toml_key_to_evcode (tab_keys T) k with
  | None => Err EActionKey
  | Some code => match action_of_string v with None => Err EActionName | Some a => Ok (code, a) end
  end.

(* [for k, v := range m { ...; out[code] = value }] *)
Section MapFold.
  Context {V R : Type}.
  Variable f : str -> V -> outcome (N * R).
  Fixpoint map_fold (l : list (str * V)) (acc : list (N * R)) : outcome (list (N * R)) :=
    match l with
    | [] => Ok acc
    | (k, v) :: r =>
        match f k v with
        | Ok (code, x) => map_fold r (set N.eqb code x acc)
        | Err e => Err e
        | Crash => Crash
        end
    end.
End MapFold.

(* [for _, s := range subs { out[s.SubHandler] = value }]: later sub-handlers of the same name overwrite *)
Definition build {R} (l : list (str * R)) : list (str * R) :=
  fold_left (fun acc kv => set str_eqb (fst kv) (snd kv) acc) l [].

Definition is_nil {A} (l : list A) : bool := match l with [] => true | _ => false end.

Definition conv_keysub (T : tables) (ks : t_keysub) : outcome (str * list (N * key)) :=
  m <- map_fold (conv_key_entry T) (ks_map ks) [] ;; Ok (ks_sub ks, m).

Record asub := { asub_name : str; asub_map : list (N * analog); asub_dz : list (N * N); asub_def : N }.

Definition conv_analogsub (fx : fixes) (T : tables) (a : t_analogsub) : outcome asub :=
  m <- map_fold (conv_axis_entry fx T) (as_map a) [] ;;
  d <- map_fold (conv_dz_entry T) (as_dz a) [] ;;
  Ok {| asub_name := as_sub a; asub_map := m; asub_dz := d; asub_def := as_defdz a |}.

Definition conv_mapping (fx : fixes) (T : tables) (m : t_mapping) : outcome pmapping :=
  ks <- mapM (conv_keysub T) (tm_keys m) ;;
  an <- mapM (conv_analogsub fx T) (tm_analog m) ;;
  Ok {| pm_name := tm_name m;
        pm_midi := build (filter (fun p => negb (is_nil (snd p))) ks);     (* if len(midiMappingTmp) > 0 *)
        pm_analog := build (map (fun a => (asub_name a, asub_map a)) an);
        pm_dz := build (map (fun a => (asub_name a, asub_dz a)) an);
        pm_defdz := build (map (fun a => (asub_name a, asub_def a)) an) |}.

(* [for i, mapping := range keyMapping { if mapping.Name == want { mappingIndex = i } }]: the last one wins *)
Fixpoint find_last_from (want : str) (names : list str) (i : nat) (cur : option nat) : option nat :=
  match names with
  | [] => cur
  | n :: r => find_last_from want r (S i) (if str_eqb n want then Some i else cur)
  end.

Definition color_of (v : Z) : color := (byte_of (Z.shiftr v 16), byte_of (Z.shiftr v 8), byte_of v).

Definition convert_gen (fx : fixes) (T : tables) (t : toml_cfg) : outcome pconfig :=
  ms <- mapM (conv_mapping fx T) (t_mappings t) ;;
  acts <- map_fold (conv_action_entry T) (t_actions t) [] ;;
  match cmode_of_string (t_cmode t) with
  | None => Err ECollision
  | Some cm =>
      match find_last_from (t_defmap t) (map pm_name ms) 0%nat None with
      | None => Err EDefaultMapping
      | Some idx =>
          ex <- mapM (fun k => match toml_key_to_evcode (tab_keys T) k with Some c => Ok c | None => Err EExitName end)
                     (t_exit t) ;;
          if in_range 0 127 (t_velocity t) then
            if fx_channel fx && negb (in_range 1 16 (t_channel t)) then Err EChannel
            else
              Ok {| p_bus := t_bus t; p_vendor := t_vendor t; p_product := t_product t; p_version := t_version t;
                    p_uniq := t_uniq t;
                    p_mappings := ms; p_actions := acts; p_exit := ex; p_cmode := cm;
                    p_octave := t_octave t; p_semitone := t_semitone t; p_channel := t_channel t;
                    p_mapping := idx;
                    p_velocity := (if (t_velocity t =? 0)%Z then 64%Z else t_velocity t);
                    p_colors := map color_of (t_rgb t) |}
          else Err EVelocity
      end
  end.

Definition convert : tables -> toml_cfg -> outcome pconfig := convert_gen all_fixed.
Definition convert_orig : tables -> toml_cfg -> outcome pconfig := convert_gen original.

(* ------------------------------------------------------------------ hidi.toml (cmd/hidi/config.go) *)
Record hidi_raw := { h_pool : Z; h_disc : Z; h_stab : Z }.   (* log_view_rate, log_buffer_size are decoded and unused *)
Record hidi_cfg := { hc_throttle : Z; hc_disc : Z; hc_stab : Z }.   (* time.Duration = int64 nanoseconds *)

Definition wrap64 (z : Z) : Z := ((z + two63) mod (2 * two63) - two63)%Z.

(* time.Second / time.Duration(rate): int64 division truncates towards zero and panics on a zero divisor *)
Definition hidi_convert_gen (fixed : bool) (r : hidi_raw) : outcome hidi_cfg :=
  if fixed && ((h_pool r <=? 0)%Z || (h_disc r <=? 0)%Z) then Err ERate
  else if ((h_pool r =? 0)%Z || (h_disc r =? 0)%Z) then Crash
  else Ok {| hc_throttle := Z.quot 1000000000 (h_pool r);
             hc_disc := Z.quot 1000000000 (h_disc r);
             hc_stab := wrap64 (1000000 * h_stab r) |}.

Definition hidi_convert : hidi_raw -> outcome hidi_cfg := hidi_convert_gen true.

(* ------------------------------------------------------------------ the decoder as an oracle + recover (F8) *)
Inductive dec_outcome (A : Type) := DecOk (t : A) | DecErr | DecPanic.
Arguments DecOk {A} t.
Arguments DecErr {A}.
Arguments DecPanic {A}.

(* [recovering = true]: [defer func() { if r := recover(); r != nil { err = ... } }()] around decoder and conversion *)
Definition guard_gen (recovering : bool) {A C} (d : dec_outcome A) (conv : A -> outcome C) : outcome C :=
  match d with
  | DecOk t => match conv t with
               | Crash => if recovering then Err EPanic else Crash
               | r => r
               end
  | DecErr => Err EDecode
  | DecPanic => if recovering then Err EPanic else Crash
  end.

Definition guard {A C} : dec_outcome A -> (A -> outcome C) -> outcome C := guard_gen true.

(* ParseData / LoadHIDIConfig given the decoder's outcome on the file content *)
Definition parse_data (T : tables) (d : dec_outcome toml_cfg) : outcome pconfig := guard d (convert T).
Definition load_hidi (d : dec_outcome hidi_raw) : outcome hidi_cfg := guard d hidi_convert.

(* ====================================================================================================== *)
(* SPECIFICATION SIDE of C10.  Nothing below mentions [convert] or the [conv_*] functions.                 *)
(* ====================================================================================================== *)

Definition no_comma (s : str) : Prop := ~ In ch_comma s.

(* what a note text states: a decimal number 0..127, or else a note name *)
Definition note_states (s : str) (n : N) : Prop :=
  (atoi s = Some (Z.of_N n) /\ n <= 127) \/ (atoi s = None /\ string_to_note s = Some n).

Definition offset_states (s : str) (o : N) : Prop := atoi s = Some (Z.of_N o) /\ o <= 15.

(* "note" or "note,offset" *)
Definition key_states (v : str) (k : key) : Prop :=
  (no_comma v /\ note_states v (k_note k) /\ k_off k = 0) \/
  (exists ns os, v = ns ++ ch_comma :: os /\ no_comma ns /\ no_comma os /\
                 note_states ns (k_note k) /\ offset_states os (k_off k)).

Definition opt_states (o : option Z) (v : N) (present : bool) : Prop :=
  match o with
  | None => v = 0 /\ present = false
  | Some z => Z.of_N v = z /\ present = true
  end.

Definition action_states (o : option str) (a : action) (present : bool) : Prop :=
  match o with
  | None => a = ANone /\ present = false
  | Some s => action_of_string s = Some a /\ present = true
  end.

(* one axis entry, field by field; fields a mapping type does not use are zero *)
Definition axis_states (x : t_axis) (a : analog) : Prop :=
  type_of_string (x_type x) = Some (a_type a) /\
  a_flip a = x_flip x /\ a_dzc a = x_dzc x /\
  match a_type a with
  | ACC =>
      opt_states (x_cc x) (a_cc a) true /\ opt_states (x_ccneg x) (a_ccneg a) (a_bidi a) /\
      Z.of_N (a_off a) = x_off x /\ Z.of_N (a_offneg a) = x_offneg x /\
      a_note a = 0 /\ a_noteneg a = 0 /\ a_act a = ANone /\ a_actneg a = ANone
  | APitchBend =>
      Z.of_N (a_off a) = x_off x /\ a_offneg a = 0 /\ a_bidi a = false /\
      a_cc a = 0 /\ a_ccneg a = 0 /\ a_note a = 0 /\ a_noteneg a = 0 /\ a_act a = ANone /\ a_actneg a = ANone
  | AKeySim =>
      opt_states (x_note x) (a_note a) true /\ opt_states (x_noteneg x) (a_noteneg a) (a_bidi a) /\
      Z.of_N (a_off a) = x_off x /\ Z.of_N (a_offneg a) = x_offneg x /\
      a_cc a = 0 /\ a_ccneg a = 0 /\ a_act a = ANone /\ a_actneg a = ANone
  | AActionSim =>
      action_states (x_act x) (a_act a) true /\ action_states (x_actneg x) (a_actneg a) (a_bidi a) /\
      a_off a = 0 /\ a_offneg a = 0 /\ a_cc a = 0 /\ a_ccneg a = 0 /\ a_note a = 0 /\ a_noteneg a = 0
  | AUnknown => False
  end.

(* a Go map keyed by evdev code reflects a TOML table keyed by names: same set of codes, every value stated by an entry *)
Section MapReflects.
  Context {V R : Type}.
  Variable tab : list (str * N).
  Variable states : V -> R -> Prop.
  Definition map_reflects (fm : list (str * V)) (rm : list (N * R)) : Prop :=
    NoDup (keys rm) /\
    (forall k v, In (k, v) fm -> exists code, toml_key_to_evcode tab k = Some code /\ In code (keys rm)) /\
    (forall code r, In (code, r) rm ->
       exists k v, In (k, v) fm /\ toml_key_to_evcode tab k = Some code /\ states v r).
End MapReflects.

(* a Go map keyed by sub-handler name reflects the array of sub-handler tables: for every name the LAST table of that
   name (among those kept) is the one reflected, and there is nothing else *)
Section SubsReflect.
  Context {A R : Type}.
  Variable sub_of : A -> str.
  Variable keep : A -> bool.
  Variable rel : A -> R -> Prop.
  Definition last_sub (fl : list A) (s : str) : option A :=
    find (fun a => str_eqb (sub_of a) s && keep a) (rev fl).
  Definition subs_reflect (fl : list A) (rm : list (str * R)) : Prop :=
    NoDup (keys rm) /\
    forall s, match get str_eqb s rm, last_sub fl s with
              | Some r, Some a => rel a r
              | None, None => True
              | _, _ => False
              end.
End SubsReflect.

Definition mapping_reflects (T : tables) (m : t_mapping) (pm : pmapping) : Prop :=
  pm_name pm = tm_name m /\
  subs_reflect ks_sub (fun ks => negb (is_nil (ks_map ks)))
               (fun ks r => map_reflects (tab_keys T) key_states (ks_map ks) r) (tm_keys m) (pm_midi pm) /\
  subs_reflect as_sub (fun _ => true)
               (fun a r => map_reflects (tab_abs T) axis_states (as_map a) r) (tm_analog m) (pm_analog pm) /\
  subs_reflect as_sub (fun _ => true)
               (fun a r => map_reflects (tab_abs T) (fun bits r => r = bits) (as_dz a) r) (tm_analog m) (pm_dz pm) /\
  subs_reflect as_sub (fun _ => true) (fun a r => r = as_defdz a) (tm_analog m) (pm_defdz pm).

(* colours: 0xRRGGBB *)
Definition color_states (v : Z) (c : color) : Prop :=
  let '(r, g, b) := c in
  Z.of_N r = ((v / 65536) mod 256)%Z /\ Z.of_N g = ((v / 256) mod 256)%Z /\ Z.of_N b = (v mod 256)%Z.

Definition reflects (T : tables) (t : toml_cfg) (c : pconfig) : Prop :=
  p_bus c = t_bus t /\ p_vendor c = t_vendor t /\ p_product c = t_product t /\ p_version c = t_version t /\
  p_uniq c = t_uniq t /\
  Forall2 (mapping_reflects T) (t_mappings t) (p_mappings c) /\
  map_reflects (tab_keys T) (fun s a => action_of_string s = Some a) (t_actions t) (p_actions c) /\
  Forall2 (fun k code => toml_key_to_evcode (tab_keys T) k = Some code) (t_exit t) (p_exit c) /\
  cmode_of_string (t_cmode t) = Some (p_cmode c) /\
  p_octave c = t_octave t /\ p_semitone c = t_semitone t /\ p_channel c = t_channel t /\
  (* velocity 0 means 64 *)
  (t_velocity t = 0%Z -> p_velocity c = 64%Z) /\ (t_velocity t <> 0%Z -> p_velocity c = t_velocity t) /\
  (* the default mapping index designates a mapping carrying the default name *)
  (exists m, nth_error (t_mappings t) (p_mapping c) = Some m /\ tm_name m = t_defmap t) /\
  Forall2 color_states (t_rgb t) (p_colors c).

(* which one, when several mappings carry that name: the code takes the last one.  Stated and proved separately
   (C10_default_is_last); not part of the run-time monitor, because the property text does not choose among them. *)
Definition default_is_last (t : toml_cfg) (c : pconfig) : Prop :=
  forall j m, (p_mapping c < j)%nat -> nth_error (t_mappings t) j = Some m -> tm_name m <> t_defmap t.

(* ------------------------------------------------------------------ MIDI ranges *)
Definition wf_key (k : key) : Prop := k_note k <= 127 /\ k_off k <= 15.

Definition wf_analog (a : analog) : Prop :=
  a_type a <> AUnknown /\
  a_cc a <= 119 /\ a_ccneg a <= 119 /\ a_note a <= 127 /\ a_noteneg a <= 127 /\ a_off a <= 15 /\ a_offneg a <= 15 /\
  (a_type a = AActionSim -> a_act a <> ANone /\ (a_bidi a = true -> a_actneg a <> ANone)).

Definition wf_mapping (pm : pmapping) : Prop :=
  Forall (fun sm => Forall (fun ck => wf_key (snd ck)) (snd sm)) (pm_midi pm) /\
  Forall (fun sm => Forall (fun ca => wf_analog (snd ca)) (snd sm)) (pm_analog pm).

(* the collision mode is one of the four supported ones by typing ([cmode] has no other value) *)
Definition wf_pconfig (c : pconfig) : Prop :=
  p_mappings c <> [] /\ (p_mapping c < length (p_mappings c))%nat /\
  Forall wf_mapping (p_mappings c) /\
  Forall (fun ca => snd ca <> ANone) (p_actions c) /\
  (1 <= p_velocity c <= 127)%Z /\ (1 <= p_channel c <= 16)%Z.

(* ------------------------------------------------------------------ invalid files, class by class *)
Fixpoint comma_count (s : str) : nat :=
  match s with [] => O | c :: r => if c =? ch_comma then S (comma_count r) else comma_count r end.

(* the text before the first comma (all of it if there is none) *)
Definition note_piece (v ns : str) : Prop := no_comma ns /\ (v = ns \/ exists os, v = ns ++ ch_comma :: os).

Definition out_of (lo hi z : Z) : Prop := (z < lo \/ hi < z)%Z.

Inductive bad_key_entry (T : tables) (k v : str) : Prop :=
| bk_name : toml_key_to_evcode (tab_keys T) k = None -> bad_key_entry T k v            (* unknown key name / bad hex code *)
| bk_commas : (2 <= comma_count v)%nat -> bad_key_entry T k v                          (* more than one comma *)
| bk_offset ns os : v = ns ++ ch_comma :: os -> no_comma ns -> no_comma os ->
    (atoi os = None \/ exists z, atoi os = Some z /\ out_of 0 15 z) -> bad_key_entry T k v   (* offset not 0..15 *)
| bk_note_range ns z : note_piece v ns -> atoi ns = Some z -> out_of 0 127 z -> bad_key_entry T k v
| bk_note_name ns : note_piece v ns -> atoi ns = None -> string_to_note ns = None -> bad_key_entry T k v.

Definition opt_out_of (hi : Z) (o : option Z) : Prop := exists z, o = Some z /\ out_of 0 hi z.
Definition opt_bad_action (o : option str) : Prop := exists s, o = Some s /\ action_of_string s = None.

Inductive bad_axis_entry (T : tables) (k : str) (x : t_axis) : Prop :=
| ba_name : toml_key_to_evcode (tab_abs T) k = None -> bad_axis_entry T k x
| ba_type : type_of_string (x_type x) = None -> bad_axis_entry T k x
| ba_cc_absent : type_of_string (x_type x) = Some ACC -> x_cc x = None -> bad_axis_entry T k x
| ba_cc_range : type_of_string (x_type x) = Some ACC -> opt_out_of 119 (x_cc x) -> bad_axis_entry T k x
| ba_ccneg_range : type_of_string (x_type x) = Some ACC -> opt_out_of 119 (x_ccneg x) -> bad_axis_entry T k x
| ba_cc_off : type_of_string (x_type x) = Some ACC -> out_of 0 15 (x_off x) -> bad_axis_entry T k x
| ba_cc_offneg : type_of_string (x_type x) = Some ACC -> out_of 0 15 (x_offneg x) -> bad_axis_entry T k x
| ba_pb_off : type_of_string (x_type x) = Some APitchBend -> out_of 0 15 (x_off x) -> bad_axis_entry T k x
| ba_act_absent : type_of_string (x_type x) = Some AActionSim -> x_act x = None -> bad_axis_entry T k x
| ba_act : type_of_string (x_type x) = Some AActionSim -> opt_bad_action (x_act x) -> bad_axis_entry T k x
| ba_actneg : type_of_string (x_type x) = Some AActionSim -> opt_bad_action (x_actneg x) -> bad_axis_entry T k x
| ba_note_absent : type_of_string (x_type x) = Some AKeySim -> x_note x = None -> bad_axis_entry T k x
| ba_note_range : type_of_string (x_type x) = Some AKeySim -> opt_out_of 127 (x_note x) -> bad_axis_entry T k x
| ba_noteneg_range : type_of_string (x_type x) = Some AKeySim -> opt_out_of 127 (x_noteneg x) -> bad_axis_entry T k x
| ba_key_off : type_of_string (x_type x) = Some AKeySim -> out_of 0 15 (x_off x) -> bad_axis_entry T k x
| ba_key_offneg : type_of_string (x_type x) = Some AKeySim -> out_of 0 15 (x_offneg x) -> bad_axis_entry T k x.

Inductive invalid (T : tables) (t : toml_cfg) : Prop :=
| inv_key m ks k v : In m (t_mappings t) -> In ks (tm_keys m) -> In (k, v) (ks_map ks) -> bad_key_entry T k v -> invalid T t
| inv_axis m a k x : In m (t_mappings t) -> In a (tm_analog m) -> In (k, x) (as_map a) -> bad_axis_entry T k x -> invalid T t
| inv_deadzone m a k b : In m (t_mappings t) -> In a (tm_analog m) -> In (k, b) (as_dz a) ->
    toml_key_to_evcode (tab_abs T) k = None -> invalid T t
| inv_action_key k v : In (k, v) (t_actions t) -> toml_key_to_evcode (tab_keys T) k = None -> invalid T t
| inv_action k v : In (k, v) (t_actions t) -> action_of_string v = None -> invalid T t
| inv_cmode : cmode_of_string (t_cmode t) = None -> invalid T t
| inv_default_mapping : ~ In (t_defmap t) (map tm_name (t_mappings t)) -> invalid T t
| inv_exit k : In k (t_exit t) -> toml_key_to_evcode (tab_keys T) k = None -> invalid T t
| inv_velocity : out_of 0 127 (t_velocity t) -> invalid T t
| inv_channel : out_of 1 16 (t_channel t) -> invalid T t.

(* ====================================================================================================== *)
(* Boolean versions (run-time monitors); proved to imply the relations above in Proofs/ParserProofs.v      *)
(* ====================================================================================================== *)

Definition note_states_b (s : str) (n : N) : bool :=
  match atoi s with
  | Some z => (z =? Z.of_N n)%Z && (n <=? 127)
  | None => match string_to_note s with Some m => m =? n | None => false end
  end.

Definition offset_states_b (s : str) (o : N) : bool :=
  match atoi s with Some z => (z =? Z.of_N o)%Z && (o <=? 15) | None => false end.

Definition key_states_b (v : str) (k : key) : bool :=
  match split_comma v with
  | [ns] => note_states_b ns (k_note k) && (k_off k =? 0)
  | [ns; os] => note_states_b ns (k_note k) && offset_states_b os (k_off k)
  | _ => false
  end.

Definition opt_states_b (o : option Z) (v : N) (present : bool) : bool :=
  match o with
  | None => (v =? 0) && negb present
  | Some z => (Z.of_N v =? z)%Z && present
  end.

Definition opt_action_eqb (a b : option action) : bool :=
  match a, b with Some x, Some y => action_eqb x y | None, None => true | _, _ => false end.

Definition action_states_b (o : option str) (a : action) (present : bool) : bool :=
  match o with
  | None => action_eqb a ANone && negb present
  | Some s => opt_action_eqb (action_of_string s) (Some a) && present
  end.

Definition atype_eqb (a b : atype) : bool :=
  match a, b with
  | ACC, ACC | APitchBend, APitchBend | AKeySim, AKeySim | AActionSim, AActionSim | AUnknown, AUnknown => true
  | _, _ => false
  end.

Definition cmode_eqb (a b : cmode) : bool :=
  match a, b with
  | COff, COff | CNoRepeat, CNoRepeat | CInterrupt, CInterrupt | CRetrigger, CRetrigger => true
  | _, _ => false
  end.

Definition axis_states_b (x : t_axis) (a : analog) : bool :=
  match type_of_string (x_type x) with Some ty => atype_eqb ty (a_type a) | None => false end &&
  Bool.eqb (a_flip a) (x_flip x) && Bool.eqb (a_dzc a) (x_dzc x) &&
  match a_type a with
  | ACC =>
      opt_states_b (x_cc x) (a_cc a) true && opt_states_b (x_ccneg x) (a_ccneg a) (a_bidi a) &&
      (Z.of_N (a_off a) =? x_off x)%Z && (Z.of_N (a_offneg a) =? x_offneg x)%Z &&
      (a_note a =? 0) && (a_noteneg a =? 0) && action_eqb (a_act a) ANone && action_eqb (a_actneg a) ANone
  | APitchBend =>
      (Z.of_N (a_off a) =? x_off x)%Z && (a_offneg a =? 0) && negb (a_bidi a) &&
      (a_cc a =? 0) && (a_ccneg a =? 0) && (a_note a =? 0) && (a_noteneg a =? 0) &&
      action_eqb (a_act a) ANone && action_eqb (a_actneg a) ANone
  | AKeySim =>
      opt_states_b (x_note x) (a_note a) true && opt_states_b (x_noteneg x) (a_noteneg a) (a_bidi a) &&
      (Z.of_N (a_off a) =? x_off x)%Z && (Z.of_N (a_offneg a) =? x_offneg x)%Z &&
      (a_cc a =? 0) && (a_ccneg a =? 0) && action_eqb (a_act a) ANone && action_eqb (a_actneg a) ANone
  | AActionSim =>
      action_states_b (x_act x) (a_act a) true && action_states_b (x_actneg x) (a_actneg a) (a_bidi a) &&
      (a_off a =? 0) && (a_offneg a =? 0) && (a_cc a =? 0) && (a_ccneg a =? 0) && (a_note a =? 0) && (a_noteneg a =? 0)
  | AUnknown => false
  end.

Fixpoint nodup_b {K} (eqb : K -> K -> bool) (l : list K) : bool :=
  match l with [] => true | x :: r => negb (mem eqb x r) && nodup_b eqb r end.

Section MapReflectsB.
  Context {V R : Type}.
  Variable tab : list (str * N).
  Variable states_b : V -> R -> bool.
  Definition map_reflects_b (fm : list (str * V)) (rm : list (N * R)) : bool :=
    nodup_b N.eqb (keys rm) &&
    forallb (fun kv => match toml_key_to_evcode tab (fst kv) with
                       | Some code => mem N.eqb code (keys rm)
                       | None => false
                       end) fm &&
    forallb (fun cr => existsb (fun kv => match toml_key_to_evcode tab (fst kv) with
                                          | Some code => (code =? fst cr) && states_b (snd kv) (snd cr)
                                          | None => false
                                          end) fm) rm.
End MapReflectsB.

Section SubsReflectB.
  Context {A R : Type}.
  Variable sub_of : A -> str.
  Variable keep : A -> bool.
  Variable rel_b : A -> R -> bool.
  Definition subs_reflect_b (fl : list A) (rm : list (str * R)) : bool :=
    nodup_b str_eqb (keys rm) &&
    forallb (fun s => match get str_eqb s rm, last_sub sub_of keep fl s with
                      | Some r, Some a => rel_b a r
                      | None, None => true
                      | _, _ => false
                      end) (keys rm ++ map sub_of fl).
End SubsReflectB.

Definition mapping_reflects_b (T : tables) (m : t_mapping) (pm : pmapping) : bool :=
  str_eqb (pm_name pm) (tm_name m) &&
  subs_reflect_b ks_sub (fun ks => negb (is_nil (ks_map ks)))
                 (fun ks r => map_reflects_b (tab_keys T) key_states_b (ks_map ks) r) (tm_keys m) (pm_midi pm) &&
  subs_reflect_b as_sub (fun _ => true)
                 (fun a r => map_reflects_b (tab_abs T) axis_states_b (as_map a) r) (tm_analog m) (pm_analog pm) &&
  subs_reflect_b as_sub (fun _ => true)
                 (fun a r => map_reflects_b (tab_abs T) (fun bits r => r =? bits) (as_dz a) r) (tm_analog m) (pm_dz pm) &&
  subs_reflect_b as_sub (fun _ => true) (fun a r => r =? as_defdz a) (tm_analog m) (pm_defdz pm).

Fixpoint forall2b {A B} (f : A -> B -> bool) (l : list A) (m : list B) : bool :=
  match l, m with
  | [], [] => true
  | a :: l', b :: m' => f a b && forall2b f l' m'
  | _, _ => false
  end.

Definition color_states_b (v : Z) (c : color) : bool :=
  let '(r, g, b) := c in
  ((Z.of_N r =? (v / 65536) mod 256) && (Z.of_N g =? (v / 256) mod 256) && (Z.of_N b =? v mod 256))%Z.

Definition opt_cmode_eqb (a : option cmode) (b : cmode) : bool :=
  match a with Some x => cmode_eqb x b | None => false end.

Definition reflects_b (T : tables) (t : toml_cfg) (c : pconfig) : bool :=
  (p_bus c =? t_bus t) && (p_vendor c =? t_vendor t) && (p_product c =? t_product t) && (p_version c =? t_version t) &&
  str_eqb (p_uniq c) (t_uniq t) &&
  forall2b (mapping_reflects_b T) (t_mappings t) (p_mappings c) &&
  map_reflects_b (tab_keys T) (fun s a => opt_action_eqb (action_of_string s) (Some a)) (t_actions t) (p_actions c) &&
  forall2b (fun k code => match toml_key_to_evcode (tab_keys T) k with Some c' => c' =? code | None => false end)
           (t_exit t) (p_exit c) &&
  opt_cmode_eqb (cmode_of_string (t_cmode t)) (p_cmode c) &&
  (p_octave c =? t_octave t)%Z && (p_semitone c =? t_semitone t)%Z && (p_channel c =? t_channel t)%Z &&
  (if (t_velocity t =? 0)%Z then (p_velocity c =? 64)%Z else (p_velocity c =? t_velocity t)%Z) &&
  match nth_error (t_mappings t) (p_mapping c) with
  | Some m => str_eqb (tm_name m) (t_defmap t)
  | None => false
  end &&
  forall2b color_states_b (t_rgb t) (p_colors c).

Definition wf_key_b (k : key) : bool := (k_note k <=? 127) && (k_off k <=? 15).

Definition wf_analog_b (a : analog) : bool :=
  negb (atype_eqb (a_type a) AUnknown) &&
  (a_cc a <=? 119) && (a_ccneg a <=? 119) && (a_note a <=? 127) && (a_noteneg a <=? 127) &&
  (a_off a <=? 15) && (a_offneg a <=? 15) &&
  (if atype_eqb (a_type a) AActionSim
   then negb (action_eqb (a_act a) ANone) && (if a_bidi a then negb (action_eqb (a_actneg a) ANone) else true)
   else true).

Definition wf_mapping_b (pm : pmapping) : bool :=
  forallb (fun sm => forallb (fun ck => wf_key_b (snd ck)) (snd sm)) (pm_midi pm) &&
  forallb (fun sm => forallb (fun ca => wf_analog_b (snd ca)) (snd sm)) (pm_analog pm).

Definition wf_pconfig_b (c : pconfig) : bool :=
  negb (is_nil (p_mappings c)) && Nat.ltb (p_mapping c) (length (p_mappings c)) &&
  forallb wf_mapping_b (p_mappings c) &&
  forallb (fun ca => negb (action_eqb (snd ca) ANone)) (p_actions c) &&
  in_range 1 127 (p_velocity c) && in_range 1 16 (p_channel c).
