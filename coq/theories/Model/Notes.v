(* Model of internal/pkg/midi/device/config/event.go: StringToNote, NoteToPitch, NoteToOctave.
   Strings are lists of bytes (N).  The regular expression
       ^(?P<pitch>[a-zA-Z]#?)(?P<octave>-?\d)$
   is a 2/3/4-byte pattern; strconv.Atoi on "-?\d" is the digit, negated after '-';
   the arithmetic is uint8 arithmetic, written out with [mod 256]. *)
From Coq Require Import List NArith ZArith Bool.
Import ListNotations.
Open Scope N_scope.

Definition is_upper (b : N) : bool := (65 <=? b) && (b <=? 90).
Definition is_lower (b : N) : bool := (97 <=? b) && (b <=? 122).
Definition is_letter (b : N) : bool := is_upper b || is_lower b.
Definition is_digit (b : N) : bool := (48 <=? b) && (b <=? 57).
Definition ch_sharp : N := 35.
Definition ch_minus : N := 45.

(* strings.ToUpper on one ASCII letter *)
Definition to_upper (b : N) : N := if is_lower b then b - 32 else b.

(* the shape accepted by the regular expression: (letter, sharp?, minus?, digit) *)
Definition shape := (N * bool * bool * N)%type.

Definition parse_shape (s : list N) : option shape :=
  match s with
  | [l; d] =>
      if is_letter l && is_digit d then Some (l, false, false, d) else None
  | [l; x; d] =>
      if is_letter l && is_digit d then
        if x =? ch_sharp then Some (l, true, false, d)
        else if x =? ch_minus then Some (l, false, true, d)
        else None
      else None
  | [l; x; y; d] =>
      if is_letter l && is_digit d && (x =? ch_sharp) && (y =? ch_minus)
      then Some (l, true, true, d) else None
  | _ => None
  end.

Definition render (sh : shape) : list N :=
  let '(l, sharp, minus, d) := sh in
  l :: (if sharp then [ch_sharp] else []) ++ (if minus then [ch_minus] else []) ++ [d].

(* pitchToVal lookup: key is the upper-cased letter plus optional '#'.
   [None] = key absent from the Go map. *)
Definition pitch_to_val (L : N) (sharp : bool) : option N :=
  match L, sharp with
  | 67, false => Some 0   (* C  *)
  | 67, true  => Some 1   (* C# *)
  | 68, false => Some 2   (* D  *)
  | 68, true  => Some 3   (* D# *)
  | 69, false => Some 4   (* E  *)
  | 70, false => Some 5   (* F  *)
  | 70, true  => Some 6   (* F# *)
  | 71, false => Some 7   (* G  *)
  | 71, true  => Some 8   (* G# *)
  | 65, false => Some 9   (* A  *)
  | 65, true  => Some 10  (* A# *)
  | 66, false => Some 11  (* B  *)
  | _, _ => None
  end.

(* uint8(octave) for octave = +-digit *)
Definition u8_octave (minus : bool) (d : N) : N :=
  let v := d - 48 in
  if minus then (256 - v) mod 256 else v.

(* calculated := (uint8(octave)+2)*12 + pitchToVal[pitch]   in uint8 *)
Definition calc (minus : bool) (d : N) (p : N) : N :=
  ((((u8_octave minus d + 2) mod 256) * 12) mod 256 + p) mod 256.

(* [strict = true]: the table lookup is checked (code after the fix);
   [strict = false]: a missing key reads as 0 (the Go zero value; original code). *)
Definition string_to_note_gen (strict : bool) (s : list N) : option N :=
  match parse_shape s with
  | None => None
  | Some (l, sharp, minus, d) =>
      match pitch_to_val (to_upper l) sharp with
      | None => if strict then None else
                  let c := calc minus d 0 in if c <=? 127 then Some c else None
      | Some p => let c := calc minus d p in if c <=? 127 then Some c else None
      end
  end.

Definition string_to_note := string_to_note_gen true.

(* valToPitch[note % 12] *)
Definition note_to_pitch (n : N) : list N :=
  match n mod 12 with
  | 0 => [67] | 1 => [67; 35] | 2 => [68] | 3 => [68; 35]
  | 4 => [69] | 5 => [70] | 6 => [70; 35] | 7 => [71]
  | 8 => [71; 35] | 9 => [65] | 10 => [65; 35] | _ => [66]
  end.

(* int(note/12) - 2 *)
Definition note_to_octave (n : N) : Z := (Z.of_N (n / 12) - 2)%Z.

(* decimal rendering of a one-digit octave, as fmt %d would print it *)
Definition octave_string (o : Z) : list N :=
  if (o <? 0)%Z then [ch_minus; 48 + Z.to_N (- o)] else [48 + Z.to_N o].

Definition name (n : N) : list N := note_to_pitch n ++ octave_string (note_to_octave n).

(* canonical spelling: upper-case letter, "-0" written "0" *)
Definition canon (s : list N) : list N :=
  match parse_shape s with
  | Some (l, sharp, minus, d) =>
      render (to_upper l, sharp, (if d =? 48 then false else minus), d)
  | None => s
  end.

(* ---------------------------------------------------------------------- *)
(* Independent specification of the 128 names (not sharing code with the
   uint8 arithmetic above): letter A-G, optional #, no E#/B#, octave -2..8. *)

Definition spec_pc (L : N) (sharp : bool) : option Z :=
  match L, sharp with
  | 67, false => Some 0%Z | 67, true => Some 1%Z | 68, false => Some 2%Z | 68, true => Some 3%Z
  | 69, false => Some 4%Z | 70, false => Some 5%Z | 70, true => Some 6%Z | 71, false => Some 7%Z
  | 71, true => Some 8%Z | 65, false => Some 9%Z | 65, true => Some 10%Z | 66, false => Some 11%Z
  | _, _ => None
  end.

Definition spec (s : list N) : option N :=
  match parse_shape s with
  | None => None
  | Some (l, sharp, minus, d) =>
      let o := (if minus then - Z.of_N (d - 48) else Z.of_N (d - 48))%Z in
      match spec_pc (to_upper l) sharp with
      | None => None
      | Some pc =>
          let v := ((o + 2) * 12 + pc)%Z in
          if ((-2 <=? o) && (o <=? 8) && (v <=? 127))%Z then Some (Z.to_N v) else None
      end
  end.

(* ---------------------------------------------------------------------- *)
(* The finite candidate space of everything the regular expression matches. *)

Fixpoint nrange (lo : N) (n : nat) : list N :=
  match n with O => [] | S k => lo :: nrange (lo + 1) k end.

Definition letters : list N := nrange 65 26 ++ nrange 97 26.
Definition digits : list N := nrange 48 10.

Definition candidates : list shape :=
  flat_map (fun l => flat_map (fun sh => flat_map (fun mi => map (fun d => (l, sh, mi, d)) digits)
                                                  [false; true]) [false; true]) letters.

Definition accepted_gen (strict : bool) : list (list N * N) :=
  flat_map (fun sh => match string_to_note_gen strict (render sh) with
                      | Some n => [(render sh, n)] | None => [] end) candidates.

Definition accepted := accepted_gen true.
