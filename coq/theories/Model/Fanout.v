(* C15, fan-out half: internal/pkg/utils/fan.go (DynamicFanOut) as a labelled transition system (DESIGN 3.7).

   Go code                                              labels
   ---------------------------------------------------  ------------------------------------------------------------
   run:   e := <-f.input                                 RunTake          (disabled when the input queue is empty)
          f.mutex.Lock()                                 RunLock          (disabled unless the mutex is free)
          for id, o := range f.outputs {                 iteration order is nondeterministic: any id still to serve
            [F12] if done(id) closed { continue }        RunCheck i       (fixed: a leaving output is skipped from now on)
            select { case o <- e:                        RunSend i        (disabled when o's queue is full)
                     [F12] case <-done(id): }            RunAbort i       (fixed only: enabled when i is leaving)
          }
          f.mutex.Unlock()                               RunUnlock
   SpawnOutput:   f.mutex.Lock()                         SpawnAcquire p   (p = ghost: stream position at the call)
                  id := smallest unused; outputs[id]=ch  SpawnInsert i    (any unused id: a superset of Go's choice)
                  f.mutex.Unlock(); return               SpawnRelease
   DespawnOutput: [F12] close(dones[id])                 DespawnMark i    (original algorithm: a no-op step)
                  f.mutex.Lock()                         DespawnAcquire i
                  close(c); delete(outputs, id)          DespawnRemove i
                  f.mutex.Unlock(); return               DespawnRelease i
   environment:   input <- x                             Produce x        (disabled when the input queue is full)
                  <-ch  (consumer i)                     Read i           (a consumer that stopped reading never takes it)
                  call SpawnOutput / DespawnOutput(i)    CallSpawn / CallDespawn i

   [fixed = false] is the algorithm of the repository, [fixed = true] the algorithm with fix F12 (per-output done channel).
   The short critical sections of F12's second mutex (doneMutex) never block and are modelled as atomic.
   Ghost fields (not in the Go program, used to state the theorems): [hist] = elements whose broadcast has begun, in order;
   per output [c_pre] = hist when it was inserted, [c_read] = what its consumer has read, [c_skipped], and the stream
   positions ([produced]) at its Spawn call / insert; per despawn call the position at the call and at the removal.
   A removed output is frozen in [gone] with what was still buffered: a consumer may still read that from the closed
   channel, which only moves items from [c_q] to [c_read].
   Environment constraints (the manager's usage): DespawnOutput is called once, with an id returned by SpawnOutput.
   Not modelled: closing the input channel (f.closed), the unreachable "no space available" error. *)
From Coq Require Import List Arith Bool.
From HIDI Require Import Model.Relay.
Import ListNotations.

Section Fanout.
  Context {T : Type}.
  Variable fixed : bool.  (* true = with fix F12 *)
  Variable icap : nat.    (* capacity of the input channel as modelled ([chan_cap (cap input)]); outputs get the same capacity *)

  Record output := mkOut {
    c_id : nat; c_q : list T; c_leaving : bool;
    (* ghost *) c_skipped : bool; c_pre : list T; c_read : list T; c_scall : nat; c_sins : nat }.

  Inductive runpc :=
  | Idle
  | Waiting (e : T)                              (* has e, waits for the mutex *)
  | Locked (e : T) (rem : list nat)              (* holds the mutex; outputs still to serve *)
  | Sending (e : T) (rem : list nat) (i : nat).  (* inside the (blocking) send to output i, i still in rem *)

  Inductive dspc := DsCalled | DsMarked | DsLocked | DsRemoved (o : output) (b pos : nat).
  Record dcall := mkDs { d_id : nat; d_pc : dspc; d_call : nat }.

  Inductive owner := Free | ORun | OSpawn (p : nat) (ins : option nat) | ODespawn (i : nat).

  (* a removed output: g_b = length of hist at the removal, g_dcall / g_drem = stream positions at the call / the removal *)
  Record gone_rec := mkGone { g_out : output; g_b : nat; g_dcall : nat; g_drem : nat }.

  Record state := mkSt {
    inq : list T; pc : runpc; own : owner; outs : list output;
    sp_wait : list nat;      (* pending SpawnOutput calls that have not acquired the mutex (ghost: position at the call) *)
    ds : list dcall;         (* pending DespawnOutput calls *)
    gone : list gone_rec; hist : list T }.

  Inductive label :=
  | RunTake | RunLock | RunCheck (i : nat) | RunSend (i : nat) | RunAbort (i : nat) | RunUnlock
  | SpawnAcquire (p : nat) | SpawnInsert (i : nat) | SpawnRelease
  | DespawnMark (i : nat) | DespawnAcquire (i : nat) | DespawnRemove (i : nat) | DespawnRelease (i : nat)
  | Produce (x : T) | Read (i : nat) | CallSpawn | CallDespawn (i : nat).

  Definition is_system (l : label) : bool :=
    match l with Produce _ | Read _ | CallSpawn | CallDespawn _ => false | _ => true end.

  Definition init : state :=
    {| inq := []; pc := Idle; own := Free; outs := []; sp_wait := []; ds := []; gone := []; hist := [] |}.

  (* ---- helpers *)
  Definition ids (os : list output) : list nat := map c_id os.
  Definition get_out (i : nat) (os : list output) : option output := find (fun o => c_id o =? i) os.
  Definition upd_out (i : nat) (f : output -> output) (os : list output) : list output :=
    map (fun o => if c_id o =? i then f o else o) os.
  Definition del_out (i : nat) (os : list output) : list output := filter (fun o => negb (c_id o =? i)) os.
  Definition mem (i : nat) (l : list nat) : bool := existsb (Nat.eqb i) l.
  Definition rem_id (i : nat) (l : list nat) : list nat := filter (fun j => negb (j =? i)) l.
  Fixpoint remove_one (p : nat) (l : list nat) : list nat :=
    match l with [] => [] | x :: r => if x =? p then r else x :: remove_one p r end.

  Definition get_ds (i : nat) (l : list dcall) : option dcall := find (fun d => d_id d =? i) l.
  Definition set_ds (i : nat) (p : dspc) (l : list dcall) : list dcall :=
    map (fun d => if d_id d =? i then mkDs (d_id d) p (d_call d) else d) l.
  Definition del_ds (i : nat) (l : list dcall) : list dcall := filter (fun d => negb (d_id d =? i)) l.

  Definition set_q (q : list T) (o : output) : output :=
    mkOut (c_id o) q (c_leaving o) (c_skipped o) (c_pre o) (c_read o) (c_scall o) (c_sins o).
  Definition set_leaving (o : output) : output :=
    mkOut (c_id o) (c_q o) true (c_skipped o) (c_pre o) (c_read o) (c_scall o) (c_sins o).
  Definition set_skipped (o : output) : output :=
    mkOut (c_id o) (c_q o) (c_leaving o) true (c_pre o) (c_read o) (c_scall o) (c_sins o).
  Definition do_read (x : T) (r : list T) (o : output) : output :=
    mkOut (c_id o) r (c_leaving o) (c_skipped o) (c_pre o) (c_read o ++ [x]) (c_scall o) (c_sins o).

  (* stream position = number of items that have entered the fan-out's input channel *)
  Definition produced (s : state) : nat :=
    length (hist s) + (match pc s with Waiting _ => 1 | _ => 0 end) + length (inq s).

  (* everything that was ever put into the output's channel *)
  Definition sent (o : output) : list T := c_read o ++ c_q o.

  Definition step (s : state) (l : label) : option state :=
    match l with
    | RunTake =>
        match pc s, inq s with
        | Idle, e :: r => Some (mkSt r (Waiting e) (own s) (outs s) (sp_wait s) (ds s) (gone s) (hist s))
        | _, _ => None
        end
    | RunLock =>
        match pc s, own s with
        | Waiting e, Free =>
            Some (mkSt (inq s) (Locked e (ids (outs s))) ORun (outs s) (sp_wait s) (ds s) (gone s) (hist s ++ [e]))
        | _, _ => None
        end
    | RunCheck i =>
        match pc s with
        | Locked e rem =>
            if mem i rem then
              match get_out i (outs s) with
              | Some o =>
                  if fixed && c_leaving o
                  then Some (mkSt (inq s) (Locked e (rem_id i rem)) (own s) (upd_out i set_skipped (outs s))
                                  (sp_wait s) (ds s) (gone s) (hist s))
                  else Some (mkSt (inq s) (Sending e rem i) (own s) (outs s) (sp_wait s) (ds s) (gone s) (hist s))
              | None => None
              end
            else None
        | _ => None
        end
    | RunSend i =>
        match pc s with
        | Sending e rem j =>
            if i =? j then
              match get_out i (outs s) with
              | Some o =>
                  if length (c_q o) <? icap
                  then Some (mkSt (inq s) (Locked e (rem_id i rem)) (own s) (upd_out i (set_q (c_q o ++ [e])) (outs s))
                                  (sp_wait s) (ds s) (gone s) (hist s))
                  else None
              | None => None
              end
            else None
        | _ => None
        end
    | RunAbort i =>
        match pc s with
        | Sending e rem j =>
            if (i =? j) && fixed then
              match get_out i (outs s) with
              | Some o =>
                  if c_leaving o
                  then Some (mkSt (inq s) (Locked e (rem_id i rem)) (own s) (upd_out i set_skipped (outs s))
                                  (sp_wait s) (ds s) (gone s) (hist s))
                  else None
              | None => None
              end
            else None
        | _ => None
        end
    | RunUnlock =>
        match pc s with
        | Locked e [] => Some (mkSt (inq s) Idle Free (outs s) (sp_wait s) (ds s) (gone s) (hist s))
        | _ => None
        end
    | SpawnAcquire p =>
        match own s with
        | Free => if mem p (sp_wait s)
                  then Some (mkSt (inq s) (pc s) (OSpawn p None) (outs s) (remove_one p (sp_wait s)) (ds s) (gone s) (hist s))
                  else None
        | _ => None
        end
    | SpawnInsert i =>
        match own s with
        | OSpawn p None =>
            if mem i (ids (outs s)) then None
            else Some (mkSt (inq s) (pc s) (OSpawn p (Some i))
                            (outs s ++ [mkOut i [] false false (hist s) [] p (produced s)])
                            (sp_wait s) (ds s) (gone s) (hist s))
        | _ => None
        end
    | SpawnRelease =>
        match own s with
        | OSpawn p (Some i) => Some (mkSt (inq s) (pc s) Free (outs s) (sp_wait s) (ds s) (gone s) (hist s))
        | _ => None
        end
    | DespawnMark i =>
        match get_ds i (ds s) with
        | Some (mkDs _ DsCalled _) =>
            Some (mkSt (inq s) (pc s) (own s) (if fixed then upd_out i set_leaving (outs s) else outs s)
                       (sp_wait s) (set_ds i DsMarked (ds s)) (gone s) (hist s))
        | _ => None
        end
    | DespawnAcquire i =>
        match own s, get_ds i (ds s) with
        | Free, Some (mkDs _ DsMarked _) =>
            Some (mkSt (inq s) (pc s) (ODespawn i) (outs s) (sp_wait s) (set_ds i DsLocked (ds s)) (gone s) (hist s))
        | _, _ => None
        end
    | DespawnRemove i =>
        match own s, get_ds i (ds s), get_out i (outs s) with
        | ODespawn j, Some (mkDs _ DsLocked _), Some o =>
            if i =? j
            then Some (mkSt (inq s) (pc s) (own s) (del_out i (outs s)) (sp_wait s)
                            (set_ds i (DsRemoved o (length (hist s)) (produced s)) (ds s)) (gone s) (hist s))
            else None
        | _, _, _ => None
        end
    | DespawnRelease i =>
        match own s, get_ds i (ds s) with
        | ODespawn j, Some (mkDs _ (DsRemoved o b pos) dc) =>
            if i =? j
            then Some (mkSt (inq s) (pc s) Free (outs s) (sp_wait s) (del_ds i (ds s)) (mkGone o b dc pos :: gone s) (hist s))
            else None
        | _, _ => None
        end
    | Produce x =>
        if length (inq s) <? icap
        then Some (mkSt (inq s ++ [x]) (pc s) (own s) (outs s) (sp_wait s) (ds s) (gone s) (hist s))
        else None
    | Read i =>
        match get_out i (outs s) with
        | Some o => match c_q o with
                    | x :: r => Some (mkSt (inq s) (pc s) (own s) (upd_out i (do_read x r) (outs s))
                                           (sp_wait s) (ds s) (gone s) (hist s))
                    | [] => None
                    end
        | None => None
        end
    | CallSpawn => Some (mkSt (inq s) (pc s) (own s) (outs s) (produced s :: sp_wait s) (ds s) (gone s) (hist s))
    | CallDespawn i =>
        match get_out i (outs s), get_ds i (ds s) with
        | Some _, None =>
            match own s with
            | OSpawn _ (Some j) => if i =? j then None (* SpawnOutput has not returned that id yet *)
                                   else Some (mkSt (inq s) (pc s) (own s) (outs s) (sp_wait s)
                                                   (mkDs i DsCalled (produced s) :: ds s) (gone s) (hist s))
            | _ => Some (mkSt (inq s) (pc s) (own s) (outs s) (sp_wait s)
                              (mkDs i DsCalled (produced s) :: ds s) (gone s) (hist s))
            end
        | _, _ => None
        end
    end.

  (* ---- vocabulary of the theorems *)

  (* the element being broadcast that output i has still to get *)
  Definition pending (s : state) (i : nat) : list T :=
    match pc s with
    | Locked e rem | Sending e rem _ => if mem i rem then [e] else []
    | _ => []
    end.

  Definition despawn_pending (s : state) (i : nat) : bool :=
    match get_ds i (ds s) with Some _ => true | None => false end.

  (* steps that may be needed for DespawnOutput(i) to return: the system's own steps and reads by the *other* consumers *)
  Definition allowed (i : nat) (l : label) : bool :=
    match l with Read j => negb (j =? i) | _ => is_system l end.

  (* attaching / detaching consumers other than i *)
  Definition attach_detach_other (i : nat) (l : label) : bool :=
    match l with
    | CallSpawn | SpawnAcquire _ | SpawnRelease => true
    | SpawnInsert j | CallDespawn j | DespawnMark j | DespawnAcquire j | DespawnRemove j | DespawnRelease j => negb (j =? i)
    | _ => false
    end.

  (* ranking function for the liveness theorem *)
  Definition sum_q (os : list output) : nat := list_sum (map (fun o => length (c_q o)) os).
  Definition spawn_cost (s : state) : nat :=
    3 * length (sp_wait s) + match own s with OSpawn _ None => 2 | OSpawn _ (Some _) => 1 | _ => 0 end.
  Definition ds_cost (d : dcall) : nat :=
    match d_pc d with DsCalled => 4 | DsMarked => 3 | DsLocked => 2 | DsRemoved _ _ _ => 1 end.
  Definition bound_outs (s : state) : nat :=   (* no later broadcast can have more outputs than that without a new CallSpawn *)
    length (outs s) + length (sp_wait s) + match own s with OSpawn _ None => 1 | _ => 0 end.
  Definition elem_cost (s : state) : nat := 3 * bound_outs s + 3.
  Definition run_cost (s : state) : nat :=
    match pc s with
    | Idle => 0
    | Waiting _ => elem_cost s - 1
    | Locked _ rem => 3 * length rem + 1
    | Sending _ rem _ => 3 * length rem
    end.
  Definition measure (s : state) : nat :=
    length (inq s) * elem_cost s + run_cost s + spawn_cost s + list_sum (map ds_cost (ds s)) + sum_q (outs s).
End Fanout.
