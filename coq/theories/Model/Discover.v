(* Model of internal/pkg/input: HandlerType / has / hasExactly (info.go), contains / containsOnly /
   DetermineDeviceType / Normalize (device.go).

   Capability types are the evdev EV_* type numbers (github.com/holoplot/go-evdev codes.go), as N.
   A handler (Go: DeviceInfo) is projected to: an identity [hid] (the harness puts it into DeviceInfo.Name),
   its physical location [hphys] (the bytes of the Go string DeviceInfo.Phys; Go map keys compare
   byte-wise) and its capability list [hcaps] (DeviceInfo.CapableTypes, duplicates and order kept).

   Normalize: the Go code appends every DeviceInfo to collection[di.PhysicalUUID()] (a map from the
   phys string to a slice) and then iterates the map: one Device per key, Handlers = the slice in
   discovery order, DeviceType = DetermineDeviceType(slice).  The map iteration order is arbitrary;
   the model lists groups in first-occurrence order and the correspondence view compares them as a set.
   evdev.Open only influences Name/Uniq/AbsInfos of the Device, which are outside this projection:
   a handler that cannot be opened is grouped all the same. *)
From Coq Require Import List NArith Bool.
Import ListNotations.
Open Scope N_scope.

(* ---- evdev event types (codes.go) *)
Definition EV_SYN : N := 0.    (* 0x00 *)
Definition EV_KEY : N := 1.    (* 0x01 *)
Definition EV_REL : N := 2.    (* 0x02 *)
Definition EV_ABS : N := 3.    (* 0x03 *)
Definition EV_MSC : N := 4.    (* 0x04 *)
Definition EV_SW  : N := 5.    (* 0x05, not mentioned by HandlerType *)
Definition EV_LED : N := 17.   (* 0x11 *)
Definition EV_SND : N := 18.   (* 0x12, not mentioned by HandlerType *)
Definition EV_REP : N := 20.   (* 0x14 *)
Definition EV_FF  : N := 21.   (* 0x15 *)

(* ---- info.go: HandlerType constants (iota order) and DeviceType constants (device.go) *)
Inductive htype := HUnknown | HStdKbd | HNkroKbd | HMultimedia | HSystem | HMouse | HJoystick.
Inductive dtype := DUnknown | DKeyboard | DMouse | DJoystick.

Definition htype_code (t : htype) : N :=
  match t with HUnknown => 0 | HStdKbd => 1 | HNkroKbd => 2 | HMultimedia => 3 | HSystem => 4 | HMouse => 5 | HJoystick => 6 end.
Definition dtype_code (t : dtype) : N :=
  match t with DUnknown => 0 | DKeyboard => 1 | DMouse => 2 | DJoystick => 3 end.

Definition htype_eqb (a b : htype) : bool := htype_code a =? htype_code b.
Definition dtype_eqb (a b : dtype) : bool := dtype_code a =? dtype_code b.

(* ---- has / hasExactly: both build the key sets of [list] and [elem] and compare them *)
Definition memN (x : N) (l : list N) : bool := existsb (N.eqb x) l.

(* every wanted element occurs in the list *)
Definition has (l elem : list N) : bool := forallb (fun e => memN e l) elem.

(* no element of the list is outside [elem], and every wanted element occurs *)
Definition has_exactly (l elem : list N) : bool :=
  forallb (fun x => memN x elem) l && forallb (fun e => memN e l) elem.

(* DeviceInfo.HandlerType: the switch, case by case in source order (the fifth case repeats the set of
   the second one and is therefore unreachable; it is transcribed nevertheless) *)
Definition handler_type (c : list N) : htype :=
  if has_exactly c [EV_SYN; EV_KEY; EV_MSC; EV_LED; EV_REP] then HStdKbd
  else if has_exactly c [EV_SYN; EV_KEY; EV_REL; EV_ABS; EV_MSC; EV_LED; EV_REP] then HStdKbd
  else if has_exactly c [EV_SYN; EV_KEY; EV_MSC; EV_REP] then HNkroKbd
  else if has_exactly c [EV_SYN; EV_KEY; EV_REL; EV_MSC] then HMouse
  else if has_exactly c [EV_SYN; EV_KEY; EV_REL; EV_ABS; EV_MSC; EV_LED; EV_REP] then HMouse
  else if has_exactly c [EV_SYN; EV_KEY; EV_MSC] then HSystem
  else if has_exactly c [EV_SYN; EV_KEY; EV_REL; EV_ABS; EV_MSC] then HMultimedia
  else if has c [EV_FF] then HJoystick
  else if has c [EV_ABS] then HJoystick
  else HUnknown.

(* ---- device.go: contains / containsOnly over the handler types of a group *)
Definition contains (hs wanted : list htype) : bool :=
  forallb (fun w => existsb (htype_eqb w) hs) wanted.

(* containsOnly first compares len(in) with len(handlerTypes) *)
Definition contains_only (hs wanted : list htype) : bool :=
  Nat.eqb (length hs) (length wanted) && contains hs wanted.

Definition device_type (hs : list htype) : dtype :=
  if contains hs [HJoystick] then DJoystick
  else if contains hs [HStdKbd] then DKeyboard
  else if contains_only hs [HMouse] then DMouse
  else DUnknown.

(* ---- handlers and groups *)
Definition phys := list N.

Record handler := mkHandler { hid : N; hphys : phys; hcaps : list N }.
Record group := mkGroup { gphys : phys; ghandlers : list handler; gtype : dtype }.

Fixpoint listN_eqb (a b : list N) : bool :=
  match a, b with
  | [], [] => true
  | x :: a', y :: b' => (x =? y) && listN_eqb a' b'
  | _, _ => false
  end.

Definition phys_eqb : phys -> phys -> bool := listN_eqb.

Definition handler_eqb (a b : handler) : bool :=
  (hid a =? hid b) && phys_eqb (hphys a) (hphys b) && listN_eqb (hcaps a) (hcaps b).

Definition htype_of (h : handler) : htype := handler_type (hcaps h).

(* collection[key] = append(collection[key], di) *)
Fixpoint insert (h : handler) (c : list (phys * list handler)) : list (phys * list handler) :=
  match c with
  | [] => [(hphys h, [h])]
  | (p, hs) :: r => if phys_eqb (hphys h) p then (p, hs ++ [h]) :: r else (p, hs) :: insert h r
  end.

Definition collect (l : list handler) : list (phys * list handler) :=
  fold_left (fun acc h => insert h acc) l [].

Definition mk_device (e : phys * list handler) : group :=
  mkGroup (fst e) (snd e) (device_type (map htype_of (snd e))).

Definition normalize (l : list handler) : list group := map mk_device (collect l).

(* ---- the property as a decidable predicate on (discovered handlers, resulting devices).
   [grouping_ok] in Proofs/DiscoverProofs.v is its Prop form; [normalize] is proved to satisfy it and the
   runner evaluates it on what the real Normalize returned. *)

Definition joystick_like (h : handler) : bool := htype_eqb HJoystick (htype_of h).
Definition std_keyboard (h : handler) : bool := htype_eqb HStdKbd (htype_of h).

(* joystick if any handler is joystick-like, otherwise keyboard if any handler is a standard keyboard,
   otherwise not a playable device (Mouse or Unknown) *)
Definition type_ruleb (hs : list handler) (t : dtype) : bool :=
  if existsb joystick_like hs then dtype_eqb t DJoystick
  else if existsb std_keyboard hs then dtype_eqb t DKeyboard
  else dtype_eqb t DMouse || dtype_eqb t DUnknown.

Fixpoint remove1 {A} (eqb : A -> A -> bool) (x : A) (l : list A) : option (list A) :=
  match l with
  | [] => None
  | y :: r => if eqb x y then Some r else
                match remove1 eqb x r with Some r' => Some (y :: r') | None => None end
  end.

(* multiset equality *)
Fixpoint perm_eqb {A} (eqb : A -> A -> bool) (a b : list A) : bool :=
  match a with
  | [] => match b with [] => true | _ => false end
  | x :: a' => match remove1 eqb x b with Some b' => perm_eqb eqb a' b' | None => false end
  end.

Fixpoint nodupb {A} (eqb : A -> A -> bool) (l : list A) : bool :=
  match l with
  | [] => true
  | x :: r => negb (existsb (eqb x) r) && nodupb eqb r
  end.

Definition nonemptyb {A} (l : list A) : bool := match l with [] => false | _ => true end.

Definition grouping_okb (l : list handler) (gs : list group) : bool :=
  perm_eqb handler_eqb (concat (map ghandlers gs)) l
  && nodupb phys_eqb (map gphys gs)
  && forallb (fun g => nonemptyb (ghandlers g)
                       && forallb (fun h => phys_eqb (hphys h) (gphys g)) (ghandlers g)
                       && type_ruleb (ghandlers g) (gtype g)) gs.

(* ---- the order-insensitive view: groups as a set, handlers of a group as a multiset *)
Definition group_eqb (a b : group) : bool :=
  phys_eqb (gphys a) (gphys b) && perm_eqb handler_eqb (ghandlers a) (ghandlers b) && dtype_eqb (gtype a) (gtype b).

Definition view_eqb (a b : list group) : bool :=
  Nat.eqb (length a) (length b)
  && forallb (fun g => existsb (group_eqb g) b) a
  && forallb (fun g => existsb (group_eqb g) a) b.
