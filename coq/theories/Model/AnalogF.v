(* Float layer of internal/pkg/midi/device/events.go:95-303 (handleABSEvent) and midi/event.go:140-146 (PitchBendEvent).
   float64 is Flocq's IEEE-754 binary64 with a single NaN (BinarySingleNaN, prec 53, emax 1024), round-to-nearest-even:
   bit-exact with Go on amd64 (no fused multiply-add).  The layer turns one EV_ABS event into an optional discrete
   [sample] for Model/Device.v and keeps the last shaped value per axis (duplicate suppression). *)
From Coq Require Import List NArith ZArith Bool.
From Flocq Require Import Core.Core.
From Flocq Require IEEE754.BinarySingleNaN IEEE754.Binary IEEE754.Bits.
From HIDI Require Import Base.AList Model.Device.
Import ListNotations.

Module B := Flocq.IEEE754.BinarySingleNaN.
Local Open Scope Z_scope.

Definition f64 := B.binary_float 53 1024.
#[global] Instance Hprec : FLX.Prec_gt_0 53 := eq_refl.
#[global] Instance Hemax : B.Prec_lt_emax 53 1024 := eq_refl.

Definition fadd : f64 -> f64 -> f64 := B.Bplus B.mode_NE.
Definition fsub : f64 -> f64 -> f64 := B.Bminus B.mode_NE.
Definition fmul : f64 -> f64 -> f64 := B.Bmult B.mode_NE.
Definition fdiv : f64 -> f64 -> f64 := B.Bdiv B.mode_NE.
Definition fabs : f64 -> f64 := B.Babs.
Definition fneg : f64 -> f64 := B.Bopp.
Definition flt : f64 -> f64 -> bool := B.Bltb.
Definition fle : f64 -> f64 -> bool := B.Bleb.
Definition feq : f64 -> f64 -> bool := B.Beqb.     (* Go ==: NaN <> NaN, +0 == -0 *)
Definition fgt a b := flt b a.
Definition fge a b := fle b a.

(* float64(int32) and small integer constants are exact *)
Definition f_of_Z (z : Z) : f64 := B.binary_normalize 53 1024 _ _ B.mode_NE z 0 false.
(* a float given by its bit pattern (how deadzones and decimal constants come in) *)
Definition f_of_bits (bits : Z) : f64 := Flocq.IEEE754.Binary.B2BSN 53 1024 (Flocq.IEEE754.Bits.b64_of_bits bits).

Definition f0 := f_of_Z 0.
Definition f1 := f_of_Z 1.
Definition f2 := f_of_Z 2.
Definition f127 := f_of_Z 127.
Definition f16383 := f_of_Z 16383.
Definition fhalf : f64 := B.binary_normalize 53 1024 _ _ B.mode_NE 1 (-1) false.      (* 0.5 *)
Definition fmhalf : f64 := B.binary_normalize 53 1024 _ _ B.mode_NE (-1) (-1) false.  (* -0.5 *)
Definition f049 : f64 := f_of_bits 4602498675187552092.    (* 0.49 = 0x3FDF5C28F5C28F5C *)
Definition fm049 : f64 := fneg f049.

(* int(x) on amd64 (CVTTSD2SI): truncation; NaN, infinities and out-of-range give -2^63 *)
Definition f2int (x : f64) : Z :=
  match x with
  | B.B754_finite _ _ _ _ => let t := B.Btrunc x in
      if ((- 9223372036854775808 <=? t) && (t <? 9223372036854775808))%Z then t else (- 9223372036854775808)%Z
  | B.B754_zero _ => 0%Z
  | _ => (- 9223372036854775808)%Z
  end.
Definition byte_of_Z (z : Z) : N := Z.to_N (z mod 256)%Z.      (* byte(int) *)

(* math.Round: to nearest, halves away from zero *)
Definition fround (x : f64) : f64 := B.Bnearbyint B.mode_NA x.

(* ------------------------------------------------------------------ configuration of the float layer *)
Record fmapping := {
  fm_dz : list (skey * f64);         (* Deadzones[sub][code] *)
  fm_dzdef : list (N * f64) }.       (* DefaultDeadzone[sub]; sub 0 is "" *)
Definition fconfig := list fmapping.         (* one per mapping, same order as [mappings] *)
Definition absinfos := list (N * (Z * Z)).   (* code -> (minimum, maximum); absent = (0, 0) as in Go *)

Definition lookup_deadzone (fm : fmapping) (sub code : N) : option f64 :=
  match get skey_eqb (sub, code) (fm_dz fm) with
  | Some d => Some d
  | None => match get N.eqb sub (fm_dzdef fm) with
            | Some d => Some d
            | None => get N.eqb 0%N (fm_dzdef fm)
            end
  end.

(* ------------------------------------------------------------------ shaping: events.go:109-157 (after the fix: divide by (1-dz)) *)
(* [recip = true] is the original code: multiply by the rounded reciprocal 1/(1-dz) *)
Definition rescale (recip : bool) (x dz : f64) : f64 :=
  if recip then fmul x (fdiv f1 (fsub f1 dz)) else fdiv x (fsub f1 dz).

Definition shape_gen (recip : bool) (mn mx : Z) (dzc : bool) (dz : f64) (raw : Z) : f64 * bool :=
  let canneg := (mn <? 0)%Z in
  let v := if (raw <? 0)%Z then fdiv (f_of_Z raw) (fabs (f_of_Z mn)) else fdiv (f_of_Z raw) (fabs (f_of_Z mx)) in
  let '(v, canneg) := if dzc then (fsub (fmul v f2) f1, true) else (v, canneg) in
  let v := if flt v f0 then
             if fgt v (fneg dz) then f0 else rescale recip (fadd v dz) dz
           else
             if flt v dz then f0 else rescale recip (fsub v dz) dz in
  (v, canneg).

Definition shape := shape_gen false.

Definition flip_value (flip canneg : bool) (v : f64) : f64 :=
  if flip then (if canneg then fneg v else fsub f1 v) else v.

(* ------------------------------------------------------------------ encoding: events.go:187-267, event.go:140-146 *)
Definition cc_byte (adj : f64) : N := byte_of_Z (f2int (fmul f127 adj)).

(* (is the negative controller addressed, value byte) for the four signed x bidirectional cases *)
Definition cc_encode (canneg bidi : bool) (v : f64) : bool * N :=
  if canneg then
    if bidi then (flt v f0, cc_byte (fabs v)) else (false, cc_byte (fdiv (fadd v f1) f2))
  else
    if bidi then (flt v fhalf, cc_byte (fabs (fsub (fmul v f2) f1))) else (false, cc_byte v).

(* PitchBendEvent: [round_it = true] is the code after the fix (math.Round), false the original truncation *)
Definition pb_target (round_it : bool) (v : f64) : Z :=
  let x := fmul f16383 (fdiv (fadd v f1) f2) in f2int (if round_it then fround x else x).
Definition pb_bytes (round_it : bool) (v : f64) : N * N :=
  let t := pb_target round_it v in (Z.to_N (Z.land t 127), Z.to_N (Z.land (Z.shiftr t 7) 127)).

Definition centred (canneg : bool) (v : f64) : f64 := if canneg then v else fsub (fmul v f2) f1.

Definition zone_of (v : f64) : zone :=
  if fle v fmhalf then ZNeg
  else if fgt v fm049 && flt v f049 then ZMid
  else if fge v fhalf then ZPos
  else ZGap.

(* ------------------------------------------------------------------ one EV_ABS event *)
Definition fstate := list (skey * f64).     (* lastAnalogValue[sub][code]; absent = 0 *)

Inductive fresult := FNone | FSample (sa : sample) | FCrash.

Definition make_sample (code : N) (a : analog) (canneg : bool) (v : f64) : sample :=
  let '(neg, ccv) := cc_encode canneg (a_bidi a) v in
  let '(lsb, msb) := pb_bytes true (centred canneg v) in
  {| sa_code := code; sa_an := a;
     sa_gate := flt v fmhalf || fgt v fhalf;
     sa_neg := neg; sa_ccv := ccv; sa_lsb := lsb; sa_msb := msb;
     sa_zone := zone_of (centred canneg v) |}.

Definition digest (fm : fmapping) (ai : absinfos) (an : option analog) (fs : fstate) (sub code : N) (raw : Z)
  : fresult * fstate :=
  match an with
  | None => (FNone, fs)
  | Some a =>
      let '(mn, mx) := match get N.eqb code ai with Some p => p | None => (0%Z, 0%Z) end in
      match lookup_deadzone fm sub code with
      | None => (FCrash, fs)                       (* panic("tee hee") *)
      | Some dz =>
          let '(v, canneg) := shape mn mx (a_dzc a) dz raw in
          let last := match get skey_eqb (sub, code) fs with Some l => l | None => f0 end in
          if feq last v then (FNone, fs)
          else
            let fs' := set skey_eqb (sub, code) v fs in
            (FSample (make_sample code a canneg (flip_value (a_flip a) canneg v)), fs')
      end
  end.

(* ------------------------------------------------------------------ the full machine: key events, axis events *)
Inductive fev := FKey (sub code : N) (val : Z) | FAbs (sub code : N) (raw : Z) | FSyn.

Definition empty_fmapping : fmapping := {| fm_dz := []; fm_dzdef := [] |}.

Definition fstep (c : config) (fc : fconfig) (ai : absinfos) (st : state * fstate) (e : fev)
  : option ((state * fstate) * out) :=
  let '(s, fs) := st in
  match e with
  | FSyn => Some (st, silent)
  | FKey sub code val => let '(s', o) := step c s (EKey sub code val) in Some ((s', fs), o)
  | FAbs sub code raw =>
      match digest (nth (mapidx s) fc empty_fmapping) ai (find_analog c s sub code) fs sub code raw with
      | (FCrash, _) => None
      | (FNone, fs') => Some ((s, fs'), silent)
      | (FSample sa, fs') => let '(s', o) := step c s (ESample sa) in Some ((s', fs'), o)
      end
  end.

(* [None] = the device panicked *)
Fixpoint frun_from (c : config) (fc : fconfig) (ai : absinfos) (st : state * fstate) (h : list fev)
  : option ((state * fstate) * list out) :=
  match h with
  | [] => Some (st, [])
  | e :: r => match fstep c fc ai st e with
              | None => None
              | Some (st1, o) => match frun_from c fc ai st1 r with
                                 | None => None
                                 | Some (st2, os) => Some (st2, o :: os)
                                 end
              end
  end.

Definition frun c fc ai h := frun_from c fc ai (init c, []) h.

(* the discrete history the float layer produced: what Model/Device.v's theorems quantify over *)
Fixpoint discrete_from (c : config) (fc : fconfig) (ai : absinfos) (st : state * fstate) (h : list fev) : list ev :=
  match h with
  | [] => []
  | e :: r =>
      let '(s, fs) := st in
      match e with
      | FSyn => ESyn :: discrete_from c fc ai st r
      | FKey sub code val => EKey sub code val :: discrete_from c fc ai (fst (step c s (EKey sub code val)), fs) r
      | FAbs sub code raw =>
          match digest (nth (mapidx s) fc empty_fmapping) ai (find_analog c s sub code) fs sub code raw with
          | (FSample sa, fs') => ESample sa :: discrete_from c fc ai (fst (step c s (ESample sa)), fs') r
          | (_, fs') => discrete_from c fc ai (s, fs') r
          end
      end
  end.
