(* End to end: devices (Model/Device.v) composed with the relay (Model/Relay.v).

   The per-device theorems (C01-C08, C13, C14) speak about the output lists [midi o] of the steps of the device model; the
   transport theorems (C15) about what the port receives of what entered midiEventsOut.  What a user relies on is their
   composition: what the PORT receives from a device.  This file builds the product system:

     device process k (events.go ProcessEvents + device.go):   owns a device-model state, the rest of its history and the
       messages of the event being processed that have not been handed over yet ([d_pend]).
         DTake k     pend empty, an event left: one [Device.step]; its messages become pending (they are sent from the handlers
                     one at a time with blocking sends: `d.outputEvents <- event`)
         DClose k    pend empty, history exhausted, not yet closed: the input channel was closed; the clean-up messages
                     ([Device.cleanup]) become pending
         DSend k     hands the first pending message to midiEventsOut - enabled only when the relay's [Enter (k, x)] is
                     (a send on a full channel blocks: the label is disabled)
     relay           [Relay (Move i)], [Relay Deliver] as in Model/Relay.v

   All interleavings of any number of devices with the relay goroutine and the port are the executions of [estep]; the
   capacities of midiEventsOut and of the port's send channel are parameters (cmd/hidi/main.go: 8; the ALSA driver: 16).
   Modelled, not proved: that the Go device really sends every message with a blocking send from the one goroutine that
   processes events, in the order in which the handlers produce them, and hands over storage it never touches again.  The
   correspondence for that is the stream stage of the device checks (lib/devprop.py stream_stage: production capacity,
   lagging consumer that reads the bytes late, flat stream = concatenation of the stepped run). *)
From Coq Require Import List Arith Bool NArith ZArith.
From HIDI Require Import Base.AList Model.Device Model.Relay.
Import ListNotations.

Record dproc := {
  d_cfg : config;
  d_state : Device.state;
  d_todo : list ev;          (* events not yet taken from the input channel *)
  d_pend : list msg;         (* messages of the current event (or of the clean-up) not yet handed over *)
  d_closed : bool;           (* the clean-up has been computed *)
  d_done : list ev }.        (* ghost: the events taken so far (no transition reads it) *)

Definition dproc_init (c : config) (h : list ev) : dproc :=
  {| d_cfg := c; d_state := Device.init c; d_todo := h; d_pend := []; d_closed := false; d_done := [] |}.

Record estate := { e_devs : list dproc; e_relay : @ostate msg }.

Inductive elabel :=
| DTake (k : nat)
| DClose (k : nat)
| DSend (k : nat)
| RelayL (l : @plabel (nat * msg)).

Fixpoint set_nth {A} (l : list A) (k : nat) (x : A) : list A :=
  match l, k with
  | [], _ => []
  | _ :: r, O => x :: r
  | a :: r, S k' => a :: set_nth r k' x
  end.

Definition estep (port_cap out_cap : nat) (s : estate) (l : elabel) : option estate :=
  match l with
  | DTake k =>
      match nth_error (e_devs s) k with
      | Some d =>
          match d_pend d, d_todo d with
          | [], e :: r =>
              let '(st, o) := Device.step (d_cfg d) (d_state d) e in
              Some {| e_devs := set_nth (e_devs s) k {| d_cfg := d_cfg d; d_state := st; d_todo := r; d_pend := midi o; d_closed := d_closed d; d_done := d_done d ++ [e] |};
                      e_relay := e_relay s |}
          | _, _ => None
          end
      | None => None
      end
  | DClose k =>
      match nth_error (e_devs s) k with
      | Some d =>
          match d_pend d, d_todo d, d_closed d with
          | [], [], false =>
              let '(st, ms) := Device.cleanup (d_cfg d) (d_state d) in
              Some {| e_devs := set_nth (e_devs s) k {| d_cfg := d_cfg d; d_state := st; d_todo := []; d_pend := ms; d_closed := true; d_done := d_done d |};
                      e_relay := e_relay s |}
          | _, _, _ => None
          end
      | None => None
      end
  | DSend k =>
      match nth_error (e_devs s) k with
      | Some d =>
          match d_pend d with
          | x :: p =>
              match ostep port_cap out_cap (e_relay s) (Enter (k, x)) with
              | Some r => Some {| e_devs := set_nth (e_devs s) k {| d_cfg := d_cfg d; d_state := d_state d; d_todo := d_todo d; d_pend := p; d_closed := d_closed d; d_done := d_done d |};
                                  e_relay := r |}
              | None => None
              end
          | [] => None
          end
      | None => None
      end
  | RelayL (Enter _) => None         (* only devices put messages into midiEventsOut *)
  | RelayL pl => option_map (fun r => {| e_devs := e_devs s; e_relay := r |}) (ostep port_cap out_cap (e_relay s) pl)
  end.

Definition einit (ds : list (config * list ev)) : estate :=
  {| e_devs := map (fun ch => dproc_init (fst ch) (snd ch)) ds; e_relay := oinit |}.

(* the whole stream the device model prescribes for a history: the messages of every step, then the clean-up *)
Definition device_stream (c : config) (h : list ev) : list msg :=
  let '(s, os) := Device.run c h in all_midi os ++ snd (Device.cleanup c s).

(* what is still to come from a device process (pending, the remaining events, the clean-up) *)
Definition remaining (d : dproc) : list msg :=
  d_pend d ++
  (if d_closed d then []
   else let '(s, os) := Device.run_from (d_cfg d) (d_state d) (d_todo d) in all_midi os ++ snd (Device.cleanup (d_cfg d) s)).

(* what the port has received so far from device k / what is in flight for it inside the relay *)
Definition at_port (s : estate) (k : nat) : list msg := proj k (delivered (o_pipe (e_relay s))).
Definition in_relay (s : estate) (k : nat) : list msg := proj k (in_flight (o_pipe (e_relay s))).

(* device k is at an event boundary: not yet disconnected, nothing of the current event left to hand over, nothing of it in flight *)
Definition at_boundary (s : estate) (k : nat) (d : dproc) : Prop :=
  d_closed d = false /\ d_pend d = [] /\ in_relay s k = [].

(* nothing is left to do anywhere *)
Definition quiescent (s : estate) : Prop :=
  in_flight (o_pipe (e_relay s)) = [] /\ forall d, In d (e_devs s) -> d_pend d = [] /\ d_todo d = [] /\ d_closed d = true.
