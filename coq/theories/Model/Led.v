(* Model of the LED feedback of internal/pkg/midi/device: the MIDI-input note tracker (events.go:370-392,
   handleInputEvents; device.go:440-459, Panic) and the frame computed every 10 ms by handleOpenrgb
   (open_rgb.go:497-648), including its index arithmetic.

   Colours are abstract CLASSES: the correspondence maps every RGB triple received by the fake OpenRGB server to the
   nearest class (configured colours are chosen far apart; go-colorful's HSV round trip in shiftColor(colour, 0) may
   move a byte by one).  Floats are never compared.

   The model describes the code WITH the proposed fixes (velocity-0 Note On = Note Off; action LEDs written only when
   the action has a key and that key has an LED); the original behaviour is kept as [midi_in_orig] / [frame_orig]
   for the refuted witnesses.

   Not modelled: the LED strip helper (ledStrips / NoLeds: the controller is assumed not to be named
   "HyperX Alloy Elite 2 (HP)", so strip.ledSeq is empty); a controller reporting a different number of LEDs and
   colours; update failures.  Assumed: at least one mapping and mapidx in range (else Go panics on
   KeyMappings[d.mapping], as everywhere else in the device); no two keys carry the same action (actionToEvcode is
   built by iterating a Go map: with two keys per action the LED that is lit is unspecified). *)
From Coq Require Import List NArith ZArith Bool.
From HIDI Require Import Base.AList Model.Device.
Import ListNotations.
Open Scope N_scope.

(* ------------------------------------------------------------------ colour classes *)
Inductive colour :=
| Unavailable | ColC | ColBlack | ColWhite      (* config.OpenRGB.Colors.{Unavailable, C, Black, White} *)
| Active | ActiveExternal                        (* config.OpenRGB.Colors.{Active, ActiveExternal} *)
| Chan (hue : N) | ChanDim (hue : N)             (* channelColors[ch] and its /3 variant, by hue class (below) *)
| White1 | White2 | White3                       (* (27,27,27) (100,100,100) (255,255,255) *)
| Red                                            (* openrgb.Color{Red: 0xff}: the panic key and the final frame *)
| Off.                                           (* openrgb.Color{}: missing map entry *)
Definition PanicRed : colour := Red.              (* same RGB value as the final frame's red *)

Definition colour_eqb (a b : colour) : bool :=
  match a, b with
  | Unavailable, Unavailable | ColC, ColC | ColBlack, ColBlack | ColWhite, ColWhite | Active, Active
  | ActiveExternal, ActiveExternal | White1, White1 | White2, White2 | White3, White3 | Red, Red | Off, Off => true
  | Chan x, Chan y | ChanDim x, ChanDim y => x =? y
  | _, _ => false
  end.

(* channelColors (open_rgb.go:459-472): h = 720/16*ch + 30, minus 360 when >= 360, full saturation and value.
   720/16 = 45, so channel ch and channel ch+8 get the SAME hue: the class is ch mod 8.  A channel outside 0-15 is a
   missing map entry: the zero colour. *)
Definition chan_colour (ch : N) : colour := if ch <? 16 then Chan (ch mod 8) else Off.
Definition chan_dim (ch : N) : colour := if ch <? 16 then ChanDim (ch mod 8) else Off.

(* ------------------------------------------------------------------ MIDI-input tracker *)
(* externalNoteTracker: map[channel]map[note]bool as a set of (note, channel) pairs *)
Definition ext := list pair.

(* midi.Event.Type() (midi/event.go): status nibble for channel messages, the whole status byte otherwise, 0 if empty *)
Definition ev_type (m : msg) : N :=
  match m with
  | [] => 0
  | st :: _ => if negb (N.land st 240 =? 240) && negb (N.land st 128 =? 0) then N.land st 240 else st
  end.

(* handleInputEvents, one message.  Note() is e[1], Channel() is e[0] & 15.  [None] = Go indexes out of range
   (a one-byte Note On / Note Off): the goroutine panics and the process dies. *)
Definition midi_in (x : ext) (m : msg) : option ext :=
  let ty := ev_type m in
  if ty =? NOTE_ON then
    match m with
    | st :: n :: rest =>
        let p := (n, N.land st 15) in
        match rest with
        | v :: _ => if v =? 0 then Some (srem pair_eqb p x)      (* fix: len(ev) > 2 && ev[2] == 0 *)
                    else Some (sadd pair_eqb p x)
        | [] => Some (sadd pair_eqb p x)
        end
    | _ => None
    end
  else if ty =? NOTE_OFF then
    match m with
    | st :: n :: _ => Some (srem pair_eqb (n, N.land st 15) x)
    | _ => None
    end
  else Some x.

(* the original: every Note On switches the highlight on *)
Definition midi_in_orig (x : ext) (m : msg) : option ext :=
  let ty := ev_type m in
  if ty =? NOTE_ON then
    match m with st :: n :: _ => Some (sadd pair_eqb (n, N.land st 15) x) | _ => None end
  else if ty =? NOTE_OFF then
    match m with st :: n :: _ => Some (srem pair_eqb (n, N.land st 15) x) | _ => None end
  else Some x.

(* Does processing [e] in state [s] call Device.Panic()?  Mirrors Device.handle_key / handle_actionsim: a key press
   whose action is Panic, not swallowed by the exit sequence and not replaced by a double-action reset, or an
   action-emulating axis entering the direction that carries Panic. *)
Definition fires_panic (c : config) (s : state) (e : ev) : bool :=
  match e with
  | ESyn => false
  | EKey sub code val =>
      if (val =? 2)%Z then false else
      let press := (val =? 1)%Z in
      let s1 := if press then set_keyT (sadd N.eqb code (keyT s)) s else set_keyT (srem N.eqb code (keyT s)) s in
      if press && exit_complete c (keyT s1) then false
      else match find_action c code with
           | Some a =>
               if press then
                 match check_double (set_actionT (sadd action_eqb a (actionT s1)) s1) with
                 | Some _ => false
                 | None => action_eqb a Panic
                 end
               else false
           | None => false
           end
  | ESample sa =>
      if learning s && negb (sa_gate sa) then false
      else match a_type (sa_an sa) with
           | AActionSim =>
               match check_double s with
               | Some _ => false
               | None => match sa_zone sa with
                         | ZNeg => action_eqb (a_actneg (sa_an sa)) Panic
                         | ZPos => action_eqb (a_act (sa_an sa)) Panic
                         | _ => false
                         end
               end
           | _ => false
           end
  end.

Definition lstate := (state * ext)%type.
Inductive lev := LDev (e : ev) | LMidi (m : msg).

Definition linit (c : config) : lstate := (init c, []).

(* [None] = crash of the MIDI-input goroutine *)
Definition lstep (c : config) (ls : lstate) (e : lev) : option (lstate * out) :=
  match e with
  | LDev e => let '(s', o) := step c (fst ls) e in
              Some ((s', if fires_panic c (fst ls) e then [] else snd ls), o)
  | LMidi m => match midi_in (snd ls) m with
               | Some x => Some ((fst ls, x), silent)
               | None => None
               end
  end.

Definition lstep_orig (c : config) (ls : lstate) (e : lev) : option (lstate * out) :=
  match e with
  | LDev _ => lstep c ls e
  | LMidi m => match midi_in_orig (snd ls) m with
               | Some x => Some ((fst ls, x), silent)
               | None => None
               end
  end.

Fixpoint lrun_from (c : config) (ls : lstate) (h : list lev) : option (lstate * list out) :=
  match h with
  | [] => Some (ls, [])
  | e :: r => match lstep c ls e with
              | None => None
              | Some (ls1, o) => match lrun_from c ls1 r with
                                 | None => None
                                 | Some (ls2, os) => Some (ls2, o :: os)
                                 end
              end
  end.

(* ------------------------------------------------------------------ LED layout and the index maps *)
(* per LED index: the evdev key code its name maps to through LedNameToKey ([None]: unknown name) *)
Definition layout := list (option N).

(* indexMap: built by iterating the LEDs in order, so the LAST LED carrying a key wins *)
Fixpoint imap_from (i : nat) (ly : layout) (code : N) : option nat :=
  match ly with
  | [] => None
  | l :: r => match imap_from (S i) r code with
              | Some j => Some j
              | None => match l with
                        | Some k => if k =? code then Some i else None
                        | None => None
                        end
              end
  end.
Definition imap (ly : layout) (code : N) : option nat := imap_from 0 ly code.

(* actionToEvcode: the key carrying the action (iteration over the ActionMapping map: bindings shadowed in the
   association list are not bindings of the map) *)
Definition a2c (c : config) (a : action) : option N :=
  match find (fun kv => action_eqb (snd kv) a &&
                        match find_action c (fst kv) with Some a' => action_eqb a' a | None => false end) (actions c) with
  | Some kv => Some (fst kv)
  | None => None
  end.

(* Midi[""] of a mapping as (code, key) bindings; sub-handler "" has id 0 *)
Definition key_eqb (a b : key) : bool := (k_note a =? k_note b) && (k_off a =? k_off b).
Definition sub0_bindings (m : mapping) : list (N * key) :=
  flat_map (fun e : skey * key =>
              let '((sub, code), k) := e in
              if (sub =? 0) && match get skey_eqb (sub, code) (m_midi m) with Some k' => key_eqb k k' | None => false end
              then [(code, k)] else []) (m_midi m).

(* MidiKeyMappings[mapping][note]: the keys of Midi[""] whose base note is [note] *)
Definition codes_of (m : mapping) (note : N) : list N :=
  map fst (filter (fun ck : N * key => k_note (snd ck) =? note) (sub0_bindings m)).

(* ------------------------------------------------------------------ writes *)
Definition write := (nat * colour)%type.

Fixpoint upd (j : nat) (v : colour) (l : list colour) : list colour :=
  match l, j with
  | [], _ => []                      (* out of range: Go panics; never happens for indices taken from indexMap *)
  | _ :: r, O => v :: r
  | x :: r, S j' => x :: upd j' v r
  end.

Definition apply_writes (ws : list write) (arr : list colour) : list colour :=
  fold_left (fun a w => upd (fst w) (snd w) a) ws arr.

(* offset := int(d.semitone) + int(d.octave)*12 *)
Definition offset (s : state) : Z := (semitone s + octave s * 12)%Z.

(* note - byte(offset) in uint8 arithmetic *)
Definition sub8 (n : N) (off : Z) : N := Z.to_N ((Z.of_N n - off) mod 256)%Z.

(* fixed code: setActionLed(action, colour) *)
Definition set_action_led (c : config) (ly : layout) (a : action) (col : colour) : list write :=
  match a2c c a with
  | Some code => match imap ly code with Some id => [(id, col)] | None => [] end
  | None => []
  end.

(* original code: ledArray[indexMap[actionToEvcode[action]]] = colour; both lookups default to 0 *)
Definition set_action_led_orig (c : config) (ly : layout) (a : action) (col : colour) : list write :=
  let code := match a2c c a with Some k => k | None => 0 end in
  [(match imap ly code with Some id => id | None => O end, col)].

(* open_rgb.go:508-572 *)
Definition action_writes (W : action -> colour -> list write) (c : config) (s : state) : list write :=
  W Panic PanicRed ++
  W OctaveUp White1 ++ W OctaveDown White1 ++
  (if (0 <? octave s)%Z then (if (octave s =? 1)%Z then W OctaveUp White2 else W OctaveUp White3) else []) ++
  (if (octave s <? 0)%Z then (if (octave s =? -1)%Z then W OctaveDown White2 else W OctaveDown White3) else []) ++
  W SemitoneUp White1 ++ W SemitoneDown White1 ++
  (if (0 <? semitone s)%Z then (if (semitone s =? 1)%Z then W SemitoneUp White2 else W SemitoneUp White3) else []) ++
  (if (semitone s <? 0)%Z then (if (semitone s =? -1)%Z then W SemitoneDown White2 else W SemitoneDown White3) else []) ++
  W MappingUp White3 ++ W MappingDown White3 ++
  (if Nat.eqb (mapidx s) 0 then W MappingDown White1 else []) ++
  (if (Z.of_nat (mapidx s) =? Z.of_nat (length (mappings c)) - 1)%Z then W MappingUp White1 else []) ++
  W ChannelUp (chan_colour (channel s)) ++ W ChannelDown (chan_colour (channel s)) ++
  (if channel s =? 0 then W ChannelDown (chan_dim (channel s)) else []) ++
  (if channel s =? 15 then W ChannelUp (chan_dim (channel s)) else []) ++
  W Multinote White1.

(* pitch class colour (open_rgb.go:591-602); [ctl]: the mapping is named "Control" *)
Definition pitch_colour (ctl : bool) (x : Z) : colour :=
  if ctl then ColWhite
  else match (x mod 12)%Z with
       | 0%Z => ColC
       | 1%Z | 3%Z | 6%Z | 8%Z | 10%Z => ColBlack
       | _ => ColWhite
       end.

(* open_rgb.go:577-607: every key of Midi[""] that has an LED and whose transposed note is a MIDI note *)
Definition key_writes (ctl : bool) (ly : layout) (m : mapping) (off : Z) : list write :=
  flat_map (fun ck : N * key =>
              match imap ly (fst ck) with
              | None => []
              | Some id => let x := (Z.of_N (k_note (snd ck)) + off)%Z in
                           if in_midi_range x then [(id, pitch_colour ctl x)] else []
              end) (sub0_bindings m).

(* for _, code := range MidiKeyMappings[d.mapping][note - byte(offset)] { if id, ok := indexMap[code]; ok { ledArray[id] = col } } *)
Definition highlight (ly : layout) (m : mapping) (off : Z) (n : N) (col : colour) : list write :=
  flat_map (fun code => match imap ly code with Some id => [(id, col)] | None => [] end) (codes_of m (sub8 n off)).

Definition chans_desc : list N := [15; 14; 13; 12; 11; 10; 9; 8; 7; 6; 5; 4; 3; 2; 1; 0].

(* open_rgb.go:611-622: for ch := 15; ch >= 0; ch-- { for note := range externalNoteTracker[ch] {...channelColors[ch]} } *)
Definition ext_chan_writes (ly : layout) (m : mapping) (off : Z) (x : ext) (ch : N) : list write :=
  flat_map (fun p : pair => if snd p =? ch then highlight ly m off (fst p) (chan_colour ch) else []) x.
Definition ext_writes (ly : layout) (m : mapping) (off : Z) (x : ext) : list write :=
  flat_map (ext_chan_writes ly m off x) chans_desc.
(* open_rgb.go:625-634: the current channel *)
Definition cur_writes (ly : layout) (m : mapping) (off : Z) (x : ext) (ch : N) : list write :=
  flat_map (fun p : pair => if snd p =? ch then highlight ly m off (fst p) ActiveExternal else []) x.
(* open_rgb.go:638-648: notes sounding from the keyboard (noteTracker only; any channel) *)
Definition held_writes (ly : layout) (m : mapping) (off : Z) (nt : list (N * pair)) : list write :=
  flat_map (fun e : N * pair => highlight ly m off (fst (snd e)) Active) nt.

(* [ctl]: the m_name value standing for the mapping name "Control" *)
Definition frame_writes (W : action -> colour -> list write) (c : config) (ctl : N) (ly : layout) (ls : lstate) : list write :=
  let s := fst ls in
  let m := cur_mapping c s in
  let off := offset s in
  action_writes W c s ++ key_writes (m_name m =? ctl) ly m off ++ ext_writes ly m off (snd ls)
  ++ cur_writes ly m off (snd ls) (channel s) ++ held_writes ly m off (noteT s).

Definition frame (c : config) (ctl : N) (ly : layout) (ls : lstate) : list colour :=
  apply_writes (frame_writes (set_action_led c ly) c ctl ly ls) (repeat Unavailable (length ly)).

(* the original code: with no LED at all, index 0 is out of range and the goroutine panics *)
Definition frame_orig (c : config) (ctl : N) (ly : layout) (ls : lstate) : option (list colour) :=
  match ly with
  | [] => None
  | _ => Some (apply_writes (frame_writes (set_action_led_orig c ly) c ctl ly ls) (repeat Unavailable (length ly)))
  end.

(* open_rgb.go:663-666: after the loop *)
Definition final_frame (ly : layout) : list colour := repeat Red (length ly).

(* ------------------------------------------------------------------ what the property says (independent of the writes) *)
(* a key with base note [b] under transposition [off]: first applicable of the property's list.
   [held]: notes sounding from the keyboard; [x]: the MIDI-input tracker; [ch]: current channel *)
Definition spec_colour (ctl : bool) (off : Z) (held : list N) (x : ext) (ch : N) (b : N) : colour :=
  let p := (Z.of_N b + off)%Z in
  if existsb (fun n => (Z.of_N n =? p)%Z) held then Active
  else if existsb (fun q : pair => (Z.of_N (fst q) =? p)%Z && (snd q =? ch)) x then ActiveExternal
  else match find (fun c => existsb (fun q : pair => (Z.of_N (fst q) =? p)%Z && (snd q =? c)) x)
                  (map N.of_nat (seq 0 16)) with
       | Some c => chan_colour c
       | None => if in_midi_range p then pitch_colour ctl p else Unavailable
       end.

Definition held_notes (s : state) : list N := map (fun e : N * pair => fst (snd e)) (noteT s).

(* the keys that show a state value *)
Definition is_state_action (a : action) : bool :=
  match a with
  | Panic | OctaveUp | OctaveDown | SemitoneUp | SemitoneDown | MappingUp | MappingDown | ChannelUp | ChannelDown
  | Multinote => true
  | _ => false
  end.

Definition level (up : bool) (v : Z) : colour :=
  let v' := if up then v else (- v)%Z in
  if (v' <=? 0)%Z then White1 else if (v' =? 1)%Z then White2 else White3.

Definition spec_action_colour (nmaps : nat) (s : state) (a : action) : colour :=
  match a with
  | Panic => Red
  | OctaveUp => level true (octave s)
  | OctaveDown => level false (octave s)
  | SemitoneUp => level true (semitone s)
  | SemitoneDown => level false (semitone s)
  | MappingUp => if Nat.eqb (S (mapidx s)) nmaps then White1 else White3     (* at the last mapping: dim *)
  | MappingDown => if Nat.eqb (mapidx s) 0 then White1 else White3          (* at the first mapping: dim *)
  | ChannelUp => if channel s =? 15 then chan_dim 15 else chan_colour (channel s)
  | ChannelDown => if channel s =? 0 then chan_dim 0 else chan_colour (channel s)
  | Multinote => White1
  | _ => Unavailable
  end.
