(* C06: the exact (real-number) transfer function in rational arithmetic, and the decidable predicate "a transmitted
   value is right" that both the theorems (Properties/C06.v) and the run-time monitor (Run/AnalogRun.v) use. *)
From Coq Require Import List NArith ZArith QArith Bool.
From Flocq Require Import Core.Core.
From HIDI Require Import Base.AList Model.Device Model.AnalogF.
Import ListNotations.
Open Scope N_scope.

Definition is_nilb {A} (l : list A) : bool := match l with [] => true | _ => false end.

Open Scope Q_scope.
(* exact rational value of a finite float *)
Definition Q_of_f (x : f64) : option Q :=
  match x with
  | B.B754_zero _ => Some 0
  | B.B754_finite s m e _ =>
      let q := if (0 <=? e)%Z then inject_Z (Z.pos m * 2 ^ e) else (Z.pos m # (Z.to_pos (2 ^ (- e)))) in
      Some (if s then Qopp q else q)
  | _ => None
  end.

Definition Qabs' (q : Q) : Q := if Qle_bool 0 q then q else Qopp q.
Definition Qltb (a b : Q) : bool := negb (Qle_bool b a).

(* the exact (real-number) shaped, flipped position: None when the configuration is outside the property's domain *)
Definition exact_position (mn mx : Z) (dzc flip : bool) (dz : Q) (raw : Z) : Q * bool :=
  let canneg := (mn <? 0)%Z in
  let v := if (raw <? 0)%Z then inject_Z raw / Qabs' (inject_Z mn) else inject_Z raw / Qabs' (inject_Z mx) in
  let '(v, canneg) := if dzc then (v * 2 - 1, true) else (v, canneg) in
  let v := if Qltb v 0 then (if Qltb (Qopp dz) v then 0 else (v + dz) / (1 - dz))
           else (if Qltb v dz then 0 else (v - dz) / (1 - dz)) in
  ((if flip then (if canneg then Qopp v else 1 - v) else v), canneg).

(* the exact value on the MIDI scale for the unidirectional controller / pitch bend / the two sides of a pair *)
Inductive kind := KCCuni | KCCbidi | KPB.
Definition exact_scaled (k : kind) (canneg : bool) (p : Q) : Q :=
  match k with
  | KCCuni => if canneg then 127 * ((p + 1) / 2) else 127 * p
  | KCCbidi => if canneg then 127 * Qabs' p else 127 * Qabs' (p * 2 - 1)
  | KPB => if canneg then 16383 * ((p + 1) / 2) else 16383 * p
  end.

(* |t - e| <= 1 + 2^-20: one step, plus a margin for the rounding of the float computation itself (the integer part is
   taken of a value that carries a relative error of a few 2^-53, so an exact value a hair above an integer n may be
   transmitted as n-1) *)
Definition within_one (t : Z) (e : Q) : bool := Qle_bool (Qabs' (inject_Z t - e)) (1 + (1 # 1048576)).

Close Scope Q_scope.
(* transmitted value of an axis step: controller value (of the first message) or the 14-bit pitch bend *)
Definition tx_value (m : msg) : Z :=
  match m with
  | [st; d1; d2] => if N.land st 240 =? PITCH_WHEEL then Z.of_N (d2 * 128 + d1) else Z.of_N d2
  | _ => (-1)%Z
  end.

Record c06cfg := { q_mn : Z; q_mx : Z; q_dzc : bool; q_flip : bool; q_kind : kind; q_dz : f64; q_cc : N; q_ccneg : N }.

(* one transmitted axis event: raw position and the step's messages *)
Definition c06_event_ok (g : c06cfg) (raw : Z) (ms : list msg) : bool :=
  match Q_of_f (q_dz g) with
  | None => true
  | Some dz =>
      let '(p, canneg) := exact_position (q_mn g) (q_mx g) (q_dzc g) (q_flip g) dz raw in
      let e := exact_scaled (q_kind g) canneg p in
      match ms with
      | [] => true                                   (* duplicate suppressed / learning gate *)
      | m :: rest =>
          let t := tx_value m in
          within_one t e &&
          (* end stops map exactly to the ends of the range, rest position to the rest value *)
          (if Qeq_bool e 0%Q then (t =? 0)%Z else true) &&
          (match q_kind g with
           | KPB => (if Qeq_bool e 16383%Q then (t =? 16383)%Z else true) &&
                    (if Qeq_bool (e * 2)%Q 16383%Q then (t =? 8192)%Z else true)
           | KCCuni => (if Qeq_bool e 127%Q then (t =? 127)%Z else true) &&
                       (if Qeq_bool (e * 2)%Q 127%Q then (t =? 63)%Z else true)
           | KCCbidi => (if Qeq_bool e 127%Q then (t =? 127)%Z else true)
           end) &&
          (* the right controller / side *)
          (match q_kind g, m with
           | KCCuni, [st; d1; _] => (N.land st 240 =? CONTROL_CHANGE) && (d1 =? q_cc g)
           | KCCbidi, [st; d1; _] =>
               (* a control change addressed to one of the two controllers of the pair; for a non-zero value: the one of the
                  side the exact position is on.  For a value of 0 the other controller is zeroed too, both are 0 at the
                  receiver and the side is immaterial (the float and the exact decision may differ exactly at the deadzone
                  edge / the half threshold, where the value is 0; witnesses (Proofs/AnalogGeneral4.v, corners):
                  mn=-1000, mx=1000, dz=0.999, raw=-999;  mn=0, mx=255, deadzone_at_center, dz=0.9764705882352941, raw=3;
                  mn=0, mx=255, dz=0.003921568627450981, raw=128) *)
               let neg := if canneg then Qle_bool p 0%Q && negb (Qeq_bool p 0%Q) else Qle_bool (p * 2)%Q 1%Q && negb (Qeq_bool (p * 2)%Q 1%Q) in
               (N.land st 240 =? CONTROL_CHANGE) && ((d1 =? q_cc g) || (d1 =? q_ccneg g)) &&
               ((t =? 0)%Z || (d1 =? (if neg then q_ccneg g else q_cc g)))
           | KPB, [st; _; _] => N.land st 240 =? PITCH_WHEEL
           | _, _ => false
           end)
      end
  end.

(* signed transmitted quantity for monotonicity: bidirectional = +value on the positive side, -value on the negative *)
Definition tx_signed (g : c06cfg) (m : msg) : Z :=
  match q_kind g, m with
  | KCCbidi, [_; d1; d2] => if d1 =? q_ccneg g then (- Z.of_N d2)%Z else Z.of_N d2
  | _, _ => tx_value m
  end.

(* events: (raw, messages of that step); monotone in raw (reversed when flipped) over all pairs of transmitted events *)
Fixpoint c06_monotone_from (g : c06cfg) (raw : Z) (t : Z) (l : list (Z * list msg)) : bool :=
  match l with
  | [] => true
  | (raw', ms) :: r =>
      (match ms with
       | [] => true
       | m :: _ => let t' := tx_signed g m in
                   if (raw <? raw')%Z then (if q_flip g then (t' <=? t)%Z else (t <=? t')%Z)
                   else if (raw' <? raw)%Z then (if q_flip g then (t <=? t')%Z else (t' <=? t)%Z)
                   else (t =? t')%Z
       end) && c06_monotone_from g raw t r
  end.
Fixpoint c06_monotone (g : c06cfg) (l : list (Z * list msg)) : bool :=
  match l with
  | [] => true
  | (raw, ms) :: r => (match ms with [] => true | m :: _ => c06_monotone_from g raw (tx_signed g m) r end) && c06_monotone g r
  end.


(* ---------------------------------------------------------------------- what the model transmits for a position *)
Definition analog_of (g : c06cfg) : analog :=
  {| a_type := match q_kind g with KPB => APitchBend | _ => ACC end;
     a_cc := q_cc g; a_ccneg := q_ccneg g; a_note := 0; a_noteneg := 0; a_off := 0; a_offneg := 0;
     a_act := ANone; a_actneg := ANone; a_flip := q_flip g;
     a_bidi := match q_kind g with KCCbidi => true | _ => false end; a_dzc := q_dzc g |}.

Definition cfg0 : config :=
  {| mappings := []; actions := []; exitseq := []; cmode_of := COff;
     d_octave := 0; d_semitone := 0; d_channel := 1; d_mapping := 0; d_velocity := 64 |}.

(* the messages of an axis event at position [raw] whose shaped value differs from the previous one
   (no CC-learning), from the initial device state *)
Definition axis_msgs (g : c06cfg) (raw : Z) : list msg :=
  let a := analog_of g in
  let '(v, canneg) := shape (q_mn g) (q_mx g) (q_dzc g) (q_dz g) raw in
  midi (snd (handle_sample cfg0 (init cfg0) (make_sample 0 a canneg (flip_value (q_flip g) canneg v)))).

Fixpoint zrange (lo : Z) (n : nat) : list Z := match n with O => [] | S k => lo :: zrange (lo + 1) k end.
Definition raws (g : c06cfg) : list Z := zrange (q_mn g) (Z.to_nat (q_mx g - q_mn g + 1)).

(* the whole check for one configuration: every position of the axis range, and monotonicity over all pairs *)
Definition c06_config_ok (g : c06cfg) : bool :=
  forallb (fun raw => c06_event_ok g raw (axis_msgs g raw) && forallb wf_msgb (axis_msgs g raw)) (raws g) &&
  c06_monotone g (map (fun raw => (raw, axis_msgs g raw)) (raws g)).
