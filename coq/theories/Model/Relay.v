(* C15, relay half: internal/pkg/midi/process.go (ProcessMidiEvents) as a labelled transition system (DESIGN 3.7).

   Both directions are chains of FIFO stages; every goroutine of process.go owns one "holding" stage of capacity 1
   (the local variable [ev] between its receive and its send), every Go channel is a bounded stage:

     out-direction   emitters --Enter--> midiEventsOut --Move 1--> ev (relay goroutine) --Move 0--> port send channel --Deliver--> port
     in-direction    port --Enter--> receive channel --Move 3--> ev (pump goroutine) --Move 2--> inEvents (cap 10)
                          --Move 1--> ev (relay goroutine) --Move 0--> midiEventsIn --Deliver--> fan-out input ([Produce] of Model/Fanout.v)

   A send on a full stage / a receive from an empty stage is a disabled label (the goroutine is blocked).
   An unbuffered Go channel is modelled as a stage of capacity 1 (it keeps the same order; the sender merely
   returns later) - [chan_cap].  Not modelled: ctx cancellation (shutdown; items in flight are then dropped),
   closing midiEventsOut (main.go does it after the manager has returned), Open errors (panic), logging, the score. *)
From Coq Require Import List Arith Bool.
Import ListNotations.

(* reachability in a labelled transition system given by a partial step function (shared with Model/Fanout.v) *)
Inductive reachable {S L : Type} (step : S -> L -> option S) (init : S) : S -> Prop :=
| reach_init : reachable step init init
| reach_step : forall s l s', reachable step init s -> step s l = Some s' -> reachable step init s'.

(* executions with their label sequence *)
Inductive exec {S L : Type} (step : S -> L -> option S) : S -> list L -> S -> Prop :=
| exec_nil : forall s, exec step s [] s
| exec_cons : forall s l s1 ls s2, step s l = Some s1 -> exec step s1 ls s2 -> exec step s (l :: ls) s2.

Definition chan_cap (c : nat) : nat := Nat.max 1 c.

Section Pipe.
  Context {T : Type}.

  (* stage k of [stages] has capacity [nth k caps]; oldest item first; stage 0 is next to the sink, items enter at the last stage *)
  Record pstate := { delivered : list T; stages : list (list T) }.

  Inductive plabel :=
  | Deliver            (* the sink takes the head of stage 0 *)
  | Move (k : nat)     (* head of stage k+1 -> tail of stage k *)
  | Enter (x : T).     (* a source appends to the last stage *)

  Fixpoint move (caps : list nat) (st : list (list T)) (k : nat) {struct st} : option (list (list T)) :=
    match st, caps with
    | a :: ((b :: r) as tl), ca :: ctl =>
        match k with
        | 0 => match b with
               | x :: b' => if length a <? ca then Some ((a ++ [x]) :: b' :: r) else None
               | [] => None
               end
        | S k' => option_map (cons a) (move ctl tl k')
        end
    | _, _ => None
    end.

  Fixpoint enter (caps : list nat) (st : list (list T)) (x : T) {struct st} : option (list (list T)) :=
    match st, caps with
    | [a], ca :: _ => if length a <? ca then Some [a ++ [x]] else None
    | a :: tl, _ :: ctl => option_map (cons a) (enter ctl tl x)
    | _, _ => None
    end.

  Definition pstep (caps : list nat) (s : pstate) (l : plabel) : option pstate :=
    match l with
    | Deliver => match stages s with
                 | (x :: a) :: r => Some {| delivered := delivered s ++ [x]; stages := a :: r |}
                 | _ => None
                 end
    | Move k => option_map (fun st => {| delivered := delivered s; stages := st |}) (move caps (stages s) k)
    | Enter x => option_map (fun st => {| delivered := delivered s; stages := st |}) (enter caps (stages s) x)
    end.

  Definition in_flight (s : pstate) : list T := concat (stages s).
  Definition pinit (n : nat) : pstate := {| delivered := []; stages := repeat [] n |}.
End Pipe.

(* ---- out-direction: items are (emitter, message); [sent k] is the ghost log of what emitter k has put into midiEventsOut *)
Section Out.
  Context {M : Type}.

  Record ostate := { o_pipe : pstate (T := nat * M); o_entered : list (nat * M); o_sent : nat -> list M }.

  (* capacities: port send channel, relay's ev, midiEventsOut *)
  Definition out_caps (port_cap out_cap : nat) : list nat := [chan_cap port_cap; 1; chan_cap out_cap].

  Definition ostep (port_cap out_cap : nat) (s : ostate) (l : plabel (T := nat * M)) : option ostate :=
    match pstep (out_caps port_cap out_cap) (o_pipe s) l with
    | None => None
    | Some p =>
        Some match l with
             | Enter (k, x) => {| o_pipe := p; o_entered := o_entered s ++ [(k, x)];
                                  o_sent := fun j => if j =? k then o_sent s j ++ [x] else o_sent s j |}
             | _ => {| o_pipe := p; o_entered := o_entered s; o_sent := o_sent s |}
             end
    end.

  Definition oinit : ostate := {| o_pipe := pinit 3; o_entered := []; o_sent := fun _ => [] |}.

  (* the messages of emitter k inside a merged sequence *)
  Definition proj (k : nat) (l : list (nat * M)) : list M := map snd (filter (fun p => fst p =? k) l).
End Out.

(* ---- in-direction: one source (the port); [i_arrived] is the ghost log of what the port produced *)
Section In.
  Context {M : Type}.

  Record istate := { i_pipe : pstate (T := M); i_arrived : list M }.

  (* capacities: midiEventsIn, relay's ev, inEvents (10), pump's ev, port receive channel *)
  Definition in_caps (in_cap recv_cap : nat) : list nat := [chan_cap in_cap; 1; 10; 1; chan_cap recv_cap].

  Definition istep (in_cap recv_cap : nat) (s : istate) (l : plabel (T := M)) : option istate :=
    match pstep (in_caps in_cap recv_cap) (i_pipe s) l with
    | None => None
    | Some p => Some {| i_pipe := p; i_arrived := match l with Enter x => i_arrived s ++ [x] | _ => i_arrived s end |}
    end.

  Definition iinit : istate := {| i_pipe := pinit 5; i_arrived := [] |}.
End In.
