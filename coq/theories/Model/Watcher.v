(* C19: internal/pkg/midi/device/config/monitor.go (DetectDeviceConfigChanges) - the event filter as a pure function and
   the watcher as a labelled transition system (DESIGN 3.7).  fsnotify v1.5.1 (inotify backend) and the kernel are the
   environment: [KernelEvent e] puts one fsnotify event (Op bit mask, path) into the inotify queue.

   Go code                                                     labels
   ----------------------------------------------------------  ---------------------------------------------------------
   go func() { defer close(change)
     watcher, err := fsnotify.NewWatcher()                      StartOk  (spawns fsnotify's readEvents goroutine and the
     if err != nil { return }                                   StartFail          helper below; the four watcher.Add calls:
     go func() { <-ctx.Done(); watcher.Close() }()                                 their errors are ignored by the code)
     for event := range watcher.Events {                        Recv     (rendezvous with readEvents on the unbuffered channel)
                                                                RangeEnd (Events closed -> the loop ends -> return)
       if event.Op&fsnotify.Write == 0 { continue }   [F15]     Filter   (the pure function [notify_v]; original: Op != Write)
       if HasSuffix(ToLower(event.Name), ".toml") {   [F15]              (original: "toml")
         select { case change <- true:                          Read     (environment: the consumer takes the hand-off)
                  case <-ctx.Done(): return }         [F15]     SendAbort (fixed only; original: plain `change <- true`)
     } }                                                        CloseChange (the deferred close(change); goroutine finished)
   }()
   helper:     <-ctx.Done(); close(w.done); wake                HelperClose
               <-w.doneResp; return                             HelperDone
   readEvents: read(inotify fd) -> one Event at a time          FsRead   (head of the kernel queue; then blocked in Events <- e)
               isClosed() / select case <-w.done: return        ReaderExit (deferred close(Events), close(fd): queue dropped)
   environment: kernel queues an event                          KernelEvent e
                consumer <-change                               Read     (disabled = the consumer blocks: nothing offered, not closed)
                ctx cancelled                                   Cancel

   [fixed = true] is the code with fix F15 (patches/C19-watcher.diff), [fixed = false] the repository's code.
   After close(w.done) readEvents may still hand over the event it holds (select chooses among ready cases) or events it
   already read in the same batch: [FsRead]/[Recv] stay enabled until [ReaderExit] - a superset of the Go behaviours.
   Ghost fields (not in the Go program): [enq] every event the kernel queued, [seen] the events the filter has judged, in
   order, [dropped] what was discarded at shutdown, [delivered] hand-offs taken by the consumer, [aborted] hand-offs
   abandoned by SendAbort.
   Not modelled: inotify queue overflow (IN_Q_OVERFLOW goes to watcher.Errors, which monitor.go never reads: a blocked
   send there is released by Close), coalescing of identical consecutive inotify events and the mapping from file
   operations to events (kernel; the table [kernel_events] of Run/WatcherRun.v is validated per run), logging. *)
From Coq Require Import List NArith Arith Bool.
From HIDI Require Import Model.Relay.
Import ListNotations.

(* ---- the filter: fsnotify.Event = (Op bit mask, Name bytes) *)
Record event := mkEv { ev_op : N; ev_name : list N }.

Definition OP_CREATE : N := 1.
Definition OP_WRITE : N := 2.
Definition OP_REMOVE : N := 4.
Definition OP_RENAME : N := 8.
Definition OP_CHMOD : N := 16.

Definition has_write (op : N) : bool := N.testbit op 1.

(* strings.ToLower restricted to what matters for the suffix test: A-Z -> a-z, every other byte unchanged.  (No
   non-ASCII rune lower-cases to one of the bytes of ".toml": swept over all runes by the harness on every run.) *)
Definition lower_byte (b : N) : N := if (65 <=? b)%N && (b <=? 90)%N then (b + 32)%N else b.
Definition lower (s : list N) : list N := map lower_byte s.

Fixpoint list_eqb (a b : list N) : bool :=
  match a, b with
  | [], [] => true
  | x :: a', y :: b' => (x =? y)%N && list_eqb a' b'
  | _, _ => false
  end.

(* strings.HasSuffix *)
Definition has_suffix (suf s : list N) : bool :=
  (length suf <=? length s) && list_eqb (skipn (length s - length suf) s) suf.

Definition dot_toml : list N := [46; 116; 111; 109; 108]%N.   (* ".toml" *)
Definition toml : list N := [116; 111; 109; 108]%N.           (* "toml"  *)

Definition notify_v (fixed : bool) (e : event) : bool :=
  if fixed
  then has_write (ev_op e) && has_suffix dot_toml (lower (ev_name e))
  else (ev_op e =? OP_WRITE)%N && has_suffix toml (lower (ev_name e)).

Definition notify : event -> bool := notify_v true.

(* ---- the transition system *)
Inductive wpc :=
| Init                 (* before fsnotify.NewWatcher *)
| Ranging              (* in `range watcher.Events`, waiting for an event *)
| Got (e : event)      (* has an event, about to filter it *)
| Sending              (* blocked in the hand-off `change <- true` *)
| Returning            (* left the loop; the deferred close(change) is next *)
| Done.                (* goroutine finished *)

Inductive hpc := HNone | HWait | HWaitResp | HDone.   (* helper: not spawned / <-ctx.Done() / inside watcher.Close() / returned *)
Inductive rpc := RNone | RRun | RExit.                (* fsnotify readEvents: not started / running / returned *)

Record state := mkSt {
  kq : list event;        (* inotify queue *)
  rd : option event;      (* readEvents holds this event, blocked in w.Events <- event *)
  pc : wpc; helper : hpc; reader : rpc;
  ctx_done : bool; w_done : bool; events_closed : bool; change_closed : bool;
  saw_close : bool;       (* the consumer has observed the closed stream *)
  (* ghost *) enq : list event; seen : list event; dropped : list event; delivered : nat; aborted : nat }.

Inductive label :=
| StartOk | StartFail | FsRead | Recv | Filter | SendAbort | RangeEnd | CloseChange | HelperClose | ReaderExit | HelperDone
| KernelEvent (e : event) | Read | Cancel.

Definition is_system (l : label) : bool :=
  match l with KernelEvent _ | Read | Cancel => false | _ => true end.

(* labels that do not create new work: the system's steps and the consumer's reads *)
Definition no_input (l : label) : bool :=
  match l with KernelEvent _ | Cancel => false | _ => true end.

Definition init : state :=
  mkSt [] None Init HNone RNone false false false false false [] [] [] 0 0.

Definition opt_list {A : Type} (o : option A) : list A := match o with Some x => [x] | None => [] end.

Section Step.
  Variable fixed : bool.

  Definition step (s : state) (l : label) : option state :=
    match l with
    | StartOk =>
        match pc s with
        | Init => Some (mkSt (kq s) (rd s) Ranging HWait RRun (ctx_done s) (w_done s) (events_closed s) (change_closed s)
                             (saw_close s) (enq s) (seen s) (dropped s) (delivered s) (aborted s))
        | _ => None
        end
    | StartFail =>
        match pc s with
        | Init => Some (mkSt (kq s) (rd s) Returning (helper s) (reader s) (ctx_done s) (w_done s) (events_closed s)
                             (change_closed s) (saw_close s) (enq s) (seen s) (dropped s) (delivered s) (aborted s))
        | _ => None
        end
    | FsRead =>
        match reader s, rd s, kq s with
        | RRun, None, e :: r =>
            Some (mkSt r (Some e) (pc s) (helper s) (reader s) (ctx_done s) (w_done s) (events_closed s) (change_closed s)
                       (saw_close s) (enq s) (seen s) (dropped s) (delivered s) (aborted s))
        | _, _, _ => None
        end
    | Recv =>
        match pc s, rd s with
        | Ranging, Some e =>
            Some (mkSt (kq s) None (Got e) (helper s) (reader s) (ctx_done s) (w_done s) (events_closed s) (change_closed s)
                       (saw_close s) (enq s) (seen s) (dropped s) (delivered s) (aborted s))
        | _, _ => None
        end
    | Filter =>
        match pc s with
        | Got e =>
            Some (mkSt (kq s) (rd s) (if notify_v fixed e then Sending else Ranging) (helper s) (reader s) (ctx_done s)
                       (w_done s) (events_closed s) (change_closed s) (saw_close s) (enq s) (seen s ++ [e]) (dropped s)
                       (delivered s) (aborted s))
        | _ => None
        end
    | SendAbort =>
        match pc s with
        | Sending =>
            if fixed && ctx_done s
            then Some (mkSt (kq s) (rd s) Returning (helper s) (reader s) (ctx_done s) (w_done s) (events_closed s)
                            (change_closed s) (saw_close s) (enq s) (seen s) (dropped s) (delivered s) (S (aborted s)))
            else None
        | _ => None
        end
    | RangeEnd =>
        match pc s, rd s with
        | Ranging, None =>
            if events_closed s
            then Some (mkSt (kq s) (rd s) Returning (helper s) (reader s) (ctx_done s) (w_done s) (events_closed s)
                            (change_closed s) (saw_close s) (enq s) (seen s) (dropped s) (delivered s) (aborted s))
            else None
        | _, _ => None
        end
    | CloseChange =>
        match pc s with
        | Returning => Some (mkSt (kq s) (rd s) Done (helper s) (reader s) (ctx_done s) (w_done s) (events_closed s) true
                                  (saw_close s) (enq s) (seen s) (dropped s) (delivered s) (aborted s))
        | _ => None
        end
    | HelperClose =>
        match helper s with
        | HWait => if ctx_done s
                   then Some (mkSt (kq s) (rd s) (pc s) HWaitResp (reader s) (ctx_done s) true (events_closed s)
                                   (change_closed s) (saw_close s) (enq s) (seen s) (dropped s) (delivered s) (aborted s))
                   else None
        | _ => None
        end
    | ReaderExit =>
        match reader s with
        | RRun => if w_done s
                  then Some (mkSt [] None (pc s) (helper s) RExit (ctx_done s) (w_done s) true (change_closed s)
                                  (saw_close s) (enq s) (seen s) (opt_list (rd s) ++ kq s ++ dropped s) (delivered s)
                                  (aborted s))
                  else None
        | _ => None
        end
    | HelperDone =>
        match helper s, reader s with
        | HWaitResp, RExit =>
            Some (mkSt (kq s) (rd s) (pc s) HDone (reader s) (ctx_done s) (w_done s) (events_closed s) (change_closed s)
                       (saw_close s) (enq s) (seen s) (dropped s) (delivered s) (aborted s))
        | _, _ => None
        end
    | KernelEvent e =>
        match reader s with
        | RRun => Some (mkSt (kq s ++ [e]) (rd s) (pc s) (helper s) (reader s) (ctx_done s) (w_done s) (events_closed s)
                             (change_closed s) (saw_close s) (enq s ++ [e]) (seen s) (dropped s) (delivered s) (aborted s))
        | _ => None   (* no inotify instance: nothing is queued *)
        end
    | Read =>
        match pc s with
        | Sending => Some (mkSt (kq s) (rd s) Ranging (helper s) (reader s) (ctx_done s) (w_done s) (events_closed s)
                                (change_closed s) (saw_close s) (enq s) (seen s) (dropped s) (S (delivered s)) (aborted s))
        | _ => if change_closed s && negb (saw_close s)
               then Some (mkSt (kq s) (rd s) (pc s) (helper s) (reader s) (ctx_done s) (w_done s) (events_closed s)
                               (change_closed s) true (enq s) (seen s) (dropped s) (delivered s) (aborted s))
               else None
        end
    | Cancel =>
        if ctx_done s then None
        else Some (mkSt (kq s) (rd s) (pc s) (helper s) (reader s) true (w_done s) (events_closed s) (change_closed s)
                        (saw_close s) (enq s) (seen s) (dropped s) (delivered s) (aborted s))
    end.
End Step.

(* ---- vocabulary of the theorems *)
Definition pending (s : state) : nat := match pc s with Sending => 1 | _ => 0 end.
Definition got_list (s : state) : list event := match pc s with Got e => [e] | _ => [] end.
Definition count_notified (fixed : bool) (l : list event) : nat := length (filter (notify_v fixed) l).

(* the watcher is completely shut down: stream closed, all three goroutines (range loop, helper, readEvents) returned *)
Definition finished (s : state) : Prop :=
  pc s = Done /\ change_closed s = true /\ (helper s = HDone \/ helper s = HNone) /\ (reader s = RExit \/ reader s = RNone).

(* nothing left in the pipeline *)
Definition drained (s : state) : Prop := kq s = [] /\ rd s = None /\ pc s = Ranging.

(* ranking function: an upper bound on the number of further steps that create no new work *)
Definition pc_cost (p : wpc) : nat :=
  match p with Init => 6 | Ranging => 2 | Got _ => 4 | Sending => 3 | Returning => 1 | Done => 0 end.
Definition helper_cost (h : hpc) : nat := match h with HWait => 2 | HWaitResp => 1 | _ => 0 end.
Definition reader_cost (r : rpc) : nat := match r with RRun => 1 | _ => 0 end.
Definition measure (s : state) : nat :=
  4 * length (kq s) + 3 * length (opt_list (rd s)) + pc_cost (pc s) + helper_cost (helper s) + reader_cost (reader s)
  + (if saw_close s then 0 else 1).

Fixpoint run_trace (fixed : bool) (s : state) (ls : list label) : option state :=
  match ls with
  | [] => Some s
  | l :: r => match step fixed s l with Some s' => run_trace fixed s' r | None => None end
  end.
