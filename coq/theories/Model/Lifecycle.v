(* C16: internal/pkg/midi/device/events.go (ProcessEvents, processEvent, handleInputEvents) and open_rgb.go
   (handleOpenrgb) - the life of ONE device as a labelled transition system of three goroutines (DESIGN 3.7), an access
   table of the Device struct fields, and the product of k device machines (Model/Device.v) for the cross-talk statement.

   Go code                                                          pc -- label --> pc
   ---------------------------------------------------------------  ------------------------------------------------------
   main (ProcessEvents), after wg.Add(2) and the two go statements:
     for ie := range inputEvents {                                   MLoop -MTake-> MLock       (an event is buffered)
       d.eventProcessMutex.Lock()                                    MLock -MLockEv-> MHandle   (disabled unless free)
       d.handleKEYEvent / handleABSEvent                             MHandle -MHandleDone k a-> MUnlock
         Panic(): d.externalTrackerMutex.Lock()                      MHandle -MPanicLock-> MPanic   (disabled unless free)
                  d.externalNoteTracker = inmap; Unlock()            MPanic -MPanicUnlock-> MHandle2 -MHandleDone k a-> MUnlock
       d.eventProcessMutex.Unlock() }                                MUnlock -MUnlockEv-> MLoop
     (channel closed and drained)                                    MLoop -MRangeEnd-> MCancel
     cancel()                                                        MCancel -MCancelCtx-> MCleanLock (fixed) | MClean (original)
     [F13] d.eventProcessMutex.Lock()                                MCleanLock -MCleanLockEv-> MClean
     for evcode := range d.noteTracker { d.NoteOff(..) }             MClean -MCleanKey-> MClean       (one tracked key note)
     for id := range d.analogNoteTracker { d.AnalogNoteOff(..) }     MClean -MCleanAnalog-> MClean    (one tracked analog note)
     [F13] d.eventProcessMutex.Unlock()                              MClean -MCleanEnd-> MCleanUnlock -MCleanUnlockEv-> MWait
                                                                     (original: MClean -MCleanEnd-> MWait)
     wg.Wait()                                                       MWait -MWaitDone-> MReturned     (disabled unless wg = 0)
   LED (handleOpenrgb), phase 1 = openrgb.Connect (5 s), phase 2 = findController (2 s):
     for { select { case <-ctx.Done(): return                        LSel_i -LCtxDone-> LExit         (disabled unless cancelled)
                    case <-time.After(250ms): }                      LSel_i -LTimer-> LTry_i
           if time.Now().After(timeout) { break }  ... return        LTry_i -LGiveUp-> LExit
           c, err = openrgb.Connect(..); if err != nil { continue }  LTry_i -ConnectFails-> LSel_i    (fuel - 1; disabled at fuel 0)
           break }                                                   LTry_1 -ConnectSucceeds-> LSel2 (fuel := 8), LTry2 -> LCheck
     root: for { select { case <-ctx.Done(): break root; default: }  LCheck -LFrameEnd-> LFinal (cancelled) | -LFrameStart-> LSleep
       time.Sleep(10ms)                                              LSleep -LWake-> LLock
       d.eventProcessMutex.Lock()                                    LLock -LLockEv-> LRead           (disabled unless free)
       offset, octave, semitone, mapping, channel                    (at LRead)
       d.externalTrackerMutex.Lock()                                 LRead -LExtLock-> LReadExt       (disabled unless free)
       ... d.externalNoteTracker ...; Unlock()                       LReadExt -LExtUnlock-> LRead2
       for _, nc := range d.noteTracker { .. }                       LRead2 -LReadDone-> LUpdate
       c.UpdateLEDs(index, ledArray)                                 LUpdate -LUpdateDone-> LUnlock   (peer responsive: always enabled)
       d.eventProcessMutex.Unlock() }                                LUnlock -LUnlockEv-> LCheck
     c.UpdateLEDs(index, red)                                        LFinal -LFinalDone-> LExit
     defer wg.Done()                                                 LExit -LWgDone-> LDone
   MIDI-in (handleInputEvents):
     select { case <-ctx.Done(): break root                          ISelect -ICtxDone-> IExit        (disabled unless cancelled)
              case ev := <-d.midiIn:                                 ISelect -MidiArrive-> ILock      (environment: a message is there)
                d.externalTrackerMutex.Lock()                        ILock -ILockExt-> IWrite         (disabled unless free)
                d.externalNoteTracker[..][..] = true / delete        IWrite -IWriteDone-> IUnlock
                d.externalTrackerMutex.Unlock() }                    IUnlock -IUnlockExt-> ISelect
     defer wg.Done()                                                 IExit -IWgDone-> IDone
   environment:  inputEvents <- ie                                   InputEvent   (disabled once closed)
                 close(inputEvents)                                  CloseInput

   [fixed = true] is the code with fix F13 (eventProcessMutex held around the two clean-up loops), [fixed = false] the
   repository's code (defect D17).

   Which labels are the system's own ([own]):  everything except InputEvent, CloseInput, MidiArrive and LFrameStart.
   * MidiArrive: Go's select picks at random among ready cases; with ctx cancelled AND messages still arriving, the exit of
     the MIDI-in goroutine needs select-fairness.  Taking a message is therefore an environment-enabled step.
   * LFrameStart (the LED loop finds ctx not cancelled and begins another 10 ms frame): the frame loop is endless by design
     until cancel(); a frame that begins between close(inputEvents) and cancel() is time-driven work, like a message that
     arrives.  It is disabled for good once main has executed cancel().
   Timers (time.After 250 ms, time.Sleep 10 ms) always fire and are own steps.  The outcome of a connect attempt is chosen
   by the environment but the attempt is an own step; the two give-up deadlines bound the attempts: with 250 ms between
   attempts at most 20 (5 s) resp. 8 (2 s) attempts start before the deadline ([fuel]); giving up is possible at any
   iteration (attempts take time) and forced at fuel 0.

   Abstractions: the playing state is reduced to the number of tracked key notes / analog notes ([n_keys], [n_analog]);
   an event handler may leave any counts with at most ONE tracked note more than before ([MHandleDone k a]: NoteOn adds one
   entry to noteTracker, AnalogNoteOn one to analogNoteTracker, everything else removes or keeps).  Sends on outputEvents
   (handlers, the Panic burst, one-or-zero message per clean-up step) always complete: the output consumer is assumed to
   be draining.  MIDI-in messages other than NoteOn/NoteOff return to the select without locking (a stutter, omitted).
   EV_SYN / key-repeat events return without locking (a shorter path than the one modelled).  The runtime timer created
   by time.After stays armed for up to 250 ms after the LED goroutine left through the ctx arm; it is not a goroutine and
   is not modelled.  The goroutine structure and the access table are hand-transcribed. *)
From Coq Require Import List Arith Bool.
From HIDI Require Import Model.Relay.
From HIDI Require Model.Device.
Import ListNotations.

Inductive goroutine := GMain | GLed | GMidi.
Inductive mutex := MuEvent | MuExt.     (* eventProcessMutex | externalTrackerMutex *)

Inductive mpc := MLoop | MLock | MHandle | MPanic | MHandle2 | MUnlock
               | MCancel | MCleanLock | MClean | MCleanUnlock | MWait | MReturned.
Inductive lpc := LSel1 | LTry1 | LSel2 | LTry2
               | LCheck | LSleep | LLock | LRead | LReadExt | LRead2 | LUpdate | LUnlock | LFinal | LExit | LDone.
Inductive ipc := ISelect | ILock | IWrite | IUnlock | IExit | IDone.

Definition CONNECT_RETRIES : nat := 20.   (* 5 s / 250 ms *)
Definition FIND_RETRIES : nat := 8.       (* 2 s / 250 ms *)

Record sys := mkSys {
  pm : mpc; pl : lpc; pi : ipc;
  mu_ev : option goroutine;      (* owner of eventProcessMutex *)
  mu_ext : option goroutine;     (* owner of externalTrackerMutex *)
  ctx : bool;                    (* cancel() has been called *)
  wg : nat;                      (* WaitGroup counter *)
  closed : bool;                 (* close(inputEvents) has happened *)
  pending : nat;                 (* events in the input channel *)
  n_keys : nat; n_analog : nat;  (* len(noteTracker), len(analogNoteTracker) *)
  fuel : nat;                    (* connect attempts that can still start before the current deadline *)
  fixed : bool }.                (* true = with fix F13 *)

Inductive label :=
| InputEvent | CloseInput | MidiArrive | LFrameStart
| MTake | MLockEv | MPanicLock | MPanicUnlock | MHandleDone (k a : nat) | MUnlockEv
| MRangeEnd | MCancelCtx | MCleanLockEv | MCleanKey | MCleanAnalog | MCleanEnd | MCleanUnlockEv | MWaitDone
| LCtxDone | LTimer | LGiveUp | ConnectFails | ConnectSucceeds
| LFrameEnd | LWake | LLockEv | LExtLock | LExtUnlock | LReadDone | LUpdateDone | LUnlockEv | LFinalDone | LWgDone
| ILockExt | IWriteDone | IUnlockExt | ICtxDone | IWgDone.

Definition own (l : label) : bool :=
  match l with InputEvent | CloseInput | MidiArrive | LFrameStart => false | _ => true end.

(* ProcessEvents after wg.Add(2) and the two go statements; NewDevice creates empty trackers *)
Definition init (fx : bool) (n_events : nat) : sys :=
  mkSys MLoop LSel1 ISelect None None false 2 false n_events 0 0 CONNECT_RETRIES fx.

(* ---- field updates *)
Definition w_pm v s := mkSys v (pl s) (pi s) (mu_ev s) (mu_ext s) (ctx s) (wg s) (closed s) (pending s) (n_keys s) (n_analog s) (fuel s) (fixed s).
Definition w_pl v s := mkSys (pm s) v (pi s) (mu_ev s) (mu_ext s) (ctx s) (wg s) (closed s) (pending s) (n_keys s) (n_analog s) (fuel s) (fixed s).
Definition w_pi v s := mkSys (pm s) (pl s) v (mu_ev s) (mu_ext s) (ctx s) (wg s) (closed s) (pending s) (n_keys s) (n_analog s) (fuel s) (fixed s).
Definition w_ev v s := mkSys (pm s) (pl s) (pi s) v (mu_ext s) (ctx s) (wg s) (closed s) (pending s) (n_keys s) (n_analog s) (fuel s) (fixed s).
Definition w_ext v s := mkSys (pm s) (pl s) (pi s) (mu_ev s) v (ctx s) (wg s) (closed s) (pending s) (n_keys s) (n_analog s) (fuel s) (fixed s).
Definition w_ctx v s := mkSys (pm s) (pl s) (pi s) (mu_ev s) (mu_ext s) v (wg s) (closed s) (pending s) (n_keys s) (n_analog s) (fuel s) (fixed s).
Definition w_wg v s := mkSys (pm s) (pl s) (pi s) (mu_ev s) (mu_ext s) (ctx s) v (closed s) (pending s) (n_keys s) (n_analog s) (fuel s) (fixed s).
Definition w_closed v s := mkSys (pm s) (pl s) (pi s) (mu_ev s) (mu_ext s) (ctx s) (wg s) v (pending s) (n_keys s) (n_analog s) (fuel s) (fixed s).
Definition w_pending v s := mkSys (pm s) (pl s) (pi s) (mu_ev s) (mu_ext s) (ctx s) (wg s) (closed s) v (n_keys s) (n_analog s) (fuel s) (fixed s).
Definition w_notes k a s := mkSys (pm s) (pl s) (pi s) (mu_ev s) (mu_ext s) (ctx s) (wg s) (closed s) (pending s) k a (fuel s) (fixed s).
Definition w_fuel v s := mkSys (pm s) (pl s) (pi s) (mu_ev s) (mu_ext s) (ctx s) (wg s) (closed s) (pending s) (n_keys s) (n_analog s) v (fixed s).

(* Lock is enabled only when the mutex is free; Unlock only by the owner *)
Definition step (s : sys) (l : label) : option sys :=
  match l with
  (* ---- environment *)
  | InputEvent => if closed s then None else Some (w_pending (S (pending s)) s)
  | CloseInput => if closed s then None else Some (w_closed true s)
  | MidiArrive => match pi s with ISelect => Some (w_pi ILock s) | _ => None end
  | LFrameStart => match pl s, ctx s with LCheck, false => Some (w_pl LSleep s) | _, _ => None end
  (* ---- main *)
  | MTake => match pm s, pending s with MLoop, S p => Some (w_pending p (w_pm MLock s)) | _, _ => None end
  | MLockEv => match pm s, mu_ev s with MLock, None => Some (w_ev (Some GMain) (w_pm MHandle s)) | _, _ => None end
  | MPanicLock => match pm s, mu_ext s with MHandle, None => Some (w_ext (Some GMain) (w_pm MPanic s)) | _, _ => None end
  | MPanicUnlock => match pm s, mu_ext s with MPanic, Some GMain => Some (w_ext None (w_pm MHandle2 s)) | _, _ => None end
  | MHandleDone k a =>
      match pm s with
      | MHandle | MHandle2 =>
          if k + a <=? n_keys s + n_analog s + 1 then Some (w_notes k a (w_pm MUnlock s)) else None
      | _ => None
      end
  | MUnlockEv => match pm s, mu_ev s with MUnlock, Some GMain => Some (w_ev None (w_pm MLoop s)) | _, _ => None end
  | MRangeEnd => match pm s, pending s, closed s with MLoop, 0, true => Some (w_pm MCancel s) | _, _, _ => None end
  | MCancelCtx => match pm s with
                  | MCancel => Some (w_ctx true (w_pm (if fixed s then MCleanLock else MClean) s))
                  | _ => None
                  end
  | MCleanLockEv => match pm s, mu_ev s with MCleanLock, None => Some (w_ev (Some GMain) (w_pm MClean s)) | _, _ => None end
  | MCleanKey => match pm s, n_keys s with MClean, S k => Some (w_notes k (n_analog s) s) | _, _ => None end
  | MCleanAnalog => match pm s, n_keys s, n_analog s with MClean, 0, S a => Some (w_notes 0 a s) | _, _, _ => None end
  | MCleanEnd => match pm s, n_keys s, n_analog s with
                 | MClean, 0, 0 => Some (w_pm (if fixed s then MCleanUnlock else MWait) s)
                 | _, _, _ => None
                 end
  | MCleanUnlockEv => match pm s, mu_ev s with MCleanUnlock, Some GMain => Some (w_ev None (w_pm MWait s)) | _, _ => None end
  | MWaitDone => match pm s, wg s with MWait, 0 => Some (w_pm MReturned s) | _, _ => None end
  (* ---- LED: the two retry loops *)
  | LCtxDone => match pl s, ctx s with (LSel1 | LSel2), true => Some (w_pl LExit s) | _, _ => None end
  | LTimer => match pl s with LSel1 => Some (w_pl LTry1 s) | LSel2 => Some (w_pl LTry2 s) | _ => None end
  | LGiveUp => match pl s with LTry1 | LTry2 => Some (w_pl LExit s) | _ => None end
  | ConnectFails => match pl s, fuel s with
                    | LTry1, S f => Some (w_fuel f (w_pl LSel1 s))
                    | LTry2, S f => Some (w_fuel f (w_pl LSel2 s))
                    | _, _ => None
                    end
  | ConnectSucceeds => match pl s, fuel s with
                       | LTry1, S _ => Some (w_fuel FIND_RETRIES (w_pl LSel2 s))
                       | LTry2, S _ => Some (w_pl LCheck s)
                       | _, _ => None
                       end
  (* ---- LED: the frame loop *)
  | LFrameEnd => match pl s, ctx s with LCheck, true => Some (w_pl LFinal s) | _, _ => None end
  | LWake => match pl s with LSleep => Some (w_pl LLock s) | _ => None end
  | LLockEv => match pl s, mu_ev s with LLock, None => Some (w_ev (Some GLed) (w_pl LRead s)) | _, _ => None end
  | LExtLock => match pl s, mu_ext s with LRead, None => Some (w_ext (Some GLed) (w_pl LReadExt s)) | _, _ => None end
  | LExtUnlock => match pl s, mu_ext s with LReadExt, Some GLed => Some (w_ext None (w_pl LRead2 s)) | _, _ => None end
  | LReadDone => match pl s with LRead2 => Some (w_pl LUpdate s) | _ => None end
  | LUpdateDone => match pl s with LUpdate => Some (w_pl LUnlock s) | _ => None end
  | LUnlockEv => match pl s, mu_ev s with LUnlock, Some GLed => Some (w_ev None (w_pl LCheck s)) | _, _ => None end
  | LFinalDone => match pl s with LFinal => Some (w_pl LExit s) | _ => None end
  | LWgDone => match pl s with LExit => Some (w_wg (pred (wg s)) (w_pl LDone s)) | _ => None end
  (* ---- MIDI-in *)
  | ILockExt => match pi s, mu_ext s with ILock, None => Some (w_ext (Some GMidi) (w_pi IWrite s)) | _, _ => None end
  | IWriteDone => match pi s with IWrite => Some (w_pi IUnlock s) | _ => None end
  | IUnlockExt => match pi s, mu_ext s with IUnlock, Some GMidi => Some (w_ext None (w_pi ISelect s)) | _, _ => None end
  | ICtxDone => match pi s, ctx s with ISelect, true => Some (w_pi IExit s) | _, _ => None end
  | IWgDone => match pi s with IExit => Some (w_wg (pred (wg s)) (w_pi IDone s)) | _ => None end
  end.

Fixpoint run_trace (s : sys) (ls : list label) : option sys :=
  match ls with
  | [] => Some s
  | l :: r => match step s l with Some s' => run_trace s' r | None => None end
  end.

(* ---- the access table: Device struct fields (device.go:25-69) *)
Inductive field := FNoteT | FAnalogT | FCounter | FOctave | FSemitone | FChannel | FMapping | FExt
                 | FKeyT | FActionT | FCcZ | FLearning.
Inductive kind := Read | Write.

Definition field_eqb (a b : field) : bool :=
  match a, b with
  | FNoteT, FNoteT | FAnalogT, FAnalogT | FCounter, FCounter | FOctave, FOctave | FSemitone, FSemitone
  | FChannel, FChannel | FMapping, FMapping | FExt, FExt | FKeyT, FKeyT | FActionT, FActionT | FCcZ, FCcZ
  | FLearning, FLearning => true
  | _, _ => false
  end.
Definition is_write (k : kind) : bool := match k with Write => true | Read => false end.
Definition goroutine_eqb (a b : goroutine) : bool :=
  match a, b with GMain, GMain | GLed, GLed | GMidi, GMidi => true | _, _ => false end.

Definition rd (fs : list field) : list (field * kind) := map (fun f => (f, Read)) fs.
Definition rw (fs : list field) : list (field * kind) := flat_map (fun f => [(f, Read); (f, Write)]) fs.

(* everything the key / analog / action handlers may touch (events.go:17-303, device.go:174-473) *)
Definition playing_fields : list field :=
  [FNoteT; FAnalogT; FCounter; FOctave; FSemitone; FChannel; FMapping; FKeyT; FActionT; FCcZ; FLearning].

(* what a goroutine reads / writes while it is AT the given pc (a region entered by one step and left by another) *)
Definition acc_main (p : mpc) : list (field * kind) :=
  match p with
  | MHandle | MHandle2 => rw playing_fields
  | MPanic => [(FExt, Write)]                         (* device.go:460-467 *)
  | MClean => rw [FNoteT; FAnalogT; FCounter]         (* NoteOff / AnalogNoteOff: events.go:347-363 *)
  | _ => []
  end.
Definition acc_led (p : lpc) : list (field * kind) :=
  match p with
  | LRead => rd [FSemitone; FOctave; FMapping; FChannel]      (* open_rgb.go:498-607 *)
  | LReadExt => rd [FExt; FMapping; FChannel]                 (* open_rgb.go:610-635 *)
  | LRead2 => rd [FNoteT; FMapping]                           (* open_rgb.go:638-648 *)
  | _ => []
  end.
Definition acc_midi (p : ipc) : list (field * kind) :=
  match p with IWrite => [(FExt, Write)] | _ => [] end.    (* events.go:381-387 *)

Definition accesses (s : sys) (g : goroutine) : list (field * kind) :=
  match g with GMain => acc_main (pm s) | GLed => acc_led (pl s) | GMidi => acc_midi (pi s) end.

Definition owner_is (o : option goroutine) (g : goroutine) : bool :=
  match o with Some h => goroutine_eqb h g | None => false end.
Definition holds (s : sys) (g : goroutine) (m : mutex) : bool :=
  match m with MuEvent => owner_is (mu_ev s) g | MuExt => owner_is (mu_ext s) g end.

Definition goroutines : list goroutine := [GMain; GLed; GMidi].
Definition mutexes : list mutex := [MuEvent; MuExt].

Definition common_mutex (s : sys) (g1 g2 : goroutine) : bool :=
  existsb (fun m => holds s g1 m && holds s g2 m) mutexes.

(* both access lists mention field f, at least one of the two accesses is a write *)
Definition clash_on (f : field) (a1 a2 : list (field * kind)) : bool :=
  existsb (fun x => existsb (fun y => field_eqb (fst x) f && field_eqb (fst y) f && (is_write (snd x) || is_write (snd y))) a2) a1.

(* a data race on f: two different goroutines are simultaneously inside regions accessing f, at least one writes,
   and they hold no common mutex *)
Definition conflict_on (f : field) (s : sys) : bool :=
  existsb (fun g1 => existsb (fun g2 =>
     negb (goroutine_eqb g1 g2) && clash_on f (accesses s g1) (accesses s g2) && negb (common_mutex s g1 g2))
     goroutines) goroutines.

Definition fields : list field :=
  [FNoteT; FAnalogT; FCounter; FOctave; FSemitone; FChannel; FMapping; FExt; FKeyT; FActionT; FCcZ; FLearning].
Definition conflictb (s : sys) : bool := existsb (fun f => conflict_on f s) fields.

(* the lockset discipline behind it: the mutex that guards each field *)
Definition guard (f : field) : mutex := match f with FExt => MuExt | _ => MuEvent end.

(* ---- the ranking function: an upper bound on the own steps still to come *)
Definition main_cost (s : sys) : nat :=
  let notes := n_keys s + n_analog s in
  match pm s with
  | MLoop => 7 * pending s + notes + 6          (* per buffered event: 6 steps + at most one more note to release *)
  | MLock => 7 * pending s + notes + 12
  | MHandle => 7 * pending s + notes + 11
  | MPanic => 7 * pending s + notes + 10
  | MHandle2 => 7 * pending s + notes + 9
  | MUnlock => 7 * pending s + notes + 7
  | MCancel => notes + 5
  | MCleanLock => notes + 4
  | MClean => notes + 3
  | MCleanUnlock => 2
  | MWait => 1
  | MReturned => 0
  end.
Definition led_cost (s : sys) : nat :=
  match pl s with
  | LSel1 => 2 * fuel s + 23 | LTry1 => 2 * fuel s + 22      (* <= 2 * 20 + 23 = 63 *)
  | LSel2 => 2 * fuel s + 5 | LTry2 => 2 * fuel s + 4        (* <= 2 * 8 + 5 = 21 *)
  | LSleep => 10 | LLock => 9 | LRead => 8 | LReadExt => 7 | LRead2 => 6 | LUpdate => 5 | LUnlock => 4   (* one frame *)
  | LCheck => 3 | LFinal => 2 | LExit => 1 | LDone => 0
  end.
Definition midi_cost (s : sys) : nat :=
  match pi s with ILock => 5 | IWrite => 4 | IUnlock => 3 | ISelect => 2 | IExit => 1 | IDone => 0 end.
Definition measure (s : sys) : nat := main_cost s + led_cost s + midi_cost s.

(* how much a label may add to the ranking function *)
Definition raise (l : label) : nat :=
  match l with MidiArrive => 3 | LFrameStart => 7 | InputEvent => 7 | _ => 0 end.
Definition count_own (ls : list label) : nat := length (filter own ls).
Definition total_raise (ls : list label) : nat := list_sum (map raise ls).

Definition finished (s : sys) : Prop := pm s = MReturned /\ pl s = LDone /\ pi s = IDone.

(* ================================================================ product of k devices (Model/Device.v) *)
(* Device j of the product is element j of the list; its configuration, its state and everything it has emitted.
   This is a statement about the MODEL's product: that the real devices share no package-level state is explored
   dynamically by the harness (1-8 devices under -race), not proved. *)
Record pdev := mkPdev { pd_cfg : Device.config; pd_st : Device.state; pd_out : list Device.out }.

Fixpoint upd_nth {A : Type} (j : nat) (f : A -> A) (l : list A) {struct l} : list A :=
  match l, j with
  | [], _ => []
  | x :: r, 0 => f x :: r
  | x :: r, S j' => x :: upd_nth j' f r
  end.

Definition pdev_step (e : Device.ev) (d : pdev) : pdev :=
  let '(s', o) := Device.step (pd_cfg d) (pd_st d) e in mkPdev (pd_cfg d) s' (pd_out d ++ [o]).

(* one entry of the global schedule: (device index, event); only the addressed device moves *)
Definition pstep (ds : list pdev) (je : nat * Device.ev) : list pdev := upd_nth (fst je) (pdev_step (snd je)) ds.
Definition prun (ds : list pdev) (sched : list (nat * Device.ev)) : list pdev := fold_left pstep sched ds.
Definition pinit (cs : list (Device.config * Device.state)) : list pdev :=
  map (fun c => mkPdev (fst c) (snd c) []) cs.

(* the events of the schedule addressed to device j, in order *)
Definition addressed (j : nat) (sched : list (nat * Device.ev)) : list Device.ev :=
  map snd (filter (fun je => fst je =? j) sched).

(* every device's disconnect clean-up (its event stream has ended) *)
Definition pdev_cleanup (d : pdev) : pdev :=
  let '(s', m) := Device.cleanup (pd_cfg d) (pd_st d) in mkPdev (pd_cfg d) s' (pd_out d ++ [Device.emit m]).
Definition pcleanup (ds : list pdev) : list pdev := map pdev_cleanup ds.
