(* Model of internal/pkg/midi/device/config/loader.go: FindConfig, LoadDeviceConfigs, loadDirectory
   (with the walk callback checking its [err] argument first: the code after fix F11; the original
   callback is the [Original] variant).

   Identifiers are input.InputID = (bus, vendor, product, version); the zero identifier marks a default
   configuration.  A configuration is represented by a handle (which file it came from); what a file
   parses to is not this model's business (C09/C10): every file carries the verdict of the real parser.

   filepath.Walk(root, fn) (Go 1.23):
     - Lstat(root) fails            -> fn(root, nil, err)                       [INoInfo]
     - a directory whose names cannot be read -> fn(dir, info, err), not descended  [IDirErr]
     - a directory                  -> fn(dir, info, nil), then its entries in sort.Strings order (bytewise),
                                       sub-directories descended in place       [IDir]
     - anything else (Lstat is used, so symbolic links too) -> fn(path, info, nil) [IFile]
     - an entry whose Lstat fails after it was listed -> fn(path, nil, err)     [INoInfo]
   A non-nil result of fn aborts the walk and is returned (the callback never returns SkipDir/SkipAll). *)
From Coq Require Import List NArith Bool.
From HIDI Require Import Base.AList.
Import ListNotations.
Open Scope N_scope.

(* ---------------------------------------------------------------- identifiers, device types, maps *)

Definition id := (N * N * N * N)%type.
Definition zero_id : id := (0, 0, 0, 0).

Definition id_eqb (a b : id) : bool :=
  let '(a1, a2, a3, a4) := a in
  let '(b1, b2, b3, b4) := b in
  (a1 =? b1) && (a2 =? b2) && (a3 =? b3) && (a4 =? b4).

Definition handle := N.

(* input.DeviceType; every int outside 1..3 prints as "Unknown" in Go and is [Unknown] here *)
Inductive devtype := Unknown | Keyboard | Mouse | Joystick.

(* ConfigMap: Go map InputID -> DeviceConfig *)
Definition cmap := list (id * handle).
Definition lookup (m : cmap) (i : id) : option handle := get id_eqb i m.
Definition insert (i : id) (h : handle) (m : cmap) : cmap := set id_eqb i h m.

Record configs := mk_configs {
  f_kb : cmap;   (* Factory.Keyboards *)
  f_gp : cmap;   (* Factory.Gamepads  *)
  u_kb : cmap;   (* User.Keyboards    *)
  u_gp : cmap    (* User.Gamepads     *)
}.

Definition empty_configs : configs := mk_configs [] [] [] [].

(* ---------------------------------------------------------------- FindConfig *)

Inductive result :=
| Found (h : handle)
| ErrNoDefault       (* errors.New("default keyboard/gamepad config not found") *)
| ErrUnsupported.    (* wraps UnsupportedDeviceType *)

(* one arm of the switch, transcribed statement by statement *)
Definition find_in (user factory : cmap) (i : id) : result :=
  match lookup user i with
  | Some h => Found h
  | None =>
      match lookup user zero_id with
      | Some h => Found h
      | None =>
          match lookup factory i with
          | Some h => Found h
          | None =>
              match lookup factory zero_id with
              | Some h => Found h
              | None => ErrNoDefault
              end
          end
      end
  end.

Definition find_config (cs : configs) (i : id) (ty : devtype) : result :=
  match ty with
  | Keyboard => find_in (u_kb cs) (f_kb cs) i
  | Joystick => find_in (u_gp cs) (f_gp cs) i
  | Unknown | Mouse => ErrUnsupported
  end.

(* ---------------------------------------------------------------- the walk *)

Inductive outcome (A : Type) :=
| Ok (a : A)
| Err          (* an error value is returned: hidi reports it and does not start *)
| Crash.       (* Go panics (nil FileInfo dereference) *)
Arguments Ok {A} a.
Arguments Err {A}.
Arguments Crash {A}.

(* one invocation of the walk callback *)
Inductive item :=
| IFile (name : list N) (verdict : option (id * handle))  (* info.IsDir() = false; verdict = what readDeviceConfig returns *)
| IDir (name : list N)                                     (* directory, err = nil *)
| IDirErr (name : list N)                                  (* directory, err <> nil, info <> nil *)
| INoInfo.                                                 (* err <> nil, info = nil *)

Definition listing := list item.

(* strings.ToLower on a name, bytewise; exact for the suffix test below on any UTF-8 name because no
   non-ASCII rune lower-cases to one of ". t o m l" *)
Definition lower (b : N) : N := if (65 <=? b) && (b <=? 90) then b + 32 else b.

Fixpoint prefix_eqb (p s : list N) : bool :=
  match p, s with
  | [], _ => true
  | a :: p', b :: s' => (a =? b) && prefix_eqb p' s'
  | _ :: _, [] => false
  end.

Definition has_suffix (s suf : list N) : bool := prefix_eqb (rev suf) (rev s).

Definition dot_toml : list N := [46; 116; 111; 109; 108].   (* ".toml" *)

Definition is_toml (name : list N) : bool := has_suffix (map lower name) dot_toml.

Inductive variant :=
| Fixed       (* callback starts with: if err != nil { return err } *)
| Original.   (* callback calls info.IsDir() first and never looks at err *)

Inductive step_result :=
| Continue (m : cmap)   (* return nil *)
| Abort                 (* return err *)
| Panic.

Definition visit (v : variant) (it : item) (m : cmap) : step_result :=
  match it with
  | INoInfo => match v with Fixed => Abort | Original => Panic end      (* nil.IsDir() *)
  | IDirErr _ => match v with Fixed => Abort | Original => Continue m end
  | IDir _ => Continue m
  | IFile name verdict =>
      if is_toml name then
        match verdict with
        | Some (i, h) => Continue (insert i h m)      (* configMap[devCfg.Config.ID] = devCfg *)
        | None => Continue m                          (* log.Info(... load failed ...); return nil *)
        end
      else Continue m
  end.

(* loadDirectory: the walk is a left-to-right pass over the callback invocations, stopped by the first
   non-nil result *)
Fixpoint load_directory (v : variant) (l : listing) (m : cmap) : outcome cmap :=
  match l with
  | [] => Ok m
  | it :: r =>
      match visit v it m with
      | Continue m' => load_directory v r m'
      | Abort => Err
      | Panic => Crash
      end
  end.

(* the "load failed" log lines of one directory: lower-cased names, in order, up to the abort *)
Fixpoint reports (v : variant) (l : listing) : list (list N) :=
  match l with
  | [] => []
  | it :: r =>
      match visit v it [] with
      | Continue _ =>
          match it with
          | IFile name None => if is_toml name then map lower name :: reports v r else reports v r
          | _ => reports v r
          end
      | _ => []
      end
  end.

Definition bind {A B} (o : outcome A) (f : A -> outcome B) : outcome B :=
  match o with Ok a => f a | Err => Err | Crash => Crash end.

(* LoadDeviceConfigs: factory/gamepad, factory/keyboard, user/gamepad, user/keyboard, in this order,
   each into its own fresh map; the first error is returned *)
Definition load_all (v : variant) (fg fk ug uk : listing) : outcome configs :=
  bind (load_directory v fg []) (fun mfg =>
  bind (load_directory v fk []) (fun mfk =>
  bind (load_directory v ug []) (fun mug =>
  bind (load_directory v uk []) (fun muk =>
  Ok (mk_configs mfk mfg muk mug))))).

(* ---------------------------------------------------------------- specification vocabulary *)

(* the files that count: *.toml (case-insensitive) whose parse succeeded, in walk order *)
Fixpoint parsed (l : listing) : list (id * handle) :=
  match l with
  | [] => []
  | IFile name (Some p) :: r => if is_toml name then p :: parsed r else parsed r
  | _ :: r => parsed r
  end.

(* the last entry for an identifier *)
Fixpoint last_for (i : id) (pl : list (id * handle)) : option handle :=
  match pl with
  | [] => None
  | (j, h) :: r =>
      match last_for i r with
      | Some h' => Some h'
      | None => if id_eqb i j then Some h else None
      end
  end.

(* entries that loadDirectory passes over without effect on the map *)
Definition skippable (it : item) : Prop :=
  match it with
  | IFile name verdict => is_toml name = false \/ verdict = None
  | IDir _ => True
  | IDirErr _ | INoInfo => False
  end.

Definition is_error_item (it : item) : bool :=
  match it with IDirErr _ | INoInfo => true | _ => false end.

(* "that directory counted as empty": the listing without the unreadable / missing entries *)
Definition strip_errors (l : listing) : listing := filter (fun it => negb (is_error_item it)) l.

Fixpoint first_some {A} (l : list (option A)) : option A :=
  match l with
  | [] => None
  | Some a :: _ => Some a
  | None :: r => first_some r
  end.

(* the documented search order *)
Definition candidates (user factory : cmap) (i : id) : list (option handle) :=
  [lookup user i; lookup user zero_id; lookup factory i; lookup factory zero_id].

Definition spec_find (cs : configs) (i : id) (ty : devtype) : result :=
  match ty with
  | Keyboard => match first_some (candidates (u_kb cs) (f_kb cs) i) with Some h => Found h | None => ErrNoDefault end
  | Joystick => match first_some (candidates (u_gp cs) (f_gp cs) i) with Some h => Found h | None => ErrNoDefault end
  | _ => ErrUnsupported
  end.

(* the "load failed" reports a complete pass over a listing must produce *)
Fixpoint failed_names (l : listing) : list (list N) :=
  match l with
  | [] => []
  | IFile name None :: r => if is_toml name then map lower name :: failed_names r else failed_names r
  | _ :: r => failed_names r
  end.

(* ---------------------------------------------------------------- decidable monitors
   (evaluated on the implementation's observations by Run/LoaderRun.v; the theorems of Properties/C12.v
   say they hold of the model) *)

Definition opt_handle_eqb (a b : option handle) : bool :=
  match a, b with
  | Some x, Some y => x =? y
  | None, None => true
  | _, _ => false
  end.

Definition result_eqb (a b : result) : bool :=
  match a, b with
  | Found x, Found y => x =? y
  | ErrNoDefault, ErrNoDefault => true
  | ErrUnsupported, ErrUnsupported => true
  | _, _ => false
  end.

(* FindConfig's answer is the documented first-found candidate *)
Definition find_ok (cs : configs) (i : id) (ty : devtype) (r : result) : bool :=
  result_eqb r (spec_find cs i ty).

(* a loaded map holds, for every identifier, the last successfully parsed *.toml file of the listing, and nothing else *)
Definition map_ok (l : listing) (m : cmap) : bool :=
  forallb (fun i => opt_handle_eqb (lookup m i) (last_for i (parsed l))) (map fst m ++ map fst (parsed l)).

(* what a run of LoadDeviceConfigs shows *)
Inductive observed :=
| OPanic
| OErr
| OOk (cs : configs).

Definition observe (o : outcome configs) : observed :=
  match o with Ok cs => OOk cs | Err => OErr | Crash => OPanic end.

(* no crash; an error only when some directory is missing/unreadable; otherwise exactly the parsed files,
   missing/unreadable directories counted as empty *)
Definition load_ok (fg fk ug uk : listing) (o : observed) : bool :=
  match o with
  | OPanic => false
  | OErr => existsb is_error_item (fg ++ fk ++ ug ++ uk)
  | OOk cs => map_ok fg (f_gp cs) && map_ok fk (f_kb cs) && map_ok ug (u_gp cs) && map_ok uk (u_kb cs)
  end.

(* ---------------------------------------------------------------- directory trees in Walk order *)

(* what is on disk; children in any order (the model sorts them like readDirNames does) *)
Inductive node :=
| NFile (name : list N) (readable : bool) (parse : option (id * handle))
    (* a non-directory entry (regular file, or a symbolic link, which Walk does not follow);
       readable = false: opening/reading it fails; parse = ParseData's verdict on its content *)
| NDir (name : list N) (readable : bool) (children : list node).

Inductive root :=
| RMissing              (* Lstat of the root fails: absent, or a parent is not searchable *)
| RNode (n : node).     (* normally a directory; a regular file in its place is walked as a single entry *)

Definition node_name (n : node) : list N :=
  match n with NFile name _ _ => name | NDir name _ _ => name end.

(* sort.Strings order on names: bytewise lexicographic *)
Fixpoint name_leb (a b : list N) : bool :=
  match a, b with
  | [], _ => true
  | _ :: _, [] => false
  | x :: a', y :: b' => if x <? y then true else if y <? x then false else name_leb a' b'
  end.

Fixpoint insert_sorted {A} (k : list N) (v : A) (l : list (list N * A)) : list (list N * A) :=
  match l with
  | [] => [(k, v)]
  | (k', v') :: r => if name_leb k k' then (k, v) :: l else (k', v') :: insert_sorted k v r
  end.

Definition sort_by_name {A} (l : list (list N * A)) : list (list N * A) :=
  fold_right (fun kv acc => insert_sorted (fst kv) (snd kv) acc) [] l.

Fixpoint walk (n : node) : listing :=
  match n with
  | NFile name readable parse => [IFile name (if readable then parse else None)]
  | NDir name false _ => [IDirErr name]
  | NDir name true children =>
      IDir name ::
      concat (map snd (sort_by_name
        ((fix each (cs : list node) : list (list N * listing) :=
            match cs with
            | [] => []
            | c :: r => (node_name c, walk c) :: each r
            end) children)))
  end.

Definition walk_root (r : root) : listing :=
  match r with RMissing => [INoInfo] | RNode n => walk n end.

Definition load_trees (v : variant) (fg fk ug uk : root) : outcome configs :=
  load_all v (walk_root fg) (walk_root fk) (walk_root ug) (walk_root uk).
