(* Proofs about Model/Discover.v (C20): grouping is a partition by physical location, the device type
   follows the joystick > keyboard > not-playable rule, and nothing depends on the discovery order. *)
From Coq Require Import List NArith Bool Arith Lia Permutation.
From HIDI Require Import Model.Discover.
Import ListNotations.
Open Scope N_scope.

(* ------------------------------------------------------------------ boolean equalities *)

Lemma listN_eqb_spec a b : listN_eqb a b = true <-> a = b.
Proof.
  revert b. induction a as [|x a IH]; destruct b as [|y b]; cbn.
  - split; reflexivity.
  - split; discriminate.
  - split; discriminate.
  - rewrite andb_true_iff, N.eqb_eq, IH. split.
    + intros [-> ->]. reflexivity.
    + intro H. injection H as -> ->. split; reflexivity.
Qed.

Lemma phys_eqb_spec a b : phys_eqb a b = true <-> a = b.
Proof. exact (listN_eqb_spec a b). Qed.

Lemma phys_eqb_refl a : phys_eqb a a = true.
Proof. apply phys_eqb_spec. reflexivity. Qed.

Lemma phys_eqb_neq a b : a <> b -> phys_eqb a b = false.
Proof. intro H. destruct (phys_eqb a b) eqn:E; [apply phys_eqb_spec in E; contradiction|reflexivity]. Qed.

Lemma handler_eqb_spec a b : handler_eqb a b = true <-> a = b.
Proof.
  destruct a as [i p c], b as [i' p' c']. unfold handler_eqb, phys_eqb. cbn.
  rewrite !andb_true_iff, N.eqb_eq, !listN_eqb_spec. split.
  - intros [[-> ->] ->]. reflexivity.
  - intro H. injection H as -> -> ->. auto.
Qed.

Lemma htype_eqb_spec a b : htype_eqb a b = true <-> a = b.
Proof.
  unfold htype_eqb. rewrite N.eqb_eq. split.
  - destruct a, b; cbn; intro H; try reflexivity; discriminate.
  - intros ->. reflexivity.
Qed.

Lemma dtype_eqb_spec a b : dtype_eqb a b = true <-> a = b.
Proof.
  unfold dtype_eqb. rewrite N.eqb_eq. split.
  - destruct a, b; cbn; intro H; try reflexivity; discriminate.
  - intros ->. reflexivity.
Qed.

(* ------------------------------------------------------------------ multiset equality, NoDup *)

Section PermEqb.
  Context {A : Type}.
  Variable eqb : A -> A -> bool.
  Hypothesis eqb_spec : forall a b, eqb a b = true <-> a = b.

  Lemma remove1_some x l : forall l', remove1 eqb x l = Some l' -> Permutation l (x :: l').
  Proof.
    induction l as [|a l IH]; cbn; intros l'; [discriminate|].
    destruct (eqb x a) eqn:E.
    - intro H. injection H as <-. apply eqb_spec in E. subst. apply Permutation_refl.
    - destruct (remove1 eqb x l) as [r|] eqn:R; [|discriminate].
      intro H. injection H as <-.
      apply Permutation_trans with (a :: x :: r); [apply perm_skip; apply IH; reflexivity|apply perm_swap].
  Qed.

  Lemma remove1_in x l : In x l -> exists l', remove1 eqb x l = Some l'.
  Proof.
    induction l as [|a l IH]; cbn; [tauto|].
    intros [H|H].
    - subst. rewrite (proj2 (eqb_spec x x) eq_refl). eexists. reflexivity.
    - destruct (eqb x a); [eexists; reflexivity|].
      destruct (IH H) as [l' ->]. eexists. reflexivity.
  Qed.

  Lemma perm_eqb_sound a : forall b, perm_eqb eqb a b = true -> Permutation a b.
  Proof.
    induction a as [|x a IH]; intros b; cbn.
    - destruct b; [constructor|discriminate].
    - destruct (remove1 eqb x b) as [b'|] eqn:R; [|discriminate].
      intro H. apply remove1_some in R.
      apply Permutation_trans with (x :: b'); [apply perm_skip; apply IH; exact H|apply Permutation_sym; exact R].
  Qed.

  Lemma perm_eqb_complete a : forall b, Permutation a b -> perm_eqb eqb a b = true.
  Proof.
    induction a as [|x a IH]; intros b H; cbn.
    - apply Permutation_nil in H. subst. reflexivity.
    - assert (Hin : In x b) by (apply (Permutation_in _ H); left; reflexivity).
      destruct (remove1_in x b Hin) as [b' R]. rewrite R.
      apply IH. apply remove1_some in R.
      apply Permutation_cons_inv with (a := x).
      apply Permutation_trans with b; assumption.
  Qed.

  Lemma perm_eqb_spec a b : perm_eqb eqb a b = true <-> Permutation a b.
  Proof. split; [apply perm_eqb_sound|apply perm_eqb_complete]. Qed.

  Lemma nodupb_spec l : nodupb eqb l = true <-> NoDup l.
  Proof.
    induction l as [|a l IH]; cbn.
    - split; [constructor|reflexivity].
    - rewrite andb_true_iff, negb_true_iff, IH. split.
      + intros [H1 H2]. constructor; [|exact H2].
        intro Hin. assert (existsb (eqb a) l = true).
        { apply existsb_exists. exists a. split; [exact Hin|]. apply eqb_spec. reflexivity. }
        congruence.
      + intro H. inversion H as [|? ? Hn Hr]; subst. split; [|exact Hr].
        destruct (existsb (eqb a) l) eqn:E; [|reflexivity].
        apply existsb_exists in E. destruct E as [y [E1 E2]]. apply eqb_spec in E2. subst. contradiction.
  Qed.
End PermEqb.

(* ------------------------------------------------------------------ generic list facts *)

Lemma Permutation_filter {A} (f : A -> bool) (l l' : list A) :
  Permutation l l' -> Permutation (filter f l) (filter f l').
Proof.
  induction 1 as [|x l l' _ IH|x y l|l l' l'' _ IH1 _ IH2]; cbn.
  - constructor.
  - destruct (f x); [apply perm_skip|]; exact IH.
  - destruct (f x), (f y); try apply Permutation_refl. apply perm_swap.
  - apply Permutation_trans with (filter f l'); assumption.
Qed.

Lemma filter_all {A} (f : A -> bool) l : (forall x, In x l -> f x = true) -> filter f l = l.
Proof.
  induction l as [|a l IH]; cbn; intro H; [reflexivity|].
  rewrite (H a (or_introl eq_refl)). f_equal. apply IH. intros x Hx. apply H. right. exact Hx.
Qed.

Lemma filter_none {A} (f : A -> bool) l : (forall x, In x l -> f x = false) -> filter f l = [].
Proof.
  induction l as [|a l IH]; cbn; intro H; [reflexivity|].
  rewrite (H a (or_introl eq_refl)). apply IH. intros x Hx. apply H. right. exact Hx.
Qed.

Lemma NoDup_map_inj {A B} (f : A -> B) l a b :
  NoDup (map f l) -> In a l -> In b l -> f a = f b -> a = b.
Proof.
  induction l as [|x l IH]; cbn; [tauto|].
  intros H Ha Hb E. inversion H as [|? ? Hn Hr]; subst.
  destruct Ha as [Ha|Ha], Hb as [Hb|Hb]; subst.
  - reflexivity.
  - exfalso. apply Hn. rewrite E. apply in_map. exact Hb.
  - exfalso. apply Hn. rewrite <- E. apply in_map. exact Ha.
  - apply IH; assumption.
Qed.

(* ------------------------------------------------------------------ HandlerType depends on the capability SET only *)

Definition same_set (c c' : list N) : Prop := forall x, In x c <-> In x c'.

Lemma memN_in x l : memN x l = true <-> In x l.
Proof.
  unfold memN. rewrite existsb_exists. split.
  - intros [y [H1 H2]]. apply N.eqb_eq in H2. subst. exact H1.
  - intro H. exists x. split; [exact H|apply N.eqb_refl].
Qed.

Lemma memN_ext x c c' : same_set c c' -> memN x c = memN x c'.
Proof. intro H. apply eq_true_iff_eq. rewrite !memN_in. apply H. Qed.

Lemma has_ext c c' e : same_set c c' -> has c e = has c' e.
Proof.
  intro H. unfold has. induction e as [|a e IH]; cbn; [reflexivity|].
  rewrite (memN_ext a c c' H), IH. reflexivity.
Qed.

Lemma has_exactly_ext c c' e : same_set c c' -> has_exactly c e = has_exactly c' e.
Proof.
  intro H. unfold has_exactly. fold (has c e). fold (has c' e). rewrite (has_ext c c' e H). f_equal.
  apply eq_true_iff_eq. rewrite !forallb_forall. split; intros H1 x Hx; apply H1; apply H; exact Hx.
Qed.

Lemma handler_type_set c c' : same_set c c' -> handler_type c = handler_type c'.
Proof.
  intro H. unfold handler_type.
  rewrite !(has_exactly_ext c c' _ H), !(has_ext c c' _ H). reflexivity.
Qed.

(* has / hasExactly are what their names say *)
Lemma has_spec c e : has c e = true <-> forall x, In x e -> In x c.
Proof.
  unfold has. rewrite forallb_forall. split; intros H x Hx; [apply memN_in|apply memN_in]; apply H; exact Hx.
Qed.

Lemma has_exactly_spec c e : has_exactly c e = true <-> same_set c e.
Proof.
  unfold has_exactly, same_set. rewrite andb_true_iff, !forallb_forall. split.
  - intros [H1 H2] x. split; intro Hx; apply memN_in; [apply H1|apply H2]; exact Hx.
  - intro H. split; intros x Hx; apply memN_in; apply H; exact Hx.
Qed.

(* a handler is joystick-like exactly when it reports force feedback or absolute axes and its capability set
   is not one of the keyboard / mouse / system / multimedia sets *)
Lemma joystick_like_spec c :
  handler_type c = HJoystick <->
  (In EV_FF c \/ In EV_ABS c) /\
  ~ same_set c [EV_SYN; EV_KEY; EV_REL; EV_ABS; EV_MSC; EV_LED; EV_REP] /\
  ~ same_set c [EV_SYN; EV_KEY; EV_REL; EV_ABS; EV_MSC].
Proof.
  unfold handler_type.
  destruct (has_exactly c [EV_SYN; EV_KEY; EV_MSC; EV_LED; EV_REP]) eqn:E1.
  { split; [discriminate|]. intros [[H|H] _]; apply has_exactly_spec in E1; apply E1 in H; cbn in H;
    repeat (destruct H as [H|H]; [discriminate H|]); contradiction. }
  destruct (has_exactly c [EV_SYN; EV_KEY; EV_REL; EV_ABS; EV_MSC; EV_LED; EV_REP]) eqn:E2.
  { split; [discriminate|]. intros [_ [H _]]. apply has_exactly_spec in E2. contradiction. }
  destruct (has_exactly c [EV_SYN; EV_KEY; EV_MSC; EV_REP]) eqn:E3.
  { split; [discriminate|]. intros [[H|H] _]; apply has_exactly_spec in E3; apply E3 in H; cbn in H;
    repeat (destruct H as [H|H]; [discriminate H|]); contradiction. }
  destruct (has_exactly c [EV_SYN; EV_KEY; EV_REL; EV_MSC]) eqn:E4.
  { split; [discriminate|]. intros [[H|H] _]; apply has_exactly_spec in E4; apply E4 in H; cbn in H;
    repeat (destruct H as [H|H]; [discriminate H|]); contradiction. }
  destruct (has_exactly c [EV_SYN; EV_KEY; EV_MSC]) eqn:E5.
  { split; [discriminate|]. intros [[H|H] _]; apply has_exactly_spec in E5; apply E5 in H; cbn in H;
    repeat (destruct H as [H|H]; [discriminate H|]); contradiction. }
  destruct (has_exactly c [EV_SYN; EV_KEY; EV_REL; EV_ABS; EV_MSC]) eqn:E6.
  { split; [discriminate|]. intros [_ [_ H]]. apply has_exactly_spec in E6. contradiction. }
  assert (N2 : ~ same_set c [EV_SYN; EV_KEY; EV_REL; EV_ABS; EV_MSC; EV_LED; EV_REP]).
  { intro H. apply has_exactly_spec in H. congruence. }
  assert (N6 : ~ same_set c [EV_SYN; EV_KEY; EV_REL; EV_ABS; EV_MSC]).
  { intro H. apply has_exactly_spec in H. congruence. }
  destruct (has c [EV_FF]) eqn:F1.
  { split; [intros _|reflexivity]. split; [|split; assumption]. left. apply (proj1 (has_spec _ _) F1). left. reflexivity. }
  destruct (has c [EV_ABS]) eqn:F2.
  { split; [intros _|reflexivity]. split; [|split; assumption]. right. apply (proj1 (has_spec _ _) F2). left. reflexivity. }
  split; [discriminate|]. intros [[H|H] _].
  - assert (has c [EV_FF] = true) by (apply has_spec; intros x [<-|[]]; exact H). congruence.
  - assert (has c [EV_ABS] = true) by (apply has_spec; intros x [<-|[]]; exact H). congruence.
Qed.

(* ------------------------------------------------------------------ collection map: insert / collect *)

(* invariant of the phys -> handlers collection: distinct keys, non-empty slices, every handler under its own phys *)
Definition cinv (c : list (phys * list handler)) : Prop :=
  NoDup (map fst c) /\ forall p hs, In (p, hs) c -> hs <> [] /\ forall h, In h hs -> hphys h = p.

Lemma insert_keys h c p : In p (map fst (insert h c)) <-> p = hphys h \/ In p (map fst c).
Proof.
  induction c as [|[q hs] r IH]; cbn.
  - split; [intros [H|[]]; left; auto|intros [H|[]]; left; auto].
  - destruct (phys_eqb (hphys h) q) eqn:E; cbn.
    + apply phys_eqb_spec in E. split; [tauto|]. intros [H|H]; [left; congruence|exact H].
    + rewrite IH. tauto.
Qed.

Lemma insert_nodup h c : NoDup (map fst c) -> NoDup (map fst (insert h c)).
Proof.
  induction c as [|[q hs] r IH]; cbn; intro H.
  - constructor; [intros []|constructor].
  - destruct (phys_eqb (hphys h) q) eqn:E; cbn; [exact H|].
    inversion H as [|? ? Hn Hr]; subst. constructor; [|apply IH; exact Hr].
    rewrite insert_keys. intros [H1|H1]; [|contradiction].
    subst. rewrite phys_eqb_refl in E. discriminate.
Qed.

Lemma insert_members h c p hs :
  In (p, hs) (insert h c) ->
  In (p, hs) c \/ (p = hphys h /\ (hs = [h] \/ exists hs0, In (p, hs0) c /\ hs = hs0 ++ [h])).
Proof.
  induction c as [|[q hs1] r IH]; cbn.
  - intros [H|[]]. injection H as <- <-. right. split; [reflexivity|left; reflexivity].
  - destruct (phys_eqb (hphys h) q) eqn:E; cbn.
    + apply phys_eqb_spec in E. intros [H|H]; [|left; right; exact H].
      injection H as <- <-. right. split; [symmetry; exact E|]. right. exists hs1. split; [left; reflexivity|reflexivity].
    + intros [H|H]; [left; left; exact H|].
      destruct (IH H) as [H1|[H1 [H2|[hs0 [H2 H3]]]]]; [left; right; exact H1| |].
      * right. split; [exact H1|left; exact H2].
      * right. split; [exact H1|]. right. exists hs0. split; [right; exact H2|exact H3].
Qed.

Lemma insert_cinv h c : cinv c -> cinv (insert h c).
Proof.
  intros [H1 H2]. split; [apply insert_nodup; exact H1|].
  intros p hs Hin. apply insert_members in Hin.
  destruct Hin as [Hin|[Hp [Hs|[hs0 [Hin Hs]]]]].
  - apply H2. exact Hin.
  - subst. split; [discriminate|]. intros h' [<-|[]]. reflexivity.
  - subst hs. destruct (H2 _ _ Hin) as [_ H3]. split.
    + intro E. apply app_eq_nil in E. destruct E as [_ E]. discriminate.
    + intros h' Hh. apply in_app_or in Hh. destruct Hh as [Hh|[<-|[]]]; [apply H3; exact Hh|symmetry; exact Hp].
Qed.

Lemma insert_perm h c : Permutation (concat (map snd (insert h c))) (h :: concat (map snd c)).
Proof.
  induction c as [|[q hs] r IH]; cbn.
  - apply Permutation_refl.
  - destruct (phys_eqb (hphys h) q); cbn.
    + rewrite <- app_assoc. cbn. apply Permutation_sym. apply Permutation_middle.
    + apply Permutation_trans with (hs ++ h :: concat (map snd r)).
      * apply Permutation_app_head. exact IH.
      * apply Permutation_sym. apply Permutation_middle.
Qed.

Lemma collect_snoc l h : collect (l ++ [h]) = insert h (collect l).
Proof. unfold collect. rewrite fold_left_app. reflexivity. Qed.

Lemma collect_inv l : cinv (collect l) /\ Permutation (concat (map snd (collect l))) l.
Proof.
  induction l as [|h l [IH1 IH2]] using rev_ind.
  - split; [split; [constructor|intros p hs []]|constructor].
  - rewrite collect_snoc. split; [apply insert_cinv; exact IH1|].
    apply Permutation_trans with (h :: concat (map snd (collect l))); [apply insert_perm|].
    apply Permutation_trans with (h :: l); [apply perm_skip; exact IH2|apply Permutation_cons_append].
Qed.

(* first-occurrence order of the groups and discovery order inside a group (finer than the view; not needed by
   the property, kept as documentation of what the model does) *)
Lemma collect_keys_snoc l h :
  map fst (collect (l ++ [h])) =
  if existsb (phys_eqb (hphys h)) (map fst (collect l)) then map fst (collect l) else map fst (collect l) ++ [hphys h].
Proof.
  rewrite collect_snoc. induction (collect l) as [|[q hs] r IH]; cbn; [reflexivity|].
  destruct (phys_eqb (hphys h) q); cbn; [reflexivity|]. rewrite IH.
  destruct (existsb (phys_eqb (hphys h)) (map fst r)); reflexivity.
Qed.

(* ------------------------------------------------------------------ the device type rule *)

Definition some (P : handler -> bool) (hs : list handler) : Prop := exists h, In h hs /\ P h = true.

(* joystick if any handler is joystick-like, otherwise keyboard if any handler is a standard keyboard,
   otherwise not a playable device *)
Definition type_rule (hs : list handler) (t : dtype) : Prop :=
  (some joystick_like hs -> t = DJoystick) /\
  (~ some joystick_like hs -> some std_keyboard hs -> t = DKeyboard) /\
  (~ some joystick_like hs -> ~ some std_keyboard hs -> t = DMouse \/ t = DUnknown).

Lemma type_ruleb_spec hs t : type_ruleb hs t = true <-> type_rule hs t.
Proof.
  unfold type_ruleb, type_rule, some.
  destruct (existsb joystick_like hs) eqn:E1.
  - apply existsb_exists in E1. rewrite dtype_eqb_spec. split.
    + intro Ht. split; [auto|split; intros N; contradiction].
    + intros [H _]. auto.
  - assert (N1 : ~ exists h, In h hs /\ joystick_like h = true).
    { intro S. apply existsb_exists in S. congruence. }
    destruct (existsb std_keyboard hs) eqn:E2.
    + apply existsb_exists in E2. rewrite dtype_eqb_spec. split.
      * intro Ht. split; [intro; contradiction|split; [auto|intros _ N; contradiction]].
      * intros [_ [H _]]. auto.
    + assert (N2 : ~ exists h, In h hs /\ std_keyboard h = true).
      { intro S. apply existsb_exists in S. congruence. }
      rewrite orb_true_iff, !dtype_eqb_spec. split.
      * intro Ht. split; [intro; contradiction|split; [intros _ S; contradiction|auto]].
      * intros [_ [_ H]]. auto.
Qed.

Lemma existsb_htype_map w hs :
  existsb (htype_eqb w) (map htype_of hs) = existsb (fun h => htype_eqb w (htype_of h)) hs.
Proof. induction hs as [|h hs IH]; cbn; [reflexivity|]. rewrite IH. reflexivity. Qed.

Lemma device_type_rule hs : type_ruleb hs (device_type (map htype_of hs)) = true.
Proof.
  unfold device_type, type_ruleb, contains_only, contains. cbn [forallb]. rewrite !andb_true_r.
  rewrite !existsb_htype_map. fold joystick_like. fold std_keyboard.
  change (fun h => htype_eqb HJoystick (htype_of h)) with joystick_like.
  change (fun h => htype_eqb HStdKbd (htype_of h)) with std_keyboard.
  destruct (existsb joystick_like hs); [reflexivity|].
  destruct (existsb std_keyboard hs); [reflexivity|].
  destruct (Nat.eqb _ _ && _); reflexivity.
Qed.

Lemma existsb_perm {A} (f : A -> bool) l l' : Permutation l l' -> existsb f l = existsb f l'.
Proof.
  induction 1 as [|x l l' _ IH|x y l|l l' l'' _ IH1 _ IH2]; cbn.
  - reflexivity.
  - rewrite IH. reflexivity.
  - destruct (f x), (f y); reflexivity.
  - congruence.
Qed.

Lemma device_type_perm hs hs' : Permutation hs hs' -> device_type hs = device_type hs'.
Proof.
  intro H. unfold device_type, contains_only, contains. cbn [forallb].
  rewrite !(existsb_perm _ _ _ H), (Permutation_length H). reflexivity.
Qed.

(* the Mouse / Unknown split, for completeness: Mouse exactly for a lone mouse handler *)
Lemma device_type_mouse hs : device_type (map htype_of hs) = DMouse <-> exists h, hs = [h] /\ htype_of h = HMouse.
Proof.
  split.
  - destruct hs as [|h [|h2 hs]].
    + cbn. discriminate.
    + intro H. exists h. split; [reflexivity|]. revert H. unfold device_type, contains_only, contains. cbn.
      destruct (htype_of h); cbn; try discriminate. reflexivity.
    + unfold device_type, contains_only, contains. cbn [forallb map length Nat.eqb andb].
      destruct (existsb _ _ && true); [discriminate|]. destruct (existsb _ _ && true); discriminate.
  - intros [h [-> Hm]]. unfold device_type, contains_only, contains. cbn. rewrite Hm. reflexivity.
Qed.

(* ------------------------------------------------------------------ the property as a predicate on (handlers, devices) *)

Definition group_ok (g : group) : Prop :=
  ghandlers g <> [] /\ (forall h, In h (ghandlers g) -> hphys h = gphys g) /\ type_rule (ghandlers g) (gtype g).

Definition grouping_ok (l : list handler) (gs : list group) : Prop :=
  Permutation (concat (map ghandlers gs)) l /\ NoDup (map gphys gs) /\ forall g, In g gs -> group_ok g.

Lemma normalize_handlers l : map ghandlers (normalize l) = map snd (collect l).
Proof. unfold normalize. rewrite map_map. reflexivity. Qed.

Lemma normalize_phys l : map gphys (normalize l) = map fst (collect l).
Proof. unfold normalize. rewrite map_map. reflexivity. Qed.

Lemma normalize_gtype l g : In g (normalize l) -> gtype g = device_type (map htype_of (ghandlers g)).
Proof. unfold normalize. intro H. apply in_map_iff in H. destruct H as [e [<- _]]. reflexivity. Qed.

Theorem normalize_ok l : grouping_ok l (normalize l).
Proof.
  destruct (collect_inv l) as [[H1 H2] H3]. split; [|split].
  - rewrite normalize_handlers. exact H3.
  - rewrite normalize_phys. exact H1.
  - intros g Hg. unfold normalize in Hg. apply in_map_iff in Hg. destruct Hg as [[p hs] [<- Hin]].
    destruct (H2 _ _ Hin) as [Hne Hp]. unfold group_ok, mk_device. cbn.
    split; [exact Hne|split; [exact Hp|]]. apply type_ruleb_spec. apply device_type_rule.
Qed.

(* the monitor decides the predicate *)
Theorem grouping_okb_spec l gs : grouping_okb l gs = true <-> grouping_ok l gs.
Proof.
  unfold grouping_okb, grouping_ok. rewrite !andb_true_iff, forallb_forall.
  rewrite (perm_eqb_spec handler_eqb handler_eqb_spec), (nodupb_spec phys_eqb phys_eqb_spec).
  split.
  - intros [[H1 H2] H3]. split; [exact H1|split; [exact H2|]].
    intros g Hg. specialize (H3 g Hg). rewrite !andb_true_iff, forallb_forall in H3.
    destruct H3 as [[H3 H4] H5]. split; [|split].
    + destruct (ghandlers g); [discriminate|discriminate].
    + intros h Hh. apply phys_eqb_spec. apply H4. exact Hh.
    + apply type_ruleb_spec. exact H5.
  - intros [H1 [H2 H3]]. split; [split; assumption|].
    intros g Hg. destruct (H3 g Hg) as [H4 [H5 H6]]. rewrite !andb_true_iff, forallb_forall. split; [split|].
    + destruct (ghandlers g); [contradiction|reflexivity].
    + intros h Hh. apply phys_eqb_spec. apply H5. exact Hh.
    + apply type_ruleb_spec. exact H6.
Qed.

(* ------------------------------------------------------------------ consequences of the predicate (for ANY device list satisfying it:
   the model's, and the implementation's whenever the monitor accepts it) *)

Section Consequences.
  Variable l : list handler.
  Variable gs : list group.
  Hypothesis ok : grouping_ok l gs.

  Lemma ok_in_group h : In h l -> exists g, In g gs /\ In h (ghandlers g).
  Proof.
    destruct ok as [H1 _]. intro Hin.
    apply (Permutation_in _ (Permutation_sym H1)) in Hin. apply in_concat in Hin.
    destruct Hin as [hs [Hhs Hh]]. apply in_map_iff in Hhs. destruct Hhs as [g [<- Hg]].
    exists g. split; assumption.
  Qed.

  Lemma ok_group_sub g h : In g gs -> In h (ghandlers g) -> In h l.
  Proof.
    destruct ok as [H1 _]. intros Hg Hh. apply (Permutation_in _ H1). apply in_concat.
    exists (ghandlers g). split; [apply in_map; exact Hg|exact Hh].
  Qed.

  Lemma ok_phys g h : In g gs -> In h (ghandlers g) -> hphys h = gphys g.
  Proof. destruct ok as [_ [_ H3]]. intros Hg Hh. destruct (H3 g Hg) as [_ [H _]]. apply H. exact Hh. Qed.

  Lemma ok_group_unique g g' h : In g gs -> In g' gs -> In h (ghandlers g) -> In h (ghandlers g') -> g = g'.
  Proof.
    intros Hg Hg' Hh Hh'. destruct ok as [_ [H2 _]].
    apply (NoDup_map_inj gphys gs g g' H2 Hg Hg').
    rewrite <- (ok_phys g h Hg Hh), <- (ok_phys g' h Hg' Hh'). reflexivity.
  Qed.

  (* every handler is in exactly one device *)
  Lemma ok_exactly_one h : In h l -> exists g, In g gs /\ In h (ghandlers g) /\
                                     forall g', In g' gs -> In h (ghandlers g') -> g' = g.
  Proof.
    intro Hin. destruct (ok_in_group h Hin) as [g [Hg Hh]]. exists g. split; [exact Hg|split; [exact Hh|]].
    intros g' Hg' Hh'. apply (ok_group_unique g' g h); assumption.
  Qed.

  (* grouped together exactly when the physical location is the same *)
  Lemma ok_same_phys h1 h2 : In h1 l -> In h2 l ->
    ((exists g, In g gs /\ In h1 (ghandlers g) /\ In h2 (ghandlers g)) <-> hphys h1 = hphys h2).
  Proof.
    intros H1 H2. split.
    - intros [g [Hg [Ha Hb]]]. rewrite (ok_phys g h1 Hg Ha), (ok_phys g h2 Hg Hb). reflexivity.
    - intro E. destruct (ok_in_group h1 H1) as [g [Hg Ha]]. destruct (ok_in_group h2 H2) as [g' [Hg' Hb]].
      assert (g = g').
      { destruct ok as [_ [Hn _]]. apply (NoDup_map_inj gphys gs g g' Hn Hg Hg').
        rewrite <- (ok_phys g h1 Hg Ha), <- (ok_phys g' h2 Hg' Hb). exact E. }
      subst g'. exists g. split; [exact Hg|split; assumption].
  Qed.

  (* a device's handlers are exactly the discovered handlers with its physical location, with multiplicity *)
  Lemma concat_filter_group g : In g gs ->
    filter (fun h => phys_eqb (hphys h) (gphys g)) (concat (map ghandlers gs)) = ghandlers g.
  Proof.
    destruct ok as [_ [Hn Hall]]. clear ok. revert Hn Hall. induction gs as [|g0 r IH]; cbn; [tauto|].
    intros Hn Hall [Hg|Hg]; inversion Hn as [|? ? Hnot Hr]; subst; rewrite filter_app.
    - rewrite filter_all, filter_none; [apply app_nil_r| |].
      + intros h Hh. apply in_concat in Hh. destruct Hh as [hs [Hhs Hh]]. apply in_map_iff in Hhs.
        destruct Hhs as [g' [<- Hg']]. apply phys_eqb_neq.
        destruct (Hall g' (or_intror Hg')) as [_ [Hp _]]. rewrite (Hp h Hh).
        intro E. apply Hnot. rewrite <- E. apply in_map. exact Hg'.
      + intros h Hh. apply phys_eqb_spec. destruct (Hall g (or_introl eq_refl)) as [_ [Hp _]]. apply Hp. exact Hh.
    - rewrite filter_none; [cbn; apply IH; [exact Hr| |exact Hg]|].
      + intros g' Hg'. apply Hall. right. exact Hg'.
      + intros h Hh. apply phys_eqb_neq. destruct (Hall g0 (or_introl eq_refl)) as [_ [Hp _]]. rewrite (Hp h Hh).
        intro E. apply Hnot. rewrite E. apply in_map. exact Hg.
  Qed.

  Lemma ok_group_filter g : In g gs ->
    Permutation (ghandlers g) (filter (fun h => phys_eqb (hphys h) (gphys g)) l).
  Proof.
    intro Hg. rewrite <- (concat_filter_group g Hg). apply Permutation_filter. destruct ok as [H1 _]. exact H1.
  Qed.

  (* the devices' physical locations are exactly those of the discovered handlers *)
  Lemma ok_phys_set p : In p (map gphys gs) <-> In p (map hphys l).
  Proof.
    split; intro H; apply in_map_iff in H.
    - destruct H as [g [<- Hg]]. destruct ok as [_ [_ H3]]. destruct (H3 g Hg) as [Hne _].
      destruct (ghandlers g) as [|h hs] eqn:E; [contradiction|].
      assert (Hh : In h (ghandlers g)) by (rewrite E; left; reflexivity).
      rewrite <- (ok_phys g h Hg Hh). apply in_map. apply (ok_group_sub g h Hg Hh).
    - destruct H as [h [<- Hh]]. destruct (ok_in_group h Hh) as [g [Hg Hin]].
      rewrite (ok_phys g h Hg Hin). apply in_map. exact Hg.
  Qed.
End Consequences.

(* ------------------------------------------------------------------ the order-insensitive view *)

Definition group_equiv (a b : group) : Prop :=
  gphys a = gphys b /\ Permutation (ghandlers a) (ghandlers b) /\ gtype a = gtype b.

(* equal as sets of (phys, multiset of handlers, device type) *)
Definition view_equiv (a b : list group) : Prop :=
  length a = length b /\
  (forall g, In g a -> exists g', In g' b /\ group_equiv g g') /\
  (forall g, In g b -> exists g', In g' a /\ group_equiv g g').

Lemma group_eqb_spec a b : group_eqb a b = true <-> group_equiv a b.
Proof.
  unfold group_eqb, group_equiv.
  rewrite !andb_true_iff, phys_eqb_spec, (perm_eqb_spec handler_eqb handler_eqb_spec), dtype_eqb_spec. tauto.
Qed.

Lemma group_equiv_sym a b : group_equiv a b -> group_equiv b a.
Proof. intros [H1 [H2 H3]]. split; [auto|split; [apply Permutation_sym; exact H2|auto]]. Qed.

Lemma view_eqb_spec a b : view_eqb a b = true <-> view_equiv a b.
Proof.
  unfold view_eqb, view_equiv. rewrite !andb_true_iff, Nat.eqb_eq, !forallb_forall.
  assert (E : forall x y : list group, (forall g, In g x -> existsb (group_eqb g) y = true) <->
                        (forall g, In g x -> exists g', In g' y /\ group_equiv g g')).
  { intros x y. split; intros H g Hg.
    - specialize (H g Hg). apply existsb_exists in H. destruct H as [g' [H1 H2]]. exists g'.
      split; [exact H1|apply group_eqb_spec; exact H2].
    - destruct (H g Hg) as [g' [H1 H2]]. apply existsb_exists. exists g'. split; [exact H1|apply group_eqb_spec; exact H2]. }
  rewrite !E. tauto.
Qed.

Lemma half_order_free l l' : Permutation l l' ->
  forall g, In g (normalize l) -> exists g', In g' (normalize l') /\ group_equiv g g'.
Proof.
  intros HP g Hg.
  pose proof (normalize_ok l) as ok. pose proof (normalize_ok l') as ok'.
  destruct ok as [K1 [K2 K3]]. destruct (K3 g Hg) as [Hne _].
  destruct (ghandlers g) as [|h hs] eqn:E; [contradiction|].
  assert (Hh : In h (ghandlers g)) by (rewrite E; left; reflexivity).
  assert (Hl' : In h l').
  { apply (Permutation_in _ HP). apply (ok_group_sub l (normalize l) (normalize_ok l) g h Hg Hh). }
  destruct (ok_in_group l' (normalize l') ok' h Hl') as [g' [Hg' Hh']].
  assert (Ep : gphys g = gphys g').
  { rewrite <- (ok_phys l _ (normalize_ok l) g h Hg Hh), <- (ok_phys l' _ ok' g' h Hg' Hh'). reflexivity. }
  assert (Eh : Permutation (ghandlers g) (ghandlers g')).
  { apply Permutation_trans with (filter (fun h => phys_eqb (hphys h) (gphys g)) l).
    - apply (ok_group_filter l _ (normalize_ok l) g Hg).
    - rewrite Ep. apply Permutation_trans with (filter (fun h => phys_eqb (hphys h) (gphys g')) l').
      + apply Permutation_filter. exact HP.
      + apply Permutation_sym. apply (ok_group_filter l' _ ok' g' Hg'). }
  exists g'. split; [exact Hg'|]. split; [exact Ep|split; [exact Eh|]].
  rewrite (normalize_gtype l g Hg), (normalize_gtype l' g' Hg').
  apply device_type_perm. apply Permutation_map. exact Eh.
Qed.

Theorem order_free l l' : Permutation l l' -> view_equiv (normalize l) (normalize l').
Proof.
  intro HP. split; [|split].
  - rewrite <- (map_length gphys (normalize l)), <- (map_length gphys (normalize l')).
    apply Permutation_length. apply NoDup_Permutation.
    + destruct (normalize_ok l) as [_ [H _]]. exact H.
    + destruct (normalize_ok l') as [_ [H _]]. exact H.
    + intro p. rewrite (ok_phys_set l _ (normalize_ok l)), (ok_phys_set l' _ (normalize_ok l')).
      split; intro H; [apply (Permutation_in _ (Permutation_map hphys HP))|
                       apply (Permutation_in _ (Permutation_map hphys (Permutation_sym HP)))]; exact H.
  - apply half_order_free. exact HP.
  - apply half_order_free. apply Permutation_sym. exact HP.
Qed.

(* ------------------------------------------------------------------ statements used by Properties/C20.v *)

Theorem partition l :
  Permutation (concat (map ghandlers (normalize l))) l /\ NoDup (map gphys (normalize l)) /\
  (forall g, In g (normalize l) -> ghandlers g <> []).
Proof.
  destruct (normalize_ok l) as [H1 [H2 H3]]. split; [exact H1|split; [exact H2|]].
  intros g Hg. destruct (H3 g Hg) as [H _]. exact H.
Qed.

Theorem same_phys l :
  (forall h, In h l -> exists g, In g (normalize l) /\ In h (ghandlers g) /\
                                 forall g', In g' (normalize l) -> In h (ghandlers g') -> g' = g) /\
  (forall h1 h2, In h1 l -> In h2 l ->
     ((exists g, In g (normalize l) /\ In h1 (ghandlers g) /\ In h2 (ghandlers g)) <-> hphys h1 = hphys h2)) /\
  (forall g h, In g (normalize l) -> In h (ghandlers g) -> In h l /\ hphys h = gphys g).
Proof.
  pose proof (normalize_ok l) as ok. split; [|split].
  - apply (ok_exactly_one l _ ok).
  - apply (ok_same_phys l _ ok).
  - intros g h Hg Hh. split; [apply (ok_group_sub l _ ok g h Hg Hh)|apply (ok_phys l _ ok g h Hg Hh)].
Qed.

Theorem type_of_group l g : In g (normalize l) ->
  let joy := exists h, In h (ghandlers g) /\ handler_type (hcaps h) = HJoystick in
  let kbd := exists h, In h (ghandlers g) /\ handler_type (hcaps h) = HStdKbd in
  (joy -> gtype g = DJoystick) /\
  (~ joy -> kbd -> gtype g = DKeyboard) /\
  (~ joy -> ~ kbd -> gtype g = DMouse \/ gtype g = DUnknown).
Proof.
  intro Hg. destruct (normalize_ok l) as [_ [_ H3]]. destruct (H3 g Hg) as [_ [_ [T1 [T2 T3]]]].
  assert (J : (exists h, In h (ghandlers g) /\ handler_type (hcaps h) = HJoystick) <-> some joystick_like (ghandlers g)).
  { unfold some, joystick_like, htype_of. split; intros [h [H1 H2]]; exists h; (split; [exact H1|]).
    - apply htype_eqb_spec. symmetry. exact H2.
    - symmetry. apply htype_eqb_spec. exact H2. }
  assert (K : (exists h, In h (ghandlers g) /\ handler_type (hcaps h) = HStdKbd) <-> some std_keyboard (ghandlers g)).
  { unfold some, std_keyboard, htype_of. split; intros [h [H1 H2]]; exists h; (split; [exact H1|]).
    - apply htype_eqb_spec. symmetry. exact H2.
    - symmetry. apply htype_eqb_spec. exact H2. }
  cbv zeta. rewrite J, K. split; [exact T1|split; [exact T2|exact T3]].
Qed.

Theorem monitor_accepts_model l : grouping_okb l (normalize l) = true.
Proof. apply grouping_okb_spec. apply normalize_ok. Qed.

(* what an accepted observation satisfies: the same statements as [partition] and [same_phys], for the observed devices *)
Theorem monitor_implies l gs : grouping_okb l gs = true ->
  Permutation (concat (map ghandlers gs)) l /\ NoDup (map gphys gs) /\
  (forall h, In h l -> exists g, In g gs /\ In h (ghandlers g) /\
                                 forall g', In g' gs -> In h (ghandlers g') -> g' = g) /\
  (forall h1 h2, In h1 l -> In h2 l ->
     ((exists g, In g gs /\ In h1 (ghandlers g) /\ In h2 (ghandlers g)) <-> hphys h1 = hphys h2)) /\
  (forall g, In g gs -> type_rule (ghandlers g) (gtype g)).
Proof.
  intro H. apply grouping_okb_spec in H. pose proof H as [H1 [H2 H3]].
  split; [exact H1|split; [exact H2|split; [apply (ok_exactly_one l gs H)|split; [apply (ok_same_phys l gs H)|]]]].
  intros g Hg. destruct (H3 g Hg) as [_ [_ T]]. exact T.
Qed.
