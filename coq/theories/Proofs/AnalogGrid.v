(* C06 on the grid: every raw position of the 8-bit and hat ranges, for the deadzones below, every flip /
   deadzone-at-centre (min = 0 only) / kind combination - evaluated by the kernel VM. *)
From Coq Require Import List NArith ZArith Bool.
From HIDI Require Import Base.AList Model.Device Model.AnalogF Model.AnalogSpec.
Import ListNotations.

Definition grid_ranges : list (Z * Z) := [(0, 255); (-128, 127); (-127, 127); (-1, 1)]%Z.

Definition grid_for (dz : f64) : list c06cfg :=
  flat_map (fun r : Z * Z =>
    flat_map (fun flip : bool =>
      flat_map (fun dzc : bool =>
        map (fun k => Build_c06cfg (fst r) (snd r) dzc flip k dz 20 21) [KCCuni; KCCbidi; KPB])
        (if (fst r =? 0)%Z then [false; true] else [false]))
      [false; true]) grid_ranges.

(* deadzones 0, .01, .05, .06, .09 | .1, .13, .2, .21, .25 | .27, .28, .3, .5, .53 | .64, .75, .9, .91, .99 as float64 bit patterns *)
Definition dz_chunk1 : list Z := [0; 4576918229304087675; 4587366580439587226; 4588807732320345784; 4591149604126578442]%Z.
Definition dz_chunk2 : list Z := [4591870180066957722; 4593851763903000740; 4596373779694328218; 4596734067664517857; 4598175219545276416]%Z.
Definition dz_chunk3 : list Z := [4598535507515466056; 4598715651500560876; 4599075939470750515; 4602678819172646912; 4602949035150289142]%Z.
Definition dz_chunk4 : list Z := [4603939827068310651; 4604930618986332160; 4606281698874543309; 4606371770867090719; 4607092346807469998]%Z.
Definition dz_bits : list Z := dz_chunk1 ++ dz_chunk2 ++ dz_chunk3 ++ dz_chunk4.

Definition grid_ok (bs : list Z) : bool := forallb (fun b => forallb c06_config_ok (grid_for (f_of_bits b))) bs.
