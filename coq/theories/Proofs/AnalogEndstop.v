(* C06, general part (no grid): the physical end stop maps exactly to the end of the range for EVERY finite deadzone in
   [0,1) and EVERY axis maximum, by exactness of IEEE division x / x = 1 and monotone correct rounding. *)
From Coq Require Import List NArith ZArith Bool Reals Lra Lia.
From Flocq Require Import Core.Core.
From Flocq Require Import Plus_error.
From Flocq Require IEEE754.BinarySingleNaN.
From HIDI Require Import Base.AList Model.Device Model.AnalogF.
Local Open Scope R_scope.

Notation fexp := (FLT_exp (3 - 1024 - 53) 53).
Notation rnd := (round radix2 fexp (B.round_mode B.mode_NE)).

Lemma generic_one : generic_format radix2 fexp 1.
Proof.
  replace 1 with (bpow radix2 0) by reflexivity.
  apply generic_format_bpow. unfold FLT_exp. simpl. lia.
Qed.

Lemma one_lt_max : Rabs 1 < bpow radix2 1024.
Proof. rewrite Rabs_R1. apply (bpow_lt radix2 0 1024). lia. Qed.

Lemma f1_correct : B.B2R f1 = 1 /\ B.is_finite f1 = true /\ B.Bsign f1 = false.
Proof.
  unfold f1, f_of_Z.
  pose proof (B.binary_normalize_correct 53 1024 _ _ B.mode_NE 1 0 false) as H. cbv zeta in H.
  assert (E : F2R (Float radix2 1 0) = 1) by (unfold F2R; simpl; lra).
  rewrite E in H. rewrite (round_generic radix2 fexp _ 1 generic_one) in H.
  rewrite Rlt_bool_true in H by exact one_lt_max.
  destruct H as (H1&H2&H3). split; [exact H1|]. split; [exact H2|].
  rewrite H3. rewrite Rcompare_Gt by lra. reflexivity.
Qed.

Lemma finite_not_nan (y : f64) : B.is_finite y = true -> B.is_nan y = false.
Proof. destruct y; cbn; congruence. Qed.

(* x / y = 1.0 exactly whenever x and y are finite, equal as reals, non-zero and of equal sign *)
Lemma fdiv_same (x y : f64) :
  B.is_finite x = true -> B.is_finite y = true -> B.B2R x = B.B2R y -> B.B2R y <> 0 -> B.Bsign x = B.Bsign y ->
  fdiv x y = f1.
Proof.
  intros Hx Hy He Hz Hs.
  pose proof (B.Bdiv_correct 53 1024 _ _ B.mode_NE x y Hz) as H.
  replace (B.B2R x / B.B2R y) with 1 in H by (rewrite He; field; exact Hz).
  rewrite (round_generic radix2 fexp _ 1 generic_one) in H.
  rewrite Rlt_bool_true in H by exact one_lt_max.
  destruct H as (H1&H2&H3). destruct f1_correct as (G1&G2&G3).
  unfold fdiv. apply B.B2R_Bsign_inj.
  - rewrite H2. exact Hx.
  - exact G2.
  - rewrite H1, G1. reflexivity.
  - rewrite G3. rewrite H3.
    + rewrite Hs. destruct (B.Bsign y); reflexivity.
    + apply finite_not_nan. rewrite H2. exact Hx.
Qed.

(* float64(int32) is exact *)
Lemma generic_int (z : Z) : (Z.abs z < 2 ^ 53)%Z -> generic_format radix2 fexp (IZR z).
Proof.
  intro H. replace (IZR z) with (F2R (Float radix2 z 0)) by (unfold F2R; simpl; lra).
  apply generic_format_FLT. exists (Float radix2 z 0); [reflexivity| |]; simpl; lia.
Qed.

Lemma IZR_lt_max z : (Z.abs z < 2 ^ 53)%Z -> Rabs (IZR z) < bpow radix2 1024.
Proof.
  intro H. rewrite <- abs_IZR. apply Rlt_trans with (IZR (2 ^ 53)); [apply IZR_lt; exact H|].
  change (IZR (2 ^ 53)) with (IZR (Zpower radix2 53)). rewrite IZR_Zpower by lia. apply bpow_lt. lia.
Qed.

Lemma f_of_Z_correct z : (Z.abs z < 2 ^ 53)%Z ->
  B.B2R (f_of_Z z) = IZR z /\ B.is_finite (f_of_Z z) = true /\ B.Bsign (f_of_Z z) = (z <? 0)%Z.
Proof.
  intro Hz. unfold f_of_Z.
  pose proof (B.binary_normalize_correct 53 1024 _ _ B.mode_NE z 0 false) as H. cbv zeta in H.
  assert (E : F2R (Float radix2 z 0) = IZR z) by (unfold F2R; simpl; lra).
  rewrite E in H. rewrite (round_generic radix2 fexp _ (IZR z) (generic_int z Hz)) in H.
  rewrite Rlt_bool_true in H by (apply IZR_lt_max; exact Hz).
  destruct H as (H1&H2&H3). split; [exact H1|]. split; [exact H2|]. rewrite H3.
  destruct (Z.ltb_spec z 0) as [Hl|Hl].
  - rewrite Rcompare_Lt; [reflexivity|]. apply (IZR_lt z 0). exact Hl.
  - destruct (Z.eq_dec z 0) as [->|Hn].
    + rewrite Rcompare_Eq; reflexivity.
    + rewrite Rcompare_Gt; [reflexivity|]. apply (IZR_lt 0 z). lia.
Qed.

Lemma flt_correct (x y : f64) : B.is_finite x = true -> B.is_finite y = true -> flt x y = Rlt_bool (B.B2R x) (B.B2R y).
Proof. intros. unfold flt. apply B.Bltb_correct; assumption. Qed.

(* 1 - dz is finite, positive and non-zero after rounding, for a finite deadzone 0 <= dz < 1 *)
Lemma one_minus_dz (dz : f64) :
  B.is_finite dz = true -> 0 <= B.B2R dz < 1 ->
  B.is_finite (fsub f1 dz) = true /\ B.B2R (fsub f1 dz) <> 0.
Proof.
  intros Hf [H0 H1]. destruct f1_correct as (G1&G2&G3).
  pose proof (B.Bminus_correct 53 1024 _ _ B.mode_NE f1 dz G2 Hf) as H. rewrite G1 in H.
  assert (Hle : Rabs (rnd (1 - B.B2R dz)) <= 1).
  { rewrite Rabs_pos_eq.
    - rewrite <- (round_generic radix2 fexp (B.round_mode B.mode_NE) 1 generic_one) at 2.
      apply round_le; [apply FLT_exp_valid; reflexivity|apply B.valid_rnd_round_mode|lra].
    - rewrite <- (round_0 radix2 fexp (B.round_mode B.mode_NE)).
      apply round_le; [apply FLT_exp_valid; reflexivity|apply B.valid_rnd_round_mode|lra]. }
  rewrite Rlt_bool_true in H.
  - destruct H as (E1&E2&_). unfold fsub. split; [exact E2|]. rewrite E1.
    replace (1 - B.B2R dz) with (1 + - B.B2R dz) by lra.
    change (SpecFloat.fexp 53 1024) with (FLT_exp (3 - 1024 - 53) 53).
    pose proof (B.valid_rnd_round_mode B.mode_NE) as Vr.
    apply (round_plus_neq_0 radix2 (FLT_exp (3 - 1024 - 53) 53) (B.round_mode B.mode_NE) 1 (- B.B2R dz)).
    + exact generic_one.
    + apply generic_format_opp. apply (B.generic_format_B2R 53 1024).
    + lra.
  - eapply Rle_lt_trans; [exact Hle|]. apply (bpow_lt radix2 0 1024). lia.
Qed.

Lemma f0_correct : B.B2R f0 = 0 /\ B.is_finite f0 = true.
Proof. destruct (f_of_Z_correct 0 ltac:(cbn; lia)) as (H1&H2&_). split; [exact H1|exact H2]. Qed.

(* The positive end stop: for every axis range with 0 < max < 2^31 (any minimum), every finite deadzone 0 <= dz < 1,
   with or without deadzone_at_center, the shaped position at raw = max is exactly 1.0 *)
Lemma endstop_max mn mx dzc dz :
  (0 < mx < 2 ^ 31)%Z -> B.is_finite dz = true -> 0 <= B.B2R dz < 1 ->
  fst (shape mn mx dzc dz mx) = f1.
Proof.
  intros Hmx Hf Hdz. unfold shape, shape_gen.
  assert (Hneg : (mx <? 0)%Z = false) by (apply Z.ltb_ge; lia). rewrite Hneg.
  destruct (f_of_Z_correct mx ltac:(lia)) as (X1&X2&X3).
  assert (Hv : fdiv (f_of_Z mx) (fabs (f_of_Z mx)) = f1).
  { apply fdiv_same.
    - exact X2.
    - unfold fabs. rewrite B.is_finite_Babs. exact X2.
    - unfold fabs. rewrite B.B2R_Babs, X1. rewrite Rabs_pos_eq; [reflexivity|]. apply (IZR_le 0 mx). lia.
    - unfold fabs. rewrite B.B2R_Babs, X1. apply Rabs_no_R0. apply not_0_IZR. lia.
    - unfold fabs. rewrite B.Bsign_Babs, X3, Hneg. reflexivity. }
  rewrite Hv.
  destruct f1_correct as (G1&G2&G3). destruct f0_correct as (Z1&Z2).
  (* v*2-1 = 1 when deadzone_at_center *)
  assert (Hc : fsub (fmul f1 f2) f1 = f1) by (apply B.B2SF_inj; vm_compute; reflexivity).
  assert (Hshape : (if flt f1 f0 then if fgt f1 (fneg dz) then f0 else rescale false (fadd f1 dz) dz
                    else if flt f1 dz then f0 else rescale false (fsub f1 dz) dz) = f1).
  { rewrite (flt_correct f1 f0 G2 Z2), G1, Z1. rewrite Rlt_bool_false by lra.
    rewrite (flt_correct f1 dz G2 Hf), G1. rewrite Rlt_bool_false by lra.
    unfold rescale. destruct (one_minus_dz dz Hf Hdz) as [W1 W2].
    apply fdiv_same; auto. }
  destruct dzc.
  - rewrite Hc. cbv beta iota zeta. cbn [fst]. exact Hshape.
  - cbv beta iota zeta. cbn [fst]. exact Hshape.
Qed.

(* what is transmitted for the shaped value 1.0: 127 on the controller, 16383 on pitch bend *)
Lemma transmit_one :
  cc_byte f1 = 127%N /\ cc_byte (fabs f1) = 127%N /\ cc_byte (fdiv (fadd f1 f1) f2) = 127%N /\
  pb_bytes true f1 = (127%N, 127%N).
Proof. vm_compute. repeat split. Qed.

(* inside the deadzone the shaped position is exactly +0.0, by the structure of the code: for every range, every raw
   value, every deadzone (any float at all), with [v] the normalised (and, with deadzone_at_center, re-centred) position *)
Definition normalised (mn mx : Z) (dzc : bool) (raw : Z) : f64 :=
  let v := if (raw <? 0)%Z then fdiv (f_of_Z raw) (fabs (f_of_Z mn)) else fdiv (f_of_Z raw) (fabs (f_of_Z mx)) in
  if dzc then fsub (fmul v f2) f1 else v.

Lemma deadzone_rest mn mx dzc dz raw :
  let v := normalised mn mx dzc raw in
  (flt v f0 = false /\ flt v dz = true) \/ (flt v f0 = true /\ fgt v (fneg dz) = true) ->
  fst (shape mn mx dzc dz raw) = f0.
Proof.
  unfold normalised, shape, shape_gen. cbv zeta.
  destruct (raw <? 0)%Z; destruct dzc; cbv beta iota zeta; cbn [fst];
    intros [[H1 H2]|[H1 H2]]; rewrite H1, H2; reflexivity.
Qed.

(* what is transmitted for the shaped value +0.0 (rest): 0 on an unsigned unidirectional controller and on both sides of
   a pair, 63 on a unidirectional controller of a signed / centred axis, 8192 = (0, 64) on pitch bend of such an axis *)
Lemma transmit_zero :
  cc_byte f0 = 0%N /\ cc_byte (fabs f0) = 0%N /\ cc_byte (fdiv (fadd f0 f1) f2) = 63%N /\ pb_bytes true f0 = (0%N, 64%N).
Proof. vm_compute. repeat split. Qed.

(* ====================================================================== the negative end stop *)
Definition fm1 : f64 := f_of_Z (-1).

Lemma fm1_correct : B.B2R fm1 = -1 /\ B.is_finite fm1 = true /\ B.Bsign fm1 = true.
Proof. destruct (f_of_Z_correct (-1) ltac:(cbn; lia)) as (H1&H2&H3). repeat split; assumption. Qed.

Lemma generic_mone : generic_format radix2 fexp (-1).
Proof. apply generic_format_opp. exact generic_one. Qed.

(* x / y = -1.0 exactly whenever x = -y as reals, both finite, non-zero, of opposite sign *)
Lemma fdiv_opposite (x y : f64) :
  B.is_finite x = true -> B.is_finite y = true -> B.B2R x = - B.B2R y -> B.B2R y <> 0 -> B.Bsign x = negb (B.Bsign y) ->
  fdiv x y = fm1.
Proof.
  intros Hx Hy He Hz Hs.
  pose proof (B.Bdiv_correct 53 1024 _ _ B.mode_NE x y Hz) as H.
  replace (B.B2R x / B.B2R y) with (-1) in H by (rewrite He; field; exact Hz).
  rewrite (round_generic radix2 fexp _ (-1) generic_mone) in H.
  assert (Eabs : Rabs (-1) = Rabs 1) by (unfold Rabs; destruct (Rcase_abs (-1)), (Rcase_abs 1); lra).
  rewrite Eabs in H. rewrite Rlt_bool_true in H by exact one_lt_max.
  destruct H as (H1&H2&H3). destruct fm1_correct as (G1&G2&G3).
  unfold fdiv. apply B.B2R_Bsign_inj.
  - rewrite H2. exact Hx.
  - exact G2.
  - rewrite H1, G1. reflexivity.
  - rewrite G3. rewrite H3.
    + rewrite Hs. destruct (B.Bsign y); reflexivity.
    + apply finite_not_nan. rewrite H2. exact Hx.
Qed.

(* with the normalised position exactly -1.0, the shaped position is exactly -1.0 (finite deadzone 0 <= dz < 1) *)
Lemma shape_tail_minus_one dz :
  B.is_finite dz = true -> 0 <= B.B2R dz < 1 ->
  (if flt fm1 f0 then if fgt fm1 (fneg dz) then f0 else rescale false (fadd fm1 dz) dz
   else if flt fm1 dz then f0 else rescale false (fsub fm1 dz) dz) = fm1.
Proof.
  intros Hf Hdz. destruct fm1_correct as (G1&G2&G3). destruct f0_correct as (Z1&Z2).
  rewrite (flt_correct fm1 f0 G2 Z2), G1, Z1. rewrite Rlt_bool_true by lra.
  unfold fgt, fneg. rewrite (flt_correct (B.Bopp dz) fm1) by (rewrite ?B.is_finite_Bopp; assumption).
  rewrite B.B2R_Bopp, G1. rewrite Rlt_bool_false by lra.
  unfold rescale. destruct (one_minus_dz dz Hf Hdz) as [W1 W2].
  destruct f1_correct as (O1&O2&O3).
  (* the numerator -1 + dz is exactly -(1 - dz) after rounding *)
  pose proof (B.Bplus_correct 53 1024 _ _ B.mode_NE fm1 dz G2 Hf) as P. rewrite G1 in P.
  pose proof (B.Bminus_correct 53 1024 _ _ B.mode_NE f1 dz O2 Hf) as M. rewrite O1 in M.
  assert (Hle : Rabs (rnd (1 - B.B2R dz)) <= 1).
  { rewrite Rabs_pos_eq.
    - rewrite <- (round_generic radix2 fexp (B.round_mode B.mode_NE) 1 generic_one) at 2.
      apply round_le; [apply FLT_exp_valid; reflexivity|apply B.valid_rnd_round_mode|lra].
    - rewrite <- (round_0 radix2 fexp (B.round_mode B.mode_NE)).
      apply round_le; [apply FLT_exp_valid; reflexivity|apply B.valid_rnd_round_mode|lra]. }
  assert (Hlt : Rabs (rnd (1 - B.B2R dz)) < bpow radix2 1024)
    by (eapply Rle_lt_trans; [exact Hle|apply (bpow_lt radix2 0 1024); lia]).
  rewrite Rlt_bool_true in M by exact Hlt.
  change (SpecFloat.fexp 53 1024) with fexp in P, M.
  assert (Eopp : rnd (-1 + B.B2R dz) = - rnd (1 - B.B2R dz)).
  { replace (-1 + B.B2R dz) with (- (1 - B.B2R dz)) by lra. apply (round_NE_opp radix2 fexp). }
  rewrite Eopp, Rabs_Ropp in P. rewrite Rlt_bool_true in P by exact Hlt.
  destruct P as (P1&P2&P3). destruct M as (M1&M2&M3).
  apply fdiv_opposite.
  - exact P2.
  - exact W1.
  - unfold fadd, fsub. rewrite P1, M1. reflexivity.
  - exact W2.
  - unfold fadd, fsub. rewrite P3, M3.
    rewrite Rcompare_Lt by lra. rewrite Rcompare_Gt by lra. reflexivity.
Qed.

(* The negative end stop of a signed axis: for every range with -2^31 <= min < 0, every finite deadzone 0 <= dz < 1:
   the shaped position at raw = min is exactly -1.0 *)
Lemma endstop_min mn mx dz :
  (- 2 ^ 31 <= mn < 0)%Z -> B.is_finite dz = true -> 0 <= B.B2R dz < 1 ->
  fst (shape mn mx false dz mn) = fm1.
Proof.
  intros Hmn Hf Hdz. unfold shape, shape_gen.
  assert (Hneg : (mn <? 0)%Z = true) by (apply Z.ltb_lt; lia). rewrite Hneg.
  destruct (f_of_Z_correct mn ltac:(lia)) as (X1&X2&X3).
  assert (Hv : fdiv (f_of_Z mn) (fabs (f_of_Z mn)) = fm1).
  { apply fdiv_opposite.
    - exact X2.
    - unfold fabs. rewrite B.is_finite_Babs. exact X2.
    - unfold fabs. rewrite B.B2R_Babs, X1. rewrite Rabs_left; [lra|]. apply (IZR_lt mn 0). lia.
    - unfold fabs. rewrite B.B2R_Babs, X1. apply Rabs_no_R0. apply not_0_IZR. lia.
    - unfold fabs. rewrite B.Bsign_Babs, X3, Hneg. reflexivity. }
  rewrite Hv. cbv beta iota zeta. cbn [fst]. apply shape_tail_minus_one; assumption.
Qed.

(* The lower end stop of an unsigned axis re-centred by deadzone_at_center: raw = min = 0 shapes to exactly -1.0 *)
Lemma endstop_min_centred mx dz :
  (0 < mx < 2 ^ 31)%Z -> B.is_finite dz = true -> 0 <= B.B2R dz < 1 ->
  fst (shape 0 mx true dz 0) = fm1.
Proof.
  intros Hmx Hf Hdz. unfold shape, shape_gen. change (0 <? 0)%Z with false. cbv iota.
  destruct (f_of_Z_correct mx ltac:(lia)) as (X1&X2&X3).
  assert (Hv : fdiv (f_of_Z 0) (fabs (f_of_Z mx)) = f0).
  { assert (Hz : B.B2R (fabs (f_of_Z mx)) <> 0).
    { unfold fabs. rewrite B.B2R_Babs, X1. apply Rabs_no_R0. apply not_0_IZR. lia. }
    pose proof (B.Bdiv_correct 53 1024 _ _ B.mode_NE (f_of_Z 0) (fabs (f_of_Z mx)) Hz) as H.
    destruct f0_correct as (Z1&Z2). change (f_of_Z 0) with f0 in *. rewrite Z1 in H.
    replace (0 / B.B2R (fabs (f_of_Z mx))) with 0 in H by (field; exact Hz).
    rewrite round_0 in H by apply B.valid_rnd_round_mode. rewrite Rabs_R0 in H.
    rewrite Rlt_bool_true in H by apply bpow_gt_0.
    destruct H as (H1&H2&H3). unfold fdiv. apply B.B2R_Bsign_inj.
    - rewrite H2. exact Z2.
    - exact Z2.
    - rewrite H1, Z1. reflexivity.
    - rewrite H3 by (apply finite_not_nan; rewrite H2; exact Z2).
      unfold fabs. rewrite B.Bsign_Babs. reflexivity. }
  rewrite Hv.
  assert (Hc : fsub (fmul f0 f2) f1 = fm1) by (apply B.B2SF_inj; vm_compute; reflexivity).
  rewrite Hc. cbv beta iota zeta. cbn [fst]. apply shape_tail_minus_one; assumption.
Qed.

(* what is transmitted for -1.0: 127 on the negative controller of a pair, 0 on a unidirectional controller, 0 on pitch bend *)
Lemma transmit_minus_one :
  cc_encode true true fm1 = (true, 127%N) /\ cc_encode true false fm1 = (false, 0%N) /\ pb_bytes true fm1 = (0%N, 0%N).
Proof. vm_compute. repeat split. Qed.
