(* C06, general part (no grid), continued: the rational spec / run-time monitor of Model/AnalogSpec.v ([exact_position],
   [exact_scaled], [within_one], [c06_event_ok]) read over the real numbers, and the general version of the grid theorem
   [grid_event]: the device model's messages satisfy the monitor for every configuration of the domain on which the
   float code takes the same branch decisions as the exact function (see [decisions_agree]). *)
From Coq Require Import List NArith ZArith QArith Qreals Bool Reals Lra Lia.
From Flocq Require Import Core.Core.
From Flocq Require Import Plus_error.
From Flocq Require IEEE754.BinarySingleNaN.
From HIDI Require Import Base.AList Model.Device Model.AnalogF Model.AnalogSpec Proofs.AnalogProofs Proofs.AnalogEndstop
  Proofs.AnalogGeneral Proofs.AnalogGeneral2 Proofs.AnalogGeneral3.
Import ListNotations.
Local Open Scope R_scope.

(* ====================================================================== Q and R *)
Lemma Q2R_Z z : Q2R (inject_Z z) = IZR z.
Proof. unfold Q2R, inject_Z. cbn. field. Qed.

Lemma Q2R_0 : Q2R 0 = 0.  Proof. apply (Q2R_Z 0). Qed.
Lemma Q2R_1 : Q2R 1 = 1.  Proof. apply (Q2R_Z 1). Qed.
Lemma Q2R_2 : Q2R 2 = 2.  Proof. apply (Q2R_Z 2). Qed.

Lemma Qle_bool_R a b : Qle_bool a b = Rle_bool (Q2R a) (Q2R b).
Proof.
  destruct (Rle_bool_spec (Q2R a) (Q2R b)) as [H|H].
  - apply Qle_bool_iff. apply Rle_Qle. exact H.
  - destruct (Qle_bool a b) eqn:E; [|reflexivity]. apply Qle_bool_iff in E. apply Qle_Rle in E. lra.
Qed.

Lemma Qltb_R a b : Qltb a b = Rlt_bool (Q2R a) (Q2R b).
Proof.
  unfold Qltb. rewrite Qle_bool_R. destruct (Rle_bool_spec (Q2R b) (Q2R a)) as [H|H]; cbn.
  - symmetry. apply Rlt_bool_false. exact H.
  - symmetry. apply Rlt_bool_true. exact H.
Qed.

Lemma Qeq_bool_R a b : Qeq_bool a b = true <-> Q2R a = Q2R b.
Proof. rewrite Qeq_bool_iff. split; [apply Qeq_eqR|apply eqR_Qeq]. Qed.

Lemma Q2R_abs q : Q2R (Qabs' q) = Rabs (Q2R q).
Proof.
  unfold Qabs'. rewrite Qle_bool_R, Q2R_0. destruct (Rle_bool_spec 0 (Q2R q)) as [H|H].
  - rewrite Rabs_pos_eq by exact H. reflexivity.
  - rewrite Q2R_opp, Rabs_left by exact H. reflexivity.
Qed.

Lemma Q2R_div' a b : Q2R b <> 0 -> Q2R (a / b) = Q2R a / Q2R b.
Proof. intro H. apply Q2R_div. intro E. apply H. rewrite (Qeq_eqR _ _ E). exact Q2R_0. Qed.

(* the rational value of a finite float is its real value *)
Lemma Q_of_f_R x : B.is_finite x = true -> exists q, Q_of_f x = Some q /\ Q2R q = B.B2R x.
Proof.
  destruct x as [s| | |s m e Hb]; try discriminate; intros _.
  - exists 0%Q. split; [reflexivity|exact Q2R_0].
  - eexists. split; [reflexivity|]. unfold B.B2R, F2R. cbn [Fnum Fexp].
    assert (E : Q2R (if (0 <=? e)%Z then inject_Z (Z.pos m * 2 ^ e) else Z.pos m # Z.to_pos (2 ^ - e))
                = IZR (Z.pos m) * bpow radix2 e).
    { destruct (Z.leb_spec 0 e) as [L|L].
      - rewrite Q2R_Z, mult_IZR. f_equal. change 2%Z with (radix_val radix2). rewrite IZR_Zpower by exact L. reflexivity.
      - unfold Q2R. cbn [Qnum Qden]. replace e with (- - e)%Z at 2 by lia. rewrite bpow_opp.
        rewrite <- IZR_Zpower by lia. change (radix_val radix2) with 2%Z.
        rewrite Z2Pos.id by (apply Z.pow_pos_nonneg; lia). reflexivity. }
    destruct s; cbn [cond_Zopp].
    + rewrite Q2R_opp, E. change (Z.opp (Z.pos m)) with (- Z.pos m)%Z. rewrite opp_IZR. ring.
    + exact E.
Qed.

(* ---------------------------------------------------------------------- exact_position / exact_scaled over R *)
Lemma exact_position_R mn mx dzc flip dzq raw :
  axis_dom mn mx dzc -> 0 <= Q2R dzq < 1 -> (mn <= raw <= mx)%Z ->
  Q2R (fst (exact_position mn mx dzc flip dzq raw))
    = flip_R flip (dzc || (mn <? 0)%Z)%bool (shape_R mn mx dzc (Q2R dzq) raw) /\
  snd (exact_position mn mx dzc flip dzq raw) = (dzc || (mn <? 0)%Z)%bool.
Proof.
  intros Hd Hdz Hr. unfold exact_position. cbv zeta.
  set (v0 := if (raw <? 0)%Z then (inject_Z raw / Qabs' (inject_Z mn))%Q else (inject_Z raw / Qabs' (inject_Z mx))%Q).
  assert (V0 : Q2R v0 = QR mn mx raw).
  { unfold v0, QR. destruct Hd as (Hmn&Hmx&_). destruct (Z.ltb_spec raw 0) as [L|L].
    - rewrite Q2R_div'; rewrite Q2R_abs, Q2R_Z; [rewrite Q2R_Z; reflexivity|].
      apply Rabs_no_R0. apply not_0_IZR. lia.
    - rewrite Q2R_div'; rewrite Q2R_abs, Q2R_Z; [rewrite Q2R_Z; reflexivity|].
      apply Rabs_no_R0. apply not_0_IZR. lia. }
  set (vc := if dzc then ((v0 * 2 - 1)%Q, true) else (v0, (mn <? 0)%Z)).
  assert (VC : Q2R (fst vc) = norm_R mn mx dzc raw /\ snd vc = (dzc || (mn <? 0)%Z)%bool).
  { unfold vc, norm_R. cbv zeta. destruct dzc; cbn [fst snd orb].
    - rewrite Q2R_minus, Q2R_mult, Q2R_1, Q2R_2, V0. split; reflexivity.
    - split; [exact V0|reflexivity]. }
  destruct vc as [v cn]. cbn [fst snd] in VC. destruct VC as [VC1 VC2]. subst cn.
  assert (D : Q2R (1 - dzq) <> 0) by (rewrite Q2R_minus, Q2R_1; lra).
  set (t := if Qltb v 0 then (if Qltb (- dzq) v then 0%Q else ((v + dzq) / (1 - dzq))%Q)
            else (if Qltb v dzq then 0%Q else ((v - dzq) / (1 - dzq))%Q)).
  assert (T : Q2R t = shape_R mn mx dzc (Q2R dzq) raw).
  { unfold t, shape_R, tail_R. rewrite <- VC1. rewrite !Qltb_R, Q2R_0, Q2R_opp.
    destruct (Rlt_bool (Q2R v) 0).
    - destruct (Rlt_bool (- Q2R dzq) (Q2R v)); [exact Q2R_0|].
      rewrite Q2R_div' by exact D. rewrite Q2R_plus, Q2R_minus, Q2R_1. reflexivity.
    - destruct (Rlt_bool (Q2R v) (Q2R dzq)); [exact Q2R_0|].
      rewrite Q2R_div' by exact D. rewrite !Q2R_minus, Q2R_1. reflexivity. }
  cbn [fst snd]. split; [|reflexivity]. unfold flip_R. destruct flip; [|exact T].
  destruct (dzc || (mn <? 0)%Z)%bool.
  - rewrite Q2R_opp, T. reflexivity.
  - rewrite Q2R_minus, Q2R_1, T. reflexivity.
Qed.

Lemma Q2R_127 : Q2R 127 = 127.  Proof. apply (Q2R_Z 127). Qed.
Lemma Q2R_16383 : Q2R 16383 = 16383.  Proof. apply (Q2R_Z 16383). Qed.

Lemma exact_scaled_R k canneg p : Q2R (exact_scaled k canneg p) = scaled_R k canneg (Q2R p).
Proof.
  assert (T : Q2R 2 <> 0) by (rewrite Q2R_2; lra).
  unfold exact_scaled, scaled_R. destruct k, canneg;
    rewrite ?Q2R_mult, ?Q2R_abs, ?Q2R_div', ?Q2R_minus, ?Q2R_plus, ?Q2R_mult, ?Q2R_127, ?Q2R_16383, ?Q2R_1, ?Q2R_2 by exact T;
    reflexivity.
Qed.

Lemma within_one_R t e : Rabs (IZR t - Q2R e) <= 1 + bpow radix2 (-20) -> within_one t e = true.
Proof.
  intro H. unfold within_one. rewrite Qle_bool_R, Q2R_abs, Q2R_minus, Q2R_Z, Q2R_plus, Q2R_1.
  replace (Q2R (1 # 1048576)) with (bpow radix2 (-20)) by (unfold Q2R; cbn; lra).
  apply Rle_bool_true. exact H.
Qed.

(* ====================================================================== exact hits of the float computation *)
(* on or inside the deadzone edge the computed position is exactly zero *)
Lemma TR_zero dz w : 0 <= dz -> Rabs w <= dz -> TR dz w = 0.
Proof.
  intros Hdz Hw. apply Rabs_le_inv in Hw. unfold TR.
  assert (Z : forall d, rnd (rnd 0 / d) = 0) by (intro d; rewrite rnd_0; unfold Rdiv; rewrite Rmult_0_l; apply rnd_0).
  destruct (Rlt_bool_spec w 0) as [A|A].
  - destruct (Rlt_bool_spec (- dz) w) as [C|C]; [reflexivity|].
    replace (w + dz) with 0 by lra. apply Z.
  - destruct (Rlt_bool_spec w dz) as [C|C]; [reflexivity|].
    replace (w - dz) with 0 by lra. apply Z.
Qed.

Lemma gen_ge_min x : generic_format radix2 fexp x -> 0 < x -> bpow radix2 (-1074) <= x.
Proof.
  intros G P. apply (generic_format_ge_bpow radix2 fexp (-1074)); [|exact P|exact G].
  intro e. unfold FLT_exp. lia.
Qed.

(* strictly outside the deadzone the computed position is strictly positive: nothing underflows to zero *)
Lemma TR_strict_pos dz w : 0 <= dz <= 1 - / 1024 -> generic_format radix2 fexp dz -> generic_format radix2 fexp w ->
  dz < w <= 1 -> 0 < TR dz w.
Proof.
  intros Hdz Gd Gw Hw. rewrite TR_nonneg_eq by lra. rewrite Rlt_bool_false by lra. unfold PR.
  destruct (d_facts dz Hdz) as [[D0 D1] _].
  assert (N0 : 0 <= rnd (w - dz)) by (apply rnd_nonneg; lra).
  assert (Nz : rnd (w + - dz) <> 0).
  { apply (round_plus_neq_0 radix2 fexp (B.round_mode B.mode_NE)); [exact Gw|apply generic_format_opp; exact Gd|lra]. }
  replace (w + - dz) with (w - dz) in Nz by lra.
  assert (Nm : bpow radix2 (-1074) <= rnd (w - dz)).
  { apply gen_ge_min; [apply generic_format_round; [exact Vfexp|exact Vrnd]|lra]. }
  pose proof (bpow_gt_0 radix2 (-1074)) as Bp.
  assert (Q : bpow radix2 (-1074) <= rnd (w - dz) / rnd (1 - dz)).
  { unfold Rdiv. assert (1 <= / rnd (1 - dz)).
    { rewrite <- Rinv_1 at 1. apply Rinv_le_contravar; lra. }
    nra. }
  apply Rlt_le_trans with (bpow radix2 (-1074)); [exact Bp|].
  rewrite <- (rnd_bpow (-1074)) at 1 by lia. apply rnd_le. exact Q.
Qed.

Lemma TR_strict_neg dz w : 0 <= dz <= 1 - / 1024 -> generic_format radix2 fexp dz -> generic_format radix2 fexp w ->
  -1 <= w < - dz -> TR dz w < 0.
Proof.
  intros Hdz Gd Gw Hw. rewrite TR_odd by lra.
  pose proof (TR_strict_pos dz (- w) Hdz Gd (generic_format_opp _ _ _ Gw) ltac:(lra)). lra.
Qed.

Lemma NR_generic mn mx dzc raw : generic_format radix2 fexp (NR mn mx dzc raw).
Proof. unfold NR. cbv zeta. destruct dzc; apply generic_format_round; (exact Vfexp || exact Vrnd). Qed.

(* the sign of the computed position, from the computed normalised value *)
Lemma TR_sign dz w : 0 <= dz <= 1 - / 1024 -> generic_format radix2 fexp dz -> generic_format radix2 fexp w -> -1 <= w <= 1 ->
  (TR dz w < 0 <-> w < - dz) /\ (0 < TR dz w <-> dz < w) /\ (TR dz w = 0 <-> Rabs w <= dz).
Proof.
  intros Hdz Gd Gw Hw.
  destruct (Rle_lt_dec (Rabs w) dz) as [I|O].
  - pose proof (TR_zero dz w (proj1 Hdz) I) as Z. pose proof (Rabs_le_inv _ _ I) as I'. rewrite Z. repeat split; intros; lra.
  - assert (O' : w < - dz \/ dz < w) by (unfold Rabs in O; destruct (Rcase_abs w); lra).
    destruct O' as [N|P].
    + pose proof (TR_strict_neg dz w Hdz Gd Gw ltac:(lra)). repeat split; intros; lra.
    + pose proof (TR_strict_pos dz w Hdz Gd Gw ltac:(lra)). repeat split; intros; lra.
Qed.

(* the same for the exact function *)
Lemma tail_R_sign dz w : 0 <= dz < 1 ->
  (tail_R dz w < 0 <-> w < - dz) /\ (0 < tail_R dz w <-> dz < w) /\ (tail_R dz w = 0 <-> Rabs w <= dz).
Proof.
  intro Hdz. assert (I : 0 < / (1 - dz)) by (apply Rinv_0_lt_compat; lra).
  assert (Ab : Rabs w <= dz <-> - dz <= w <= dz) by (split; [apply Rabs_le_inv|apply Rabs_le]).
  unfold tail_R, Rdiv. destruct (Rlt_bool_spec w 0) as [A|A].
  - destruct (Rlt_bool_spec (- dz) w) as [C|C].
    + rewrite Ab. repeat split; intros; lra.
    + rewrite Ab. destruct (Req_dec (w + dz) 0) as [E|E].
      * rewrite E, Rmult_0_l. repeat split; intros; lra.
      * assert ((w + dz) * / (1 - dz) < 0) by nra. repeat split; intros; lra.
  - destruct (Rlt_bool_spec w dz) as [C|C].
    + rewrite Ab. repeat split; intros; lra.
    + rewrite Ab. destruct (Req_dec (w - dz) 0) as [E|E].
      * rewrite E, Rmult_0_l. repeat split; intros; lra.
      * assert (0 < (w - dz) * / (1 - dz)) by nra. repeat split; intros; lra.
Qed.

(* the exact position is +-1 only at the end stops *)
Lemma tail_R_one dz w : 0 <= dz < 1 -> -1 <= w <= 1 -> (tail_R dz w = 1 -> w = 1) /\ (tail_R dz w = -1 -> w = -1).
Proof.
  intros Hdz Hw. assert (I : (1 - dz) * / (1 - dz) = 1) by (field; lra).
  assert (J : 0 < / (1 - dz)) by (apply Rinv_0_lt_compat; lra).
  unfold tail_R, Rdiv. destruct (Rlt_bool_spec w 0) as [A|A].
  - destruct (Rlt_bool_spec (- dz) w) as [C|C]; [split; intros; lra|]. split; intro E; nra.
  - destruct (Rlt_bool_spec w dz) as [C|C]; [split; intros; lra|]. split; intro E; nra.
Qed.

Lemma norm_R_range mn mx dzc raw : axis_dom mn mx dzc -> (mn <= raw <= mx)%Z -> -1 <= norm_R mn mx dzc raw <= 1.
Proof.
  intros Hd Hr. unfold norm_R. cbv zeta. destruct dzc.
  - assert (mn = 0%Z) by (apply Hd; reflexivity). subst mn. pose proof (QR_pos 0 mx true raw Hd ltac:(lia)). lra.
  - apply (QR_range mn mx false raw Hd Hr).
Qed.

Lemma QR_one mn mx dzc raw : axis_dom mn mx dzc -> (mn <= raw <= mx)%Z -> QR mn mx raw = 1 -> raw = mx.
Proof.
  intros Hd Hr E. destruct (Z_lt_le_dec raw 0) as [L|L].
  - pose proof (QR_neg mn mx dzc raw Hd ltac:(lia)). lra.
  - destruct Hd as (_&Hmx&_). unfold QR in E. replace (raw <? 0)%Z with false in E by (symmetry; apply Z.ltb_ge; lia).
    assert (0 < IZR mx) by (apply (IZR_lt 0); lia). rewrite Rabs_pos_eq in E by lra.
    apply eq_IZR. apply (Rmult_eq_reg_r (/ IZR mx)); [|apply Rinv_neq_0_compat; lra].
    rewrite Rinv_r by lra. exact E.
Qed.

Lemma QR_mone mn mx dzc raw : axis_dom mn mx dzc -> (mn <= raw <= mx)%Z -> QR mn mx raw = -1 -> raw = mn /\ (mn < 0)%Z.
Proof.
  intros Hd Hr E. destruct (Z_lt_le_dec raw 0) as [L|L].
  - destruct Hd as (Hmn&_&_). unfold QR in E. replace (raw <? 0)%Z with true in E by (symmetry; apply Z.ltb_lt; lia).
    assert (IZR mn < 0) by (apply (IZR_lt mn 0); lia). rewrite Rabs_left in E by lra.
    split; [|lia]. apply eq_IZR. assert (IZR raw = IZR raw / - IZR mn * - IZR mn) by (field; lra). rewrite E in H0. lra.
  - pose proof (QR_pos mn mx dzc raw Hd ltac:(lia)). lra.
Qed.

Lemma QR_zero mn mx dzc raw : axis_dom mn mx dzc -> (mn <= raw <= mx)%Z -> QR mn mx raw = 0 -> raw = 0%Z.
Proof.
  intros Hd Hr E. destruct Hd as (Hmn&Hmx&_). unfold QR in E.
  assert (Z : forall d, d <> 0 -> IZR raw / d = 0 -> raw = 0%Z).
  { intros d Hd' E'. apply eq_IZR. replace (IZR raw) with (IZR raw / d * d) by (field; exact Hd'). rewrite E'. ring. }
  destruct (Z.ltb_spec raw 0) as [L|L]; eapply Z; try exact E; apply Rabs_no_R0; apply not_0_IZR; lia.
Qed.

(* a finite float of real value 0 is one of the two zeros *)
Definition is_zero (x : f64) : Prop := x = B.B754_zero false \/ x = B.B754_zero true.

Lemma zero_float x : B.is_finite x = true -> B.B2R x = 0 -> is_zero x.
Proof.
  destruct x as [s| | |s m e Hb]; try discriminate; intros _ E.
  - destruct s; [right|left]; reflexivity.
  - exfalso. unfold B.B2R in E. apply eq_0_F2R in E. destruct s; discriminate.
Qed.

(* ---------------------------------------------------------------------- the exact half: an unsigned axis at mid-position *)
(* halving commutes with rounding (no underflow in sight) *)
Lemma rnd_half x : bpow radix2 (-1000) <= Rabs x -> rnd (x * bpow radix2 (-1)) = rnd x * bpow radix2 (-1).
Proof.
  intro H. assert (Nz : x <> 0).
  { intro E. rewrite E, Rabs_R0 in H. pose proof (bpow_gt_0 radix2 (-1000)). lra. }
  pose proof (mag_gt_bpow radix2 x (-1000) H) as M.
  unfold round, F2R, scaled_mantissa, cexp. cbn [Fnum Fexp]. rewrite (mag_mult_bpow radix2 x (-1) Nz).
  replace (fexp (mag radix2 x + -1)) with (fexp (mag radix2 x) + -1)%Z by (unfold FLT_exp; lia).
  replace (x * bpow radix2 (-1) * bpow radix2 (- (fexp (mag radix2 x) + -1)))
    with (x * bpow radix2 (- fexp (mag radix2 x))).
  - rewrite bpow_plus. ring.
  - rewrite Rmult_assoc, <- bpow_plus. f_equal. f_equal. lia.
Qed.

Lemma odd_pow_div (s : nat) : forall A mx raw : Z,
  Z.odd A = true -> (A * mx = 2 ^ Z.of_nat s * raw)%Z -> exists j, mx = (2 ^ Z.of_nat s * j)%Z.
Proof.
  induction s as [|s IH]; intros A mx raw Ho E.
  - exists mx. change (2 ^ Z.of_nat 0)%Z with 1%Z. lia.
  - rewrite Nat2Z.inj_succ, Z.pow_succ_r in * by lia.
    assert (Ev : Z.even (A * mx) = true).
    { rewrite E, <- Z.mul_assoc, Z.even_mul. reflexivity. }
    rewrite Z.even_mul in Ev. rewrite <- Z.negb_odd, Ho in Ev. cbn in Ev.
    apply Z.even_spec in Ev. destruct Ev as [m' ->].
    destruct (IH A m' raw Ho ltac:(nia)) as [j ->]. exists j. ring.
Qed.

(* a quotient raw / mx (of 31-bit integers) that is a dyadic rational A / 2^n is representable *)
Lemma dyadic_quotient_generic (n : nat) : forall A raw mx : Z,
  (0 < mx < 2 ^ 31)%Z -> (0 <= raw <= mx)%Z -> (A * mx = 2 ^ Z.of_nat n * raw)%Z ->
  generic_format radix2 fexp (IZR raw / IZR mx).
Proof.
  induction n as [|n IH]; intros A raw mx Hmx Hr E.
  - change (2 ^ Z.of_nat 0)%Z with 1%Z in E. assert (raw = (A * mx)%Z) by lia. subst raw.
    assert (0 < IZR mx) by (apply (IZR_lt 0); lia).
    replace (IZR (A * mx) / IZR mx) with (IZR A) by (rewrite mult_IZR; field; lra).
    apply generic_int. assert (0 <= A <= 1)%Z by nia. lia.
  - destruct (Z.odd A) eqn:Ho.
    + destruct (odd_pow_div (S n) A mx raw Ho E) as [j Ej].
      set (P := (2 ^ Z.of_nat (S n))%Z) in *.
      assert (Pp : (0 < P)%Z) by (apply Z.pow_pos_nonneg; lia).
      assert (Hj : (0 < j)%Z) by nia.
      assert (Er : raw = (A * j)%Z) by (subst mx; nia). subst mx raw.
      assert (Pn : (Z.of_nat (S n) <= 30)%Z).
      { apply Z.lt_succ_r. apply (Z.pow_lt_mono_r_iff 2); [lia|lia|]. fold P. change (2 ^ Z.succ 30)%Z with (2 ^ 31)%Z. nia. }
      assert (HA : (0 <= A <= P)%Z) by nia.
      assert (0 < IZR j) by (apply (IZR_lt 0); lia). assert (0 < IZR P) by (apply (IZR_lt 0); lia).
      replace (IZR (A * j) / IZR (P * j)) with (F2R (Float radix2 A (- Z.of_nat (S n)))).
      * apply generic_format_FLT. exists (Float radix2 A (- Z.of_nat (S n))); [reflexivity| |]; cbn [Fnum Fexp].
        -- apply Z.le_lt_trans with P; [lia|]. apply Z.le_lt_trans with (2 ^ 30)%Z; [|reflexivity].
           unfold P. apply Z.pow_le_mono_r; lia.
        -- lia.
      * unfold F2R. cbn [Fnum Fexp]. rewrite bpow_opp, <- IZR_Zpower by lia. change (radix_val radix2) with 2%Z. fold P.
        rewrite !mult_IZR. field. split; lra.
    + assert (Ev : Z.even A = true) by (rewrite <- Z.negb_odd, Ho; reflexivity).
      apply Z.even_spec in Ev. destruct Ev as [A' ->].
      apply (IH A' raw mx Hmx Hr). rewrite Nat2Z.inj_succ, Z.pow_succ_r in E by lia. nia.
Qed.

(* raw / mx = (1 + dz) / 2 for a float dz: raw / mx is itself a float *)
Lemma half_point_generic dz raw mx : generic_format radix2 fexp dz -> (0 < mx < 2 ^ 31)%Z -> (0 <= raw <= mx)%Z ->
  IZR raw / IZR mx = (1 + dz) / 2 -> generic_format radix2 fexp (IZR raw / IZR mx).
Proof.
  intros Gd Hmx Hr E. apply (FLT_format_generic radix2 (3 - 1024 - 53) 53) in Gd. destruct Gd as [[m e] Ed _ He].
  cbn [Fnum Fexp] in *. unfold F2R in Ed. cbn [Fnum Fexp] in Ed.
  apply (dyadic_quotient_generic 1075 (2 ^ 1074 + m * 2 ^ (e + 1074))%Z raw mx Hmx Hr).
  apply eq_IZR. assert (0 < IZR mx) by (apply (IZR_lt 0); lia).
  rewrite !mult_IZR, plus_IZR, mult_IZR.
  change (Z.of_nat 1075) with 1075%Z.
  change 2%Z with (radix_val radix2). rewrite !IZR_Zpower by lia.
  replace (bpow radix2 (e + 1074)) with (bpow radix2 e * bpow radix2 1074) by (rewrite <- bpow_plus; reflexivity).
  replace (bpow radix2 1075) with (2 * bpow radix2 1074) by (change 1075%Z with (1 + 1074)%Z; rewrite bpow_plus; reflexivity).
  assert (IZR raw = (1 + IZR m * bpow radix2 e) / 2 * IZR mx).
  { rewrite <- Ed, <- E. field. lra. }
  rewrite H0. field.
Qed.

Lemma half_float x : B.is_finite x = true -> B.B2R x = / 2 -> x = fhalf.
Proof.
  intros Hf E. destruct fhalf_correct as (F1&F2). apply B.B2R_inj.
  - apply B.is_finite_strict_B2R. rewrite E. lra.
  - apply B.is_finite_strict_B2R. rewrite F1. lra.
  - rewrite E, F1. reflexivity.
Qed.

(* an unsigned axis whose exact position is 1/2 is shaped to exactly 0.5 *)
Lemma shape_half mx dz raw : axis_dom 0 mx false -> dz_dom dz -> (0 <= raw <= mx)%Z ->
  shape_R 0 mx false (B.B2R dz) raw = / 2 -> fst (shape 0 mx false dz raw) = fhalf.
Proof.
  intros Hd Hdz Hr E.
  destruct (shape_ok 0 mx false dz raw Hd Hdz Hr) as [S1 S2]. apply half_float; [exact S2|]. rewrite S1.
  destruct Hdz as [Hf Hdz]. set (d := B.B2R dz) in *.
  pose proof (QR_pos 0 mx false raw Hd Hr) as Q.
  unfold shape_R, norm_R, tail_R in E. cbv zeta in E. unfold NR. cbv zeta.
  set (w := QR 0 mx raw) in *.
  rewrite Rlt_bool_false in E by lra.
  assert (I : (1 - d) * / (1 - d) = 1) by (field; lra).
  assert (W : w = (1 + d) / 2).
  { destruct (Rlt_bool_spec w d) as [C|C]; [lra|]. unfold Rdiv in E. nra. }
  assert (Gw : generic_format radix2 fexp w).
  { destruct Hd as (_&Hmx&_). assert (0 < IZR mx) by (apply (IZR_lt 0); lia).
    assert (Ew : w = IZR raw / IZR mx).
    { unfold w, QR. replace (raw <? 0)%Z with false by (symmetry; apply Z.ltb_ge; lia). rewrite Rabs_pos_eq by lra. reflexivity. }
    rewrite Ew. apply (half_point_generic d raw mx); [apply (B.generic_format_B2R 53 1024)|exact Hmx|exact Hr|].
    rewrite <- Ew. exact W. }
  rewrite (rnd_id w Gw). rewrite TR_nonneg_eq by lra. rewrite Rlt_bool_false by lra. unfold PR.
  destruct (d_facts d Hdz) as [[D0 D1] _].
  replace (w - d) with ((1 - d) * bpow radix2 (-1)) by (rewrite W; simpl; lra).
  rewrite rnd_half.
  - replace (rnd (1 - d) * bpow radix2 (-1) / rnd (1 - d)) with (bpow radix2 (-1)) by (field; lra).
    rewrite rnd_bpow by lia. simpl. lra.
  - rewrite Rabs_pos_eq by lra. apply Rle_trans with (bpow radix2 (-10)); [apply bpow_le; lia|simpl; lra].
Qed.

(* ---------------------------------------------------------------------- what is transmitted for the closed floats *)
Definition pzero : f64 := B.B754_zero false.
Definition nzero : f64 := B.B754_zero true.

Lemma table_one : forall k c, tx_int k c f1 = full k.
Proof. intros [] []; vm_compute; reflexivity. Qed.

Lemma table_mone : tx_int KCCuni true fm1 = 0%Z /\ tx_int KCCbidi true fm1 = 127%Z /\ tx_int KPB true fm1 = 0%Z.
Proof. vm_compute. repeat split. Qed.

Lemma table_zero z : is_zero z ->
  tx_int KCCuni true z = 63%Z /\ tx_int KCCbidi true z = 0%Z /\ tx_int KPB true z = 8192%Z /\
  tx_int KCCuni false z = 0%Z /\ tx_int KCCbidi false z = 127%Z /\ tx_int KPB false z = 0%Z.
Proof. intros [->| ->]; vm_compute; repeat split. Qed.

Lemma table_half :
  tx_int KCCuni false fhalf = 63%Z /\ tx_int KCCbidi false fhalf = 0%Z /\ tx_int KPB false fhalf = 8192%Z.
Proof. vm_compute. repeat split. Qed.

(* flips of the closed floats *)
Lemma flips_closed :
  fneg f1 = fm1 /\ fneg fm1 = f1 /\ fsub f1 f1 = pzero /\ fsub f1 pzero = f1 /\ fsub f1 nzero = f1 /\
  fneg pzero = nzero /\ fneg nzero = pzero /\ fsub f1 fhalf = fhalf.
Proof. repeat split; apply B.B2SF_inj; vm_compute; reflexivity. Qed.

(* ====================================================================== exact hits of the exact function: what the float code gives *)
Lemma dz_generic (dz : f64) : generic_format radix2 fexp (B.B2R dz).
Proof. apply (B.generic_format_B2R 53 1024). Qed.

Lemma dz_dom_lt (dz : f64) : dz_dom dz -> B.is_finite dz = true /\ 0 <= B.B2R dz < 1.
Proof. intros [H1 H2]. split; [exact H1|lra]. Qed.

Lemma shape_one mn mx dzc dz raw : axis_dom mn mx dzc -> dz_dom dz -> (mn <= raw <= mx)%Z ->
  shape_R mn mx dzc (B.B2R dz) raw = 1 -> fst (shape mn mx dzc dz raw) = f1.
Proof.
  intros Hd Hdz Hr E. destruct (dz_dom_lt dz Hdz) as [Hf Hlt].
  destruct (tail_R_one (B.B2R dz) _ Hlt (norm_R_range mn mx dzc raw Hd Hr)) as [W _]. specialize (W E).
  assert (Q : QR mn mx raw = 1) by (unfold norm_R in W; cbv zeta in W; destruct dzc; lra).
  rewrite (QR_one mn mx dzc raw Hd Hr Q). apply endstop_max; [apply Hd|exact Hf|exact Hlt].
Qed.

Lemma shape_mone mn mx dzc dz raw : axis_dom mn mx dzc -> dz_dom dz -> (mn <= raw <= mx)%Z ->
  shape_R mn mx dzc (B.B2R dz) raw = -1 -> fst (shape mn mx dzc dz raw) = fm1.
Proof.
  intros Hd Hdz Hr E. destruct (dz_dom_lt dz Hdz) as [Hf Hlt].
  destruct (tail_R_one (B.B2R dz) _ Hlt (norm_R_range mn mx dzc raw Hd Hr)) as [_ W]. specialize (W E).
  unfold norm_R in W. cbv zeta in W. destruct dzc.
  - assert (mn = 0%Z) by (apply Hd; reflexivity). subst mn.
    assert (Q : QR 0 mx raw = 0) by lra. rewrite (QR_zero 0 mx true raw Hd Hr Q).
    apply endstop_min_centred; [apply Hd|exact Hf|exact Hlt].
  - destruct (QR_mone mn mx false raw Hd Hr W) as [-> L]. apply endstop_min; [destruct Hd as (Hmn&_); lia|exact Hf|exact Hlt].
Qed.

(* the float code decides "inside the deadzone" whenever the exact function does: automatic without deadzone_at_center
   (the normalised value is one correctly rounded quotient and the deadzone is a float), a hypothesis with it *)
Definition zero_agree (mn mx : Z) (dzc : bool) (dz : R) (raw : Z) : Prop :=
  Rabs (norm_R mn mx dzc raw) <= dz -> Rabs (NR mn mx dzc raw) <= dz.

Lemma zero_agree_plain mn mx dz raw : generic_format radix2 fexp dz -> zero_agree mn mx false dz raw.
Proof.
  intros G H. unfold NR, norm_R in *. cbv zeta in *. apply Rabs_le_inv in H. apply Rabs_le. split.
  - rewrite <- (rnd_id (- dz)) by (apply generic_format_opp; exact G). apply rnd_le. lra.
  - rewrite <- (rnd_id dz G). apply rnd_le. lra.
Qed.

Lemma shape_zero mn mx dzc dz raw : axis_dom mn mx dzc -> dz_dom dz -> (mn <= raw <= mx)%Z ->
  zero_agree mn mx dzc (B.B2R dz) raw ->
  shape_R mn mx dzc (B.B2R dz) raw = 0 -> is_zero (fst (shape mn mx dzc dz raw)).
Proof.
  intros Hd Hdz Hr Ha E. destruct (dz_dom_lt dz Hdz) as [Hf Hlt].
  destruct (shape_ok mn mx dzc dz raw Hd Hdz Hr) as [S1 S2]. apply zero_float; [exact S2|]. rewrite S1.
  apply TR_zero; [lra|]. apply Ha. apply (tail_R_sign (B.B2R dz) _ Hlt). exact E.
Qed.

Lemma shape_R_range mn mx dzc dz raw : axis_dom mn mx dzc -> 0 <= dz < 1 -> (mn <= raw <= mx)%Z ->
  -1 <= shape_R mn mx dzc dz raw <= 1 /\ ((dzc || (mn <? 0)%Z)%bool = false -> 0 <= shape_R mn mx dzc dz raw).
Proof.
  intros Hd Hdz Hr. pose proof (norm_R_range mn mx dzc raw Hd Hr) as N. unfold shape_R.
  assert (M1 : tail_R dz (-1) = -1).
  { unfold tail_R. rewrite Rlt_bool_true by lra. rewrite Rlt_bool_false by lra. field. lra. }
  assert (P1 : tail_R dz 1 = 1).
  { unfold tail_R. rewrite Rlt_bool_false by lra. rewrite Rlt_bool_false by lra. field. lra. }
  split.
  - split.
    + apply Rle_trans with (tail_R dz (-1)); [lra|apply tail_R_mono; lra].
    + apply Rle_trans with (tail_R dz 1); [apply tail_R_mono; lra|lra].
  - intro C. destruct dzc; [discriminate|]. cbn [orb] in C. apply Z.ltb_ge in C.
    assert (mn = 0%Z) by (destruct Hd as (Hmn&_); lia). subst mn.
    pose proof (QR_pos 0 mx false raw Hd Hr) as Q. unfold norm_R. cbv zeta.
    destruct (tail_R_sign dz (QR 0 mx raw) Hdz) as (S1&_&_).
    destruct (Rle_lt_dec 0 (tail_R dz (QR 0 mx raw))) as [G|L]; [exact G|]. apply S1 in L. lra.
Qed.

(* ---------------------------------------------------------------------- the flipped value at the exact hits *)
Section Hits.
Variables (mn mx : Z) (dzc flip : bool) (dz : f64) (raw : Z).
Hypothesis Hd : axis_dom mn mx dzc.
Hypothesis Hdz : dz_dom dz.
Hypothesis Hr : (mn <= raw <= mx)%Z.

Let c := (dzc || (mn <? 0)%Z)%bool.
Let v := fst (shape mn mx dzc dz raw).
Let x := flip_value flip c v.
Let ps := shape_R mn mx dzc (B.B2R dz) raw.
Let P := flip_R flip c ps.

Lemma unsigned_plain : c = false -> dzc = false /\ mn = 0%Z.
Proof.
  unfold c. intro C. destruct dzc; [discriminate|]. cbn [orb] in C. apply Z.ltb_ge in C.
  split; [reflexivity|]. destruct Hd as (Hmn&_). lia.
Qed.

Lemma ps_range : -1 <= ps <= 1 /\ (c = false -> 0 <= ps).
Proof. apply shape_R_range; [exact Hd|apply (dz_dom_lt dz Hdz)|exact Hr]. Qed.

Lemma is_zero_flip z : is_zero z -> is_zero (fneg z) /\ fsub f1 z = f1.
Proof.
  destruct flips_closed as (_&_&_&F4&F5&F6&F7&_). unfold pzero, nzero in *.
  intros [->| ->]; (split; [|assumption]); [right; exact F6|left; exact F7].
Qed.

Lemma value_class :
  (P = 1 -> x = f1) /\ (c = true -> P = -1 -> x = fm1) /\
  (zero_agree mn mx dzc (B.B2R dz) raw -> P = 0 -> is_zero x) /\ (c = false -> P = / 2 -> x = fhalf).
Proof.
  destruct flips_closed as (F1&F2&F3&F4&F5&F6&F7&F8). destruct ps_range as [R1 R2].
  pose proof (shape_one mn mx dzc dz raw Hd Hdz Hr) as L1. pose proof (shape_mone mn mx dzc dz raw Hd Hdz Hr) as Lm.
  pose proof (shape_zero mn mx dzc dz raw Hd Hdz Hr) as Lz. fold ps v in L1, Lm, Lz.
  assert (Lh : c = false -> ps = / 2 -> v = fhalf).
  { intros C E. destruct (unsigned_plain C) as [D M]. unfold v, ps in E |- *. generalize Hd Hr. revert E.
    rewrite D, M. intros E Hd' Hr'. apply shape_half; assumption. }
  assert (Za : c = false -> zero_agree mn mx dzc (B.B2R dz) raw).
  { intro C. destruct (unsigned_plain C) as [D M]. rewrite D. apply zero_agree_plain. apply dz_generic. }
  unfold P, x, flip_R, flip_value. destruct flip, c eqn:C.
  - (* signed, flipped *) repeat split.
    + intro E. rewrite (Lm ltac:(lra)). exact F2.
    + intros _ E. rewrite (L1 ltac:(lra)). exact F1.
    + intros A E. apply is_zero_flip. apply Lz; [exact A|lra].
    + discriminate.
  - (* unsigned, flipped *) specialize (R2 eq_refl). repeat split.
    + intro E. apply (is_zero_flip v). apply Lz; [apply Za; reflexivity|lra].
    + discriminate.
    + intros _ E. rewrite (L1 ltac:(lra)). left. exact F3.
    + intros _ E. rewrite (Lh eq_refl ltac:(lra)). exact F8.
  - (* signed *) repeat split.
    + exact L1.
    + intros _. exact Lm.
    + exact Lz.
    + discriminate.
  - (* unsigned *) repeat split.
    + exact L1.
    + discriminate.
    + exact Lz.
    + intros _. apply Lh. reflexivity.
Qed.

Lemma x_ok : B.is_finite x = true /\ in_range c (B.B2R x) /\ - (16385 * u) <= B.B2R x - P <= 16385 * u.
Proof.
  pose proof (shape_in_range mn mx dzc dz raw Hd Hdz Hr) as Hin. rewrite shape_snd in Hin. fold c v in Hin.
  destruct (shape_finite_range mn mx dzc dz raw Hd Hdz Hr) as [Hf _]. fold v in Hf.
  pose proof (shape_accuracy mn mx dzc dz raw Hd Hdz Hr) as Ha. fold v ps in Ha.
  replace (bpow radix2 (-39)) with (16384 * u) in Ha by (rewrite u_val; simpl; lra).
  destruct (flip_ok flip c v Hf Hin) as [F1 F2]. fold x in F1, F2.
  split; [exact F2|]. rewrite F1. split; [apply FR_range; exact Hin|].
  pose proof (FR_acc flip c _ _ _ Hin (Rabs_le_inv _ _ Ha)) as Fa. unfold P. lra.
Qed.

(* the middle of a unidirectional controller on a signed / centred axis: 63, also when the float code computes a
   position that is not exactly zero *)
Lemma uni_mid : c = true -> P = 0 -> tx_int KCCuni c x = 63%Z.
Proof.
  intros C E. destruct x_ok as (Xf&Xr&Xa). rewrite (tx_int_ok KCCuni c x Xf Xr). rewrite C in *. unfold TXR, in_range in *.
  destruct (HR_facts _ Xr) as [Hh He]. pose proof u_val as U. pose proof (rnd_err_128 (127 * HR (B.B2R x)) ltac:(lra)) as Re.
  unfold CCR. apply Zfloor_imp. change (IZR 63) with 63. change (IZR (63 + 1)) with 64. lra.
Qed.

(* a tiny argument gives controller value 0 *)
Lemma tiny_cc a : 0 <= a <= 65536 * u -> CCR a = 0%Z.
Proof.
  intro H. pose proof u_val as U. pose proof (rnd_err_128 (127 * a) ltac:(lra)) as Re.
  assert (0 <= rnd (127 * a)) by (apply rnd_nonneg; lra).
  unfold CCR. apply Zfloor_imp. change (IZR 0) with 0. change (IZR (0 + 1)) with 1. lra.
Qed.

(* a pair: a position within 2^-38 of the rest value (0 on a signed / centred axis, 1/2 on an unsigned one) is transmitted as 0 *)
Lemma pair_zero_signed : c = true -> - (16385 * u) <= B.B2R x <= 16385 * u -> tx_int KCCbidi c x = 0%Z.
Proof.
  intros C H. destruct x_ok as (Xf&Xr&_). rewrite (tx_int_ok KCCbidi c x Xf Xr). rewrite C. unfold TXR.
  apply tiny_cc. pose proof u_pos. split; [apply Rabs_pos|]. apply Rle_trans with (16385 * u); [apply Rabs_le; lra|lra].
Qed.

Lemma pair_zero_unsigned : c = false -> - (16385 * u) <= B.B2R x - / 2 <= 16385 * u -> tx_int KCCbidi c x = 0%Z.
Proof.
  intros C H. destruct x_ok as (Xf&Xr&_). rewrite (tx_int_ok KCCbidi c x Xf Xr). rewrite C in *. unfold TXR, in_range in *.
  destruct (CR_facts _ Xr) as [_ Ce]. pose proof u_pos.
  apply tiny_cc. split; [apply Rabs_pos|]. apply Rle_trans with (32773 * u); [apply Rabs_le; lra|lra].
Qed.

(* ... hence whenever the float code addresses the other side than the exact function, the value is 0 *)
Lemma side_or_zero :
  tx_int KCCbidi c x <> 0%Z ->
  if c then (P < 0 <-> B.B2R x < 0) else (P < / 2 <-> B.B2R x < / 2).
Proof.
  intro T. destruct x_ok as (_&_&Xa). pose proof u_pos. assert (Cc : {c = true} + {c = false}) by (destruct c; auto).
  destruct Cc as [C|C]; rewrite C.
  - split; intro Hs.
    + destruct (Rlt_le_dec (B.B2R x) 0) as [L|L]; [exact L|exfalso]. apply T. apply pair_zero_signed; [exact C|lra].
    + destruct (Rlt_le_dec P 0) as [L|L]; [exact L|exfalso]. apply T. apply pair_zero_signed; [exact C|lra].
  - split; intro Hs.
    + destruct (Rlt_le_dec (B.B2R x) (/ 2)) as [L|L]; [exact L|exfalso]. apply T. apply pair_zero_unsigned; [exact C|lra].
    + destruct (Rlt_le_dec P (/ 2)) as [L|L]; [exact L|exfalso]. apply T. apply pair_zero_unsigned; [exact C|lra].
Qed.

Lemma hits k : (k = KPB -> zero_agree mn mx dzc (B.B2R dz) raw) ->
  let E := scaled_R k c P in let t := tx_int k c x in
  (E = 0 -> t = 0%Z) /\
  match k with
  | KPB => (E = 16383 -> t = 16383%Z) /\ (E * 2 = 16383 -> t = 8192%Z)
  | KCCuni => (E = 127 -> t = 127%Z) /\ (E * 2 = 127 -> t = 63%Z)
  | KCCbidi => E = 127 -> t = 127%Z
  end.
Proof.
  intro Hz. cbv zeta. destruct value_class as (V1&Vm&V0&Vh). destruct ps_range as [R1 R2].
  assert (PR : -1 <= P <= 1 /\ (c = false -> 0 <= P <= 1)).
  { unfold P, flip_R. destruct flip, c; split; try lra; intro; try discriminate; specialize (R2 eq_refl); lra. }
  destruct PR as [PR1 PR2].
  assert (Za : c = false -> zero_agree mn mx dzc (B.B2R dz) raw).
  { intro C. destruct (unsigned_plain C) as [D M]. rewrite D. apply zero_agree_plain. apply dz_generic. }
  pose proof (table_one) as T1. destruct table_mone as (M1&M2&M3). pose proof table_zero as T0.
  destruct table_half as (H1&H2&H3).
  assert (Cc : {c = true} + {c = false}) by (destruct c; auto).
  unfold scaled_R. destruct k; destruct Cc as [C|C]; rewrite C.
  - (* unidirectional, signed *) repeat split; intro E.
    + rewrite (Vm C ltac:(lra)). exact M1.
    + rewrite (V1 ltac:(lra)). apply (T1 KCCuni true).
    + rewrite <- C. apply uni_mid; [exact C|lra].
  - (* unidirectional, unsigned *) repeat split; intro E.
    + apply (T0 x). apply V0; [apply Za; exact C|lra].
    + rewrite (V1 ltac:(lra)). apply (T1 KCCuni false).
    + rewrite (Vh C ltac:(lra)). exact H1.
  - (* pair, signed *) split; intro E.
    + assert (P = 0) by (unfold Rabs in E; destruct (Rcase_abs P); lra).
      rewrite <- C. apply pair_zero_signed; [exact C|]. destruct x_ok as (_&_&Xa). lra.
    + assert (P = 1 \/ P = -1) as [Q|Q] by (unfold Rabs in E; destruct (Rcase_abs P); [right|left]; lra).
      * rewrite (V1 Q). apply (T1 KCCbidi true).
      * rewrite (Vm C Q). exact M2.
  - (* pair, unsigned *) specialize (PR2 C). split; intro E.
    + assert (P = / 2) by (unfold Rabs in E; destruct (Rcase_abs (P * 2 - 1)); lra).
      rewrite (Vh C H). exact H2.
    + assert (P = 1 \/ P = 0) as [Q|Q] by (unfold Rabs in E; destruct (Rcase_abs (P * 2 - 1)); [right|left]; lra).
      * rewrite (V1 Q). apply (T1 KCCbidi false).
      * apply (T0 x). apply V0; [apply Za; exact C|exact Q].
  - (* pitch bend, signed *) repeat split; intro E.
    + rewrite (Vm C ltac:(lra)). exact M3.
    + rewrite (V1 ltac:(lra)). apply (T1 KPB true).
    + apply (T0 x). apply V0; [apply Hz; reflexivity|lra].
  - (* pitch bend, unsigned *) repeat split; intro E.
    + apply (T0 x). apply V0; [apply Za; exact C|lra].
    + rewrite (V1 ltac:(lra)). apply (T1 KPB false).
    + rewrite (Vh C ltac:(lra)). exact H3.
Qed.
End Hits.

(* ---------------------------------------------------------------------- the side of a bidirectional pair *)
Lemma NR_weak_sign mn mx dzc raw : axis_dom mn mx dzc -> (mn <= raw <= mx)%Z ->
  (0 <= norm_R mn mx dzc raw -> 0 <= NR mn mx dzc raw) /\ (norm_R mn mx dzc raw <= 0 -> NR mn mx dzc raw <= 0).
Proof.
  intros Hd Hr. unfold norm_R, NR. cbv zeta. destruct dzc.
  - assert (Hh : rnd (/ 2) = / 2).
    { replace (/ 2) with (bpow radix2 (-1)) by (simpl; lra). apply rnd_bpow. lia. }
    split; intro H.
    + apply rnd_nonneg. assert (/ 2 <= rnd (QR mn mx raw)) by (rewrite <- Hh; apply rnd_le; lra).
      assert (1 <= rnd (rnd (QR mn mx raw) * 2)) by (rewrite <- rnd_1; apply rnd_le; lra). lra.
    + apply rnd_nonpos. assert (rnd (QR mn mx raw) <= / 2) by (rewrite <- Hh; apply rnd_le; lra).
      assert (rnd (rnd (QR mn mx raw) * 2) <= 1) by (apply rnd_le_1; lra). lra.
  - split; intro H; [apply rnd_nonneg|apply rnd_nonpos]; exact H.
Qed.

Lemma Rabs_le_iff a d : Rabs a <= d <-> - d <= a <= d.
Proof. split; [apply Rabs_le_inv|apply Rabs_le]. Qed.

(* on a signed / centred axis: the float position is negative exactly when the exact one is, provided the float code takes the
   deadzone decision of the exact function *)
Lemma side_signed mn mx dzc flip dz raw : axis_dom mn mx dzc -> dz_dom dz -> (mn <= raw <= mx)%Z ->
  (Rabs (norm_R mn mx dzc raw) <= B.B2R dz <-> Rabs (NR mn mx dzc raw) <= B.B2R dz) ->
  let v := fst (shape mn mx dzc dz raw) in
  (flip_R flip true (shape_R mn mx dzc (B.B2R dz) raw) < 0 <-> B.B2R (flip_value flip true v) < 0).
Proof.
  intros Hd Hdz Hr A. cbv zeta. destruct (dz_dom_lt dz Hdz) as [Hf Hlt].
  destruct (shape_ok mn mx dzc dz raw Hd Hdz Hr) as [S1 _].
  pose proof (NR_range mn mx dzc raw Hd Hr) as Nr.
  destruct (TR_sign (B.B2R dz) (NR mn mx dzc raw) (proj2 Hdz) (dz_generic dz) (NR_generic mn mx dzc raw) Nr) as (F1&F2&_).
  destruct (tail_R_sign (B.B2R dz) (norm_R mn mx dzc raw) Hlt) as (E1&E2&_).
  destruct (NR_weak_sign mn mx dzc raw Hd Hr) as [W1 W2].
  rewrite !Rabs_le_iff in A. unfold shape_R.
  set (wr := norm_R mn mx dzc raw) in *. set (wf := NR mn mx dzc raw) in *. set (d := B.B2R dz) in *.
  assert (Neg : wr < - d <-> wf < - d).
  { split; intro H.
    - destruct (Rlt_le_dec wf (- d)) as [L|L]; [exact L|exfalso].
      assert (wf <= 0) by (apply W2; lra). assert (~ (- d <= wr <= d)) by lra. apply H1. apply A. lra.
    - destruct (Rlt_le_dec wr (- d)) as [L|L]; [exact L|exfalso].
      destruct (Rle_lt_dec wr d) as [I|O]; [assert (- d <= wf <= d) by (apply A; lra); lra|].
      assert (0 <= wf) by (apply W1; lra). lra. }
  assert (Pos : d < wr <-> d < wf).
  { split; intro H.
    - destruct (Rlt_le_dec d wf) as [L|L]; [exact L|exfalso].
      assert (0 <= wf) by (apply W1; lra). assert (~ (- d <= wr <= d)) by lra. apply H1. apply A. lra.
    - destruct (Rlt_le_dec d wr) as [L|L]; [exact L|exfalso].
      destruct (Rle_lt_dec (- d) wr) as [I|O]; [assert (- d <= wf <= d) by (apply A; lra); lra|].
      assert (wf <= 0) by (apply W2; lra). lra. }
  unfold flip_R, flip_value. destruct flip.
  - unfold fneg. rewrite B.B2R_Bopp, S1. split; intro H.
    + assert (0 < tail_R d wr) by lra. apply E2 in H0. apply Pos in H0. apply F2 in H0. lra.
    + assert (0 < TR d wf) by lra. apply F2 in H0. apply Pos in H0. apply E2 in H0. lra.
  - rewrite S1. rewrite E1, F1. exact Neg.
Qed.

(* ====================================================================== the monitor on the device model's messages *)
Definition wR (g : c06cfg) (raw : Z) : R := norm_R (q_mn g) (q_mx g) (q_dzc g) raw.      (* exact normalised position *)
Definition wF (g : c06cfg) (raw : Z) : R := NR (q_mn g) (q_mx g) (q_dzc g) raw.          (* computed normalised position *)
Definition exact_flipped (g : c06cfg) (raw : Z) : R :=
  flip_R (q_flip g) (cneg g) (shape_R (q_mn g) (q_mx g) (q_dzc g) (B.B2R (q_dz g)) raw).

(* The only residual hypothesis: a pitch-bend axis with deadzone_at_center - a position that the exact function puts inside
   the deadzone (exact position 0, so the monitor demands the centre 8192) is inside the deadzone for the float code as well.
   With deadzone_at_center the normalised value v * 2 - 1 is computed from the ROUNDED quotient, so at the very edge of the
   deadzone the two can disagree and the float code then transmits 8191 ([pb_centre_needed]).  Without deadzone_at_center
   the hypothesis holds by itself (the normalised value is one correctly rounded quotient and the deadzone is a float). *)
Definition pb_centre_agree (g : c06cfg) (raw : Z) : Prop :=
  q_kind g = KPB -> q_dzc g = true -> Rabs (wR g raw) <= B.B2R (q_dz g) -> Rabs (wF g raw) <= B.B2R (q_dz g).

Lemma pb_centre_agree_trivial g raw : q_kind g <> KPB \/ q_dzc g = false -> pb_centre_agree g raw.
Proof. intros [H|H] K D; congruence. Qed.

(* in terms of the exact function only: the exact normalised position is outside the deadzone, or at least 5 * 2^-53 inside *)
Lemma pb_centre_agree_margin g raw : cfg_dom g -> (q_mn g <= raw <= q_mx g)%Z ->
  B.B2R (q_dz g) < Rabs (wR g raw) \/ Rabs (wR g raw) <= B.B2R (q_dz g) - 5 * u -> pb_centre_agree g raw.
Proof.
  intros (Hd&_) Hr H _ _ I. pose proof (NR_acc _ _ _ raw Hd Hr) as A. fold (wR g raw) (wF g raw) in A.
  pose proof (Rabs_diff (wF g raw) (wR g raw) (5 * u) A) as B. destruct H as [O|M]; lra.
Qed.

Lemma fvalue_eq g raw :
  fvalue g raw = flip_value (q_flip g) (cneg g) (fst (shape (q_mn g) (q_mx g) (q_dzc g) (q_dz g) raw)).
Proof.
  unfold fvalue, cneg. pose proof (shape_snd (q_mn g) (q_mx g) (q_dzc g) (q_dz g) raw) as S.
  destruct (shape (q_mn g) (q_mx g) (q_dzc g) (q_dz g) raw) as [v canneg]. cbn [fst snd] in *. subst canneg. reflexivity.
Qed.

Lemma clause_ok e cq t n : (Q2R e = Q2R cq -> t = n) -> (if Qeq_bool e cq then (t =? n)%Z else true) = true.
Proof.
  intro H. destruct (Qeq_bool e cq) eqn:E; [|reflexivity]. apply Qeq_bool_R in E. rewrite (H E). apply Z.eqb_refl.
Qed.

Lemma Rlt_bool_iff a b c d : (a < b <-> c < d) -> Rlt_bool a b = Rlt_bool c d.
Proof.
  intro H. destruct (Rlt_bool_spec a b) as [L|L].
  - symmetry. apply Rlt_bool_true. apply H. exact L.
  - symmetry. apply Rlt_bool_false. destruct (Rle_lt_dec d c) as [G|G]; [exact G|]. apply H in G. lra.
Qed.

Lemma negQ_signed p : (Qle_bool p 0 && negb (Qeq_bool p 0))%bool = Rlt_bool (Q2R p) 0.
Proof.
  rewrite Qle_bool_R, Q2R_0. destruct (Rle_bool_spec (Q2R p) 0) as [L|L]; cbn.
  - destruct (Qeq_bool p 0) eqn:E; cbn.
    + apply Qeq_bool_R in E. rewrite Q2R_0 in E. symmetry. apply Rlt_bool_false. lra.
    + symmetry. apply Rlt_bool_true. destruct (Req_dec (Q2R p) 0) as [Z|Z]; [|lra].
      rewrite <- Q2R_0 in Z. apply Qeq_bool_R in Z. congruence.
  - symmetry. apply Rlt_bool_false. lra.
Qed.

Lemma negQ_unsigned p : (Qle_bool (p * 2) 1 && negb (Qeq_bool (p * 2) 1))%bool = Rlt_bool (Q2R p) (/ 2).
Proof.
  rewrite Qle_bool_R, Q2R_mult, Q2R_2, Q2R_1. destruct (Rle_bool_spec (Q2R p * 2) 1) as [L|L]; cbn.
  - destruct (Qeq_bool (p * 2) 1) eqn:E; cbn.
    + apply Qeq_bool_R in E. rewrite Q2R_mult, Q2R_2, Q2R_1 in E. symmetry. apply Rlt_bool_false. lra.
    + symmetry. apply Rlt_bool_true. destruct (Req_dec (Q2R p * 2) 1) as [Z|Z]; [|lra].
      assert (Q2R (p * 2) = Q2R 1) by (rewrite Q2R_mult, Q2R_2, Q2R_1; exact Z). apply Qeq_bool_R in H. congruence.
  - symmetry. apply Rlt_bool_false. lra.
Qed.

Theorem event_ok_general g raw : cfg_dom g -> (q_mn g <= raw <= q_mx g)%Z -> pb_centre_agree g raw ->
  c06_event_ok g raw (axis_msgs g raw) = true.
Proof.
  intros Hg Hr Ha. destruct Hg as (Hd&Hdz&Hc&Hn). assert (Hg : cfg_dom g) by exact (conj Hd (conj Hdz (conj Hc Hn))).
  destruct (dz_dom_lt _ Hdz) as [Hf Hlt].
  destruct (Q_of_f_R (q_dz g) Hf) as (dzq&Eq&Er).
  unfold c06_event_ok. rewrite Eq.
  destruct (exact_position_R (q_mn g) (q_mx g) (q_dzc g) (q_flip g) dzq raw Hd ltac:(rewrite Er; exact Hlt) Hr) as [P1 P2].
  destruct (exact_position (q_mn g) (q_mx g) (q_dzc g) (q_flip g) dzq raw) as [p cn]. cbn [fst snd] in P1, P2. subst cn.
  rewrite Er in P1. fold (cneg g) in *. fold (exact_flipped g raw) in P1.
  (* the exactness clauses *)
  assert (Hz : q_kind g = KPB -> zero_agree (q_mn g) (q_mx g) (q_dzc g) (B.B2R (q_dz g)) raw).
  { intro K. assert (Dd : {q_dzc g = true} + {q_dzc g = false}) by (destruct (q_dzc g); auto).
    destruct Dd as [D|D]; [exact (Ha K D)|]. rewrite D. apply zero_agree_plain. apply dz_generic. }
  pose proof (hits (q_mn g) (q_mx g) (q_dzc g) (q_flip g) (q_dz g) raw Hd Hdz Hr (q_kind g) Hz) as Hh.
  cbv zeta in Hh. fold (cneg g) in Hh. rewrite <- fvalue_eq in Hh. fold (exact_flipped g raw) in Hh. rewrite <- P1 in Hh.
  rewrite <- exact_scaled_R in Hh.
  (* within one step *)
  destruct (c06_general (q_kind g) (q_flip g) _ _ _ _ raw Hd Hdz Hr) as [_ Hw].
  destruct (fvalue_transmitted g raw) as [Tv _]. rewrite Tv in Hw. unfold exact_R in Hw. fold (cneg g) in Hw.
  fold (exact_flipped g raw) in Hw. rewrite <- P1, <- exact_scaled_R in Hw. apply within_one_R in Hw.
  (* the side, for a non-zero value *)
  destruct (fvalue_ok g raw Hg Hr) as [Xf Xr].
  destruct f0_correct as (Z1&Z2). destruct fhalf_correct as (F1&F2).
  pose proof (side_or_zero (q_mn g) (q_mx g) (q_dzc g) (q_flip g) (q_dz g) raw Hd Hdz Hr) as Sz.
  fold (cneg g) in Sz. rewrite <- fvalue_eq in Sz. fold (exact_flipped g raw) in Sz. rewrite <- P1 in Sz.
  assert (Side : tx_int KCCbidi (cneg g) (fvalue g raw) <> 0%Z ->
            fst (cc_encode (cneg g) true (fvalue g raw))
            = if cneg g then (Qle_bool p 0 && negb (Qeq_bool p 0))%bool
              else (Qle_bool (p * 2) 1 && negb (Qeq_bool (p * 2) 1))%bool).
  { intro T. specialize (Sz T). unfold cc_encode. destruct (cneg g); cbn [fst].
    - rewrite negQ_signed, (flt_correct _ f0 Xf Z2), Z1. symmetry. apply Rlt_bool_iff. exact Sz.
    - rewrite negQ_unsigned, (flt_correct _ fhalf Xf F2), F1. symmetry. apply Rlt_bool_iff. exact Sz. }
  pose proof (axis_msgs_eq g raw) as Em. cbv zeta in Em. rewrite Em. clear Em.
  pose proof (tx_int_bounds KPB g raw Hg Hr) as Pb. cbn [full] in Pb.
  pose proof (pb_bytes_value (centred (cneg g) (fvalue g raw)) Pb) as Pv.
  set (e := exact_scaled (q_kind g) (cneg g) p) in *.
  unfold tx_int in Hh, Hw, Side. destruct (q_kind g) eqn:K.
  - (* unidirectional controller *)
    change (tx_value [176%N; q_cc g; snd (cc_encode (cneg g) false (fvalue g raw))])
      with (Z.of_N (snd (cc_encode (cneg g) false (fvalue g raw)))).
    destruct Hh as (H0&H1&H2). rewrite Hw. cbn [andb].
    rewrite (clause_ok e 0 _ 0) by (rewrite Q2R_0; exact H0).
    rewrite (clause_ok e 127 _ 127) by (rewrite Q2R_127; exact H1).
    rewrite (clause_ok (e * 2) 127 _ 63) by (rewrite Q2R_mult, Q2R_2, Q2R_127; exact H2).
    cbn [andb]. rewrite !N.eqb_refl. reflexivity.
  - (* pair *)
    destruct Hh as (H0&H1).
    set (b := snd (cc_encode (cneg g) true (fvalue g raw))) in *.
    set (negq := if cneg g then (Qle_bool p 0 && negb (Qeq_bool p 0))%bool
                 else (Qle_bool (p * 2) 1 && negb (Qeq_bool (p * 2) 1))%bool) in *.
    destruct (Z.eqb_spec (Z.of_N b) 0) as [Tz|Tz].
    + (* value 0: either controller of the pair *)
      destruct (fst (cc_encode (cneg g) true (fvalue g raw)));
        change (tx_value [176%N; _; b]) with (Z.of_N b); rewrite Hw; cbn [andb];
        rewrite (clause_ok e 0 _ 0) by (rewrite Q2R_0; exact H0);
        rewrite (clause_ok e 127 _ 127) by (rewrite Q2R_127; exact H1);
        rewrite Tz; cbn [andb Z.eqb orb]; rewrite !N.eqb_refl, ?orb_true_r; reflexivity.
    + rewrite (Side Tz). destruct negq;
        change (tx_value [176%N; _; b]) with (Z.of_N b); rewrite Hw; cbn [andb];
        rewrite (clause_ok e 0 _ 0) by (rewrite Q2R_0; exact H0);
        rewrite (clause_ok e 127 _ 127) by (rewrite Q2R_127; exact H1);
        cbn [andb]; rewrite !N.eqb_refl, ?orb_true_r; reflexivity.
  - (* pitch bend *)
    rewrite tx_value_pb, Pv.
    destruct Hh as (H0&H1&H2). rewrite Hw. cbn [andb].
    rewrite (clause_ok e 0 _ 0) by (rewrite Q2R_0; exact H0).
    rewrite (clause_ok e 16383 _ 16383) by (rewrite Q2R_16383; exact H1).
    rewrite (clause_ok (e * 2) 16383 _ 8192) by (rewrite Q2R_mult, Q2R_2, Q2R_16383; exact H2).
    reflexivity.
Qed.

(* ====================================================================== the corners *)
(* the side clause of the monitor before it was made conditional on a non-zero value *)
Definition strict_side (g : c06cfg) (raw : Z) (ms : list msg) : bool :=
  match Q_of_f (q_dz g), ms with
  | Some dz, [st; d1; _] :: _ =>
      let '(p, canneg) := exact_position (q_mn g) (q_mx g) (q_dzc g) (q_flip g) dz raw in
      let neg := if canneg then Qle_bool p 0%Q && negb (Qeq_bool p 0%Q)
                 else Qle_bool (p * 2)%Q 1%Q && negb (Qeq_bool (p * 2)%Q 1%Q) in
      (N.land st 240 =? CONTROL_CHANGE)%N && (d1 =? (if neg then q_ccneg g else q_cc g))%N
  | _, _ => false
  end.

(* deadzone 0.999 on a range of +-1000: raw = -999 normalises to -0.999, which rounds exactly onto the deadzone edge (the float
   0.999 is 8.9e-17 below 999/1000): the exact position is -8.9e-16 (negative side), the float code is inside the deadzone and
   addresses the positive controller - with value 0, and 0 on the negative one *)
Definition corner_signed : c06cfg := Build_c06cfg (-1000) 1000 false false KCCbidi (f_of_bits 4607173411600762667) 20 21.
(* the same with the flipped axis at the other end *)
Definition corner_signed_flip : c06cfg := Build_c06cfg (-1000) 1000 false true KCCbidi (f_of_bits 4607173411600762667) 20 21.
(* deadzone_at_center, deadzone 0.9764705882352941 (one unit in the last place below 249/255), raw = 3 of 0..255 *)
Definition corner_centred : c06cfg := Build_c06cfg 0 255 true false KCCbidi (f_of_bits 4606970484699905855) 20 21.
(* the half threshold of an unsigned pair: deadzone 0.003921568627450981 (next to 1/255), raw = 128 of 0..255 *)
Definition corner_half : c06cfg := Build_c06cfg 0 255 false false KCCbidi (f_of_bits 4571171282956062737) 20 21.

Definition corner_check (g : c06cfg) (raw : Z) : bool * bool * list msg :=
  (strict_side g raw (axis_msgs g raw), c06_event_ok g raw (axis_msgs g raw), axis_msgs g raw).

Lemma side_immaterial_at_zero :
  corner_check corner_signed (-999) = (false, true, [[176; 20; 0]; [176; 21; 0]]%N) /\
  corner_check corner_signed_flip 999 = (false, true, [[176; 20; 0]; [176; 21; 0]]%N) /\
  corner_check corner_centred 3 = (false, true, [[176; 20; 0]; [176; 21; 0]]%N) /\
  corner_check corner_half 128 = (false, true, [[176; 20; 0]; [176; 21; 0]]%N).
Proof. vm_compute. repeat split. Qed.

(* [pb_centre_agree] cannot be dropped: 0..12 with deadzone_at_center, flipped, deadzone 0.16666666666666669 (the float just
   above 1/6), raw = 7: the exact normalised position 2 * 7/12 - 1 = 1/6 is inside the deadzone (exact position 0, centre
   8192), the float code computes 2 * rnd(7/12) - 1 = 0.16666666666666674 outside it, position 6.7e-17, flipped -6.7e-17,
   and 16383 * ((1 - 6.7e-17) / 2) rounds to 8191 = (lsb 127, msb 63) *)
Definition corner_pb : c06cfg := Build_c06cfg 0 12 true true KPB (f_of_bits 4595172819793696086) 20 21.

Lemma pb_centre_needed :
  c06_event_ok corner_pb 7 (axis_msgs corner_pb 7) = false /\ axis_msgs corner_pb 7 = [[224; 127; 63]]%N.
Proof. vm_compute. split; reflexivity. Qed.

Lemma corner_dz_dom bits m e (Hb : SpecFloat.bounded 53 1024 m e = true) :
  f_of_bits bits = B.B754_finite false m e Hb -> (e < 0)%Z ->
  (IZR (Z.pos m) <= (1 - / 1024) * IZR (2 ^ (- e))) -> dz_dom (f_of_bits bits).
Proof.
  intros E He H. rewrite E. split; [reflexivity|]. unfold B.B2R, F2R. cbn [Fnum Fexp cond_Zopp].
  replace e with (- - e)%Z by lia. rewrite bpow_opp, <- IZR_Zpower by lia. change (radix_val radix2) with 2%Z.
  assert (0 < IZR (2 ^ (- e))) by (apply (IZR_lt 0); apply Z.pow_pos_nonneg; lia).
  assert (0 < IZR (Z.pos m)) by (apply (IZR_lt 0); reflexivity).
  assert (I : 0 < / IZR (2 ^ (- e))) by (apply Rinv_0_lt_compat; assumption).
  assert (J : IZR (2 ^ (- e)) * / IZR (2 ^ (- e)) = 1) by (field; lra).
  split; nra.
Qed.

Lemma corners_in_domain :
  cfg_dom corner_signed /\ cfg_dom corner_signed_flip /\ cfg_dom corner_centred /\ cfg_dom corner_half /\ cfg_dom corner_pb.
Proof.
  assert (D1 : dz_dom (f_of_bits 4607173411600762667)).
  { eapply (corner_dz_dom _ 8998192055486251 (-53) eq_refl); [apply B.B2SF_inj; vm_compute; reflexivity|lia|simpl; lra]. }
  assert (D2 : dz_dom (f_of_bits 4606970484699905855)).
  { eapply (corner_dz_dom _ 8795265154629439 (-53) eq_refl); [apply B.B2SF_inj; vm_compute; reflexivity|lia|simpl; lra]. }
  assert (D3 : dz_dom (f_of_bits 4571171282956062737)).
  { eapply (corner_dz_dom _ 4521260802379793 (-60) eq_refl); [apply B.B2SF_inj; vm_compute; reflexivity|lia|simpl; lra]. }
  assert (D4 : dz_dom (f_of_bits 4595172819793696086)).
  { eapply (corner_dz_dom _ 6004799503160662 (-55) eq_refl); [apply B.B2SF_inj; vm_compute; reflexivity|lia|simpl; lra]. }
  assert (A1 : axis_dom (-1000) 1000 false) by (unfold axis_dom; repeat split; try lia; discriminate).
  assert (A2 : axis_dom 0 255 true) by (unfold axis_dom; repeat split; lia).
  assert (A3 : axis_dom 0 255 false) by (unfold axis_dom; repeat split; try lia; discriminate).
  assert (A4 : axis_dom 0 12 true) by (unfold axis_dom; repeat split; lia).
  assert (C1 : (20 < 128)%N) by reflexivity. assert (C2 : (21 < 128)%N) by reflexivity.
  exact (conj (conj A1 (conj D1 (conj C1 C2))) (conj (conj A1 (conj D1 (conj C1 C2))) (conj (conj A2 (conj D2 (conj C1 C2)))
           (conj (conj A3 (conj D3 (conj C1 C2))) (conj A4 (conj D4 (conj C1 C2))))))).
Qed.

(* no hypothesis at all unless the axis is a pitch bend with deadzone_at_center *)
Corollary event_ok_plain g raw : cfg_dom g -> (q_mn g <= raw <= q_mx g)%Z -> q_kind g <> KPB \/ q_dzc g = false ->
  c06_event_ok g raw (axis_msgs g raw) = true.
Proof. intros Hg Hr H. apply event_ok_general; [exact Hg|exact Hr|]. apply pb_centre_agree_trivial. exact H. Qed.
