(* C06, general part (no grid), continued: the DEVICE MODEL's messages for an axis event ([axis_msgs], Model/AnalogSpec.v)
   carry the transmitted integer of Proofs/AnalogGeneral2.v; hence they are well-formed MIDI and monotone in the raw
   position for every configuration of the domain. *)
From Coq Require Import List NArith ZArith Bool Reals Lra Lia.
From Flocq Require Import Core.Core.
From Flocq Require IEEE754.BinarySingleNaN.
From HIDI Require Import Base.AList Model.Device Model.AnalogF Model.AnalogSpec Proofs.AnalogProofs Proofs.AnalogEndstop
  Proofs.AnalogGeneral Proofs.AnalogGeneral2.
Import ListNotations.

Definition cfg_dom (g : c06cfg) : Prop :=
  axis_dom (q_mn g) (q_mx g) (q_dzc g) /\ dz_dom (q_dz g) /\ (q_cc g < 128)%N /\ (q_ccneg g < 128)%N.

(* the flipped shaped value and the sign flag of configuration g at position raw *)
Definition fvalue (g : c06cfg) (raw : Z) : f64 :=
  let '(v, canneg) := shape (q_mn g) (q_mx g) (q_dzc g) (q_dz g) raw in flip_value (q_flip g) canneg v.
Definition cneg (g : c06cfg) : bool := (q_dzc g || (q_mn g <? 0)%Z)%bool.

Lemma make_sample_parts code a canneg v :
  sa_neg (make_sample code a canneg v) = fst (cc_encode canneg (a_bidi a) v) /\
  sa_ccv (make_sample code a canneg v) = snd (cc_encode canneg (a_bidi a) v) /\
  sa_lsb (make_sample code a canneg v) = fst (pb_bytes true (centred canneg v)) /\
  sa_msb (make_sample code a canneg v) = snd (pb_bytes true (centred canneg v)) /\
  sa_an (make_sample code a canneg v) = a.
Proof.
  unfold make_sample. destruct (cc_encode canneg (a_bidi a) v) as [neg ccv].
  destruct (pb_bytes true (centred canneg v)) as [lsb msb]. cbn. repeat split.
Qed.

(* what the device model emits for an axis event, from its initial state (channel 1, nothing learnt, nothing zeroed) *)
Lemma axis_msgs_eq g raw :
  let x := fvalue g raw in let c := cneg g in
  axis_msgs g raw =
  match q_kind g with
  | KCCuni => [[176; q_cc g; snd (cc_encode c false x)]]
  | KCCbidi => if fst (cc_encode c true x) then [[176; q_ccneg g; snd (cc_encode c true x)]; [176; q_cc g; 0]]
               else [[176; q_cc g; snd (cc_encode c true x)]; [176; q_ccneg g; 0]]
  | KPB => [[224; fst (pb_bytes true (centred c x)); snd (pb_bytes true (centred c x))]]
  end%N.
Proof.
  cbv zeta. unfold axis_msgs, fvalue, cneg. pose proof (shape_snd (q_mn g) (q_mx g) (q_dzc g) (q_dz g) raw) as S.
  destruct (shape (q_mn g) (q_mx g) (q_dzc g) (q_dz g) raw) as [v canneg]. cbn [snd] in S. subst canneg.
  set (c := (q_dzc g || (q_mn g <? 0)%Z)%bool). set (x := flip_value (q_flip g) c v).
  destruct (make_sample_parts 0 (analog_of g) c x) as (P1&P2&P3&P4&P5).
  unfold handle_sample, handle_cc. rewrite P5, ?P1, ?P2, ?P3, ?P4.
  unfold analog_of. destruct (q_kind g); cbn [a_type a_bidi a_off a_offneg a_cc a_ccneg learning init andb].
  - reflexivity.
  - destruct (fst (cc_encode c true x)); reflexivity.
  - reflexivity.
Qed.

Lemma fvalue_ok g raw : cfg_dom g -> (q_mn g <= raw <= q_mx g)%Z ->
  B.is_finite (fvalue g raw) = true /\ in_range (cneg g) (B.B2R (fvalue g raw)).
Proof.
  intros (Hd&Hdz&_) Hr. unfold fvalue, cneg.
  pose proof (shape_in_range _ _ _ _ raw Hd Hdz Hr) as Hin.
  destruct (shape_finite_range _ _ _ _ raw Hd Hdz Hr) as [Hf _].
  pose proof (shape_snd (q_mn g) (q_mx g) (q_dzc g) (q_dz g) raw) as S.
  destruct (shape (q_mn g) (q_mx g) (q_dzc g) (q_dz g) raw) as [v canneg]. cbn [fst snd] in *. subst canneg.
  destruct (flip_ok (q_flip g) _ v Hf Hin) as [F1 F2]. split; [exact F2|]. rewrite F1. apply FR_range. exact Hin.
Qed.

Lemma fvalue_transmitted g raw :
  transmitted (q_kind g) (q_flip g) (q_mn g) (q_mx g) (q_dzc g) (q_dz g) raw = tx_int (q_kind g) (cneg g) (fvalue g raw) /\
  transmitted_signed (q_kind g) (q_flip g) (q_mn g) (q_mx g) (q_dzc g) (q_dz g) raw
    = tx_signed (q_kind g) (cneg g) (fvalue g raw).
Proof.
  unfold transmitted, transmitted_signed, fvalue, cneg.
  pose proof (shape_snd (q_mn g) (q_mx g) (q_dzc g) (q_dz g) raw) as S.
  destruct (shape (q_mn g) (q_mx g) (q_dzc g) (q_dz g) raw) as [v canneg]. cbn [snd] in S. subst canneg. split; reflexivity.
Qed.

Lemma tx_int_bounds k g raw : cfg_dom g -> (q_mn g <= raw <= q_mx g)%Z ->
  (0 <= tx_int k (cneg g) (fvalue g raw) <= full k)%Z.
Proof.
  intros Hg Hr. destruct (fvalue_ok g raw Hg Hr) as [Hf Hin]. rewrite (tx_int_ok k _ _ Hf Hin). apply TXR_range. exact Hin.
Qed.

Lemma N_lt_128 n : (0 <= Z.of_N n <= 127)%Z -> (n <? 128)%N = true.
Proof. intro H. apply N.ltb_lt. lia. Qed.

(* ====================================================================== well-formed messages (C05's controller value) *)
Theorem axis_msgs_wf g raw : cfg_dom g -> (q_mn g <= raw <= q_mx g)%Z -> forallb wf_msgb (axis_msgs g raw) = true.
Proof.
  intros Hg Hr. pose proof (axis_msgs_eq g raw) as E. cbv zeta in E. rewrite E. clear E.
  destruct Hg as (Hd&Hdz&Hc&Hn). assert (Hg : cfg_dom g) by exact (conj Hd (conj Hdz (conj Hc Hn))).
  apply (proj2 (N.ltb_lt _ _)) in Hc. apply (proj2 (N.ltb_lt _ _)) in Hn.
  pose proof (tx_int_bounds KCCuni g raw Hg Hr) as U. pose proof (tx_int_bounds KCCbidi g raw Hg Hr) as Bd.
  unfold tx_int, full in U, Bd. apply N_lt_128 in U. apply N_lt_128 in Bd.
  destruct (pb_bytes_bound true (centred (cneg g) (fvalue g raw))) as [L M]. apply (proj2 (N.ltb_lt _ _)) in L. apply (proj2 (N.ltb_lt _ _)) in M.
  set (bu := snd (cc_encode (cneg g) false (fvalue g raw))) in *.
  set (bb := snd (cc_encode (cneg g) true (fvalue g raw))) in *.
  set (lsb := fst (pb_bytes true (centred (cneg g) (fvalue g raw)))) in *.
  set (msb := snd (pb_bytes true (centred (cneg g) (fvalue g raw)))) in *.
  clearbody bu bb lsb msb.
  destruct (q_kind g).
  - cbn. rewrite Hc, U. reflexivity.
  - destruct (fst (cc_encode (cneg g) true (fvalue g raw))); cbn; rewrite Hc, Hn, Bd; reflexivity.
  - cbn. rewrite L, M. reflexivity.
Qed.

Lemma tx_value_pb l m : tx_value [224%N; l; m] = (Z.of_N l + 128 * Z.of_N m)%Z.
Proof. unfold tx_value. change (N.land 224 240 =? PITCH_WHEEL)%N with true. cbv iota. lia. Qed.

(* ====================================================================== the value the monitor reads off the first message *)
Lemma tx_value_axis g raw : cfg_dom g -> (q_mn g <= raw <= q_mx g)%Z ->
  exists m rest, axis_msgs g raw = m :: rest /\
    tx_value m = transmitted (q_kind g) (q_flip g) (q_mn g) (q_mx g) (q_dzc g) (q_dz g) raw /\
    (q_kind g <> KCCbidi \/ q_cc g <> q_ccneg g ->
     AnalogSpec.tx_signed g m = transmitted_signed (q_kind g) (q_flip g) (q_mn g) (q_mx g) (q_dzc g) (q_dz g) raw).
Proof.
  intros Hg Hr. pose proof (axis_msgs_eq g raw) as E. cbv zeta in E. rewrite E. clear E.
  destruct (fvalue_transmitted g raw) as [T1 T2]. rewrite T1, T2.
  pose proof (tx_int_bounds KPB g raw Hg Hr) as Pb. cbn [full] in Pb.
  pose proof (pb_bytes_value (centred (cneg g) (fvalue g raw)) Pb) as Pv.
  unfold AnalogSpec.tx_signed, AnalogGeneral2.tx_signed. destruct (q_kind g) eqn:K.
  - eexists; eexists; split; [reflexivity|]. split; reflexivity.
  - destruct (cc_encode (cneg g) true (fvalue g raw)) as [neg b] eqn:Ce. cbn [fst snd]. unfold tx_int. rewrite Ce. cbn [snd].
    destruct neg; (eexists; eexists; split; [reflexivity|]); (split; [reflexivity|]); intros [H|H]; try congruence; cbn.
    + rewrite N.eqb_refl. reflexivity.
    + replace (q_cc g =? q_ccneg g)%N with false by (symmetry; apply N.eqb_neq; exact H). reflexivity.
  - eexists; eexists; split; [reflexivity|]. unfold tx_int in *.
    assert (V : tx_value [224%N; fst (pb_bytes true (centred (cneg g) (fvalue g raw)));
                          snd (pb_bytes true (centred (cneg g) (fvalue g raw)))]
                = pb_target true (centred (cneg g) (fvalue g raw))).
    { rewrite tx_value_pb. exact Pv. }
    split; [exact V|intros _; exact V].
Qed.

(* ====================================================================== monotone over any list of positions, in any order *)
Lemma monotone_from g raw l : cfg_dom g -> (q_kind g <> KCCbidi \/ q_cc g <> q_ccneg g) ->
  (q_mn g <= raw <= q_mx g)%Z -> Forall (fun r => (q_mn g <= r <= q_mx g)%Z) l ->
  c06_monotone_from g raw (transmitted_signed (q_kind g) (q_flip g) (q_mn g) (q_mx g) (q_dzc g) (q_dz g) raw)
    (map (fun r => (r, axis_msgs g r)) l) = true.
Proof.
  intros Hg Hne Hr Hl. induction Hl as [|r l Hr' Hl IH]; [reflexivity|].
  cbn [map c06_monotone_from]. rewrite IH, andb_true_r.
  destruct (tx_value_axis g r Hg Hr') as (m&rest&E&_&S). rewrite E, (S Hne).
  destruct Hg as (Hd&Hdz&_).
  set (T := transmitted_signed (q_kind g) (q_flip g) (q_mn g) (q_mx g) (q_dzc g) (q_dz g)) in *.
  destruct (Z.ltb_spec raw r) as [L|L].
  - pose proof (c06_general_monotone (q_kind g) (q_flip g) _ _ _ _ raw r Hd Hdz ltac:(lia) ltac:(lia) ltac:(lia)) as M.
    fold T in M. destruct (q_flip g); apply Z.leb_le; exact M.
  - destruct (Z.ltb_spec r raw) as [L'|L'].
    + pose proof (c06_general_monotone (q_kind g) (q_flip g) _ _ _ _ r raw Hd Hdz ltac:(lia) ltac:(lia) ltac:(lia)) as M.
      fold T in M. destruct (q_flip g); apply Z.leb_le; exact M.
    + assert (raw = r) by lia. subst r. apply Z.eqb_refl.
Qed.

Theorem axis_msgs_monotone g l : cfg_dom g -> (q_kind g <> KCCbidi \/ q_cc g <> q_ccneg g) ->
  Forall (fun r => (q_mn g <= r <= q_mx g)%Z) l ->
  c06_monotone g (map (fun r => (r, axis_msgs g r)) l) = true.
Proof.
  intros Hg Hne Hl. induction Hl as [|r l Hr Hl IH]; [reflexivity|].
  cbn [map c06_monotone]. rewrite IH, andb_true_r.
  destruct (tx_value_axis g r Hg Hr) as (m&rest&E&_&S). rewrite E, (S Hne). apply monotone_from; assumption.
Qed.
