(* Proofs for C16 over Model/Lifecycle.v: the invariant of all reachable states ([Inv], by induction over arbitrary label
   sequences), the ranking function ([measure_step], [exec_bound]), progress ([progress]), hence termination
   ([terminates]); nothing left behind ([no_leftover]); the lockset discipline of the fixed code ([protected],
   [conflict_free]) and the D17 witness for the repository's code ([cleanup_race_refuted]); the product of k device
   machines ([no_crosstalk]). *)
From Coq Require Import List Arith Bool Lia.
From HIDI Require Import Model.Relay Model.Lifecycle.
From HIDI Require Model.Device.
Import ListNotations.

(* ================================================================ the invariant *)
Definition main_in_ev (fx : bool) (p : mpc) : bool :=
  match p with MHandle | MPanic | MHandle2 | MUnlock => true | MClean | MCleanUnlock => fx | _ => false end.
Definition led_in_ev (p : lpc) : bool :=
  match p with LRead | LReadExt | LRead2 | LUpdate | LUnlock => true | _ => false end.
Definition main_in_ext (p : mpc) : bool := match p with MPanic => true | _ => false end.
Definition led_in_ext (p : lpc) : bool := match p with LReadExt => true | _ => false end.
Definition midi_in_ext (p : ipc) : bool := match p with IWrite | IUnlock => true | _ => false end.
Definition past_cancel (p : mpc) : bool :=
  match p with MCleanLock | MClean | MCleanUnlock | MWait | MReturned => true | _ => false end.
Definition alive_l (p : lpc) : nat := match p with LDone => 0 | _ => 1 end.
Definition alive_i (p : ipc) : nat := match p with IDone => 0 | _ => 1 end.

Definition ev_owner (s : sys) : option goroutine :=
  if main_in_ev (fixed s) (pm s) then Some GMain else if led_in_ev (pl s) then Some GLed else None.
Definition ext_owner (s : sys) : option goroutine :=
  if main_in_ext (pm s) then Some GMain else if led_in_ext (pl s) then Some GLed
  else if midi_in_ext (pi s) then Some GMidi else None.

Record Inv (s : sys) : Prop := mkInv {
  inv_ev : mu_ev s = ev_owner s;
  inv_ev_x : main_in_ev (fixed s) (pm s) && led_in_ev (pl s) = false;
  inv_ext : mu_ext s = ext_owner s;
  inv_ext_x1 : main_in_ext (pm s) && led_in_ext (pl s) = false;
  inv_ext_x2 : main_in_ext (pm s) && midi_in_ext (pi s) = false;
  inv_ext_x3 : led_in_ext (pl s) && midi_in_ext (pi s) = false;
  inv_wg : wg s = alive_l (pl s) + alive_i (pi s);
  inv_ctx : ctx s = past_cancel (pm s);
  inv_ret : pm s = MReturned -> wg s = 0;
  inv_fx1 : pm s = MCleanLock -> fixed s = true;
  inv_fx2 : pm s = MCleanUnlock -> fixed s = true;
  inv_fuel : fuel s <= CONNECT_RETRIES }.

Lemma inv_init fx n : Inv (init fx n).
Proof. constructor; cbn; try reflexivity; discriminate. Qed.

(* case analysis of [step s l = Some s']: destruct whatever the step function inspects *)
Ltac step_cases H :=
  try discriminate H;
  repeat match type of H with
         | context [match ?x with _ => _ end] => destruct x eqn:?; try discriminate H
         end.

Ltac bools :=
  repeat match goal with
         | |- context [main_in_ev ?f ?p] => is_var p; let b := fresh "b" in set (b := main_in_ev f p) in *; clearbody b; destruct b
         | |- context [led_in_ev ?p] => is_var p; let b := fresh "b" in set (b := led_in_ev p) in *; clearbody b; destruct b
         | |- context [main_in_ext ?p] => is_var p; let b := fresh "b" in set (b := main_in_ext p) in *; clearbody b; destruct b
         | |- context [led_in_ext ?p] => is_var p; let b := fresh "b" in set (b := led_in_ext p) in *; clearbody b; destruct b
         | |- context [midi_in_ext ?p] => is_var p; let b := fresh "b" in set (b := midi_in_ext p) in *; clearbody b; destruct b
         | H : context [main_in_ev ?f ?p] |- _ => is_var p; let b := fresh "b" in set (b := main_in_ev f p) in *; clearbody b; destruct b
         | H : context [led_in_ev ?p] |- _ => is_var p; let b := fresh "b" in set (b := led_in_ev p) in *; clearbody b; destruct b
         | H : context [main_in_ext ?p] |- _ => is_var p; let b := fresh "b" in set (b := main_in_ext p) in *; clearbody b; destruct b
         | H : context [led_in_ext ?p] |- _ => is_var p; let b := fresh "b" in set (b := led_in_ext p) in *; clearbody b; destruct b
         | H : context [midi_in_ext ?p] |- _ => is_var p; let b := fresh "b" in set (b := midi_in_ext p) in *; clearbody b; destruct b
         end.

Lemma inv_step s l s' : Inv s -> step s l = Some s' -> Inv s'.
Proof.
  intros [H1 H2 H3 H4 H5 H6 H7 H8 H9 H10 H11 H12] H.
  destruct s as [m lp ip ev ext cx w cl pe nk na fu fx].
  unfold ev_owner, ext_owner in *. cbn in *.
  destruct l; cbn in H; step_cases H; injection H as <-.
  all: constructor; unfold ev_owner, ext_owner; cbn in *; subst.
  all: try (intros; discriminate).
  all: try assumption.
  all: try reflexivity.
  all: try (bools; cbn in *; congruence).
  all: try (unfold FIND_RETRIES, CONNECT_RETRIES in *; lia).
  all: try (intros Hm; specialize (H9 Hm); lia).
  all: try (rewrite (H10 eq_refl) in *; bools; cbn in *; congruence).
  all: try (rewrite (H11 eq_refl) in *; bools; cbn in *; congruence).
Qed.

Lemma inv_reachable fx n s : reachable step (init fx n) s -> Inv s.
Proof. induction 1 as [|s l s' _ IH H]; [apply inv_init|exact (inv_step _ _ _ IH H)]. Qed.

Lemma fixed_step s l s' : step s l = Some s' -> fixed s' = fixed s.
Proof.
  intro H. destruct s as [m lp ip ev ext cx w cl pe nk na fu fx]. cbn in *.
  destruct l; cbn in H; step_cases H.
  all: injection H as <-; reflexivity.
Qed.

Lemma fixed_reachable fx n s : reachable step (init fx n) s -> fixed s = fx.
Proof. induction 1 as [|s l s' _ IH H]; [reflexivity|]. rewrite (fixed_step _ _ _ H). exact IH. Qed.

Lemma closed_step s l s' : step s l = Some s' -> closed s = true -> closed s' = true.
Proof.
  intros H C. destruct s as [m lp ip ev ext cx w cl pe nk na fu fx]. cbn in *. subst cl.
  destruct l; cbn in H; step_cases H.
  all: injection H as <-; reflexivity.
Qed.

Lemma reachable_exec (init s s' : sys) ls :
  reachable step init s -> exec step s ls s' -> reachable step init s'.
Proof. intros R E. induction E as [|s l s1 ls s2 H _ IH]; [exact R|]. apply IH. exact (reach_step _ _ _ _ _ R H). Qed.

Lemma run_trace_reachable (init s s' : sys) ls :
  reachable step init s -> run_trace s ls = Some s' -> reachable step init s'.
Proof.
  revert s. induction ls as [|l r IH]; cbn; intros s R H; [injection H as <-; exact R|].
  destruct (step s l) as [s1|] eqn:E; [|discriminate]. apply (IH s1); [|exact H]. exact (reach_step _ _ _ _ _ R E).
Qed.

(* ================================================================ the ranking function *)
(* every own step lowers [measure]; an environment label raises it by at most [raise] *)
Lemma measure_step s l s' :
  step s l = Some s' -> measure s' + (if own l then 1 else 0) <= measure s + raise l.
Proof.
  intro H. destruct s as [m lp ip ev ext cx w cl pe nk na fu fx]. cbn in *.
  destruct l; cbn in H; step_cases H.
  all: injection H as <-; unfold measure, main_cost, led_cost, midi_cost, FIND_RETRIES; cbn [pm pl pi pending n_keys n_analog fuel
         w_pm w_pl w_pi w_ev w_ext w_ctx w_wg w_closed w_pending w_notes w_fuel own raise mu_ev mu_ext ctx wg closed fixed].
  all: try lia.
  all: try (destruct m; lia).
  all: match goal with E : (_ <=? _) = true |- _ => apply Nat.leb_le in E; lia end.
Qed.

Lemma exec_bound s ls s' :
  exec step s ls s' -> count_own ls + measure s' <= measure s + total_raise ls.
Proof.
  induction 1 as [|s l s1 ls s2 H _ IH]; [cbn; lia|].
  pose proof (measure_step _ _ _ H) as Hm. unfold count_own, total_raise, list_sum in *. cbn [filter map fold_right].
  revert Hm. destruct (own l); intro Hm; cbn [length] in *; lia.
Qed.

Lemma all_own_count ls : Forall (fun l => own l = true) ls -> count_own ls = length ls /\ total_raise ls = 0.
Proof.
  unfold count_own, total_raise, list_sum. induction 1 as [|l r Hl _ [IH1 IH2]]; [split; reflexivity|].
  cbn [filter map fold_right]. rewrite Hl. cbn [length]. rewrite IH1, IH2. split; [reflexivity|].
  destruct l; try discriminate Hl; reflexivity.
Qed.

(* once main has executed cancel() no new LED frame begins; the input labels are disabled once the stream is closed *)
Lemma no_frame_after_cancel s : ctx s = true -> step s LFrameStart = None.
Proof. intro C. unfold step. rewrite C. destruct (pl s); reflexivity. Qed.

Lemma no_input_after_close s : closed s = true -> step s InputEvent = None /\ step s CloseInput = None.
Proof. intro C. unfold step. rewrite C. split; reflexivity. Qed.

Lemma ctx_step s l s' : step s l = Some s' -> ctx s = true -> ctx s' = true.
Proof.
  intros H C. destruct s as [m lp ip ev ext cx w cl pe nk na fu fx]. cbn in *. subst cx.
  destruct l; cbn in H; step_cases H.
  all: injection H as <-; reflexivity.
Qed.

(* explicit size of the bound *)
Lemma measure_le s :
  Inv s -> measure s <= 7 * pending s + (n_keys s + n_analog s) + 2 * fuel s + 40 /\
           measure s <= 7 * pending s + (n_keys s + n_analog s) + 80.
Proof.
  intros I. pose proof (inv_fuel _ I) as F. unfold CONNECT_RETRIES in F.
  assert (M : main_cost s <= 7 * pending s + (n_keys s + n_analog s) + 12) by (unfold main_cost; destruct (pm s); lia).
  assert (L : led_cost s <= 2 * fuel s + 23) by (unfold led_cost; destruct (pl s); lia).
  assert (D : midi_cost s <= 5) by (unfold midi_cost; destruct (pi s); lia).
  unfold measure. lia.
Qed.

(* ================================================================ progress: no deadlock *)
Definition enabled_own (s : sys) : Prop := exists l, own l = true /\ step s l <> None.

Ltac fire l := exists l; split; [reflexivity|]; unfold step; cbn; try discriminate.

(* the MIDI-in goroutine inside its critical section moves on *)
Lemma midi_ext_progress s : Inv s -> midi_in_ext (pi s) = true -> enabled_own s.
Proof.
  intros I Hm. pose proof (inv_ext _ I) as E. pose proof (inv_ext_x2 _ I) as X2. pose proof (inv_ext_x3 _ I) as X3.
  unfold ext_owner in E. rewrite Hm in *. rewrite andb_true_r in X2, X3. rewrite X2, X3 in E.
  destruct s as [m lp ip ev ext cx w cl pe nk na fu fx]. cbn in *. subst ext.
  destruct ip; try discriminate Hm; [fire IWriteDone|fire IUnlockExt].
Qed.

(* the LED goroutine holding eventProcessMutex moves on, whatever main is waiting for *)
Lemma led_ev_progress s : Inv s -> led_in_ev (pl s) = true -> enabled_own s.
Proof.
  intros I Hl. pose proof (inv_ev _ I) as E. pose proof (inv_ev_x _ I) as X. pose proof (inv_ext _ I) as E2.
  pose proof (inv_ext_x1 _ I) as X1.
  unfold ev_owner in E. rewrite Hl in *. rewrite andb_true_r in X. rewrite X in E.
  destruct (pl s) eqn:P; try discriminate Hl.
  - (* LRead: needs externalTrackerMutex *)
    destruct (mu_ext s) as [g|] eqn:M.
    + unfold ext_owner in E2. rewrite P in E2. cbn in E2.
      destruct (main_in_ext (pm s)) eqn:Q.
      * destruct (pm s); try discriminate Q. cbn in X. discriminate X.
      * destruct (midi_in_ext (pi s)) eqn:Q2; [exact (midi_ext_progress s I Q2)|discriminate E2].
    + exists LExtLock. split; [reflexivity|]. unfold step. rewrite P, M. discriminate.
  - (* LReadExt *)
    unfold ext_owner in E2. rewrite P in E2. cbn in E2, X1. rewrite andb_true_r in X1. rewrite X1 in E2.
    exists LExtUnlock. split; [reflexivity|]. unfold step. rewrite P, E2. discriminate.
  - exists LReadDone. split; [reflexivity|]. unfold step. rewrite P. discriminate.
  - exists LUpdateDone. split; [reflexivity|]. unfold step. rewrite P. discriminate.
  - exists LUnlockEv. split; [reflexivity|]. unfold step. rewrite P, E. discriminate.
Qed.

(* after cancel(), a LED goroutine that has not finished moves on unless main holds eventProcessMutex *)
Lemma led_progress s :
  Inv s -> ctx s = true -> main_in_ev (fixed s) (pm s) = false -> pl s <> LDone -> enabled_own s.
Proof.
  intros I C Hm Hl. destruct (led_in_ev (pl s)) eqn:Q; [exact (led_ev_progress s I Q)|].
  pose proof (inv_ev _ I) as E. unfold ev_owner in E. rewrite Hm, Q in E.
  destruct (pl s) eqn:P; try discriminate Q; try (exfalso; apply Hl; reflexivity).
  - exists LTimer. split; [reflexivity|]. unfold step. rewrite P. discriminate.
  - exists LGiveUp. split; [reflexivity|]. unfold step. rewrite P. discriminate.
  - exists LTimer. split; [reflexivity|]. unfold step. rewrite P. discriminate.
  - exists LGiveUp. split; [reflexivity|]. unfold step. rewrite P. discriminate.
  - exists LFrameEnd. split; [reflexivity|]. unfold step. rewrite P, C. discriminate.
  - exists LWake. split; [reflexivity|]. unfold step. rewrite P. discriminate.
  - exists LLockEv. split; [reflexivity|]. unfold step. rewrite P, E. discriminate.
  - exists LFinalDone. split; [reflexivity|]. unfold step. rewrite P. discriminate.
  - exists LWgDone. split; [reflexivity|]. unfold step. rewrite P. discriminate.
Qed.

(* after cancel(), a MIDI-in goroutine that has not finished moves on unless main holds externalTrackerMutex *)
Lemma midi_progress s :
  Inv s -> ctx s = true -> main_in_ext (pm s) = false -> pi s <> IDone -> enabled_own s.
Proof.
  intros I C Hm Hi. destruct (midi_in_ext (pi s)) eqn:Q; [exact (midi_ext_progress s I Q)|].
  pose proof (inv_ext _ I) as E. unfold ext_owner in E. rewrite Hm, Q in E.
  destruct (pi s) eqn:P; try discriminate Q; try (exfalso; apply Hi; reflexivity).
  - exists ICtxDone. split; [reflexivity|]. unfold step. rewrite P, C. discriminate.
  - (* ILock: free, or held by the LED goroutine, which moves on *)
    destruct (led_in_ext (pl s)) eqn:Q2.
    + apply (led_ev_progress s I). destruct (pl s); try discriminate Q2. reflexivity.
    + exists ILockExt. split; [reflexivity|]. unfold step. rewrite P, E. discriminate.
  - exists IWgDone. split; [reflexivity|]. unfold step. rewrite P. discriminate.
Qed.

(* once the input stream is closed, some own step is enabled until ProcessEvents has returned *)
Lemma progress s : Inv s -> closed s = true -> pm s <> MReturned -> enabled_own s.
Proof.
  intros I C Hm. pose proof (inv_ev _ I) as E. pose proof (inv_ext _ I) as E2. unfold ev_owner in E. unfold ext_owner in E2.
  destruct (pm s) eqn:P; cbn in E, E2.
  - (* MLoop *)
    destruct (pending s) eqn:Q.
    + exists MRangeEnd. split; [reflexivity|]. unfold step. rewrite P, Q, C. discriminate.
    + exists MTake. split; [reflexivity|]. unfold step. rewrite P, Q. discriminate.
  - (* MLock: the mutex is free, or the LED goroutine holds it and moves on *)
    destruct (led_in_ev (pl s)) eqn:Q; [exact (led_ev_progress s I Q)|].
    exists MLockEv. split; [reflexivity|]. unfold step. rewrite P, E. discriminate.
  - exists (MHandleDone 0 0). split; [reflexivity|]. unfold step. rewrite P. cbn. discriminate.
  - exists MPanicUnlock. split; [reflexivity|]. unfold step. rewrite P, E2. discriminate.
  - exists (MHandleDone 0 0). split; [reflexivity|]. unfold step. rewrite P. cbn. discriminate.
  - exists MUnlockEv. split; [reflexivity|]. unfold step. rewrite P, E. discriminate.
  - exists MCancelCtx. split; [reflexivity|]. unfold step. rewrite P. discriminate.
  - (* MCleanLock *)
    destruct (led_in_ev (pl s)) eqn:Q; [exact (led_ev_progress s I Q)|].
    exists MCleanLockEv. split; [reflexivity|]. unfold step. rewrite P, E. discriminate.
  - (* MClean *)
    destruct (n_keys s) eqn:K; [destruct (n_analog s) eqn:A|].
    + exists MCleanEnd. split; [reflexivity|]. unfold step. rewrite P, K, A. discriminate.
    + exists MCleanAnalog. split; [reflexivity|]. unfold step. rewrite P, K, A. discriminate.
    + exists MCleanKey. split; [reflexivity|]. unfold step. rewrite P, K. discriminate.
  - (* MCleanUnlock *)
    rewrite (inv_fx2 _ I P) in E.
    exists MCleanUnlockEv. split; [reflexivity|]. unfold step. rewrite P, E. discriminate.
  - (* MWait *)
    pose proof (inv_ctx _ I) as X. rewrite P in X. cbn in X.
    destruct (wg s) eqn:W.
    + exists MWaitDone. split; [reflexivity|]. unfold step. rewrite P, W. discriminate.
    + pose proof (inv_wg _ I) as Hw. rewrite W in Hw.
      destruct (pi s) eqn:Pi;
        try (apply (midi_progress s I X); [rewrite P; reflexivity|rewrite Pi; discriminate]).
      destruct (pl s) eqn:Pl;
        try (apply (led_progress s I X); [rewrite P; reflexivity|rewrite Pl; discriminate]).
      (* the remaining case, LDone and IDone, contradicts wg > 0: closed by [discriminate] on Hw *)
  - exfalso. apply Hm. reflexivity.
Qed.

(* ================================================================ C16_no_leftover *)
Lemma no_leftover_inv s : Inv s -> pm s = MReturned ->
  pl s = LDone /\ pi s = IDone /\ wg s = 0 /\ mu_ev s = None /\ mu_ext s = None.
Proof.
  intros I P. pose proof (inv_ret _ I P) as W. pose proof (inv_wg _ I) as Hw. rewrite W in Hw.
  assert (Hl : pl s = LDone) by (destruct (pl s); try reflexivity; cbn in Hw; lia).
  assert (Hi : pi s = IDone) by (destruct (pi s); try reflexivity; rewrite Hl in Hw; cbn in Hw; lia).
  repeat split; try assumption.
  - rewrite (inv_ev _ I). unfold ev_owner. rewrite P, Hl. reflexivity.
  - rewrite (inv_ext _ I). unfold ext_owner. rewrite P, Hl, Hi. reflexivity.
Qed.

Lemma no_leftover fx n s : reachable step (init fx n) s -> pm s = MReturned ->
  pl s = LDone /\ pi s = IDone /\ wg s = 0 /\ mu_ev s = None /\ mu_ext s = None.
Proof. intro R. exact (no_leftover_inv s (inv_reachable _ _ _ R)). Qed.

(* ================================================================ C16_terminates *)
Lemma terminates fx n s :
  reachable step (init fx n) s -> closed s = true ->
  forall ls s', exec step s ls s' ->
    count_own ls + measure s' <= measure s + total_raise ls /\
    (Forall (fun l => own l = true) ls -> length ls <= measure s) /\
    ((forall l, own l = true -> step s' l = None) -> finished s').
Proof.
  intros R C ls s' E. pose proof (exec_bound _ _ _ E) as B. split; [exact B|split].
  - intro A. destruct (all_own_count ls A) as [A1 A2]. lia.
  - intro Stuck. pose proof (reachable_exec _ _ _ _ R E) as R'. pose proof (inv_reachable _ _ _ R') as I.
    assert (C' : closed s' = true).
    { clear B R R' I Stuck. induction E as [|s l s1 ls s2 H _ IH]; [exact C|]. apply IH. exact (closed_step _ _ _ H C). }
    assert (P : pm s' = MReturned).
    { destruct (pm s') eqn:P; try reflexivity;
        (destruct (progress s' I C') as [l [Ho Hl]]; [rewrite P; discriminate|]; exfalso; apply Hl; apply Stuck; exact Ho). }
    destruct (no_leftover_inv s' I P) as [Hl [Hi _]]. repeat split; assumption.
Qed.

(* the same statements over reachable states *)
Lemma measure_bound fx n s :
  reachable step (init fx n) s ->
  measure s <= 7 * pending s + (n_keys s + n_analog s) + 2 * fuel s + 40 /\
  measure s <= 7 * pending s + (n_keys s + n_analog s) + 80.
Proof. intro R. exact (measure_le s (inv_reachable fx n s R)). Qed.

Lemma progress_reachable fx n s :
  reachable step (init fx n) s -> closed s = true -> pm s <> MReturned ->
  exists l, own l = true /\ step s l <> None.
Proof. intro R. exact (progress s (inv_reachable fx n s R)). Qed.

Lemma after_cancel s :
  (ctx s = true -> step s LFrameStart = None) /\
  (closed s = true -> step s InputEvent = None /\ step s CloseInput = None) /\
  (forall l s', step s l = Some s' -> (ctx s = true -> ctx s' = true) /\ (closed s = true -> closed s' = true)).
Proof.
  split; [exact (no_frame_after_cancel s)|split; [exact (no_input_after_close s)|]].
  intros l s' H. split; [exact (ctx_step s l s' H)|exact (closed_step s l s' H)].
Qed.

(* ================================================================ C16_lock_discipline *)
Lemma goroutine_eqb_eq a b : goroutine_eqb a b = true -> a = b.
Proof. destruct a, b; cbn; intro H; try discriminate H; reflexivity. Qed.
Lemma field_eqb_eq a b : field_eqb a b = true -> a = b.
Proof. destruct a, b; cbn; intro H; try discriminate H; reflexivity. Qed.

(* lockset: in the fixed code every access happens with the field's guard held *)
Lemma protected_inv s : Inv s -> fixed s = true ->
  forall g f k, In (f, k) (accesses s g) -> holds s g (guard f) = true.
Proof.
  intros I Fx g f k Hin.
  pose proof (inv_ev _ I) as E. pose proof (inv_ext _ I) as E2.
  pose proof (inv_ev_x _ I) as X. pose proof (inv_ext_x1 _ I) as X1. pose proof (inv_ext_x2 _ I) as X2.
  pose proof (inv_ext_x3 _ I) as X3.
  unfold ev_owner in E. unfold ext_owner in E2. rewrite Fx in *.
  destruct g; unfold accesses in Hin.
  - destruct (pm s); cbn in Hin, E, E2; try contradiction.
    all: repeat (destruct Hin as [Hin|Hin]; [injection Hin as <- <-; cbn; first [rewrite E|rewrite E2]; reflexivity|]).
    all: contradiction.
  - destruct (pl s); cbn in Hin, E, E2, X, X1; try contradiction.
    all: rewrite andb_true_r in X; rewrite X in E.
    all: try (rewrite andb_true_r in X1; rewrite X1 in E2).
    all: repeat (destruct Hin as [Hin|Hin]; [injection Hin as <- <-; cbn; first [rewrite E|rewrite E2]; reflexivity|]).
    all: contradiction.
  - destruct (pi s); cbn in Hin, E2, X2, X3; try contradiction.
    rewrite andb_true_r in X2, X3. rewrite X2, X3 in E2.
    destruct Hin as [Hin|[]]. injection Hin as <- <-. cbn. rewrite E2. reflexivity.
Qed.

Lemma owner_is_unique o g1 g2 : owner_is o g1 = true -> owner_is o g2 = true -> g1 = g2.
Proof.
  destruct o as [h|]; cbn; [|discriminate]. intros H1 H2.
  rewrite <- (goroutine_eqb_eq _ _ H1). exact (goroutine_eqb_eq _ _ H2).
Qed.

Lemma goroutine_eqb_refl g : goroutine_eqb g g = true.
Proof. destruct g; reflexivity. Qed.

Lemma protected_no_conflict s :
  (forall g f k, In (f, k) (accesses s g) -> holds s g (guard f) = true) -> conflictb s = false.
Proof.
  intro Hp. destruct (conflictb s) eqn:Cf; [exfalso|reflexivity].
  unfold conflictb in Cf. apply existsb_exists in Cf as [f [_ Cf]].
  unfold conflict_on in Cf. apply existsb_exists in Cf as [g1 [_ Cf]]. apply existsb_exists in Cf as [g2 [_ Cf]].
  apply andb_true_iff in Cf as [Cf _]. apply andb_true_iff in Cf as [Ne Cl].
  unfold clash_on in Cl. apply existsb_exists in Cl as [[f1 k1] [In1 Cl]]. apply existsb_exists in Cl as [[f2 k2] [In2 Cl]].
  apply andb_true_iff in Cl as [Cl _]. apply andb_true_iff in Cl as [F1 F2]. cbn in F1, F2.
  apply field_eqb_eq in F1. apply field_eqb_eq in F2. subst f1 f2.
  pose proof (Hp _ _ _ In1) as H1. pose proof (Hp _ _ _ In2) as H2.
  assert (g1 = g2) as ->.
  { unfold holds in H1, H2. destruct (guard f); exact (owner_is_unique _ _ _ H1 H2). }
  rewrite goroutine_eqb_refl in Ne. discriminate Ne.
Qed.

Lemma lock_discipline n s : reachable step (init true n) s ->
  (forall g f k, In (f, k) (accesses s g) -> holds s g (guard f) = true) /\ conflictb s = false.
Proof.
  intro R. pose proof (protected_inv s (inv_reachable _ _ _ R) (fixed_reachable _ _ _ R)) as Hp.
  split; [exact Hp|exact (protected_no_conflict s Hp)].
Qed.

(* ================================================================ C16_cleanup_race_refuted: D17 *)
(* one key is pressed and held (NoteOn: one tracked note), the stream is closed, the LED goroutine connects and is in
   the middle of a frame - it has locked eventProcessMutex and is iterating d.noteTracker - when main, after cancel(),
   enters the clean-up loops of the repository's code: without the mutex *)
Definition d17_trace : list label :=
  [MTake; MLockEv; MHandleDone 1 0; MUnlockEv; CloseInput;
   LTimer; ConnectSucceeds; LTimer; ConnectSucceeds; LFrameStart; LWake; LLockEv; LExtLock; LExtUnlock;
   MRangeEnd; MCancelCtx].

Definition d17_state : sys :=
  Eval vm_compute in match run_trace (init false 1) d17_trace with Some s => s | None => init false 1 end.

Lemma cleanup_race_refuted :
  exists s, reachable step (init false 1) s /\ closed s = true /\
    pm s = MClean /\ n_keys s = 1 /\ pl s = LRead2 /\
    holds s GLed MuEvent = true /\ holds s GMain MuEvent = false /\
    conflict_on FNoteT s = true /\ conflictb s = true.
Proof.
  exists d17_state. split.
  - apply (run_trace_reachable (init false 1) (init false 1) _ d17_trace); [constructor|]. vm_compute. reflexivity.
  - vm_compute. repeat split; reflexivity.
Qed.

(* ================================================================ C16_no_crosstalk *)
Lemma run_from_cons c s e r :
  Device.run_from c s (e :: r) =
  (fst (Device.run_from c (fst (Device.step c s e)) r),
   snd (Device.step c s e) :: snd (Device.run_from c (fst (Device.step c s e)) r)).
Proof.
  cbn [Device.run_from]. destruct (Device.step c s e) as [s1 o]. cbn [fst snd].
  destruct (Device.run_from c s1 r) as [s2 os]. reflexivity.
Qed.

Lemma upd_nth_nth {A : Type} (f : A -> A) l i j :
  nth_error (upd_nth i f l) j = if i =? j then option_map f (nth_error l j) else nth_error l j.
Proof.
  revert i j. induction l as [|x r IH]; intros i j.
  - cbn. destruct (i =? j), j; reflexivity.
  - destruct i, j; cbn; try reflexivity. apply IH.
Qed.

Lemma upd_nth_length {A : Type} (f : A -> A) l i : length (upd_nth i f l) = length l.
Proof. revert i. induction l as [|x r IH]; intros [|i]; cbn; try reflexivity. rewrite IH. reflexivity. Qed.

Lemma prun_length ds sched : length (prun ds sched) = length ds.
Proof.
  revert ds. induction sched as [|je r IH]; intro ds; [reflexivity|].
  change (prun ds (je :: r)) with (prun (pstep ds je) r). rewrite IH. apply upd_nth_length.
Qed.

Lemma prun_nth sched : forall ds j d, nth_error ds j = Some d ->
  nth_error (prun ds sched) j =
  Some (mkPdev (pd_cfg d)
               (fst (Device.run_from (pd_cfg d) (pd_st d) (addressed j sched)))
               (pd_out d ++ snd (Device.run_from (pd_cfg d) (pd_st d) (addressed j sched)))).
Proof.
  induction sched as [|[i e] r IH]; intros ds j d Hd.
  - cbn. rewrite app_nil_r. rewrite Hd. destruct d; reflexivity.
  - cbn [prun fold_left]. change (fold_left pstep r (pstep ds (i, e))) with (prun (pstep ds (i, e)) r).
    unfold addressed. cbn [filter fst]. unfold pstep at 1. cbn [fst snd].
    destruct (i =? j) eqn:Eij.
    + cbn [map snd]. fold (addressed j r).
      rewrite (IH _ j (pdev_step e d)).
      * rewrite run_from_cons. unfold pdev_step. destruct (Device.step (pd_cfg d) (pd_st d) e) as [s1 o].
        cbn [pd_cfg pd_st pd_out fst snd]. rewrite <- app_assoc. reflexivity.
      * rewrite upd_nth_nth, Eij, Hd. reflexivity.
    + fold (addressed j r). apply IH. rewrite upd_nth_nth, Eij. exact Hd.
Qed.

Lemma no_crosstalk cs sched j c s :
  nth_error cs j = Some (c, s) ->
  exists d, nth_error (prun (pinit cs) sched) j = Some d /\
    pd_cfg d = c /\
    pd_st d = fst (Device.run_from c s (addressed j sched)) /\
    pd_out d = snd (Device.run_from c s (addressed j sched)).
Proof.
  intro H. assert (Hd : nth_error (pinit cs) j = Some (mkPdev c s [])).
  { unfold pinit. rewrite nth_error_map, H. reflexivity. }
  rewrite (prun_nth sched _ _ _ Hd). eexists. split; [reflexivity|]. cbn. repeat split; reflexivity.
Qed.

(* what device j does depends only on the events addressed to j *)
Lemma no_crosstalk_schedules cs sched1 sched2 j :
  addressed j sched1 = addressed j sched2 ->
  nth_error (prun (pinit cs) sched1) j = nth_error (prun (pinit cs) sched2) j.
Proof.
  intro H. destruct (nth_error (pinit cs) j) as [d|] eqn:Hd.
  - rewrite (prun_nth sched1 _ _ _ Hd), (prun_nth sched2 _ _ _ Hd), H. reflexivity.
  - assert (L : forall sc, nth_error (prun (pinit cs) sc) j = None).
    { intro sc. apply nth_error_None. rewrite prun_length. apply nth_error_None. exact Hd. }
    rewrite !L. reflexivity.
Qed.

Lemma all_midi_snoc os m : Device.all_midi (os ++ [Device.emit m]) = Device.all_midi os ++ m.
Proof. unfold Device.all_midi. rewrite flat_map_app. cbn. rewrite app_nil_r. reflexivity. Qed.

(* with the disconnect clean-up of every device at the end *)
Lemma no_crosstalk_cleanup cs sched j c s :
  nth_error cs j = Some (c, s) ->
  let r := Device.run_from c s (addressed j sched) in
  exists d, nth_error (pcleanup (prun (pinit cs) sched)) j = Some d /\
    pd_cfg d = c /\
    pd_st d = fst (Device.cleanup c (fst r)) /\
    Device.all_midi (pd_out d) = Device.all_midi (snd r) ++ snd (Device.cleanup c (fst r)).
Proof.
  intros H r. destruct (no_crosstalk cs sched j c s H) as [d [Hn [Hc [Hs Ho]]]].
  unfold pcleanup. rewrite nth_error_map, Hn. cbn [option_map]. eexists. split; [reflexivity|].
  unfold pdev_cleanup. rewrite Hc, Hs, Ho. fold r. destruct (Device.cleanup c (fst r)) as [s' m].
  cbn [pd_cfg pd_st pd_out fst snd]. repeat split; try reflexivity. apply all_midi_snoc.
Qed.
