(* Proofs for C16 over Model/Lifecycle.v: the invariant of all reachable states ([Inv], by induction over arbitrary label
   sequences), the ranking function ([measure_step], [exec_bound]), progress ([progress]), hence termination
   ([terminates]); nothing left behind ([no_leftover]); the lockset discipline of the fixed code ([protected],
   [conflict_free]) and the D17 witness for the repository's code ([cleanup_race_refuted]); the product of k device
   machines ([no_crosstalk]). *)
From Coq Require Import List Arith Bool Lia.
From HIDI Require Import Model.Relay Model.Lifecycle.
From HIDI Require Model.Device.
Import ListNotations.

(* ================================================================ the invariant *)
Definition main_in_ev (fx : bool) (p : mpc) : bool :=
  match p with MHandle | MPanic | MHandle2 | MUnlock => true | MClean | MCleanUnlock => fx | _ => false end.
Definition led_in_ev (p : lpc) : bool :=
  match p with LRead | LReadExt | LRead2 | LUpdate | LUnlock => true | _ => false end.
Definition main_in_ext (p : mpc) : bool := match p with MPanic => true | _ => false end.
Definition led_in_ext (p : lpc) : bool := match p with LReadExt => true | _ => false end.
Definition midi_in_ext (p : ipc) : bool := match p with IWrite | IUnlock => true | _ => false end.
Definition past_cancel (p : mpc) : bool :=
  match p with MCleanLock | MClean | MCleanUnlock | MWait | MReturned => true | _ => false end.
Definition alive_l (p : lpc) : nat := match p with LDone => 0 | _ => 1 end.
Definition alive_i (p : ipc) : nat := match p with IDone => 0 | _ => 1 end.

Definition ev_owner (s : sys) : option goroutine :=
  if main_in_ev (fixed s) (pm s) then Some GMain else if led_in_ev (pl s) then Some GLed else None.
Definition ext_owner (s : sys) : option goroutine :=
  if main_in_ext (pm s) then Some GMain else if led_in_ext (pl s) then Some GLed
  else if midi_in_ext (pi s) then Some GMidi else None.

Record Inv (s : sys) : Prop := mkInv {
  inv_ev : mu_ev s = ev_owner s;
  inv_ev_x : main_in_ev (fixed s) (pm s) && led_in_ev (pl s) = false;
  inv_ext : mu_ext s = ext_owner s;
  inv_ext_x1 : main_in_ext (pm s) && led_in_ext (pl s) = false;
  inv_ext_x2 : main_in_ext (pm s) && midi_in_ext (pi s) = false;
  inv_ext_x3 : led_in_ext (pl s) && midi_in_ext (pi s) = false;
  inv_wg : wg s = alive_l (pl s) + alive_i (pi s);
  inv_ctx : ctx s = past_cancel (pm s);
  inv_ret : pm s = MReturned -> wg s = 0;
  inv_fx1 : pm s = MCleanLock -> fixed s = true;
  inv_fx2 : pm s = MCleanUnlock -> fixed s = true;
  inv_fuel : fuel s <= CONNECT_RETRIES }.

Lemma inv_init fx n : Inv (init fx n).
Proof. constructor; cbn; try reflexivity; discriminate. Qed.

(* case analysis of [step s l = Some s']: destruct whatever the step function inspects *)
Ltac step_cases H :=
  repeat match type of H with
         | context [match ?x with _ => _ end] => destruct x eqn:?; try discriminate H
         end.

Ltac bools :=
  repeat match goal with
         | H : context [main_in_ev ?f ?p] |- _ => destruct (main_in_ev f p) eqn:?
         | H : context [led_in_ev ?p] |- _ => destruct (led_in_ev p) eqn:?
         | H : context [main_in_ext ?p] |- _ => destruct (main_in_ext p) eqn:?
         | H : context [led_in_ext ?p] |- _ => destruct (led_in_ext p) eqn:?
         | H : context [midi_in_ext ?p] |- _ => destruct (midi_in_ext p) eqn:?
         | |- context [main_in_ev ?f ?p] => destruct (main_in_ev f p) eqn:?
         | |- context [led_in_ev ?p] => destruct (led_in_ev p) eqn:?
         | |- context [main_in_ext ?p] => destruct (main_in_ext p) eqn:?
         | |- context [led_in_ext ?p] => destruct (led_in_ext p) eqn:?
         | |- context [midi_in_ext ?p] => destruct (midi_in_ext p) eqn:?
         end.

Lemma inv_step s l s' : Inv s -> step s l = Some s' -> Inv s'.
Proof.
  intros [H1 H2 H3 H4 H5 H6 H7 H8 H9 H10 H11 H12] H.
  destruct s as [m lp ip ev ext cx w cl pe nk na fu fx].
  unfold ev_owner, ext_owner in *. cbn in *.
  destruct l; cbn in H; step_cases H; injection H as <-;
    (constructor; unfold ev_owner, ext_owner; cbn in *; subst;
     try (intros; discriminate); try assumption; try reflexivity;
     try (unfold FIND_RETRIES, CONNECT_RETRIES in *; lia);
     try (bools; cbn in *; congruence)).
Qed.

Lemma inv_reachable fx n s : reachable step (init fx n) s -> Inv s.
Proof. induction 1 as [|s l s' _ IH H]; [apply inv_init|exact (inv_step _ _ _ IH H)]. Qed.

Lemma fixed_step s l s' : step s l = Some s' -> fixed s' = fixed s.
Proof.
  intro H. destruct s as [m lp ip ev ext cx w cl pe nk na fu fx]. cbn in *.
  destruct l; cbn in H; step_cases H; injection H as <-; reflexivity.
Qed.

Lemma fixed_reachable fx n s : reachable step (init fx n) s -> fixed s = fx.
Proof. induction 1 as [|s l s' _ IH H]; [reflexivity|]. rewrite (fixed_step _ _ _ H). exact IH. Qed.

Lemma closed_step s l s' : step s l = Some s' -> closed s = true -> closed s' = true.
Proof.
  intros H C. destruct s as [m lp ip ev ext cx w cl pe nk na fu fx]. cbn in *. subst cl.
  destruct l; cbn in H; step_cases H; injection H as <-; reflexivity.
Qed.

Lemma reachable_exec (init s s' : sys) ls :
  reachable step init s -> exec step s ls s' -> reachable step init s'.
Proof. intros R E. induction E as [|s l s1 ls s2 H _ IH]; [exact R|]. apply IH. exact (reach_step _ _ _ _ _ R H). Qed.

Lemma run_trace_reachable (init s s' : sys) ls :
  reachable step init s -> run_trace s ls = Some s' -> reachable step init s'.
Proof.
  revert s. induction ls as [|l r IH]; cbn; intros s R H; [injection H as <-; exact R|].
  destruct (step s l) as [s1|] eqn:E; [|discriminate]. apply (IH s1); [|exact H]. exact (reach_step _ _ _ _ _ R E).
Qed.
