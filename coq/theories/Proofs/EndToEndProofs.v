(* Proofs about Model/EndToEnd.v: the product of device processes and the relay.
   [e2e_stream]: in every reachable state, for every device k, what the port has received from k, followed by what is in
   flight for k inside the relay, followed by what k has still to send, is exactly the stream the device model prescribes
   for k's history - for all interleavings, any number of devices, any channel capacities.
   [e2e_quiescent]: when nothing is left to do, the port has received exactly that stream from every device.
   [e2e_progress]: a reachable state that is not quiescent has an enabled step (no deadlock: the port always reads). *)
From Coq Require Import List Arith Bool Lia NArith ZArith.
From HIDI Require Import Base.AList Model.Device Model.Relay Model.EndToEnd Proofs.TransportProofs Proofs.DeviceBasics Proofs.DeviceInv Proofs.DevicePanic Proofs.DevicePanicSim.
Import ListNotations.
Close Scope N_scope.
Open Scope nat_scope.

Lemma nth_error_set_nth_same {A} (l : list A) k x d : nth_error l k = Some d -> nth_error (set_nth l k x) k = Some x.
Proof.
  revert k. induction l as [|a r IH]; intros [|k] H; cbn in *; try discriminate; [reflexivity|]. apply IH. exact H.
Qed.

Lemma nth_error_set_nth_other {A} (l : list A) k j x : j <> k -> nth_error (set_nth l k x) j = nth_error l j.
Proof.
  revert k j. induction l as [|a r IH]; intros [|k] [|j] H; cbn; try reflexivity; try congruence. apply IH. congruence.
Qed.

Lemma set_nth_length {A} (l : list A) k x : length (set_nth l k x) = length l.
Proof. revert k. induction l as [|a r IH]; intros [|k]; cbn; auto. Qed.

Lemma In_set_nth {A} (l : list A) k x y : In y (set_nth l k x) -> y = x \/ In y l.
Proof.
  revert k. induction l as [|a r IH]; intros [|k] H; cbn in *; try tauto.
  - destruct H as [H|H]; [left; symmetry; exact H|right; right; exact H].
  - destruct H as [H|H]; [right; left; exact H|]. destruct (IH _ H) as [E|E]; [left; exact E|right; right; exact E].
Qed.

Lemma run_from_cons c s e r :
  Device.run_from c s (e :: r) =
  let '(s1, o) := Device.step c s e in let '(s2, os) := Device.run_from c s1 r in (s2, o :: os).
Proof. reflexivity. Qed.

(* ---- the invariant *)
Definition dok (c : config) (h : list ev) (sent : list msg) (d : dproc) : Prop :=
  d_cfg d = c /\ (d_closed d = true -> d_todo d = []) /\ sent ++ remaining d = device_stream c h.

Definition dev_ok (ds : list (config * list ev)) (s : estate) : Prop :=
  length (e_devs s) = length ds /\
  forall k d c h, nth_error (e_devs s) k = Some d -> nth_error ds k = Some (c, h) -> dok c h (o_sent (e_relay s) k) d.

Definition einv (ds : list (config * list ev)) (s : estate) : Prop := oinv (e_relay s) /\ dev_ok ds s.

Lemma einv_init ds : einv ds (einit ds).
Proof.
  split; [split; [reflexivity|intro k; reflexivity]|].
  split; [unfold einit; cbn; apply map_length|].
  intros k d c h Hd Hc. unfold einit in Hd. cbn [e_devs] in Hd.
  rewrite nth_error_map, Hc in Hd. cbn in Hd. injection Hd as <-.
  split; [reflexivity|]. split; [discriminate|]. cbn [einit e_relay oinit o_sent app].
  unfold remaining, dproc_init, device_stream, Device.run. cbn [d_pend d_closed d_cfg d_state d_todo app]. reflexivity.
Qed.

Lemma ostep_sent_enter pc oc (r r' : @ostate msg) k x j :
  ostep pc oc r (Enter (k, x)) = Some r' -> o_sent r' j = if j =? k then o_sent r j ++ [x] else o_sent r j.
Proof.
  unfold ostep. destruct (pstep _ _ _); [|discriminate]. intro H. injection H as <-. reflexivity.
Qed.

Lemma ostep_sent_same pc oc (r r' : @ostate msg) l :
  (forall p, l <> Enter p) -> ostep pc oc r l = Some r' -> o_sent r' = o_sent r.
Proof.
  unfold ostep. destruct (pstep _ _ _) as [pp|]; [|discriminate]. intros Hl H. injection H as <-.
  destruct l as [| |q]; try reflexivity. exfalso. exact (Hl q eq_refl).
Qed.

Lemma estep_inv ds pc oc s l s' : estep pc oc s l = Some s' -> einv ds s -> einv ds s'.
Proof.
  intros H [Ho [Hl Hd]]. destruct l as [k|k|k|pl]; cbn [estep] in H.
  - (* DTake *)
    destruct (nth_error (e_devs s) k) as [d|] eqn:Ek; [|discriminate].
    destruct (d_pend d) eqn:Ep; [|discriminate]. destruct (d_todo d) as [|e r] eqn:Et; [discriminate|].
    destruct (Device.step (d_cfg d) (d_state d) e) as [st o] eqn:Es. injection H as <-.
    split; [exact Ho|]. split; [cbn; rewrite set_nth_length; exact Hl|].
    intros j d' c h Hj Hc. cbn [e_devs e_relay] in *.
    destruct (Nat.eq_dec j k) as [->|Hne].
    + rewrite (nth_error_set_nth_same _ _ _ _ Ek) in Hj. injection Hj as <-.
      destruct (Hd k d c h Ek Hc) as [Hcfg [Hcl Hs]].
      assert (Hnc : d_closed d = false).
      { destruct (d_closed d); [|reflexivity]. specialize (Hcl eq_refl). rewrite Et in Hcl. discriminate. }
      split; [exact Hcfg|]. split; [cbn; rewrite Hnc; discriminate|].
      rewrite <- Hs. f_equal. unfold remaining. cbn [d_pend d_closed d_cfg d_state d_todo].
      rewrite Ep, Et, Hnc. cbn [app]. rewrite run_from_cons, Es.
      destruct (Device.run_from (d_cfg d) st r) as [s2 os]. cbn. rewrite <- app_assoc. reflexivity.
    + rewrite (nth_error_set_nth_other _ _ _ _ Hne) in Hj. exact (Hd j d' c h Hj Hc).
  - (* DClose *)
    destruct (nth_error (e_devs s) k) as [d|] eqn:Ek; [|discriminate].
    destruct (d_pend d) eqn:Ep; [|discriminate]. destruct (d_todo d) as [|e r] eqn:Et; [|discriminate].
    destruct (d_closed d) eqn:Ec; [discriminate|].
    destruct (Device.cleanup (d_cfg d) (d_state d)) as [st ms] eqn:Es. injection H as <-.
    split; [exact Ho|]. split; [cbn; rewrite set_nth_length; exact Hl|].
    intros j d' c h Hj Hc. cbn [e_devs e_relay] in *.
    destruct (Nat.eq_dec j k) as [->|Hne].
    + rewrite (nth_error_set_nth_same _ _ _ _ Ek) in Hj. injection Hj as <-.
      destruct (Hd k d c h Ek Hc) as [Hcfg [Hcl Hs]].
      split; [exact Hcfg|]. split; [reflexivity|].
      rewrite <- Hs. f_equal. unfold remaining. cbn [d_pend d_closed d_cfg d_state d_todo].
      rewrite Ep, Et, Ec. cbn [app Device.run_from all_midi flat_map]. rewrite Es. cbn. apply app_nil_r.
    + rewrite (nth_error_set_nth_other _ _ _ _ Hne) in Hj. exact (Hd j d' c h Hj Hc).
  - (* DSend *)
    destruct (nth_error (e_devs s) k) as [d|] eqn:Ek; [|discriminate].
    destruct (d_pend d) as [|x p] eqn:Ep; [discriminate|].
    destruct (ostep pc oc (e_relay s) (Enter (k, x))) as [r|] eqn:Er; [|discriminate]. injection H as <-.
    split; [exact (ostep_inv _ _ _ _ _ Er Ho)|]. split; [cbn; rewrite set_nth_length; exact Hl|].
    intros j d' c h Hj Hc. cbn [e_devs e_relay] in *. rewrite (ostep_sent_enter _ _ _ _ _ _ j Er).
    destruct (Nat.eq_dec j k) as [->|Hne].
    + rewrite Nat.eqb_refl. rewrite (nth_error_set_nth_same _ _ _ _ Ek) in Hj. injection Hj as <-.
      destruct (Hd k d c h Ek Hc) as [Hcfg [Hcl Hs]].
      split; [exact Hcfg|]. split; [exact Hcl|].
      rewrite <- Hs. unfold remaining. cbn [d_pend d_closed d_cfg d_state d_todo]. rewrite Ep.
      rewrite <- !app_assoc. reflexivity.
    + apply Nat.eqb_neq in Hne as Hb. rewrite Hb.
      rewrite (nth_error_set_nth_other _ _ _ _ Hne) in Hj. exact (Hd j d' c h Hj Hc).
  - (* relay *)
    destruct pl as [|i|p]; [| |discriminate].
    + destruct (ostep pc oc (e_relay s) Deliver) as [r|] eqn:Er; [|discriminate]. injection H as <-.
      split; [exact (ostep_inv _ _ _ _ _ Er Ho)|]. split; [exact Hl|]. cbn [e_devs e_relay].
      rewrite (ostep_sent_same _ _ _ _ _ (fun q (E : Deliver = Enter q) => ltac:(discriminate E)) Er). exact Hd.
    + destruct (ostep pc oc (e_relay s) (Move i)) as [r|] eqn:Er; [|discriminate]. injection H as <-.
      split; [exact (ostep_inv _ _ _ _ _ Er Ho)|]. split; [exact Hl|]. cbn [e_devs e_relay].
      rewrite (ostep_sent_same _ _ _ _ _ (fun q (E : Move i = Enter q) => ltac:(discriminate E)) Er). exact Hd.
Qed.

Lemma einv_reachable ds pc oc s : reachable (estep pc oc) (einit ds) s -> einv ds s.
Proof. induction 1 as [|s l s' _ IH H]; [apply einv_init|exact (estep_inv _ _ _ _ _ _ H IH)]. Qed.

(* ---- the end-to-end statement *)
Theorem e2e_stream ds pc oc s : reachable (estep pc oc) (einit ds) s ->
  forall k d c h, nth_error (e_devs s) k = Some d -> nth_error ds k = Some (c, h) ->
    at_port s k ++ in_relay s k ++ remaining d = device_stream c h.
Proof.
  intros R k d c h Hd Hc. destruct (einv_reachable _ _ _ _ R) as [[H1 H2] [_ Hk]].
  destruct (Hk k d c h Hd Hc) as [_ [_ Hs]]. rewrite <- Hs, <- H2, <- H1. unfold oflow, at_port, in_relay.
  rewrite proj_app, <- app_assoc. reflexivity.
Qed.

Theorem e2e_quiescent ds pc oc s : reachable (estep pc oc) (einit ds) s -> quiescent s ->
  forall k c h, nth_error ds k = Some (c, h) -> at_port s k = device_stream c h.
Proof.
  intros R [Hq Hall] k c h Hc. destruct (einv_reachable _ _ _ _ R) as [_ [Hlen _]].
  destruct (nth_error (e_devs s) k) as [d|] eqn:Ek.
  - rewrite <- (e2e_stream _ _ _ _ R k d c h Ek Hc). unfold in_relay. rewrite Hq.
    destruct (Hall d (nth_error_In _ _ Ek)) as [Hp [Ht Hcl]]. unfold remaining. rewrite Hp, Hcl. cbn. rewrite app_nil_r. reflexivity.
  - apply nth_error_None in Ek. assert (k < length ds) by (apply nth_error_Some; congruence). lia.
Qed.

(* the port never receives anything that is not a prefix of that stream *)
Corollary e2e_prefix ds pc oc s : reachable (estep pc oc) (einit ds) s ->
  forall k c h, nth_error ds k = Some (c, h) -> exists rest, at_port s k ++ rest = device_stream c h.
Proof.
  intros R k c h Hc. destruct (einv_reachable _ _ _ _ R) as [_ [Hlen _]].
  destruct (nth_error (e_devs s) k) as [d|] eqn:Ek.
  - eexists. exact (e2e_stream _ _ _ _ R k d c h Ek Hc).
  - apply nth_error_None in Ek. assert (k < length ds) by (apply nth_error_Some; congruence). lia.
Qed.

(* ---- progress: no deadlock.  The pipe of the relay always has exactly its three stages. *)
Definition shape3 (r : @ostate msg) : Prop := exists a b c, stages (o_pipe r) = [a; b; c].

Lemma ostep_shape3 pc oc (r r' : @ostate msg) l : ostep pc oc r l = Some r' -> shape3 r -> shape3 r'.
Proof.
  unfold ostep, shape3. intros H [a [b [c E]]].
  destruct (pstep (out_caps pc oc) (o_pipe r) l) as [p|] eqn:Ep; [|discriminate].
  assert (Hp : exists a' b' c', stages p = [a'; b'; c']).
  { unfold pstep in Ep. rewrite E in Ep. destruct l as [|i|x].
    - destruct a as [|x a']; cbn in Ep; [discriminate|]. injection Ep as <-. cbn. eauto.
    - unfold out_caps in Ep. destruct i as [|[|i]]; cbn -[Nat.ltb chan_cap] in Ep.
      + destruct b as [|x b']; [discriminate|]. destruct (_ <? _) in Ep; [|discriminate]. injection Ep as <-. cbn. eauto.
      + destruct c as [|x c']; [discriminate|]. destruct (_ <? _) in Ep; [|discriminate]. injection Ep as <-. cbn. eauto.
      + discriminate.
    - unfold out_caps in Ep. cbn -[Nat.ltb chan_cap] in Ep. destruct (_ <? _) in Ep; [|discriminate]. injection Ep as <-. cbn. eauto. }
  injection H as <-. destruct l as [| |[k x]]; exact Hp.
Qed.

Lemma shape3_reachable ds pc oc s : reachable (estep pc oc) (einit ds) s -> shape3 (e_relay s).
Proof.
  induction 1 as [|s l s' _ IH H]; [exists [], [], []; reflexivity|].
  destruct l as [k|k|k|pl]; cbn [estep] in H.
  - destruct (nth_error (e_devs s) k) as [d|]; [|discriminate]. destruct (d_pend d); [|discriminate].
    destruct (d_todo d); [discriminate|]. destruct (Device.step _ _ _). injection H as <-. exact IH.
  - destruct (nth_error (e_devs s) k) as [d|]; [|discriminate]. destruct (d_pend d); [|discriminate].
    destruct (d_todo d); [|discriminate]. destruct (d_closed d); [discriminate|]. destruct (Device.cleanup _ _). injection H as <-. exact IH.
  - destruct (nth_error (e_devs s) k) as [d|]; [|discriminate]. destruct (d_pend d) as [|x p]; [discriminate|].
    destruct (ostep pc oc (e_relay s) (Enter (k, x))) as [r|] eqn:Er; [|discriminate]. injection H as <-.
    exact (ostep_shape3 _ _ _ _ _ Er IH).
  - destruct pl as [|i|p]; [| |discriminate].
    + destruct (ostep pc oc (e_relay s) Deliver) as [r|] eqn:Er; [|discriminate]. injection H as <-. exact (ostep_shape3 _ _ _ _ _ Er IH).
    + destruct (ostep pc oc (e_relay s) (Move i)) as [r|] eqn:Er; [|discriminate]. injection H as <-. exact (ostep_shape3 _ _ _ _ _ Er IH).
Qed.

Definition ddone (d : dproc) : Prop := d_pend d = [] /\ d_todo d = [] /\ d_closed d = true.

Lemma find_work (l : list dproc) : (forall d, In d l -> ddone d) \/ exists k d, nth_error l k = Some d /\ ~ ddone d.
Proof.
  induction l as [|d r IH]; [left; intros d []|].
  assert (Hd : ddone d \/ ~ ddone d).
  { unfold ddone. destruct (d_pend d); [|right; intros [H _]; discriminate].
    destruct (d_todo d); [|right; intros [_ [H _]]; discriminate].
    destruct (d_closed d); [left; auto|right; intros [_ [_ H]]; discriminate]. }
  destruct Hd as [Hd|Hd]; [|right; exists 0, d; split; [reflexivity|exact Hd]].
  destruct IH as [IH|[k [d' [Hk Hn]]]].
  - left. intros x [<-|Hx]; [exact Hd|exact (IH x Hx)].
  - right. exists (S k), d'. split; [exact Hk|exact Hn].
Qed.

Lemma chan_cap_pos c : 0 <? chan_cap c = true.
Proof. apply Nat.ltb_lt. unfold chan_cap. lia. Qed.

Theorem e2e_progress ds pc oc s : reachable (estep pc oc) (einit ds) s ->
  quiescent s \/ exists l s', estep pc oc s l = Some s'.
Proof.
  intro R. destruct (shape3_reachable _ _ _ _ R) as [a [b [c E]]].
  destruct a as [|x a'].
  2:{ right. exists (RelayL Deliver). cbn [estep]. unfold ostep, pstep. rewrite E. cbn. eauto. }
  destruct b as [|x b'].
  2:{ right. exists (RelayL (Move 0)). cbn [estep]. unfold ostep, pstep. rewrite E. unfold out_caps. cbn -[Nat.ltb chan_cap].
      rewrite chan_cap_pos. cbn. eauto. }
  destruct c as [|x c'].
  2:{ right. exists (RelayL (Move 1)). cbn [estep]. unfold ostep, pstep. rewrite E. unfold out_caps. cbn. eauto. }
  destruct (find_work (e_devs s)) as [Hall|[k [d [Hk Hn]]]].
  - left. split; [unfold in_flight; rewrite E; reflexivity|exact Hall].
  - right. destruct (d_pend d) as [|x p] eqn:Ep.
    + destruct (d_todo d) as [|e r] eqn:Et.
      * destruct (d_closed d) eqn:Ec; [exfalso; apply Hn; repeat split; assumption|].
        exists (DClose k). cbn [estep]. rewrite Hk, Ep, Et, Ec. destruct (Device.cleanup _ _). eauto.
      * exists (DTake k). cbn [estep]. rewrite Hk, Ep, Et. destruct (Device.step _ _ _). eauto.
    + exists (DSend k). cbn [estep]. rewrite Hk, Ep. unfold ostep, pstep. rewrite E. unfold out_caps. cbn -[Nat.ltb chan_cap].
      rewrite chan_cap_pos. cbn. eauto.
Qed.

(* ---- a per-device theorem carried to the port: C13 end to end.  Whatever else is connected and however the goroutines
   interleave, once everything has drained the port has received from device k: the stream of the history before the
   panic press, the complete burst, exactly what the continuation produces from the state before the press, and the
   clean-up. *)
Lemma all_midi_app a b : all_midi (a ++ b) = all_midi a ++ all_midi b.
Proof. unfold all_midi. apply flat_map_app. Qed.

Theorem e2e_panic ds pc oc s k c h1 sub sub' kk h2 :
  reachable (estep pc oc) (einit ds) s -> quiescent s ->
  nth_error ds k = Some (c, h1 ++ EKey sub kk 1 :: EKey sub' kk 0 :: h2) ->
  let s1 := fst (Device.run c h1) in
  panic_triggers c s1 kk -> ~ In kk (keys_down h1) ->
  at_port s k = all_midi (snd (Device.run c h1)) ++ panic_burst (channel s1) ++ all_midi (snd (Device.run_from c s1 h2)) ++
                snd (Device.cleanup c (fst (Device.run c (h1 ++ EKey sub kk 1 :: EKey sub' kk 0 :: h2)))).
Proof.
  intros R Q Hk s1 Ht Hn. rewrite (e2e_quiescent _ _ _ _ R Q k _ _ Hk).
  destruct (panic_transparent_general c h1 sub sub' kk h2 Ht Hn) as [H1 _]. fold s1 in H1.
  unfold device_stream. destruct (Device.run c (h1 ++ EKey sub kk 1 :: EKey sub' kk 0 :: h2)) as [sf os] eqn:E.
  cbn [fst snd] in *. rewrite H1, all_midi_app. cbn [all_midi flat_map midi emit silent app].
  rewrite <- !app_assoc. reflexivity.
Qed.

(* ---- executable schedules (for the non-vacuity example): at every tick the first enabled label of [cands] is taken *)
Fixpoint first_enabled pc oc (s : estate) (cands : list elabel) : option estate :=
  match cands with
  | [] => None
  | l :: r => match estep pc oc s l with Some s' => Some s' | None => first_enabled pc oc s r end
  end.

Fixpoint sched pc oc (cands : list elabel) (fuel : nat) (s : estate) : estate :=
  match fuel with
  | 0 => s
  | S f => match first_enabled pc oc s cands with Some s' => sched pc oc cands f s' | None => s end
  end.

Lemma first_enabled_step pc oc s cands s' : first_enabled pc oc s cands = Some s' -> exists l, estep pc oc s l = Some s'.
Proof.
  induction cands as [|l r IH]; cbn; [discriminate|]. destruct (estep pc oc s l) as [s1|] eqn:E; [|exact IH].
  intro H. injection H as <-. exists l. exact E.
Qed.

Lemma sched_reachable pc oc init cands fuel s :
  reachable (estep pc oc) init s -> reachable (estep pc oc) init (sched pc oc cands fuel s).
Proof.
  revert s. induction fuel as [|f IH]; intros s R; cbn; [exact R|].
  destruct (first_enabled pc oc s cands) as [s'|] eqn:E; [|exact R].
  destruct (first_enabled_step _ _ _ _ _ E) as [l Hl]. apply IH. exact (reach_step _ _ _ _ _ R Hl).
Qed.

Definition quiescentb (s : estate) : bool :=
  match in_flight (o_pipe (e_relay s)) with [] => true | _ => false end &&
  forallb (fun d => match d_pend d, d_todo d with [], [] => d_closed d | _, _ => false end) (e_devs s).

Lemma quiescentb_sound s : quiescentb s = true -> quiescent s.
Proof.
  unfold quiescentb, quiescent. intro H. apply andb_prop in H as [H1 H2]. split.
  - destruct (in_flight _); [reflexivity|discriminate].
  - intros d Hd. rewrite forallb_forall in H2. specialize (H2 d Hd).
    destruct (d_pend d); [|discriminate]. destruct (d_todo d); [|discriminate]. auto.
Qed.

(* ---- C01 end to end: whatever else is connected, once device k's history has been processed, its input closed and
   everything delivered, nothing the device started is sounding at the receiver behind the port *)
Theorem e2e_disconnect ds pc oc s k c h :
  reachable (estep pc oc) (einit ds) s -> quiescent s -> nth_error ds k = Some (c, h) -> alternating h ->
  recv [] (at_port s k) = [].
Proof.
  intros R Q Hk Ha. rewrite (e2e_quiescent _ _ _ _ R Q k _ _ Hk). unfold device_stream.
  destruct (Device.run c h) as [sf os] eqn:E.
  pose proof (disconnect_silences c h Ha) as H. rewrite E in H. exact H.
Qed.

(* ---- event boundaries.  The ghost [d_done] records the events a device process has taken; while the device is not
   disconnected its model state is the state after exactly those events, and what it has handed over plus what it still
   holds of the current event is exactly the model's output for them. *)
Definition dghost (c : config) (h : list ev) (sent : list msg) (d : dproc) : Prop :=
  d_done d ++ d_todo d = h /\
  (d_closed d = false ->
   d_state d = fst (Device.run c (d_done d)) /\ sent ++ d_pend d = all_midi (snd (Device.run c (d_done d)))).

Definition ghost_ok (ds : list (config * list ev)) (s : estate) : Prop :=
  forall k d c h, nth_error (e_devs s) k = Some d -> nth_error ds k = Some (c, h) -> dghost c h (o_sent (e_relay s) k) d.

Lemma run_snoc c l e :
  Device.run c (l ++ [e]) =
  let '(s1, o1) := Device.run c l in let '(s2, o) := Device.step c s1 e in (s2, o1 ++ [o]).
Proof.
  unfold Device.run. rewrite run_from_app. destruct (Device.run_from c (Device.init c) l) as [s1 o1].
  cbn [Device.run_from]. destruct (Device.step c s1 e) as [s2 o]. reflexivity.
Qed.

Lemma ghost_init ds : ghost_ok ds (einit ds).
Proof.
  intros k d c h Hd Hc. unfold einit in Hd. cbn [e_devs] in Hd. rewrite nth_error_map, Hc in Hd. cbn in Hd. injection Hd as <-.
  split; [reflexivity|]. intros _. split; reflexivity.
Qed.

Lemma estep_ghost ds pc oc s l s' : estep pc oc s l = Some s' -> einv ds s -> ghost_ok ds s -> ghost_ok ds s'.
Proof.
  intros H [_ [_ Hdok]] Hg. destruct l as [k|k|k|pl]; cbn [estep] in H.
  - destruct (nth_error (e_devs s) k) as [d|] eqn:Ek; [|discriminate].
    destruct (d_pend d) eqn:Ep; [|discriminate]. destruct (d_todo d) as [|e r] eqn:Et; [discriminate|].
    destruct (Device.step (d_cfg d) (d_state d) e) as [st o] eqn:Es. injection H as <-.
    intros j d' c h Hj Hc. cbn [e_devs e_relay] in *.
    destruct (Nat.eq_dec j k) as [->|Hne].
    + rewrite (nth_error_set_nth_same _ _ _ _ Ek) in Hj. injection Hj as <-.
      destruct (Hg k d c h Ek Hc) as [Hh Hrun]. destruct (Hdok k d c h Ek Hc) as [Hcfg [Hcl _]].
      assert (Hnc : d_closed d = false).
      { destruct (d_closed d); [|reflexivity]. specialize (Hcl eq_refl). rewrite Et in Hcl. discriminate. }
      destruct (Hrun Hnc) as [Hst Hsent]. split.
      * cbn [d_done d_todo]. rewrite <- app_assoc. cbn. rewrite <- Et. exact Hh.
      * intros _. cbn [d_state d_pend d_done]. rewrite run_snoc.
        destruct (Device.run c (d_done d)) as [s1 o1] eqn:Er. cbn [fst snd] in Hst, Hsent.
        rewrite Hcfg, Hst in Es. rewrite Es. cbn [fst snd]. split; [reflexivity|].
        rewrite Ep, app_nil_r in Hsent. rewrite Hsent, all_midi_app. cbn [all_midi flat_map]. rewrite app_nil_r. reflexivity.
    + rewrite (nth_error_set_nth_other _ _ _ _ Hne) in Hj. exact (Hg j d' c h Hj Hc).
  - destruct (nth_error (e_devs s) k) as [d|] eqn:Ek; [|discriminate].
    destruct (d_pend d) eqn:Ep; [|discriminate]. destruct (d_todo d) as [|e r] eqn:Et; [|discriminate].
    destruct (d_closed d) eqn:Ec; [discriminate|].
    destruct (Device.cleanup (d_cfg d) (d_state d)) as [st ms] eqn:Es. injection H as <-.
    intros j d' c h Hj Hc. cbn [e_devs e_relay] in *.
    destruct (Nat.eq_dec j k) as [->|Hne].
    + rewrite (nth_error_set_nth_same _ _ _ _ Ek) in Hj. injection Hj as <-.
      destruct (Hg k d c h Ek Hc) as [Hh _]. split; [cbn [d_done d_todo]; rewrite <- Et; exact Hh|]. cbn. discriminate.
    + rewrite (nth_error_set_nth_other _ _ _ _ Hne) in Hj. exact (Hg j d' c h Hj Hc).
  - destruct (nth_error (e_devs s) k) as [d|] eqn:Ek; [|discriminate].
    destruct (d_pend d) as [|x p] eqn:Ep; [discriminate|].
    destruct (ostep pc oc (e_relay s) (Enter (k, x))) as [r|] eqn:Er; [|discriminate]. injection H as <-.
    intros j d' c h Hj Hc. cbn [e_devs e_relay] in *. rewrite (ostep_sent_enter _ _ _ _ _ _ j Er).
    destruct (Nat.eq_dec j k) as [->|Hne].
    + rewrite Nat.eqb_refl. rewrite (nth_error_set_nth_same _ _ _ _ Ek) in Hj. injection Hj as <-.
      destruct (Hg k d c h Ek Hc) as [Hh Hrun]. split; [exact Hh|]. cbn [d_closed d_state d_pend d_done]. intro Hnc.
      destruct (Hrun Hnc) as [Hst Hsent]. split; [exact Hst|]. rewrite <- Hsent, Ep, <- app_assoc. reflexivity.
    + apply Nat.eqb_neq in Hne as Hb. rewrite Hb.
      rewrite (nth_error_set_nth_other _ _ _ _ Hne) in Hj. exact (Hg j d' c h Hj Hc).
  - destruct pl as [|i|p]; [| |discriminate].
    + destruct (ostep pc oc (e_relay s) Deliver) as [r|] eqn:Er; [|discriminate]. injection H as <-.
      intros j d' c h Hj Hc. cbn [e_devs e_relay] in *.
      rewrite (ostep_sent_same _ _ _ _ _ (fun q (E : Deliver = Enter q) => ltac:(discriminate E)) Er). exact (Hg j d' c h Hj Hc).
    + destruct (ostep pc oc (e_relay s) (Move i)) as [r|] eqn:Er; [|discriminate]. injection H as <-.
      intros j d' c h Hj Hc. cbn [e_devs e_relay] in *.
      rewrite (ostep_sent_same _ _ _ _ _ (fun q (E : Move i = Enter q) => ltac:(discriminate E)) Er). exact (Hg j d' c h Hj Hc).
Qed.

Lemma ghost_reachable ds pc oc s : reachable (estep pc oc) (einit ds) s -> ghost_ok ds s.
Proof.
  induction 1 as [|s l s' R IH H]; [apply ghost_init|].
  exact (estep_ghost _ _ _ _ _ _ H (einv_reachable _ _ _ _ R) IH).
Qed.

(* At every event boundary of device k - whatever the other devices, the relay and the port are doing - the port has
   received from k exactly the model's output for the prefix of k's history processed so far. *)
Theorem e2e_boundary ds pc oc s k d c h :
  reachable (estep pc oc) (einit ds) s -> nth_error (e_devs s) k = Some d -> nth_error ds k = Some (c, h) ->
  at_boundary s k d ->
  d_done d ++ d_todo d = h /\ d_state d = fst (Device.run c (d_done d)) /\
  at_port s k = all_midi (snd (Device.run c (d_done d))).
Proof.
  intros R Hd Hc [Hnc [Hp Hr]]. destruct (ghost_reachable _ _ _ _ R k d c h Hd Hc) as [Hh Hrun].
  destruct (Hrun Hnc) as [Hst Hsent]. split; [exact Hh|]. split; [exact Hst|].
  destruct (einv_reachable _ _ _ _ R) as [[H1 H2] _].
  rewrite <- Hsent, Hp, app_nil_r, <- H2, <- H1. unfold oflow, at_port. rewrite proj_app.
  unfold in_relay in Hr. rewrite Hr, app_nil_r. reflexivity.
Qed.

(* ---- per-prefix theorems carried to the port at event boundaries *)
From HIDI Require Import Proofs.DeviceCC.

(* C07: at every event boundary of device k at most one controller of each bidirectional pair is non-zero at the receiver
   behind the port *)
Theorem e2e_cc_at_most_one ds pc oc s k d c h A :
  reachable (estep pc oc) (einit ds) s -> nth_error (e_devs s) k = Some d -> nth_error ds k = Some (c, h) ->
  at_boundary s k d -> cc_family A -> Forall (c07_event c A) h ->
  let R := recv_cc [] (at_port s k) in
  forall a, In a A -> a_bidi a = true ->
    cc_value R (pos_key (d_state d) a) = 0%N \/ cc_value R (neg_key (d_state d) a) = 0%N.
Proof.
  intros R0 Hd Hc Hb HA He R a Ha Hbi. destruct (e2e_boundary _ _ _ _ _ _ _ _ R0 Hd Hc Hb) as [Hh [Hst Hport]].
  subst R. rewrite Hport, Hst. rewrite <- Hh in He.
  exact (at_most_one c A (d_done d) HA (forall_prefix _ _ _ He) a Ha Hbi).
Qed.

(* C01: at every event boundary of device k at which no key is down and no emulated key is engaged, nothing is sounding at
   the receiver behind the port *)
Theorem e2e_quiescent_silent ds pc oc s k d c h :
  reachable (estep pc oc) (einit ds) s -> nth_error (e_devs s) k = Some d -> nth_error ds k = Some (c, h) ->
  at_boundary s k d -> alternating h -> keys_down (d_done d) = [] -> analogT (d_state d) = [] ->
  recv [] (at_port s k) = [].
Proof.
  intros R0 Hd Hc Hb Halt Hk Ha. destruct (e2e_boundary _ _ _ _ _ _ _ _ R0 Hd Hc Hb) as [Hh [Hst Hport]].
  rewrite Hport. rewrite <- Hh in Halt. apply quiescent_silent; [exact (alternating_prefix _ _ Halt)|exact Hk|].
  rewrite <- Hst. exact Ha.
Qed.
