(* C15, fan-out: a consumer is inserted behind everything any consumer has already received.
   The harness records, when SpawnOutput is CALLED, the highest item some consumer had taken out of its channel by then; the check
   (lib/c15.py sc_bound) demands that the new consumer's first item lies behind it.  This file justifies that bound in the model:
   whatever happens between the moment some consumer o has read up to stream position q = |c_pre o| + |c_read o| and the moment a
   new consumer is inserted (any steps of anybody), the new consumer's segment starts at a position >= q. *)
From Coq Require Import List Arith Bool Lia.
From HIDI Require Import Model.Relay Model.Fanout Proofs.TransportProofs.
Import ListNotations.

Section Attach.
  Context {T : Type}.
  Variable fixed : bool.
  Variable icap : nat.
  Notation step := (@Fanout.step T fixed icap).

  (* the broadcast stream only grows *)
  Lemma step_hist_grows (s s' : @state T) l : step s l = Some s' -> exists t, hist s' = hist s ++ t.
  Proof.
    unfold Fanout.step. intro H.
    destruct l; repeat (match type of H with context [match ?x with _ => _ end] => destruct x end);
      try discriminate; injection H as <-; cbn [hist];
      first [exists []; symmetry; apply app_nil_r | eexists; reflexivity].
  Qed.

  Lemma exec_hist_grows (s s' : @state T) ls : exec step s ls s' -> exists t, hist s' = hist s ++ t.
  Proof.
    induction 1 as [s|s l s1 ls s2 H _ IH]; [exists []; symmetry; apply app_nil_r|].
    destruct (step_hist_grows _ _ _ H) as [t1 E1]. destruct IH as [t2 E2]. exists (t1 ++ t2). rewrite E2, E1, app_assoc. reflexivity.
  Qed.

  (* what a consumer has read lies inside the stream broadcast so far *)
  Lemma read_inside_hist (s : @state T) o : reachable step init s -> In o (outs s) ->
    length (c_pre o) + length (c_read o) <= length (hist s).
  Proof.
    intros R Ho. destruct (fanout_segment fixed icap s R) as [Hall _]. destruct (Hall o Ho) as [Hn [Hs _]].
    destruct (c_skipped o) eqn:E.
    - destruct (Hs eq_refl) as [_ [_ [rest Hh]]]. rewrite Hh, !app_length. lia.
    - rewrite (Hn eq_refl), !app_length. lia.
  Qed.

  Lemma find_app_new (os : list (@output T)) i n :
    mem i (ids os) = false -> c_id n = i -> get_out i (os ++ [n]) = Some n.
  Proof.
    unfold get_out, mem, ids. intros Hm Hi. induction os as [|o r IH]; cbn in *.
    - rewrite Hi, Nat.eqb_refl. reflexivity.
    - apply orb_false_elim in Hm as [H1 H2]. rewrite Nat.eqb_sym, H1. apply IH. exact H2.
  Qed.

  Theorem insert_behind_received (s s1 s2 : @state T) o ls i n :
    reachable step init s -> In o (outs s) ->
    exec step s ls s1 -> step s1 (SpawnInsert i) = Some s2 -> get_out i (outs s2) = Some n ->
    length (c_pre o) + length (c_read o) <= length (c_pre n) /\ c_read n = [] /\ c_q n = [].
  Proof.
    intros R Ho Hex Hins Hget. pose proof (read_inside_hist s o R Ho) as Hle.
    destruct (exec_hist_grows _ _ _ Hex) as [t Ht].
    unfold Fanout.step in Hins. destruct (own s1) as [| |p [j|]| ]; try discriminate.
    destruct (mem i (ids (outs s1))) eqn:Hm; [discriminate|]. injection Hins as <-. cbn [outs] in Hget.
    rewrite find_app_new in Hget; [|exact Hm|reflexivity]. injection Hget as <-. cbn [c_pre c_read c_q].
    rewrite Ht, app_length. split; [lia|split; reflexivity].
  Qed.
End Attach.
