(* C06, general part (no grid), continued: the encoders (controller byte, 14-bit pitch bend) on any finite value of the
   shaped range, and the end-to-end statement: for EVERY axis range within int32, EVERY raw value, EVERY finite deadzone
   0 <= dz <= 1 - 2^-10, every kind of output, with and without flip, the transmitted integer lies in the MIDI range, is
   within 1 + 2^-20 of the exact real-number value and is monotone in the raw position. *)
From Coq Require Import List NArith ZArith Bool Reals Lra Lia.
From Flocq Require Import Core.Core.
From Flocq Require IEEE754.BinarySingleNaN.
From HIDI Require Import Base.AList Model.Device Model.AnalogF Model.AnalogSpec Proofs.AnalogEndstop Proofs.AnalogGeneral.
Local Open Scope R_scope.

(* ====================================================================== int(float64) and math.Round *)
Lemma f2int_ok x : B.is_finite x = true -> -32768 <= B.B2R x <= 32768 -> f2int x = Ztrunc (B.B2R x).
Proof.
  intros Hf Hr. pose proof (B.Btrunc_correct 53 1024 _ x) as T. rewrite round_FIX_IZR in T. apply eq_IZR in T.
  destruct x as [s| | |s m e Hb]; try discriminate.
  - cbn. symmetry. apply (Ztrunc_IZR 0).
  - unfold f2int. rewrite T.
    assert (A : (Ztrunc (-32768) <= Ztrunc (B.B2R (B.B754_finite s m e Hb)) <= Ztrunc 32768)%Z)
      by (split; apply Ztrunc_le; lra).
    rewrite (Ztrunc_IZR (-32768)), (Ztrunc_IZR 32768) in A.
    set (t := Ztrunc (B.B2R (B.B754_finite s m e Hb))) in *.
    replace ((-9223372036854775808 <=? t)%Z && (t <? 9223372036854775808)%Z)%bool with true; [reflexivity|].
    symmetry. apply andb_true_intro. split; [apply Z.leb_le|apply Z.ltb_lt]; lia.
Qed.

Lemma fround_ok x : B.B2R (fround x) = IZR (ZnearestA (B.B2R x)) /\ B.is_finite (fround x) = B.is_finite x.
Proof.
  unfold fround. destruct (B.Bnearbyint_correct 53 1024 _ B.mode_NA x) as (H1&H2&_).
  rewrite round_FIX_IZR in H1. split; assumption.
Qed.

Lemma f127_correct : B.B2R f127 = 127 /\ B.is_finite f127 = true.
Proof. destruct (f_of_Z_correct 127 ltac:(cbn; lia)) as (H1&H2&_). split; assumption. Qed.
Lemma f16383_correct : B.B2R f16383 = 16383 /\ B.is_finite f16383 = true.
Proof. destruct (f_of_Z_correct 16383 ltac:(cbn; lia)) as (H1&H2&_). split; assumption. Qed.

(* ====================================================================== the encoders on real numbers + rnd *)
Definition CCR (a : R) : Z := Zfloor (rnd (127 * a)).                  (* byte(int(127 * a)) *)
Definition HR (v : R) : R := rnd (rnd (v + 1) / 2).                    (* (v + 1) / 2 *)
Definition CR (v : R) : R := rnd (rnd (v * 2) - 1).                    (* v * 2 - 1 *)
Definition PBR (w : R) : Z := ZnearestA (rnd (16383 * HR w)).          (* int(math.Round(16383 * ((w + 1) / 2))) *)

Lemma rnd_le_Z z x : (Z.abs z < 2 ^ 53)%Z -> x <= IZR z -> rnd x <= IZR z.
Proof. intros Hz H. rewrite <- (rnd_Z z Hz). apply rnd_le. exact H. Qed.

Lemma CCR_facts a : 0 <= a <= 1 ->
  (0 <= CCR a <= 127)%Z /\ 0 <= rnd (127 * a) <= 127 /\ -1 - 128 * u <= IZR (CCR a) - 127 * a <= 128 * u.
Proof.
  intro H. assert (P0 : 0 <= rnd (127 * a)) by (apply rnd_nonneg; lra).
  assert (P1 : rnd (127 * a) <= 127) by (apply (rnd_le_Z 127); [cbn; lia|lra]).
  pose proof (rnd_err_128 (127 * a) ltac:(lra)) as E.
  unfold CCR. pose proof (Zfloor_lb (rnd (127 * a))). pose proof (Zfloor_ub (rnd (127 * a))).
  split; [|split; [lra|lra]].
  pose proof (Zfloor_le _ _ P0) as F0. pose proof (Zfloor_le _ _ P1) as F1.
  rewrite (Zfloor_IZR 0) in F0. rewrite (Zfloor_IZR 127) in F1. lia.
Qed.

Lemma CCR_mono a b : a <= b -> (CCR a <= CCR b)%Z.
Proof. intro H. unfold CCR. apply Zfloor_le. apply rnd_le. lra. Qed.

Lemma HR_facts v : -1 <= v <= 1 -> 0 <= HR v <= 1 /\ - (2 * u) <= HR v - (v + 1) / 2 <= 2 * u.
Proof.
  intro H. pose proof u_pos. unfold HR.
  assert (0 <= rnd (v + 1)) by (apply rnd_nonneg; lra). assert (rnd (v + 1) <= 2) by (apply rnd_le_2; lra).
  pose proof (rnd_err_2 (v + 1) ltac:(lra)). pose proof (rnd_err_1 (rnd (v + 1) / 2) ltac:(lra)).
  split; [split; [apply rnd_nonneg; lra|apply rnd_le_1; lra]|lra].
Qed.

Lemma HR_mono a b : a <= b -> HR a <= HR b.
Proof. intro H. unfold HR. apply rnd_le. assert (rnd (a + 1) <= rnd (b + 1)) by (apply rnd_le; lra). lra. Qed.

Lemma CR_facts v : 0 <= v <= 1 -> -1 <= CR v <= 1 /\ - (3 * u) <= CR v - (v * 2 - 1) <= 3 * u.
Proof.
  intro H. pose proof u_pos. unfold CR.
  assert (0 <= rnd (v * 2)) by (apply rnd_nonneg; lra). assert (rnd (v * 2) <= 2) by (apply rnd_le_2; lra).
  pose proof (rnd_err_2 (v * 2) ltac:(lra)). pose proof (rnd_err_1 (rnd (v * 2) - 1) ltac:(lra)).
  split; [split; [apply rnd_ge_m1; lra|apply rnd_le_1; lra]|lra].
Qed.

Lemma CR_mono a b : a <= b -> CR a <= CR b.
Proof. intro H. unfold CR. apply rnd_le. assert (rnd (a * 2) <= rnd (b * 2)) by (apply rnd_le; lra). lra. Qed.

(* v < 1/2 gives a centred value <= 0, v >= 1/2 one >= 0 *)
Lemma CR_sign v : (v < / 2 -> CR v <= 0) /\ (/ 2 <= v -> 0 <= CR v).
Proof.
  unfold CR. split; intro H.
  - apply rnd_nonpos. assert (rnd (v * 2) <= 1) by (apply rnd_le_1; lra). lra.
  - apply rnd_nonneg. assert (1 <= rnd (v * 2)) by (rewrite <- rnd_1; apply rnd_le; lra). lra.
Qed.

Lemma NA_le a b : a <= b -> (ZnearestA a <= ZnearestA b)%Z.
Proof. apply (@Zrnd_le ZnearestA (valid_rnd_N _)). Qed.

Lemma PBR_facts w : -1 <= w <= 1 ->
  (0 <= PBR w <= 16383)%Z /\ 0 <= rnd (16383 * HR w) <= 16383 /\
  - (/ 2 + 65536 * u) <= IZR (PBR w) - 16383 * ((w + 1) / 2) <= / 2 + 65536 * u.
Proof.
  intro H. pose proof u_pos as U. destruct (HR_facts w H) as [[H0 H1] He]. unfold PBR.
  assert (P0 : 0 <= rnd (16383 * HR w)) by (apply rnd_nonneg; lra).
  assert (P1 : rnd (16383 * HR w) <= 16383) by (apply (rnd_le_Z 16383); [cbn; lia|lra]).
  pose proof (rnd_err_16384 (16383 * HR w) ltac:(lra)) as E.
  pose proof (Znearest_half (Z.leb 0) (rnd (16383 * HR w))) as N. apply Rabs_le_inv in N.
  change (Znearest (Z.leb 0)) with ZnearestA in N.
  split; [|split; [lra|lra]].
  pose proof (NA_le _ _ P0) as F0. pose proof (NA_le _ _ P1) as F1.
  rewrite (@Zrnd_IZR ZnearestA (valid_rnd_N _) 0) in F0. rewrite (@Zrnd_IZR ZnearestA (valid_rnd_N _) 16383) in F1. lia.
Qed.

Lemma PBR_mono a b : a <= b -> (PBR a <= PBR b)%Z.
Proof. intro H. unfold PBR. apply NA_le. apply rnd_le. pose proof (HR_mono a b H). lra. Qed.

Lemma CCR_nonneg a : 0 <= a -> (0 <= CCR a)%Z.
Proof.
  intro H. unfold CCR. assert (P0 : 0 <= rnd (127 * a)) by (apply rnd_nonneg; lra).
  pose proof (Zfloor_le _ _ P0) as F0. rewrite (Zfloor_IZR 0) in F0. exact F0.
Qed.

(* ====================================================================== the float encoders compute the mirror *)
Lemma cc_byte_ok a : B.is_finite a = true -> 0 <= B.B2R a <= 1 -> Z.of_N (cc_byte a) = CCR (B.B2R a).
Proof.
  intros Hf Hr. destruct f127_correct as (C1&C2). destruct (CCR_facts _ Hr) as (Z1&P&_).
  destruct (fmul_ok f127 a C2 Hf) as [M1 M2]; [rewrite C1; lra|]. rewrite C1 in M1.
  unfold cc_byte. rewrite (f2int_ok _ M2) by (rewrite M1; lra). rewrite M1.
  rewrite Ztrunc_floor by lra. fold (CCR (B.B2R a)). unfold byte_of_Z.
  rewrite Z.mod_small by lia. apply Z2N.id. lia.
Qed.

Lemma half_ok v : B.is_finite v = true -> -1 <= B.B2R v <= 1 ->
  B.B2R (fdiv (fadd v f1) f2) = HR (B.B2R v) /\ B.is_finite (fdiv (fadd v f1) f2) = true.
Proof.
  intros Hf Hr. destruct f1_correct as (O1&O2&_). destruct f2_correct as (T1&T2).
  destruct (fadd_ok v f1 Hf O2) as [A1 A2]; [rewrite O1; lra|]. rewrite O1 in A1.
  assert (0 <= rnd (B.B2R v + 1)) by (apply rnd_nonneg; lra).
  assert (rnd (B.B2R v + 1) <= 2) by (apply rnd_le_2; lra).
  destruct (fdiv_ok (fadd v f1) f2 A2) as [D1 D2]; [rewrite T1; lra|rewrite A1, T1; lra|].
  rewrite A1, T1 in D1. split; assumption.
Qed.

Lemma centre_ok v : B.is_finite v = true -> 0 <= B.B2R v <= 1 ->
  B.B2R (fsub (fmul v f2) f1) = CR (B.B2R v) /\ B.is_finite (fsub (fmul v f2) f1) = true.
Proof.
  intros Hf Hr. destruct f1_correct as (O1&O2&_). destruct f2_correct as (T1&T2).
  destruct (fmul_ok v f2 Hf T2) as [A1 A2]; [rewrite T1; lra|]. rewrite T1 in A1.
  assert (0 <= rnd (B.B2R v * 2)) by (apply rnd_nonneg; lra).
  assert (rnd (B.B2R v * 2) <= 2) by (apply rnd_le_2; lra).
  destruct (fsub_ok (fmul v f2) f1 A2 O2) as [D1 D2]; [rewrite A1, O1; lra|].
  rewrite A1, O1 in D1. split; assumption.
Qed.

Lemma pb_target_ok w : B.is_finite w = true -> -1 <= B.B2R w <= 1 -> pb_target true w = PBR (B.B2R w).
Proof.
  intros Hf Hr. destruct f16383_correct as (C1&C2). destruct (half_ok w Hf Hr) as [H1 H2].
  destruct (PBR_facts _ Hr) as (Z1&P&_). destruct (HR_facts _ Hr) as [Hh _].
  destruct (fmul_ok f16383 _ C2 H2) as [M1 M2]; [rewrite C1, H1; lra|]. rewrite C1, H1 in M1.
  unfold pb_target. cbv zeta.
  destruct (fround_ok (fmul f16383 (fdiv (fadd w f1) f2))) as [R1 R2]. rewrite M1 in R1. rewrite M2 in R2.
  fold (PBR (B.B2R w)) in R1.
  rewrite (f2int_ok _ R2); rewrite R1; [apply Ztrunc_IZR|].
  split; [apply (IZR_le (-32768)); lia|apply (IZR_le _ 32768); lia].
Qed.

Lemma fhalf_correct : B.B2R fhalf = / 2 /\ B.is_finite fhalf = true.
Proof.
  unfold fhalf.
  pose proof (B.binary_normalize_correct 53 1024 _ _ B.mode_NE 1 (-1) false) as H. cbv zeta in H.
  assert (E : F2R (Float radix2 1 (-1)) = bpow radix2 (-1)) by (unfold F2R; simpl; lra).
  rewrite E in H. change (SpecFloat.fexp 53 1024) with fexp in H. rewrite (rnd_bpow (-1)) in H by lia.
  rewrite Rlt_bool_true in H.
  - destruct H as (H1&H2&_). split; [rewrite H1; simpl; lra|exact H2].
  - rewrite Rabs_pos_eq by apply bpow_ge_0. apply bpow_lt. lia.
Qed.

(* ====================================================================== what is transmitted *)
(* the controller value byte / the 14-bit pitch-bend value that [make_sample] computes for the (flipped) shaped value v *)
Definition tx_int (k : kind) (canneg : bool) (v : f64) : Z :=
  match k with
  | KCCuni => Z.of_N (snd (cc_encode canneg false v))
  | KCCbidi => Z.of_N (snd (cc_encode canneg true v))
  | KPB => pb_target true (centred canneg v)
  end.
(* ... with the value on the negative controller of a pair counted negative *)
Definition tx_signed (k : kind) (canneg : bool) (v : f64) : Z :=
  match k with
  | KCCbidi => let '(neg, b) := cc_encode canneg true v in if neg then (- Z.of_N b)%Z else Z.of_N b
  | _ => tx_int k canneg v
  end.

Definition in_range (canneg : bool) (x : R) : Prop := if canneg then -1 <= x <= 1 else 0 <= x <= 1.

Definition TXR (k : kind) (canneg : bool) (x : R) : Z :=
  match k, canneg with
  | KCCuni, true => CCR (HR x)
  | KCCuni, false => CCR x
  | KCCbidi, true => CCR (Rabs x)
  | KCCbidi, false => CCR (Rabs (CR x))
  | KPB, true => PBR x
  | KPB, false => PBR (CR x)
  end.
Definition SXR (k : kind) (canneg : bool) (x : R) : Z :=
  match k, canneg with
  | KCCbidi, true => if Rlt_bool x 0 then (- CCR (Rabs x))%Z else CCR (Rabs x)
  | KCCbidi, false => if Rlt_bool x (/ 2) then (- CCR (Rabs (CR x)))%Z else CCR (Rabs (CR x))
  | _, _ => TXR k canneg x
  end.

Lemma Rabs_01 x : -1 <= x <= 1 -> 0 <= Rabs x <= 1.
Proof. intro H. split; [apply Rabs_pos|apply Rabs_le; lra]. Qed.

Lemma tx_int_ok k canneg v : B.is_finite v = true -> in_range canneg (B.B2R v) ->
  tx_int k canneg v = TXR k canneg (B.B2R v).
Proof.
  intros Hf Hr. unfold tx_int, TXR, cc_encode, centred, in_range in *. destruct k, canneg; cbn [snd].
  - destruct (half_ok v Hf Hr) as [H1 H2]. rewrite cc_byte_ok, H1; [reflexivity|exact H2|].
    rewrite H1. apply HR_facts. exact Hr.
  - apply cc_byte_ok; assumption.
  - unfold fabs. rewrite cc_byte_ok; rewrite ?B.B2R_Babs, ?B.is_finite_Babs; [reflexivity|exact Hf|].
    apply Rabs_01. exact Hr.
  - destruct (centre_ok v Hf Hr) as [C1 C2]. unfold fabs.
    rewrite cc_byte_ok; rewrite ?B.B2R_Babs, ?B.is_finite_Babs, ?C1; [reflexivity|exact C2|].
    apply Rabs_01. apply CR_facts. exact Hr.
  - apply pb_target_ok; assumption.
  - destruct (centre_ok v Hf Hr) as [C1 C2]. rewrite pb_target_ok, C1; [reflexivity|exact C2|].
    rewrite C1. apply CR_facts. exact Hr.
Qed.

Lemma tx_signed_ok k canneg v : B.is_finite v = true -> in_range canneg (B.B2R v) ->
  tx_signed k canneg v = SXR k canneg (B.B2R v).
Proof.
  intros Hf Hr. pose proof (tx_int_ok KCCbidi canneg v Hf Hr) as T.
  destruct k; try (apply tx_int_ok; assumption).
  unfold tx_signed, tx_int, SXR, TXR, cc_encode in *. destruct f0_correct as (Z1&Z2). destruct fhalf_correct as (F1&F2).
  destruct canneg; cbn [snd] in T.
  - rewrite (flt_correct v f0 Hf Z2), Z1, T. reflexivity.
  - rewrite (flt_correct v fhalf Hf F2), F1, T. reflexivity.
Qed.

(* ====================================================================== flip *)
Definition FR (flip canneg : bool) (x : R) : R := if flip then (if canneg then - x else rnd (1 - x)) else x.
(* exact *)
Definition flip_R (flip canneg : bool) (p : R) : R := if flip then (if canneg then - p else 1 - p) else p.

Lemma flip_ok flip canneg v : B.is_finite v = true -> in_range canneg (B.B2R v) ->
  B.B2R (flip_value flip canneg v) = FR flip canneg (B.B2R v) /\ B.is_finite (flip_value flip canneg v) = true.
Proof.
  intros Hf Hr. unfold flip_value, FR, in_range in *. destruct flip; [|split; [reflexivity|exact Hf]].
  destruct canneg.
  - unfold fneg. rewrite B.B2R_Bopp, B.is_finite_Bopp. split; [reflexivity|exact Hf].
  - destruct f1_correct as (O1&O2&_). destruct (fsub_ok f1 v O2 Hf) as [S1 S2]; [rewrite O1; lra|].
    rewrite O1 in S1. split; assumption.
Qed.

Lemma FR_range flip canneg x : in_range canneg x -> in_range canneg (FR flip canneg x).
Proof.
  unfold in_range, FR. intro H. destruct flip; [|exact H]. destruct canneg; [lra|].
  split; [apply rnd_nonneg; lra|apply rnd_le_1; lra].
Qed.

Lemma FR_acc flip canneg x p d : in_range canneg x -> - d <= x - p <= d ->
  - (d + u) <= FR flip canneg x - flip_R flip canneg p <= d + u.
Proof.
  unfold in_range, FR, flip_R. intros Hr Hd. pose proof u_pos. destruct flip; [|lra]. destruct canneg; [lra|].
  pose proof (rnd_err_1 (1 - x) ltac:(lra)). lra.
Qed.

Lemma FR_mono (flip canneg : bool) a b : a <= b ->
  if flip then FR flip canneg b <= FR flip canneg a else FR flip canneg a <= FR flip canneg b.
Proof.
  intro H. unfold FR. destruct flip; [|exact H]. destruct canneg; [lra|]. apply rnd_le. lra.
Qed.

(* ====================================================================== range, accuracy, monotonicity of the encoders *)
(* the exact value on the MIDI scale: Model/AnalogSpec.v's [exact_scaled] over R *)
Definition scaled_R (k : kind) (canneg : bool) (p : R) : R :=
  match k with
  | KCCuni => if canneg then 127 * ((p + 1) / 2) else 127 * p
  | KCCbidi => if canneg then 127 * Rabs p else 127 * Rabs (p * 2 - 1)
  | KPB => if canneg then 16383 * ((p + 1) / 2) else 16383 * p
  end.
Definition full (k : kind) : Z := match k with KPB => 16383%Z | _ => 127%Z end.

Lemma TXR_range k canneg x : in_range canneg x -> (0 <= TXR k canneg x <= full k)%Z.
Proof.
  unfold in_range, TXR, full. intro H. destruct k, canneg.
  - apply CCR_facts. apply HR_facts. exact H.
  - apply CCR_facts. exact H.
  - apply CCR_facts. apply Rabs_01. exact H.
  - apply CCR_facts. apply Rabs_01. apply CR_facts. exact H.
  - apply PBR_facts. exact H.
  - apply PBR_facts. apply CR_facts. exact H.
Qed.

Lemma Rabs_diff x p d : - d <= x - p <= d -> - d <= Rabs x - Rabs p <= d.
Proof. intro H. unfold Rabs. destruct (Rcase_abs x), (Rcase_abs p); lra. Qed.

(* a computed position within d <= 2^15 u of the exact one is transmitted within 1 + 2^30 u of the exact scaled value *)
Lemma TXR_acc k canneg x p d : in_range canneg x -> 0 <= d <= 32768 * u -> - d <= x - p <= d ->
  - (1 + 1073741824 * u) <= IZR (TXR k canneg x) - scaled_R k canneg p <= 1 + 1073741824 * u.
Proof.
  unfold in_range, TXR, scaled_R. intros Hr Hd Hx. pose proof u_pos as U. destruct k, canneg.
  - destruct (HR_facts x Hr) as [Hh He]. destruct (CCR_facts _ Hh) as (_&_&C). lra.
  - destruct (CCR_facts _ Hr) as (_&_&C). lra.
  - destruct (CCR_facts _ (Rabs_01 x Hr)) as (_&_&C). pose proof (Rabs_diff x p d Hx). lra.
  - destruct (CR_facts x Hr) as [Hc He]. destruct (CCR_facts _ (Rabs_01 _ Hc)) as (_&_&C).
    pose proof (Rabs_diff (CR x) (p * 2 - 1) (2 * d + 3 * u) ltac:(lra)). lra.
  - destruct (PBR_facts x Hr) as (_&_&C). lra.
  - destruct (CR_facts x Hr) as [Hc He]. destruct (PBR_facts _ Hc) as (_&_&C). lra.
Qed.

Lemma Rabs_anti a b : a <= b -> b <= 0 -> Rabs b <= Rabs a.
Proof. intros H1 H2. rewrite !Rabs_left1 by lra. lra. Qed.
Lemma Rabs_mono a b : 0 <= a -> a <= b -> Rabs a <= Rabs b.
Proof. intros H1 H2. rewrite !Rabs_pos_eq by lra. lra. Qed.

Lemma SXR_mono k canneg a b : a <= b -> (SXR k canneg a <= SXR k canneg b)%Z.
Proof.
  intro H. unfold SXR, TXR. destruct k, canneg.
  - apply CCR_mono. apply HR_mono. exact H.
  - apply CCR_mono. exact H.
  - destruct (Rlt_bool_spec a 0) as [A|A]; destruct (Rlt_bool_spec b 0) as [C|C].
    + pose proof (CCR_mono _ _ (Rabs_anti a b H ltac:(lra))). lia.
    + pose proof (CCR_nonneg _ (Rabs_pos a)). pose proof (CCR_nonneg _ (Rabs_pos b)). lia.
    + lra.
    + apply CCR_mono. apply Rabs_mono; lra.
  - pose proof (CR_mono a b H) as M. destruct (CR_sign a) as [Sa1 Sa2]. destruct (CR_sign b) as [Sb1 Sb2].
    destruct (Rlt_bool_spec a (/ 2)) as [A|A]; destruct (Rlt_bool_spec b (/ 2)) as [C|C].
    + pose proof (CCR_mono _ _ (Rabs_anti _ _ M (Sb1 C))). lia.
    + pose proof (CCR_nonneg _ (Rabs_pos (CR a))). pose proof (CCR_nonneg _ (Rabs_pos (CR b))). lia.
    + lra.
    + apply CCR_mono. apply Rabs_mono; [apply Sa2; exact A|exact M].
  - apply PBR_mono. exact H.
  - apply PBR_mono. apply CR_mono. exact H.
Qed.

(* the two 7-bit halves of a pitch bend in range carry exactly the 14-bit value *)
Lemma pb_bytes_value v : (0 <= pb_target true v <= 16383)%Z ->
  (Z.of_N (fst (pb_bytes true v)) + 128 * Z.of_N (snd (pb_bytes true v)) = pb_target true v)%Z.
Proof.
  intro H. unfold pb_bytes. cbv zeta. cbn [fst snd]. set (t := pb_target true v) in *.
  change 127%Z with (Z.ones 7). rewrite !Z.land_ones by lia. rewrite Z.shiftr_div_pow2 by lia.
  change (2 ^ 7)%Z with 128%Z.
  assert (0 <= t / 128 < 128)%Z by (split; [apply Z.div_pos; lia|apply Z.div_lt_upper_bound; lia]).
  rewrite (Z.mod_small (t / 128) 128) by lia.
  rewrite !Z2N.id by (try apply Z.mod_pos_bound; lia).
  pose proof (Z.div_mod t 128 ltac:(lia)). lia.
Qed.

(* ====================================================================== 4. encoding of any finite value of the shaped range *)
Theorem encoding_general k canneg v p d :
  B.is_finite v = true -> in_range canneg (B.B2R v) -> 0 <= d <= 32768 * u -> Rabs (B.B2R v - p) <= d ->
  (0 <= tx_int k canneg v <= full k)%Z /\
  Rabs (IZR (tx_int k canneg v) - scaled_R k canneg p) <= 1 + bpow radix2 (-23).
Proof.
  intros Hf Hr Hd Hx. rewrite (tx_int_ok k canneg v Hf Hr). split; [apply TXR_range; exact Hr|].
  replace (bpow radix2 (-23)) with (1073741824 * u) by (rewrite u_val; simpl; lra).
  apply Rabs_le. apply TXR_acc with d; [exact Hr|exact Hd|apply Rabs_le_inv; exact Hx].
Qed.

(* ====================================================================== 5. end to end *)
Lemma shape_snd mn mx dzc dz raw : snd (shape mn mx dzc dz raw) = (dzc || (mn <? 0)%Z)%bool.
Proof. unfold shape, shape_gen. cbv zeta. destruct dzc; reflexivity. Qed.

Lemma shape_in_range mn mx dzc dz raw : axis_dom mn mx dzc -> dz_dom dz -> (mn <= raw <= mx)%Z ->
  in_range (snd (shape mn mx dzc dz raw)) (B.B2R (fst (shape mn mx dzc dz raw))).
Proof.
  intros Hd Hdz Hr. rewrite shape_snd. unfold in_range.
  destruct dzc; cbn [orb]; [apply shape_finite_range; assumption|].
  destruct (Z.ltb_spec mn 0) as [L|L]; [apply shape_finite_range; assumption|].
  assert (mn = 0%Z) by (destruct Hd as (Hmn&_); lia). subst mn.
  apply shape_unsigned_nonneg; assumption.
Qed.

(* the transmitted integer for raw position [raw]: value byte of the controller message / 14-bit pitch bend *)
Definition transmitted (k : kind) (flip : bool) (mn mx : Z) (dzc : bool) (dz : f64) (raw : Z) : Z :=
  let '(v, canneg) := shape mn mx dzc dz raw in tx_int k canneg (flip_value flip canneg v).
Definition transmitted_signed (k : kind) (flip : bool) (mn mx : Z) (dzc : bool) (dz : f64) (raw : Z) : Z :=
  let '(v, canneg) := shape mn mx dzc dz raw in tx_signed k canneg (flip_value flip canneg v).
(* the exact real value on the MIDI scale *)
Definition exact_R (k : kind) (flip : bool) (mn mx : Z) (dzc : bool) (dz : R) (raw : Z) : R :=
  let canneg := (dzc || (mn <? 0)%Z)%bool in scaled_R k canneg (flip_R flip canneg (shape_R mn mx dzc dz raw)).

Theorem c06_general k flip mn mx dzc dz raw : axis_dom mn mx dzc -> dz_dom dz -> (mn <= raw <= mx)%Z ->
  (0 <= transmitted k flip mn mx dzc dz raw <= full k)%Z /\
  Rabs (IZR (transmitted k flip mn mx dzc dz raw) - exact_R k flip mn mx dzc (B.B2R dz) raw) <= 1 + bpow radix2 (-20).
Proof.
  intros Hd Hdz Hr. unfold transmitted, exact_R.
  pose proof (shape_in_range mn mx dzc dz raw Hd Hdz Hr) as Hin.
  destruct (shape_finite_range mn mx dzc dz raw Hd Hdz Hr) as [Hf _].
  pose proof (shape_accuracy mn mx dzc dz raw Hd Hdz Hr) as Ha.
  pose proof (shape_snd mn mx dzc dz raw) as Hs.
  destruct (shape mn mx dzc dz raw) as [v canneg]. cbn [fst snd] in *. subst canneg.
  set (canneg := (dzc || (mn <? 0)%Z)%bool) in *.
  destruct (flip_ok flip canneg v Hf Hin) as [F1 F2].
  pose proof (FR_range flip canneg _ Hin) as Fr. rewrite <- F1 in Fr.
  replace (bpow radix2 (-39)) with (16384 * u) in Ha by (rewrite u_val; simpl; lra).
  pose proof (FR_acc flip canneg _ _ _ Hin (Rabs_le_inv _ _ Ha)) as Fa. rewrite <- F1 in Fa.
  pose proof u_pos as U.
  rewrite (tx_int_ok k canneg _ F2 Fr). split; [apply TXR_range; exact Fr|].
  pose proof (TXR_acc k canneg _ _ (16384 * u + u) Fr ltac:(lra) Fa) as T.
  replace (bpow radix2 (-20)) with (8589934592 * u) by (rewrite u_val; simpl; lra).
  apply Rabs_le. lra.
Qed.

Theorem c06_general_monotone k (flip : bool) mn mx dzc dz r1 r2 : axis_dom mn mx dzc -> dz_dom dz ->
  (mn <= r1)%Z -> (r1 <= r2)%Z -> (r2 <= mx)%Z ->
  if flip then (transmitted_signed k flip mn mx dzc dz r2 <= transmitted_signed k flip mn mx dzc dz r1)%Z
  else (transmitted_signed k flip mn mx dzc dz r1 <= transmitted_signed k flip mn mx dzc dz r2)%Z.
Proof.
  intros Hd Hdz H1 H12 H2. unfold transmitted_signed.
  pose proof (shape_in_range mn mx dzc dz r1 Hd Hdz ltac:(lia)) as In1.
  pose proof (shape_in_range mn mx dzc dz r2 Hd Hdz ltac:(lia)) as In2.
  destruct (shape_finite_range mn mx dzc dz r1 Hd Hdz ltac:(lia)) as [Hf1 _].
  destruct (shape_finite_range mn mx dzc dz r2 Hd Hdz ltac:(lia)) as [Hf2 _].
  pose proof (shape_monotone mn mx dzc dz r1 r2 Hd Hdz H1 H12 H2) as M.
  pose proof (shape_snd mn mx dzc dz r1) as S1. pose proof (shape_snd mn mx dzc dz r2) as S2.
  destruct (shape mn mx dzc dz r1) as [v1 c1]. destruct (shape mn mx dzc dz r2) as [v2 c2].
  cbn [fst snd] in *. subst c1 c2. set (canneg := (dzc || (mn <? 0)%Z)%bool) in *.
  destruct (flip_ok flip canneg v1 Hf1 In1) as [A1 A2]. destruct (flip_ok flip canneg v2 Hf2 In2) as [B1 B2].
  pose proof (FR_range flip canneg _ In1) as R1. rewrite <- A1 in R1.
  pose proof (FR_range flip canneg _ In2) as R2. rewrite <- B1 in R2.
  rewrite (tx_signed_ok k canneg _ A2 R1), (tx_signed_ok k canneg _ B2 R2), A1, B1.
  pose proof (FR_mono flip canneg _ _ M) as F. destruct flip; apply SXR_mono; exact F.
Qed.

(* ====================================================================== 4'. the two primitive encoders, stated directly *)
Theorem cc_byte_general a : B.is_finite a = true -> 0 <= B.B2R a <= 1 ->
  Z.of_N (cc_byte a) = Zfloor (rnd (127 * B.B2R a)) /\ (0 <= Z.of_N (cc_byte a) <= 127)%Z /\
  Rabs (IZR (Z.of_N (cc_byte a)) - 127 * B.B2R a) <= 1 + bpow radix2 (-46).
Proof.
  intros Hf Hr. rewrite (cc_byte_ok a Hf Hr). destruct (CCR_facts _ Hr) as (Z1&_&C). pose proof u_pos.
  split; [reflexivity|]. split; [exact Z1|].
  replace (bpow radix2 (-46)) with (128 * u) by (rewrite u_val; simpl; lra). apply Rabs_le. lra.
Qed.

Theorem pb_target_general w : B.is_finite w = true -> -1 <= B.B2R w <= 1 ->
  pb_target true w = ZnearestA (rnd (16383 * rnd (rnd (B.B2R w + 1) / 2))) /\ (0 <= pb_target true w <= 16383)%Z /\
  Rabs (IZR (pb_target true w) - 16383 * ((B.B2R w + 1) / 2)) <= / 2 + bpow radix2 (-37).
Proof.
  intros Hf Hr. rewrite (pb_target_ok w Hf Hr). destruct (PBR_facts _ Hr) as (Z1&_&C).
  split; [reflexivity|]. split; [exact Z1|].
  replace (bpow radix2 (-37)) with (65536 * u) by (rewrite u_val; simpl; lra). apply Rabs_le. lra.
Qed.

(* ====================================================================== the hypotheses are satisfiable *)
(* deadzone 0.05 (0x3FA999999999999A, the value for which the original code missed the end stop) *)
Definition dz005 : f64 := f_of_bits 4587366580439587226.

Lemma dz005_dom : dz_dom dz005.
Proof.
  assert (E : dz005 = @B.B754_finite 53 1024 false 7205759403792794 (-57) eq_refl)
    by (apply B.B2SF_inj; vm_compute; reflexivity).
  rewrite E. split; [reflexivity|]. unfold B.B2R, F2R. cbn [Fnum Fexp cond_Zopp].
  replace (bpow radix2 (-57)) with (/ 144115188075855872) by (simpl; lra). lra.
Qed.

Lemma f0_dom : dz_dom f0.
Proof. destruct f0_correct as (Z1&Z2). split; [exact Z2|]. rewrite Z1. lra. Qed.

(* a 16-bit signed stick, an unsigned trigger with deadzone_at_center, the full int32 range *)
Lemma dom_examples :
  axis_dom (-32768) 32767 false /\ axis_dom 0 255 true /\ axis_dom (- 2 ^ 31) (2 ^ 31 - 1) false.
Proof. unfold axis_dom. repeat split; try lia; discriminate. Qed.

(* [tx_int] is what [make_sample] (Model/AnalogF.v) puts into the sample handed to the device model: the controller value
   byte, and the two pitch-bend data bytes *)
Lemma make_sample_tx code a canneg v :
  Z.of_N (sa_ccv (make_sample code a canneg v)) = tx_int (if a_bidi a then KCCbidi else KCCuni) canneg v /\
  ((0 <= tx_int KPB canneg v <= 16383)%Z ->
   (Z.of_N (sa_lsb (make_sample code a canneg v)) + 128 * Z.of_N (sa_msb (make_sample code a canneg v))
    = tx_int KPB canneg v)%Z).
Proof.
  unfold make_sample, tx_int.
  pose proof (pb_bytes_value (centred canneg v)) as P.
  destruct (cc_encode canneg (a_bidi a) v) as [neg ccv] eqn:E.
  destruct (pb_bytes true (centred canneg v)) as [lsb msb] eqn:F. cbn [sa_ccv sa_lsb sa_msb fst snd] in *.
  split; [|exact P]. destruct (a_bidi a); rewrite E; reflexivity.
Qed.
