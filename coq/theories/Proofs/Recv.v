(* Receiver-side facts: how each kind of emitted message changes the sounding set. *)
From Coq Require Import List NArith ZArith Bool Lia.
From HIDI Require Import Base.AList Model.Device Proofs.DeviceBasics.
Import ListNotations.
Open Scope N_scope.

Fixpoint nrange (lo : N) (n : nat) : list N :=
  match n with O => [] | S k => lo :: nrange (lo + 1) k end.

Lemma in_nrange : forall n lo b, lo <= b -> b < lo + N.of_nat n -> In b (nrange lo n).
Proof.
  induction n as [|n IH]; intros lo b Hlo Hhi.
  - simpl in Hhi. lia.
  - cbn [nrange]. destruct (N.eq_dec lo b) as [->|Hne]; [left; reflexivity|].
    right. apply IH; lia.
Qed.

Lemma status_decode : forall ty ch, In ty [128; 144; 176; 224] -> ch < 16 ->
  N.land (N.lor ty ch) 240 = ty /\ N.land (N.lor ty ch) 15 = ch.
Proof.
  assert (H : forallb (fun ty => forallb (fun ch => (N.land (N.lor ty ch) 240 =? ty) && (N.land (N.lor ty ch) 15 =? ch))
                                         (nrange 0 16)) [128; 144; 176; 224] = true) by (vm_compute; reflexivity).
  intros ty ch Hty Hch. rewrite forallb_forall in H. specialize (H ty Hty). rewrite forallb_forall in H.
  specialize (H ch ltac:(apply in_nrange; simpl; lia)).
  apply andb_true_iff in H. destruct H as [H1 H2]. apply N.eqb_eq in H1, H2. split; assumption.
Qed.

Lemma incl_srem (p : pair) R : incl (srem pair_eqb p R) R.
Proof. intros q H. apply (in_srem pair_eqb pair_eqb_spec) in H. tauto. Qed.

(* a message whose third byte is 0 never starts a note *)
Lemma recv1_zero R st d1 : incl (recv1 R [st; d1; 0]) R.
Proof.
  unfold recv1. destruct (N.land st 240 =? NOTE_ON).
  - cbn. apply incl_srem.
  - destruct (N.land st 240 =? NOTE_OFF); [apply incl_srem|].
    destruct ((N.land st 240 =? CONTROL_CHANGE) && (d1 =? ALL_NOTES_OFF)); [|apply incl_refl].
    intros q H. apply filter_In in H. tauto.
Qed.

Lemma recv1_note_off R ch n : ch < 16 -> recv1 R (note_off ch n) = srem pair_eqb (n, ch) R.
Proof.
  intro H. unfold note_off, note_event, recv1.
  destruct (status_decode NOTE_OFF ch ltac:(cbn; auto) H) as [H1 H2]. rewrite H1, H2. reflexivity.
Qed.

Lemma recv1_note_on R ch n v : ch < 16 -> incl (recv1 R (note_on ch n v)) ((n, ch) :: R).
Proof.
  intro H. unfold note_on, note_event, recv1.
  destruct (status_decode NOTE_ON ch ltac:(cbn; auto) H) as [H1 H2]. rewrite H1, H2. cbn.
  destruct (v =? 0).
  - intros q Hq. right. apply (incl_srem _ _ _ Hq).
  - intros q Hq. apply (in_sadd pair_eqb pair_eqb_spec) in Hq. destruct Hq as [->|Hq]; [left; reflexivity|right; exact Hq].
Qed.

Lemma recv1_cc R ch fn v : ch < 16 -> incl (recv1 R (cc_event ch fn v)) R.
Proof.
  intro H. unfold cc_event, recv1.
  destruct (status_decode CONTROL_CHANGE ch ltac:(cbn; auto) H) as [H1 H2]. rewrite H1, H2. cbn.
  destruct (fn =? ALL_NOTES_OFF); [|apply incl_refl]. intros q Hq. apply filter_In in Hq. tauto.
Qed.

Lemma recv1_pb R ch a b : ch < 16 -> recv1 R (pb_event ch a b) = R.
Proof.
  intro H. unfold pb_event, recv1.
  destruct (status_decode PITCH_WHEEL ch ltac:(cbn; auto) H) as [H1 H2]. rewrite H1. reflexivity.
Qed.

Lemma recv_app R a b : recv R (a ++ b) = recv (recv R a) b.
Proof. unfold recv. apply fold_left_app. Qed.

Lemma recv_all_zero ms : (forall m, In m ms -> exists st d1, m = [st; d1; 0]) -> forall R, incl (recv R ms) R.
Proof.
  induction ms as [|m r IH]; intros H R; [apply incl_refl|].
  cbn. destruct (H m (or_introl eq_refl)) as (st&d1&->).
  intros q Hq. apply IH in Hq; [|intros m' Hm'; apply H; right; exact Hm'].
  apply (recv1_zero _ _ _ _ Hq).
Qed.

Lemma panic_burst_zero ch : forall m, In m (panic_burst ch) -> exists st d1, m = [st; d1; 0].
Proof.
  intros m [<-|H]; [eexists; eexists; reflexivity|].
  apply in_map_iff in H. destruct H as (n&<-&_). eexists; eexists; reflexivity.
Qed.

Lemma chan_of_lt s off : chan_of s off < 16.
Proof. unfold chan_of. apply N.mod_lt. discriminate. Qed.
