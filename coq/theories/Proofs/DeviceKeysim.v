(* C08: analog key emulation lifecycle. Discrete level: arbitrary samples (so arbitrary float positions). *)
From Coq Require Import List NArith ZArith Bool Lia.
From HIDI Require Import Base.AList Model.Device Proofs.DeviceBasics Proofs.Recv Proofs.DeviceInv.
Import ListNotations.
Open Scope N_scope.

Definition tracked (s : state) (id : aid) : option pair := get aid_eqb id (analogT s).

(* the pair a direction would sound in state s: transposed like key notes, (channel + offset) mod 16 *)
Definition dir_pair (s : state) (note off : N) : option pair :=
  let t := transpose s note in if in_midi_range t then Some (Z.to_N t, chan_of s off) else None.

Lemma analog_note_on_spec s id note off :
  analog_note_on s id note off =
  match dir_pair s note off with
  | Some (n, ch) => (set_analogT (set aid_eqb id (n, ch) (analogT s)) s, [note_on ch n 64])
  | None => (s, [])
  end.
Proof. unfold analog_note_on, dir_pair. cbv zeta. destruct (in_midi_range _); reflexivity. Qed.

Lemma analog_note_off_spec s id :
  analog_note_off s id =
  match tracked s id with
  | Some (n, ch) => (set_analogT (del aid_eqb id (analogT s)) s, [note_off ch n])
  | None => (s, [])
  end.
Proof. reflexivity. Qed.

(* ---- what one key-emulation sample does, per zone *)
Definition off_msgs (s : state) (id : aid) : list msg :=
  match tracked s id with Some (n, ch) => [note_off ch n] | None => [] end.

Lemma tracked_after_off s id id' :
  tracked (fst (analog_note_off s id)) id' = if aid_eqb id' id then None else tracked s id'.
Proof. apply analog_note_off_get. Qed.

Lemma tracked_after_on s id note off id' :
  tracked (fst (analog_note_on s id note off)) id' =
  match dir_pair s note off with
  | Some p => if aid_eqb id' id then Some p else tracked s id'
  | None => tracked s id'
  end.
Proof.
  rewrite analog_note_on_spec. destruct (dir_pair s note off) as [[n ch]|]; [|reflexivity].
  unfold tracked. cbn [fst analogT set_analogT]. destruct (aid_eqb id' id) eqn:E.
  - apply aid_eqb_spec in E. subst. apply (get_set_same aid_eqb aid_eqb_spec).
  - apply (get_set_other aid_eqb aid_eqb_spec). intros ->. rewrite (proj2 (aid_eqb_spec id id) eq_refl) in E. discriminate.
Qed.

Lemma snd_off s id : snd (analog_note_off s id) = off_msgs s id.
Proof. unfold analog_note_off, off_msgs, tracked. destruct (get aid_eqb id (analogT s)) as [[n ch]|]; reflexivity. Qed.

Lemma off_msgs_on_other s id note off id' :
  id' <> id -> off_msgs (fst (analog_note_on s id note off)) id' = off_msgs s id'.
Proof.
  intro H. unfold off_msgs. rewrite tracked_after_on. destruct (dir_pair s note off); [|reflexivity].
  destruct (aid_eqb id' id) eqn:E; [apply aid_eqb_spec in E; contradiction|reflexivity].
Qed.

Lemma aid_tf code : aid_eqb (code, true) (code, false) = false.
Proof. unfold aid_eqb. cbn. apply andb_false_r. Qed.
Lemma aid_ft code : aid_eqb (code, false) (code, true) = false.
Proof. unfold aid_eqb. cbn. apply andb_false_r. Qed.
Lemma aid_refl id : aid_eqb id id = true.
Proof. apply aid_eqb_spec. reflexivity. Qed.

(* centre: every tracked direction is released with exactly its recorded pair, then nothing is tracked *)
Lemma keysim_mid s sa :
  sa_zone sa = ZMid ->
  snd (handle_keysim s sa) = off_msgs s (sa_code sa, false) ++ off_msgs s (sa_code sa, true) /\
  tracked (fst (handle_keysim s sa)) (sa_code sa, false) = None /\
  tracked (fst (handle_keysim s sa)) (sa_code sa, true) = None.
Proof.
  intro Hz. unfold handle_keysim. rewrite Hz.
  pose proof (snd_off s (sa_code sa, false)) as S1.
  pose proof (tracked_after_off s (sa_code sa, false)) as T1.
  destruct (analog_note_off s (sa_code sa, false)) as [s1 m1]. cbn [fst snd] in *.
  pose proof (snd_off s1 (sa_code sa, true)) as S2.
  pose proof (tracked_after_off s1 (sa_code sa, true)) as T2.
  destruct (analog_note_off s1 (sa_code sa, true)) as [s2 m2]. cbn [fst snd] in *.
  split; [|split].
  - rewrite S1, S2. f_equal. unfold off_msgs. rewrite T1, aid_tf. reflexivity.
  - rewrite T2, aid_ft, T1, aid_refl. reflexivity.
  - rewrite T2, aid_refl. reflexivity.
Qed.

(* positive direction: turned on once (transposed note, (channel+offset) mod 16, velocity 64) unless already on or out
   of range; the negative direction is released *)
Lemma keysim_pos s sa :
  sa_zone sa = ZPos ->
  let a := sa_an sa in let idp := (sa_code sa, false) in let idn := (sa_code sa, true) in
  snd (handle_keysim s sa) =
    (match tracked s idp, dir_pair s (a_note a) (a_off a) with
     | None, Some (n, ch) => [note_on ch n 64]
     | _, _ => []
     end) ++ off_msgs s idn /\
  tracked (fst (handle_keysim s sa)) idn = None /\
  tracked (fst (handle_keysim s sa)) idp =
    match tracked s idp with Some p => Some p | None => dir_pair s (a_note a) (a_off a) end.
Proof.
  intros Hz a idp idn. unfold handle_keysim. rewrite Hz. fold a. fold idp. fold idn.
  change (get aid_eqb idp (analogT s)) with (tracked s idp). destruct (tracked s idp) as [p|] eqn:Eg.
  - pose proof (snd_off s idn) as S2. pose proof (tracked_after_off s idn) as T2.
    destruct (analog_note_off s idn) as [s2 m2]. cbn [fst snd app] in *.
    split; [exact S2|]. split; [rewrite T2, aid_refl; reflexivity|].
    rewrite T2. subst idp idn. rewrite aid_ft. exact Eg.
  - pose proof (analog_note_on_spec s idp (a_note a) (a_off a)) as S1.
    pose proof (tracked_after_on s idp (a_note a) (a_off a)) as T1.
    pose proof (off_msgs_on_other s idp (a_note a) (a_off a) idn ltac:(discriminate)) as O1.
    destruct (analog_note_on s idp (a_note a) (a_off a)) as [s1 m1]. cbn [fst snd] in *.
    pose proof (snd_off s1 idn) as S2. pose proof (tracked_after_off s1 idn) as T2.
    destruct (analog_note_off s1 idn) as [s2 m2]. cbn [fst snd] in *.
    split; [|split].
    + rewrite S2, O1. f_equal. destruct (dir_pair s (a_note a) (a_off a)) as [[n ch]|]; injection S1 as _ <-; reflexivity.
    + rewrite T2, aid_refl. reflexivity.
    + rewrite T2. subst idp idn. rewrite aid_ft, T1, aid_refl. destruct (dir_pair s (a_note a) (a_off a)); [reflexivity|exact Eg].
Qed.

(* negative direction: only when a negative note is configured *)
Lemma keysim_neg s sa :
  sa_zone sa = ZNeg ->
  let a := sa_an sa in let idp := (sa_code sa, false) in let idn := (sa_code sa, true) in
  snd (handle_keysim s sa) =
    (match tracked s idn, (if a_bidi a then dir_pair s (a_noteneg a) (a_offneg a) else None) with
     | None, Some (n, ch) => [note_on ch n 64]
     | _, _ => []
     end) ++ off_msgs s idp /\
  tracked (fst (handle_keysim s sa)) idp = None /\
  tracked (fst (handle_keysim s sa)) idn =
    match tracked s idn with Some p => Some p | None => if a_bidi a then dir_pair s (a_noteneg a) (a_offneg a) else None end.
Proof.
  intros Hz a idp idn. unfold handle_keysim. rewrite Hz. fold a. fold idp. fold idn.
  change (get aid_eqb idn (analogT s)) with (tracked s idn). destruct (tracked s idn) as [p|] eqn:Eg.
  - pose proof (snd_off s idp) as S2. pose proof (tracked_after_off s idp) as T2.
    destruct (analog_note_off s idp) as [s2 m2]. cbn [fst snd app] in *.
    split; [exact S2|]. split; [rewrite T2, aid_refl; reflexivity|].
    rewrite T2. subst idp idn. rewrite aid_tf. exact Eg.
  - destruct (a_bidi a).
    + pose proof (analog_note_on_spec s idn (a_noteneg a) (a_offneg a)) as S1.
      pose proof (tracked_after_on s idn (a_noteneg a) (a_offneg a)) as T1.
      pose proof (off_msgs_on_other s idn (a_noteneg a) (a_offneg a) idp ltac:(discriminate)) as O1.
      destruct (analog_note_on s idn (a_noteneg a) (a_offneg a)) as [s1 m1]. cbn [fst snd] in *.
      pose proof (snd_off s1 idp) as S2. pose proof (tracked_after_off s1 idp) as T2.
      destruct (analog_note_off s1 idp) as [s2 m2]. cbn [fst snd] in *.
      split; [|split].
      * rewrite S2, O1. f_equal. destruct (dir_pair s (a_noteneg a) (a_offneg a)) as [[n ch]|]; injection S1 as _ <-; reflexivity.
      * rewrite T2, aid_refl. reflexivity.
      * rewrite T2. subst idp idn. rewrite aid_tf, T1, aid_refl. destruct (dir_pair s (a_noteneg a) (a_offneg a)); [reflexivity|exact Eg].
    + pose proof (snd_off s idp) as S2. pose proof (tracked_after_off s idp) as T2.
      destruct (analog_note_off s idp) as [s2 m2]. cbn [fst snd app] in *.
      split; [exact S2|]. split; [rewrite T2, aid_refl; reflexivity|].
      rewrite T2. subst idp idn. rewrite aid_tf. exact Eg.
Qed.

Lemma keysim_gap s sa : sa_zone sa = ZGap -> handle_keysim s sa = (s, []).
Proof. intro Hz. unfold handle_keysim. rewrite Hz. reflexivity. Qed.

(* ---- the two directions of an axis are never on together: invariant over every history *)
Definition exclusive (s : state) : Prop :=
  forall code, tracked s (code, false) = None \/ tracked s (code, true) = None.

Lemma keysim_other_code s sa code b :
  code <> sa_code sa -> tracked (fst (handle_keysim s sa)) (code, b) = tracked s (code, b).
Proof.
  intro Hne.
  assert (Hid : forall b', aid_eqb (code, b) (sa_code sa, b') = false).
  { intro b'. destruct (aid_eqb _ _) eqn:E; [apply aid_eqb_spec in E; injection E; intros; contradiction|reflexivity]. }
  assert (OFF : forall s0 b', tracked (fst (analog_note_off s0 (sa_code sa, b'))) (code, b) = tracked s0 (code, b))
    by (intros; rewrite tracked_after_off, Hid; reflexivity).
  assert (ON : forall s0 b' n o, tracked (fst (analog_note_on s0 (sa_code sa, b') n o)) (code, b) = tracked s0 (code, b))
    by (intros s0 b' n o; rewrite tracked_after_on, Hid; destruct (dir_pair s0 n o); reflexivity).
  unfold handle_keysim. destruct (sa_zone sa); try reflexivity;
    repeat match goal with
           | |- context [match get aid_eqb ?i ?l with _ => _ end] => destruct (get aid_eqb i l)
           | |- context [if a_bidi ?a then _ else _] => destruct (a_bidi a)
           | |- context [let '(_, _) := analog_note_on ?s0 (sa_code sa, ?b') ?n ?o in _] =>
               let E := fresh "E" in pose proof (ON s0 b' n o) as E; destruct (analog_note_on s0 (sa_code sa, b') n o); cbn [fst] in E
           | |- context [let '(_, _) := analog_note_off ?s0 (sa_code sa, ?b') in _] =>
               let E := fresh "E" in pose proof (OFF s0 b') as E; destruct (analog_note_off s0 (sa_code sa, b')); cbn [fst] in E
           end; cbn [fst]; congruence.
Qed.

Lemma keysim_exclusive s sa : exclusive s -> exclusive (fst (handle_keysim s sa)).
Proof.
  intros Hx code. destruct (N.eq_dec code (sa_code sa)) as [->|Hne].
  - destruct (sa_zone sa) eqn:Hz.
    + left. apply (keysim_neg s sa Hz).
    + left. apply (keysim_mid s sa Hz).
    + right. apply (keysim_pos s sa Hz).
    + rewrite (keysim_gap s sa Hz). apply Hx.
  - rewrite !(keysim_other_code s sa code _ Hne). apply Hx.
Qed.

Lemma step_exclusive c s e : exclusive s -> exclusive (fst (step c s e)).
Proof.
  intro Hx.
  destruct e as [sub code val|sa|]; cbn [step]; [| |exact Hx].
  - (* key events never touch the analog tracker *)
    assert (E : analogT (fst (if (val =? 2)%Z then (s, silent) else handle_key c s sub code val)) = analogT s).
    { destruct (val =? 2)%Z; [reflexivity|].
      destruct (Z.eq_dec val 1) as [->|H1].
      - pose proof (handle_key_keeps c s sub code 1) as _.
        unfold handle_key. change (1 =? 1)%Z with true. cbv iota.
        set (s1 := set_keyT (sadd N.eqb code (keyT s)) s). change (analogT s) with (analogT s1).
        destruct (true && exit_complete c (keyT s1)); [reflexivity|].
        destruct (find_action c code) as [a|].
        + destruct (check_double _) as [s3|] eqn:E; [apply check_double_tf in E; unfold tf in E; injection E as _ E _; exact E|].
          destruct (invoke_press c a _) as [s3 m] eqn:E1. apply invoke_press_tf in E1. unfold tf in E1. injection E1 as _ E1 _. exact E1.
        + destruct (find_key c s sub code).
          * pose proof (note_on_key_frame c s1 sub code) as F. destruct (note_on_key c s1 sub code). cbn in F. cbn [fst]. tauto.
          * reflexivity.
      - unfold handle_key. assert (Hv : (val =? 1)%Z = false) by (apply Z.eqb_neq; exact H1). rewrite Hv. cbv iota. cbn [andb].
        set (s1 := set_keyT (srem N.eqb code (keyT s)) s). change (analogT s) with (analogT s1).
        destruct (find_action c code) as [a|].
        + destruct (val =? 0)%Z; [|reflexivity]. cbn [fst analogT set_actionT]. destruct a; reflexivity.
        + destruct (find_key c s sub code); (destruct (val =? 0)%Z; [|reflexivity]);
            pose proof (note_off_key_frame c s1 code) as F; destruct (note_off_key c s1 code); cbn in F; cbn [fst]; tauto. }
    intro k. unfold tracked. rewrite E. apply Hx.
  - unfold handle_sample. destruct (learning s && negb (sa_gate sa)); [exact Hx|].
    destruct (a_type (sa_an sa)); cbn [fst].
    + pose proof (handle_cc_keeps c s sa) as _.
      assert (E : analogT (fst (handle_cc s sa)) = analogT s).
      { unfold handle_cc. destruct (a_bidi _); [|reflexivity].
        destruct (sa_neg sa); [destruct (cc_zeroed s (a_cc (sa_an sa)))|destruct (cc_zeroed s (a_ccneg (sa_an sa)))]; reflexivity. }
      destruct (handle_cc s sa). cbn [fst] in *. intro k. unfold tracked. rewrite E. apply Hx.
    + exact Hx.
    + pose proof (keysim_exclusive s sa Hx) as K. destruct (handle_keysim s sa). exact K.
    + assert (E : analogT (fst (handle_actionsim c s sa)) = analogT s).
      { pose proof (handle_actionsim_keeps c s sa) as _.
        unfold handle_actionsim. destruct (check_double s) as [s'|] eqn:Ec.
        - apply check_double_tf in Ec. unfold tf in Ec. injection Ec as _ Ec _. exact Ec.
        - destruct (sa_zone sa); try reflexivity.
          + destruct (invoke_press c (a_actneg (sa_an sa)) s) as [s1 m] eqn:E1. apply invoke_press_tf in E1.
            unfold tf in E1. injection E1 as _ E1 _. cbn [fst]. unfold untrack_action, track_action. cbn [analogT set_actionT].
            destruct (a_act (sa_an sa)); exact E1.
          + cbn [fst]. unfold untrack_action. cbn [analogT set_actionT]. destruct (a_act (sa_an sa)), (a_actneg (sa_an sa)); reflexivity.
          + destruct (invoke_press c (a_act (sa_an sa)) s) as [s1 m] eqn:E1. apply invoke_press_tf in E1.
            unfold tf in E1. injection E1 as _ E1 _. cbn [fst]. unfold untrack_action, track_action.
            destruct (a_actneg (sa_an sa)); exact E1. }
      destruct (handle_actionsim c s sa). cbn [fst] in *. intro k. unfold tracked. rewrite E. apply Hx.
    + exact Hx.
Qed.

Lemma run_exclusive c h : exclusive (fst (run c h)).
Proof.
  unfold run. assert (H : exclusive (init c)) by (intro code; left; reflexivity).
  revert H. generalize (init c). induction h as [|e r IH]; intros s H; cbn [run_from]; [exact H|].
  pose proof (step_exclusive c s e H) as H1. destruct (step c s e) as [s1 o]. cbn [fst] in H1.
  specialize (IH s1 H1). destruct (run_from c s1 r). exact IH.
Qed.

(* every Note Off of key emulation carries the recorded pair; every Note On records what it sent *)
Lemma keysim_messages s sa m :
  In m (snd (handle_keysim s sa)) ->
  (exists b n ch, tracked s (sa_code sa, b) = Some (n, ch) /\ m = note_off ch n) \/
  (exists b n ch, tracked s (sa_code sa, b) = None /\ tracked (fst (handle_keysim s sa)) (sa_code sa, b) = Some (n, ch) /\
                  m = note_on ch n 64).
Proof.
  intro Hin. destruct (sa_zone sa) eqn:Hz.
  - destruct (keysim_neg s sa Hz) as (E&_&T). cbv zeta in E, T. rewrite E in Hin. apply in_app_or in Hin.
    destruct Hin as [Hin|Hin].
    + right. destruct (tracked s (sa_code sa, true)) as [p|] eqn:Et; [contradiction|].
      destruct (if a_bidi (sa_an sa) then _ else None) as [[n ch]|]; [|contradiction].
      destruct Hin as [<-|[]]. exists true, n, ch. auto.
    + left. unfold off_msgs in Hin. destruct (tracked s (sa_code sa, false)) as [[n ch]|] eqn:Et; [|contradiction].
      destruct Hin as [<-|[]]. exists false, n, ch. auto.
  - destruct (keysim_mid s sa Hz) as (E&_&_). rewrite E in Hin. apply in_app_or in Hin. left.
    destruct Hin as [Hin|Hin]; unfold off_msgs in Hin;
      [destruct (tracked s (sa_code sa, false)) as [[n ch]|] eqn:Et|destruct (tracked s (sa_code sa, true)) as [[n ch]|] eqn:Et];
      try contradiction; destruct Hin as [<-|[]]; [exists false, n, ch|exists true, n, ch]; auto.
  - destruct (keysim_pos s sa Hz) as (E&_&T). cbv zeta in E, T. rewrite E in Hin. apply in_app_or in Hin.
    destruct Hin as [Hin|Hin].
    + right. destruct (tracked s (sa_code sa, false)) as [p|] eqn:Et; [contradiction|].
      destruct (dir_pair s _ _) as [[n ch]|]; [|contradiction].
      destruct Hin as [<-|[]]. exists false, n, ch. auto.
    + left. unfold off_msgs in Hin. destruct (tracked s (sa_code sa, true)) as [[n ch]|] eqn:Et; [|contradiction].
      destruct Hin as [<-|[]]. exists true, n, ch. auto.
  - rewrite (keysim_gap s sa Hz) in Hin. contradiction.
Qed.
