(* Proofs about Model/Parser.v: totality (C09), soundness / ranges / rejection / completeness (C10),
   equivalence of the boolean monitors with the relations, witnesses against the original code. *)
From Coq Require Import List NArith ZArith Bool Lia.
From HIDI Require Import Base.AList Model.Notes Model.Device Model.Parser Proofs.NotesProofs.
Import ListNotations.
Open Scope N_scope.

(* ------------------------------------------------------------------ basics *)
Lemma str_eqb_spec : forall a b, str_eqb a b = true <-> a = b.
Proof.
  induction a as [|x a IH]; destruct b as [|y b]; cbn; split; try discriminate; try reflexivity.
  - rewrite andb_true_iff, N.eqb_eq, IH. intros [-> ->]. reflexivity.
  - intro H. injection H as -> ->. rewrite N.eqb_refl. cbn. apply IH. reflexivity.
Qed.

Lemma neqb_spec : forall a b : N, N.eqb a b = true <-> a = b.
Proof. intros. apply N.eqb_eq. Qed.

Lemma str_eqb_refl a : str_eqb a a = true.
Proof. apply str_eqb_spec. reflexivity. Qed.

Lemma bind_ok {A B} (o : outcome A) (k : A -> outcome B) b :
  bind o k = Ok b -> exists a, o = Ok a /\ k a = Ok b.
Proof. destruct o; cbn; try discriminate. intro H. eauto. Qed.

Lemma bind_not_crash {A B} (o : outcome A) (k : A -> outcome B) :
  o <> Crash -> (forall a, o = Ok a -> k a <> Crash) -> bind o k <> Crash.
Proof. destruct o; cbn; intros H1 H2; [apply H2; reflexivity|discriminate|congruence]. Qed.

Lemma bind_err {A B} (o : outcome A) (k : A -> outcome B) e :
  bind o k = Err e -> o = Err e \/ exists a, o = Ok a /\ k a = Err e.
Proof. destruct o; cbn; intro H; [right; eauto|left; injection H as ->; reflexivity|discriminate]. Qed.

Lemma action_eqb_eq a b : action_eqb a b = true <-> a = b.
Proof. destruct a, b; cbn; split; try discriminate; try reflexivity. Qed.

Lemma atype_eqb_eq a b : atype_eqb a b = true <-> a = b.
Proof. destruct a, b; cbn; split; try discriminate; try reflexivity. Qed.

Lemma cmode_eqb_eq a b : cmode_eqb a b = true <-> a = b.
Proof. destruct a, b; cbn; split; try discriminate; try reflexivity. Qed.

Lemma in_range_spec lo hi z : in_range lo hi z = true <-> (lo <= z <= hi)%Z.
Proof. unfold in_range. rewrite andb_true_iff, !Z.leb_le. tauto. Qed.

Lemma in_range_false lo hi z : in_range lo hi z = false <-> out_of lo hi z.
Proof.
  unfold out_of. destruct (in_range lo hi z) eqn:E.
  - apply in_range_spec in E. split; [discriminate|lia].
  - split; [intros _|reflexivity].
    unfold in_range in E. apply andb_false_iff in E. rewrite !Z.leb_gt in E. lia.
Qed.

Lemma byte_of_small z : (0 <= z < 256)%Z -> Z.of_N (byte_of z) = z.
Proof. intro H. unfold byte_of. rewrite Z.mod_small by lia. rewrite Z2N.id; lia. Qed.

(* ------------------------------------------------------------------ mapM *)
Lemma mapM_ok {A B} (f : A -> outcome B) : forall l r,
  mapM f l = Ok r -> Forall2 (fun a b => f a = Ok b) l r.
Proof.
  induction l as [|a l IH]; cbn; intros r H.
  - injection H as <-. constructor.
  - apply bind_ok in H. destruct H as [b [Hb H]]. apply bind_ok in H. destruct H as [bs [Hbs H]].
    injection H as <-. constructor; [exact Hb|apply IH; exact Hbs].
Qed.

Lemma mapM_not_crash {A B} (f : A -> outcome B) : forall l,
  (forall a, In a l -> f a <> Crash) -> mapM f l <> Crash.
Proof.
  induction l as [|a l IH]; cbn; intro H; [discriminate|].
  apply bind_not_crash; [apply H; left; reflexivity|]. intros b _.
  apply bind_not_crash; [apply IH; intros; apply H; right; assumption|]. intros; discriminate.
Qed.

Lemma mapM_total {A B} (f : A -> outcome B) : forall l,
  (forall a, In a l -> exists b, f a = Ok b) -> exists r, mapM f l = Ok r.
Proof.
  induction l as [|a l IH]; cbn; intro H; [eauto|].
  destruct (H a (or_introl eq_refl)) as [b Hb]. rewrite Hb. cbn.
  destruct IH as [r Hr]; [intros; apply H; right; assumption|]. rewrite Hr. cbn. eauto.
Qed.

(* ------------------------------------------------------------------ map_fold *)
Section MapFoldLemmas.
  Context {V R : Type}.
  Variable f : str -> V -> outcome (N * R).

  Lemma map_fold_not_crash : forall l acc,
    (forall k v, In (k, v) l -> f k v <> Crash) -> map_fold f l acc <> Crash.
  Proof.
    induction l as [|[k v] l IH]; cbn; intros acc H; [discriminate|].
    specialize (H k v (or_introl eq_refl)) as Hkv.
    destruct (f k v) as [[code x]| |]; [|discriminate|congruence].
    apply IH. intros; apply H; right; assumption.
  Qed.

  Lemma map_fold_total : forall l acc,
    (forall k v, In (k, v) l -> exists r, f k v = Ok r) -> exists rm, map_fold f l acc = Ok rm.
  Proof.
    induction l as [|[k v] l IH]; cbn; intros acc H; [eauto|].
    destruct (H k v (or_introl eq_refl)) as [[code x] Hr]. rewrite Hr.
    apply IH. intros; apply H; right; assumption.
  Qed.

  (* the invariant carried through the loop *)
  Lemma map_fold_inv : forall l acc rm,
    map_fold f l acc = Ok rm -> NoDup (keys acc) ->
    NoDup (keys rm) /\
    (forall code, In code (keys acc) -> In code (keys rm)) /\
    (forall k v, In (k, v) l -> exists code x, f k v = Ok (code, x) /\ In code (keys rm)) /\
    (forall code x, In (code, x) rm -> In (code, x) acc \/ exists k v, In (k, v) l /\ f k v = Ok (code, x)).
  Proof.
    induction l as [|[k v] l IH]; cbn; intros acc rm H Hnd.
    - injection H as <-. repeat split; auto. intros ? ? [].
    - destruct (f k v) as [[code x]| |] eqn:E; try discriminate.
      apply IH in H; [|apply (nodup_set N.eqb neqb_spec); exact Hnd].
      destruct H as [H1 [H2 [H3 H4]]]. split; [exact H1|]. split; [|split].
      + intros c Hc. apply H2. unfold set. cbn.
        destruct (N.eq_dec c code) as [->|Hne]; [left; reflexivity|right].
        apply (in_keys_del_intro N.eqb neqb_spec); assumption.
      + intros k' v' [Heq|Hin].
        * injection Heq as <- <-. exists code, x. split; [exact E|]. apply H2. left. reflexivity.
        * apply H3. exact Hin.
      + intros c y Hin. apply H4 in Hin. destruct Hin as [Hin|[k' [v' [Hin Hf]]]].
        * destruct Hin as [Heq|Hin].
          -- injection Heq as <- <-. right. exists k, v. split; [left; reflexivity|exact E].
          -- left. apply (in_del N.eqb neqb_spec) in Hin. tauto.
        * right. exists k', v'. split; [right; exact Hin|exact Hf].
  Qed.

  Lemma map_fold_nodup l rm : map_fold f l [] = Ok rm -> NoDup (keys rm).
  Proof. intro H. apply map_fold_inv in H; [tauto|constructor]. Qed.

  Lemma map_fold_all_ok l rm k v :
    map_fold f l [] = Ok rm -> In (k, v) l -> exists code x, f k v = Ok (code, x) /\ In code (keys rm).
  Proof. intros H Hin. apply map_fold_inv in H; [|constructor]. destruct H as [_ [_ [H _]]]. apply H. exact Hin. Qed.

  Lemma map_fold_in l rm code x :
    map_fold f l [] = Ok rm -> In (code, x) rm -> exists k v, In (k, v) l /\ f k v = Ok (code, x).
  Proof.
    intros H Hin. apply map_fold_inv in H; [|constructor]. destruct H as [_ [_ [_ H]]].
    apply H in Hin. destruct Hin as [[]|Hin]. exact Hin.
  Qed.

  Lemma map_fold_nonempty l rm : map_fold f l [] = Ok rm -> is_nil rm = is_nil l.
  Proof.
    intro H. destruct l as [|[k v] l].
    - cbn in H. injection H as <-. reflexivity.
    - destruct (map_fold_all_ok _ _ k v H (or_introl eq_refl)) as [code [x [_ Hin]]].
      destruct rm; [destruct Hin|reflexivity].
  Qed.
End MapFoldLemmas.

(* ------------------------------------------------------------------ C09: nothing crashes *)
Lemma offset_of_string_nc s : offset_of_string s <> Crash.
Proof. unfold offset_of_string. destruct (atoi s); [destruct (in_range 0 15 z)|]; discriminate. Qed.

Lemma note_of_string_nc s : note_of_string s <> Crash.
Proof.
  unfold note_of_string. destruct (atoi s); [destruct (in_range 0 127 z); discriminate|].
  destruct (string_to_note s); discriminate.
Qed.

Lemma conv_key_value_nc v : conv_key_value v <> Crash.
Proof.
  unfold conv_key_value. destruct (split_comma v) as [|n [|o [|? ?]]]; try discriminate;
    (apply bind_not_crash; [apply offset_of_string_nc|]; intros ? _;
     apply bind_not_crash; [apply note_of_string_nc|]; intros; discriminate).
Qed.

Lemma conv_key_entry_nc T k v : conv_key_entry T k v <> Crash.
Proof.
  unfold conv_key_entry. destruct (toml_key_to_evcode _ k); [|discriminate].
  apply bind_not_crash; [apply conv_key_value_nc|intros; discriminate].
Qed.

Lemma opt_ranged_nc hi e o : opt_ranged hi e o <> Crash.
Proof. unfold opt_ranged. destruct o; [destruct (in_range 0 hi z)|]; discriminate. Qed.

Lemma axis_offset_fixed_nc z : axis_offset all_fixed z <> Crash.
Proof. unfold axis_offset. cbn. destruct (in_range 0 15 z); discriminate. Qed.

Lemma key_axis_offset_fixed_nc z : key_axis_offset all_fixed z <> Crash.
Proof. unfold key_axis_offset. cbn. destruct (in_range 0 15 z); discriminate. Qed.

Lemma conv_axis_nc x : conv_axis all_fixed x <> Crash.
Proof.
  unfold conv_axis. destruct (type_of_string (x_type x)) as [[| | | |]|]; try discriminate.
  - destruct (x_cc x); [|discriminate]. destruct (in_range 0 119 z); [|discriminate].
    apply bind_not_crash; [apply opt_ranged_nc|]; intros ? _.
    apply bind_not_crash; [apply axis_offset_fixed_nc|]; intros ? _.
    apply bind_not_crash; [apply axis_offset_fixed_nc|]; intros; discriminate.
  - apply bind_not_crash; [apply axis_offset_fixed_nc|]; intros; discriminate.
  - destruct (x_note x); [|discriminate]. destruct (in_range 0 127 z); [|discriminate].
    apply bind_not_crash; [apply opt_ranged_nc|]; intros ? _.
    apply bind_not_crash; [apply key_axis_offset_fixed_nc|]; intros ? _.
    apply bind_not_crash; [apply key_axis_offset_fixed_nc|]; intros; discriminate.
  - destruct (x_act x); [|discriminate]. destruct (action_of_string s); [|discriminate]. cbn [fx_actneg all_fixed].
    destruct (x_actneg x); [|discriminate]. destruct (action_of_string s0); discriminate.
Qed.

Lemma conv_axis_entry_nc T k x : conv_axis_entry all_fixed T k x <> Crash.
Proof.
  unfold conv_axis_entry. destruct (toml_key_to_evcode _ k); [|discriminate].
  apply bind_not_crash; [apply conv_axis_nc|intros; discriminate].
Qed.

Lemma conv_dz_entry_nc T k b : conv_dz_entry T k b <> Crash.
Proof. unfold conv_dz_entry. destruct (toml_key_to_evcode _ k); discriminate. Qed.

Lemma conv_action_entry_nc T k v : conv_action_entry T k v <> Crash.
Proof.
  unfold conv_action_entry. destruct (toml_key_to_evcode _ k); [|discriminate].
  destruct (action_of_string v); discriminate.
Qed.

Lemma conv_keysub_nc T ks : conv_keysub T ks <> Crash.
Proof.
  unfold conv_keysub. apply bind_not_crash; [|intros; discriminate].
  apply map_fold_not_crash. intros. apply conv_key_entry_nc.
Qed.

Lemma conv_analogsub_nc T a : conv_analogsub all_fixed T a <> Crash.
Proof.
  unfold conv_analogsub. apply bind_not_crash; [apply map_fold_not_crash; intros; apply conv_axis_entry_nc|].
  intros ? _. apply bind_not_crash; [apply map_fold_not_crash; intros; apply conv_dz_entry_nc|]. intros; discriminate.
Qed.

Lemma conv_mapping_nc T m : conv_mapping all_fixed T m <> Crash.
Proof.
  unfold conv_mapping. apply bind_not_crash; [apply mapM_not_crash; intros; apply conv_keysub_nc|].
  intros ? _. apply bind_not_crash; [apply mapM_not_crash; intros; apply conv_analogsub_nc|]. intros; discriminate.
Qed.

Lemma convert_total : forall T t, convert T t <> Crash.
Proof.
  intros T t. unfold convert, convert_gen.
  apply bind_not_crash; [apply mapM_not_crash; intros; apply conv_mapping_nc|]. intros ms _.
  apply bind_not_crash; [apply map_fold_not_crash; intros; apply conv_action_entry_nc|]. intros acts _.
  destruct (cmode_of_string (t_cmode t)); [|discriminate].
  destruct (find_last_from _ _ _ _); [|discriminate].
  apply bind_not_crash.
  - apply mapM_not_crash. intros k _. destruct (toml_key_to_evcode _ k); discriminate.
  - intros ex _. destruct (in_range 0 127 (t_velocity t)); [|discriminate].
    destruct (fx_channel all_fixed && negb (in_range 1 16 (t_channel t))); discriminate.
Qed.

Lemma hidi_total : forall r, hidi_convert r <> Crash.
Proof.
  intro r. unfold hidi_convert, hidi_convert_gen. cbn.
  destruct (h_pool r <=? 0)%Z eqn:E1; [discriminate|]. destruct (h_disc r <=? 0)%Z eqn:E2; [discriminate|]. cbn.
  apply Z.leb_gt in E1, E2.
  destruct (h_pool r =? 0)%Z eqn:E3; [apply Z.eqb_eq in E3; lia|].
  destruct (h_disc r =? 0)%Z eqn:E4; [apply Z.eqb_eq in E4; lia|]. discriminate.
Qed.

(* accepted rates are positive and the periods are never negative *)
Lemma hidi_periods : forall r c, hidi_convert r = Ok c ->
  (0 < h_pool r /\ 0 < h_disc r /\ 0 <= hc_throttle c /\ 0 <= hc_disc c /\
   hc_throttle c = 1000000000 / h_pool r /\ hc_disc c = 1000000000 / h_disc r)%Z.
Proof.
  intros r c. unfold hidi_convert, hidi_convert_gen. cbn.
  destruct (h_pool r <=? 0)%Z eqn:E1; [discriminate|]. destruct (h_disc r <=? 0)%Z eqn:E2; [discriminate|]. cbn.
  apply Z.leb_gt in E1, E2.
  destruct (h_pool r =? 0)%Z; [discriminate|]. destruct (h_disc r =? 0)%Z; [discriminate|]. cbn.
  intro H. injection H as <-. cbn.
  rewrite !Z.quot_div_nonneg by lia.
  repeat split; try lia; apply Z.div_pos; lia.
Qed.

Lemma guard_total {A C} : forall (d : dec_outcome A) (conv : A -> outcome C), guard d conv <> Crash.
Proof. intros [t| |] conv; cbn; try discriminate. destruct (conv t); discriminate. Qed.

Lemma parse_data_total : forall T (d : dec_outcome toml_cfg), parse_data T d <> Crash.
Proof. intros. apply guard_total. Qed.

Lemma load_hidi_total : forall (d : dec_outcome hidi_raw), load_hidi d <> Crash.
Proof. intros. apply guard_total. Qed.

(* the guarded parser agrees with the conversion whenever the decoder succeeds and the conversion does not crash *)
Lemma guard_decoded {A C} (t : A) (conv : A -> outcome C) : conv t <> Crash -> guard (DecOk t) conv = conv t.
Proof. cbn. destruct (conv t); congruence. Qed.

(* ------------------------------------------------------------------ strings.Split *)
Fixpoint join (l : list str) : str :=
  match l with
  | [] => []
  | p :: r => match r with [] => p | _ => p ++ ch_comma :: join r end
  end.

Lemma split_nonempty s : split_comma s <> [].
Proof. destruct s as [|c r]; cbn; [discriminate|]. destruct (c =? ch_comma); [discriminate|]. destruct (split_comma r); discriminate. Qed.

Lemma split_join : forall s, join (split_comma s) = s.
Proof.
  induction s as [|c r IH]; [reflexivity|]. cbn [split_comma].
  destruct (c =? ch_comma) eqn:E.
  - apply N.eqb_eq in E. subst c. cbn [join]. destruct (split_comma r) eqn:Er; [exfalso; exact (split_nonempty r Er)|].
    cbn [app]. rewrite IH. reflexivity.
  - destruct (split_comma r) as [|p ps] eqn:Er; [exfalso; exact (split_nonempty r Er)|].
    cbn [join] in *. destruct ps; [rewrite IH; reflexivity|]. cbn [app]. rewrite <- IH. reflexivity.
Qed.

Lemma split_no_comma : forall s, Forall no_comma (split_comma s).
Proof.
  induction s as [|c r IH]; cbn [split_comma]; [constructor; [intros []|constructor]|].
  destruct (c =? ch_comma) eqn:E; [constructor; [intros []|exact IH]|].
  destruct (split_comma r) as [|p ps]; [constructor; [|constructor]|].
  - intros [H|[]]. subst c. rewrite N.eqb_refl in E. discriminate.
  - inversion IH; subst. constructor; [|assumption].
    intros [H|H]; [subst c; rewrite N.eqb_refl in E; discriminate|contradiction].
Qed.

Lemma split_no_comma_id : forall p, no_comma p -> split_comma p = [p].
Proof.
  induction p as [|c r IH]; intro H; [reflexivity|]. cbn [split_comma].
  destruct (c =? ch_comma) eqn:E; [apply N.eqb_eq in E; exfalso; apply H; left; auto|].
  rewrite IH; [reflexivity|]. intro Hin. apply H. right. exact Hin.
Qed.

Lemma split_app_comma : forall p s, no_comma p -> split_comma (p ++ ch_comma :: s) = p :: split_comma s.
Proof.
  induction p as [|c r IH]; intros s H.
  - cbn. reflexivity.
  - cbn [app split_comma]. destruct (c =? ch_comma) eqn:E; [apply N.eqb_eq in E; exfalso; apply H; left; auto|].
    rewrite IH; [reflexivity|]. intro Hin. apply H. right. exact Hin.
Qed.

Lemma split_length : forall s, length (split_comma s) = S (comma_count s).
Proof.
  induction s as [|c r IH]; [reflexivity|]. cbn [split_comma comma_count].
  destruct (c =? ch_comma); [cbn; rewrite IH; reflexivity|].
  destruct (split_comma r); [discriminate|exact IH].
Qed.

Lemma split_one v ns : split_comma v = [ns] <-> v = ns /\ no_comma ns.
Proof.
  split.
  - intro H. pose proof (split_join v) as J. pose proof (split_no_comma v) as F. rewrite H in J, F.
    cbn in J. inversion F; subst. auto.
  - intros [-> H]. apply split_no_comma_id. exact H.
Qed.

Lemma split_two v ns os : split_comma v = [ns; os] <-> v = ns ++ ch_comma :: os /\ no_comma ns /\ no_comma os.
Proof.
  split.
  - intro H. pose proof (split_join v) as J. pose proof (split_no_comma v) as F. rewrite H in J, F.
    cbn in J. inversion F as [|? ? F1 F2]; subst. inversion F2; subst. auto.
  - intros [-> [H1 H2]]. rewrite split_app_comma by exact H1. rewrite split_no_comma_id by exact H2. reflexivity.
Qed.

Lemma split_head v ns : (exists rest, split_comma v = ns :: rest) <-> note_piece v ns.
Proof.
  split.
  - intros [rest H]. pose proof (split_join v) as J. pose proof (split_no_comma v) as F. rewrite H in J, F.
    inversion F; subst. split; [assumption|]. cbn [join]. destruct rest; [left; reflexivity|right; eauto].
  - intros [H [->|[os ->]]]; [exists []; apply split_no_comma_id; exact H|].
    exists (split_comma os). apply split_app_comma. exact H.
Qed.

(* ------------------------------------------------------------------ entries: what is accepted is what the file states *)
Lemma note_of_string_ok s n : note_of_string s = Ok n -> note_states s n /\ n <= 127.
Proof.
  unfold note_of_string, note_states. destruct (atoi s) as [z|].
  - destruct (in_range 0 127 z) eqn:E; [|discriminate]. apply in_range_spec in E. intro H. injection H as <-.
    split; [left|]; rewrite ?Z2N.id by lia; try split; try reflexivity; lia.
  - destruct (string_to_note s) as [m|] eqn:E; [|discriminate]. intro H. injection H as <-.
    apply inverse in E as E'. split; [right; auto|lia].
Qed.

Lemma offset_of_string_ok s o : offset_of_string s = Ok o -> offset_states s o.
Proof.
  unfold offset_of_string, offset_states. destruct (atoi s) as [z|]; [|discriminate].
  destruct (in_range 0 15 z) eqn:E; [|discriminate]. apply in_range_spec in E. intro H. injection H as <-.
  rewrite Z2N.id by lia. split; [reflexivity|lia].
Qed.

Lemma conv_key_value_ok v k : conv_key_value v = Ok k -> key_states v k /\ wf_key k.
Proof.
  unfold conv_key_value. destruct (split_comma v) as [|n [|os [|? ?]]] eqn:Es; try discriminate; intro H.
  - apply bind_ok in H. destruct H as [o [Ho H]]. apply bind_ok in H. destruct H as [nn [Hn H]]. injection H as <-.
    apply split_one in Es. destruct Es as [-> Hnc]. apply note_of_string_ok in Hn. destruct Hn as [Hn Hr].
    apply offset_of_string_ok in Ho. destruct Ho as [Ho1 Ho2].
    assert (E0 : atoi [48] = Some 0%Z) by reflexivity. rewrite E0 in Ho1. injection Ho1 as Ho1.
    assert (o = 0) by lia. subst o.
    split; [left; cbn; auto|split; cbn; [exact Hr|lia]].
  - apply bind_ok in H. destruct H as [o [Ho H]]. apply bind_ok in H. destruct H as [nn [Hn H]]. injection H as <-.
    apply split_two in Es. destruct Es as [-> [H1 H2]]. apply note_of_string_ok in Hn. destruct Hn as [Hn Hr].
    apply offset_of_string_ok in Ho.
    split; [right; exists n, os; cbn; auto|split; cbn; [exact Hr|exact (proj2 Ho)]].
Qed.

Lemma conv_key_entry_ok T k v code r :
  conv_key_entry T k v = Ok (code, r) -> toml_key_to_evcode (tab_keys T) k = Some code /\ key_states v r /\ wf_key r.
Proof.
  unfold conv_key_entry. destruct (toml_key_to_evcode _ k) as [c|]; [|discriminate]. intro H.
  apply bind_ok in H. destruct H as [r' [Hr H]]. injection H as <- <-. split; [reflexivity|apply conv_key_value_ok; exact Hr].
Qed.

Lemma opt_ranged_ok hi e o v b :
  (0 <= hi < 256)%Z -> opt_ranged hi e o = Ok (v, b) -> opt_states o v b /\ (Z.of_N v <= hi)%Z.
Proof.
  intros Hhi. unfold opt_ranged, opt_states. destruct o as [z|].
  - destruct (in_range 0 hi z) eqn:E; [|discriminate]. apply in_range_spec in E. intro H. injection H as <- <-.
    rewrite byte_of_small by lia. split; [auto|lia].
  - intro H. injection H as <- <-. split; [auto|cbn; lia].
Qed.

Lemma axis_offset_ok z o : axis_offset all_fixed z = Ok o -> Z.of_N o = z /\ o <= 15.
Proof.
  unfold axis_offset. cbn [fx_axis all_fixed]. destruct (in_range 0 15 z) eqn:E; [|discriminate].
  apply in_range_spec in E. intro H. injection H as <-. rewrite <- (byte_of_small z) at 2 by lia.
  split; [reflexivity|]. assert (Z.of_N (byte_of z) = z) by (apply byte_of_small; lia). lia.
Qed.

Lemma key_axis_offset_ok z o : key_axis_offset all_fixed z = Ok o -> Z.of_N o = z /\ o <= 15.
Proof. exact (axis_offset_ok z o). Qed.

Lemma action_of_string_supported s a : action_of_string s = Some a -> a <> ANone.
Proof.
  unfold action_of_string. intro H. apply (get_some_in str_eqb str_eqb_spec) in H.
  unfold action_table in H. cbn [In] in H.
  repeat (destruct H as [H|H]; [injection H as _ <-; discriminate|]). destruct H.
Qed.

Lemma conv_axis_ok x a : conv_axis all_fixed x = Ok a -> axis_states x a /\ wf_analog a.
Proof.
  unfold conv_axis. destruct (type_of_string (x_type x)) as [[| | | |]|] eqn:Ety; try discriminate.
  - (* cc *)
    destruct (x_cc x) as [cc|] eqn:Ecc; [|discriminate]. destruct (in_range 0 119 cc) eqn:Er; [|discriminate].
    apply in_range_spec in Er. intro H.
    apply bind_ok in H. destruct H as [[v b] [Hn H]]. apply bind_ok in H. destruct H as [o [Ho H]].
    apply bind_ok in H. destruct H as [on [Hon H]]. injection H as <-.
    apply opt_ranged_ok in Hn; [|lia]. apply axis_offset_ok in Ho, Hon.
    assert (Hcc : Z.of_N (byte_of cc) = cc) by (apply byte_of_small; lia).
    split.
    + unfold axis_states. cbn. rewrite Ecc. cbn. tauto.
    + unfold wf_analog. cbn. repeat split; try lia; try discriminate.
  - (* pitch bend *)
    intro H. apply bind_ok in H. destruct H as [o [Ho H]]. injection H as <-. apply axis_offset_ok in Ho.
    split.
    + unfold axis_states. cbn. tauto.
    + unfold wf_analog. cbn. repeat split; try lia; try discriminate.
  - (* key *)
    destruct (x_note x) as [nt|] eqn:Ent; [|discriminate]. destruct (in_range 0 127 nt) eqn:Er; [|discriminate].
    apply in_range_spec in Er. intro H.
    apply bind_ok in H. destruct H as [[v b] [Hn H]]. apply bind_ok in H. destruct H as [o [Ho H]].
    apply bind_ok in H. destruct H as [on [Hon H]]. injection H as <-.
    apply opt_ranged_ok in Hn; [|lia]. apply key_axis_offset_ok in Ho, Hon.
    assert (Hnt : Z.of_N (byte_of nt) = nt) by (apply byte_of_small; lia).
    split.
    + unfold axis_states. cbn. rewrite Ent. cbn. tauto.
    + unfold wf_analog. cbn. repeat split; try lia; try discriminate.
  - (* action *)
    destruct (x_act x) as [s|] eqn:Ea; [|discriminate]. destruct (action_of_string s) as [act|] eqn:Eas; [|discriminate].
    cbn [fx_actneg all_fixed].
    destruct (x_actneg x) as [sn|] eqn:Ean.
    + destruct (action_of_string sn) as [actn|] eqn:Eans; [|discriminate]. intro H. injection H as <-.
      split.
      * unfold axis_states. cbn. rewrite Ea, Ean. cbn. tauto.
      * unfold wf_analog. cbn. repeat split; try lia; try discriminate.
        -- exact (action_of_string_supported _ _ Eas).
        -- intros _. exact (action_of_string_supported _ _ Eans).
    + intro H. injection H as <-.
      split.
      * unfold axis_states. cbn. rewrite Ea, Ean. cbn. tauto.
      * unfold wf_analog. cbn. repeat split; try lia; try discriminate.
        exact (action_of_string_supported _ _ Eas).
Qed.

Lemma conv_axis_entry_ok T k x code a :
  conv_axis_entry all_fixed T k x = Ok (code, a) ->
  toml_key_to_evcode (tab_abs T) k = Some code /\ axis_states x a /\ wf_analog a.
Proof.
  unfold conv_axis_entry. destruct (toml_key_to_evcode _ k) as [c|]; [|discriminate]. intro H.
  apply bind_ok in H. destruct H as [r' [Hr H]]. injection H as <- <-. split; [reflexivity|apply conv_axis_ok; exact Hr].
Qed.

Lemma conv_dz_entry_ok T k b code r :
  conv_dz_entry T k b = Ok (code, r) -> toml_key_to_evcode (tab_abs T) k = Some code /\ r = b.
Proof.
  unfold conv_dz_entry. destruct (toml_key_to_evcode _ k) as [c|]; [|discriminate]. intro H. injection H as <- <-. auto.
Qed.

Lemma conv_action_entry_ok T k v code a :
  conv_action_entry T k v = Ok (code, a) ->
  toml_key_to_evcode (tab_keys T) k = Some code /\ action_of_string v = Some a.
Proof.
  unfold conv_action_entry. destruct (toml_key_to_evcode _ k) as [c|]; [|discriminate].
  destruct (action_of_string v) as [a'|]; [|discriminate]. intro H. injection H as <- <-. auto.
Qed.

Lemma map_fold_reflects {V R} tab (states : V -> R -> Prop) (f : str -> V -> outcome (N * R)) l rm :
  (forall k v code r, f k v = Ok (code, r) -> toml_key_to_evcode tab k = Some code /\ states v r) ->
  map_fold f l [] = Ok rm -> map_reflects tab states l rm.
Proof.
  intros Hf H. split; [exact (map_fold_nodup f l rm H)|]. split.
  - intros k v Hin. destruct (map_fold_all_ok f l rm k v H Hin) as [code [x [E Hc]]].
    exists code. split; [exact (proj1 (Hf _ _ _ _ E))|exact Hc].
  - intros code r Hin. destruct (map_fold_in f l rm code r H Hin) as [k [v [Hkv E]]].
    exists k, v. destruct (Hf _ _ _ _ E). auto.
Qed.

Lemma map_fold_forall {V R} (P : R -> Prop) (f : str -> V -> outcome (N * R)) l rm :
  (forall k v code r, f k v = Ok (code, r) -> P r) ->
  map_fold f l [] = Ok rm -> Forall (fun cr => P (snd cr)) rm.
Proof.
  intros Hf H. apply Forall_forall. intros [code r] Hin. cbn.
  destruct (map_fold_in f l rm code r H Hin) as [k [v [_ E]]]. exact (Hf _ _ _ _ E).
Qed.

(* ------------------------------------------------------------------ sub-handler maps: the last table of a name wins *)
Lemma get_app {V} (k : str) (l1 l2 : list (str * V)) :
  get str_eqb k (l1 ++ l2) = match get str_eqb k l1 with Some v => Some v | None => get str_eqb k l2 end.
Proof. induction l1 as [|[k' v] l1 IH]; cbn; [reflexivity|]. destruct (str_eqb k k'); [reflexivity|exact IH]. Qed.

Definition fold_set {R} (l : list (str * R)) (acc : list (str * R)) : list (str * R) :=
  fold_left (fun acc kv => set str_eqb (fst kv) (snd kv) acc) l acc.

Lemma fold_set_get {R} : forall (l : list (str * R)) acc s,
  get str_eqb s (fold_set l acc) = match get str_eqb s (rev l) with Some v => Some v | None => get str_eqb s acc end.
Proof.
  induction l as [|[k v] l IH]; intros acc s; [reflexivity|].
  unfold fold_set in *. cbn [fold_left fst snd rev]. rewrite IH. rewrite get_app.
  destruct (get str_eqb s (rev l)); [reflexivity|]. cbn [get].
  destruct (str_eqb s k) eqn:E.
  - apply str_eqb_spec in E. subst. apply (get_set_same str_eqb str_eqb_spec).
  - apply (get_set_other str_eqb str_eqb_spec). intros ->. rewrite str_eqb_refl in E. discriminate.
Qed.

Lemma fold_set_nodup {R} : forall (l : list (str * R)) acc, NoDup (keys acc) -> NoDup (keys (fold_set l acc)).
Proof.
  induction l as [|[k v] l IH]; intros acc H; [exact H|].
  unfold fold_set in *. cbn [fold_left]. apply IH. apply (nodup_set str_eqb str_eqb_spec). exact H.
Qed.

Lemma fold_set_in {R} : forall (l : list (str * R)) acc s r,
  In (s, r) (fold_set l acc) -> In (s, r) l \/ In (s, r) acc.
Proof.
  induction l as [|[k v] l IH]; intros acc s r H; [right; exact H|].
  unfold fold_set in *. cbn [fold_left] in H. apply IH in H. destruct H as [H|H]; [left; right; exact H|].
  destruct H as [H|H]; [left; left; exact H|]. apply (in_del str_eqb str_eqb_spec) in H. tauto.
Qed.

Lemma build_get {R} (l : list (str * R)) s : get str_eqb s (build l) = get str_eqb s (rev l).
Proof. unfold build. change (fold_left _ l []) with (fold_set l []). rewrite fold_set_get. destruct (get str_eqb s (rev l)); reflexivity. Qed.

Lemma build_nodup {R} (l : list (str * R)) : NoDup (keys (build l)).
Proof. unfold build. change (fold_left _ l []) with (fold_set l []). apply fold_set_nodup. constructor. Qed.

Lemma build_in {R} (l : list (str * R)) s r : In (s, r) (build l) -> In (s, r) l.
Proof. unfold build. change (fold_left _ l []) with (fold_set l []). intro H. apply fold_set_in in H. destruct H as [H|[]]. exact H. Qed.

Lemma Forall2_rev' {A B} (R : A -> B -> Prop) : forall l m, Forall2 R l m -> Forall2 R (rev l) (rev m).
Proof.
  induction 1; cbn; [constructor|]. apply Forall2_app; [assumption|]. constructor; [assumption|constructor].
Qed.

Lemma Forall2_imp {A B} (R1 R2 : A -> B -> Prop) : (forall a b, R1 a b -> R2 a b) ->
  forall l m, Forall2 R1 l m -> Forall2 R2 l m.
Proof. intros H l m F. induction F; constructor; auto. Qed.

Lemma Forall2_in_r {A B} (R : A -> B -> Prop) l m b : Forall2 R l m -> In b m -> exists a, In a l /\ R a b.
Proof.
  induction 1 as [|a b' l m Hab F IH]; intros Hin; [destruct Hin|].
  destruct Hin as [<-|Hin]; [exists a; split; [left; reflexivity|exact Hab]|].
  destruct (IH Hin) as [a' [H1 H2]]. exists a'. split; [right; exact H1|exact H2].
Qed.

Lemma Forall2_in_l {A B} (R : A -> B -> Prop) l m a : Forall2 R l m -> In a l -> exists b, In b m /\ R a b.
Proof.
  induction 1 as [|a' b l m Hab F IH]; intros Hin; [destruct Hin|].
  destruct Hin as [<-|Hin]; [exists b; split; [left; reflexivity|exact Hab]|].
  destruct (IH Hin) as [b' [H1 H2]]. exists b'. split; [right; exact H1|exact H2].
Qed.

Lemma filter_rev' {A} (f : A -> bool) : forall l, filter f (rev l) = rev (filter f l).
Proof.
  induction l as [|a l IH]; [reflexivity|]. cbn. rewrite filter_app, IH. cbn.
  destruct (f a); cbn; [reflexivity|apply app_nil_r].
Qed.

Lemma str_eqb_sym a b : str_eqb a b = str_eqb b a.
Proof.
  destruct (str_eqb a b) eqn:E.
  - apply str_eqb_spec in E. subst. symmetry. apply str_eqb_refl.
  - destruct (str_eqb b a) eqn:E2; [|reflexivity]. apply str_eqb_spec in E2. subst. rewrite str_eqb_refl in E. discriminate.
Qed.

Lemma subs_reflect_build {A P R} (sub_of : A -> str) (keep : A -> bool) (rel : A -> R -> Prop)
      (name : P -> str) (val : P -> R) (keepP : P -> bool) (fl : list A) (ps : list P) :
  Forall2 (fun a p => name p = sub_of a /\ keepP p = keep a /\ rel a (val p)) fl ps ->
  subs_reflect sub_of keep rel fl (build (map (fun p => (name p, val p)) (filter keepP ps))).
Proof.
  intro F. split; [apply build_nodup|]. intro s. rewrite build_get. unfold last_sub.
  rewrite <- map_rev, <- filter_rev'. apply Forall2_rev' in F.
  induction F as [|a p fl' ps' [Hn [Hk Hr]] F IH]; cbn; [exact I|].
  rewrite Hk. destruct (keep a) eqn:Ek.
  - cbn. rewrite Hn, (str_eqb_sym s (sub_of a)). destruct (str_eqb (sub_of a) s); cbn; [exact Hr|exact IH].
  - rewrite andb_false_r. exact IH.
Qed.

Lemma map_pair_id {A B} (l : list (A * B)) : map (fun p => (fst p, snd p)) l = l.
Proof. induction l as [|[a b] l IH]; cbn; [reflexivity|]. rewrite IH. reflexivity. Qed.

Lemma filter_true {A} (l : list A) : filter (fun _ => true) l = l.
Proof. induction l as [|a l IH]; cbn; [reflexivity|]. rewrite IH. reflexivity. Qed.

(* ------------------------------------------------------------------ one [[mapping]] *)
Lemma conv_keysub_ok T ks p :
  conv_keysub T ks = Ok p ->
  fst p = ks_sub ks /\ negb (is_nil (snd p)) = negb (is_nil (ks_map ks)) /\
  map_reflects (tab_keys T) key_states (ks_map ks) (snd p) /\ Forall (fun ck => wf_key (snd ck)) (snd p).
Proof.
  unfold conv_keysub. intro H. apply bind_ok in H. destruct H as [m [Hm H]]. injection H as <-. cbn.
  split; [reflexivity|]. split; [f_equal; exact (map_fold_nonempty _ _ _ Hm)|]. split.
  - eapply map_fold_reflects; [|exact Hm]. intros k v code r E. apply conv_key_entry_ok in E. tauto.
  - eapply (map_fold_forall wf_key); [|exact Hm]. intros k v code r E. apply conv_key_entry_ok in E. tauto.
Qed.

Lemma conv_analogsub_ok T a p :
  conv_analogsub all_fixed T a = Ok p ->
  asub_name p = as_sub a /\ asub_def p = as_defdz a /\
  map_reflects (tab_abs T) axis_states (as_map a) (asub_map p) /\
  map_reflects (tab_abs T) (fun bits r => r = bits) (as_dz a) (asub_dz p) /\
  Forall (fun ca => wf_analog (snd ca)) (asub_map p).
Proof.
  unfold conv_analogsub. intro H. apply bind_ok in H. destruct H as [m [Hm H]].
  apply bind_ok in H. destruct H as [d [Hd H]]. injection H as <-. cbn.
  split; [reflexivity|]. split; [reflexivity|]. split; [|split].
  - eapply map_fold_reflects; [|exact Hm]. intros k v code r E. apply conv_axis_entry_ok in E. tauto.
  - eapply map_fold_reflects; [|exact Hd]. intros k v code r E. apply conv_dz_entry_ok in E. tauto.
  - eapply (map_fold_forall wf_analog); [|exact Hm]. intros k v code r E. apply conv_axis_entry_ok in E. tauto.
Qed.

Lemma conv_mapping_ok T m pm :
  conv_mapping all_fixed T m = Ok pm -> mapping_reflects T m pm /\ wf_mapping pm.
Proof.
  unfold conv_mapping. intro H. apply bind_ok in H. destruct H as [ks [Hks H]].
  apply bind_ok in H. destruct H as [an [Han H]]. injection H as <-.
  apply mapM_ok in Hks, Han.
  assert (Fk := Forall2_imp _ _ (fun a b E => conv_keysub_ok T a b E) _ _ Hks).
  assert (Fa := Forall2_imp _ _ (fun a b E => conv_analogsub_ok T a b E) _ _ Han).
  split.
  - unfold mapping_reflects. cbn. split; [reflexivity|]. split; [|split; [|split]].
    + rewrite <- (map_pair_id (filter _ ks)).
      apply (subs_reflect_build ks_sub (fun ks => negb (is_nil (ks_map ks))) _ fst snd (fun p => negb (is_nil (snd p)))).
      eapply Forall2_imp; [|exact Fk]. cbn. intros a b Hab. tauto.
    + rewrite <- (filter_true an) at 1.
      apply (subs_reflect_build as_sub (fun _ => true) _ asub_name asub_map (fun _ => true)).
      eapply Forall2_imp; [|exact Fa]. cbn. intros a b Hab. tauto.
    + rewrite <- (filter_true an) at 1.
      apply (subs_reflect_build as_sub (fun _ => true) _ asub_name asub_dz (fun _ => true)).
      eapply Forall2_imp; [|exact Fa]. cbn. intros a b Hab. tauto.
    + rewrite <- (filter_true an) at 1.
      apply (subs_reflect_build as_sub (fun _ => true) _ asub_name asub_def (fun _ => true)).
      eapply Forall2_imp; [|exact Fa]. cbn. intros a b Hab. tauto.
  - unfold wf_mapping. cbn. split; apply Forall_forall; intros [s r] Hin; cbn; apply build_in in Hin.
    + apply filter_In in Hin. destruct Hin as [Hin _].
      destruct (Forall2_in_r _ _ _ _ Fk Hin) as [a [_ Ha]]. cbn in Ha. tauto.
    + apply in_map_iff in Hin. destruct Hin as [p [Hp Hin]]. injection Hp as <- <-.
      destruct (Forall2_in_r _ _ _ _ Fa Hin) as [a [_ Ha]]. tauto.
Qed.

(* ------------------------------------------------------------------ default mapping: the last one of that name *)
Lemma find_last_from_spec want : forall names i cur idx,
  find_last_from want names i cur = Some idx ->
  (cur = Some idx /\ ~ In want names) \/
  (exists j, idx = (i + j)%nat /\ nth_error names j = Some want /\
             forall j' n, (j < j')%nat -> nth_error names j' = Some n -> n <> want).
Proof.
  induction names as [|n r IH]; cbn [find_last_from]; intros i cur idx H.
  - left. split; [exact H|intros []].
  - apply IH in H. destruct H as [[Hc Hn]|[j [Hi [Hj Hl]]]].
    + destruct (str_eqb n want) eqn:E.
      * apply str_eqb_spec in E. subst n. injection Hc as <-. right. exists 0%nat.
        split; [lia|]. split; [reflexivity|]. intros j' n' Hlt Hnth. destruct j'; [lia|]. cbn in Hnth.
        intros ->. apply Hn. eapply nth_error_In. exact Hnth.
      * left. split; [exact Hc|]. intros [->|Hin]; [rewrite str_eqb_refl in E; discriminate|contradiction].
    + right. exists (S j). split; [lia|]. split; [exact Hj|]. intros j' n' Hlt Hnth. destruct j'; [lia|].
      cbn in Hnth. eapply Hl; [|exact Hnth]. lia.
Qed.

Lemma find_last_from_none want : forall names i cur,
  find_last_from want names i cur = None <-> cur = None /\ ~ In want names.
Proof.
  induction names as [|n r IH]; cbn [find_last_from]; intros i cur.
  - split; [intro H; split; [exact H|intros []]|tauto].
  - rewrite IH. destruct (str_eqb n want) eqn:E.
    + apply str_eqb_spec in E. subst. split; [intros [H _]; discriminate|]. intros [_ H]. exfalso. apply H. left. reflexivity.
    + split; intros [H1 H2]; (split; [exact H1|]).
      * intros [->|Hin]; [rewrite str_eqb_refl in E; discriminate|contradiction].
      * intro Hin. apply H2. right. exact Hin.
Qed.

Lemma Forall2_map_eq {A B C} (f : A -> C) (g : B -> C) l m :
  Forall2 (fun a b => g b = f a) l m -> map g m = map f l.
Proof. induction 1; cbn; [reflexivity|]. congruence. Qed.

Lemma nth_error_map_some {A B} (f : A -> B) l j b :
  nth_error (map f l) j = Some b <-> exists a, nth_error l j = Some a /\ f a = b.
Proof.
  rewrite nth_error_map. destruct (nth_error l j) as [a|]; cbn; split.
  - intro H. injection H as <-. eauto.
  - intros [a' [H <-]]. injection H as <-. reflexivity.
  - discriminate.
  - intros [a' [H _]]. discriminate.
Qed.

Lemma color_of_states v : color_states v (color_of v).
Proof.
  unfold color_states, color_of, byte_of.
  rewrite !Z2N.id by (apply Z.mod_pos_bound; lia).
  rewrite !Z.shiftr_div_pow2 by lia. change (2 ^ 16)%Z with 65536%Z. change (2 ^ 8)%Z with 256%Z. auto.
Qed.

Lemma colors_states l : Forall2 color_states l (map color_of l).
Proof. induction l; cbn; constructor; [apply color_of_states|assumption]. Qed.

(* ------------------------------------------------------------------ C10: soundness and ranges *)
Lemma convert_ok T t c : convert T t = Ok c -> reflects T t c /\ wf_pconfig c /\ default_is_last t c.
Proof.
  unfold convert, convert_gen. intro H.
  apply bind_ok in H. destruct H as [ms [Hms H]]. apply bind_ok in H. destruct H as [acts [Hacts H]].
  destruct (cmode_of_string (t_cmode t)) as [cm|] eqn:Ecm; [|discriminate].
  destruct (find_last_from (t_defmap t) (map pm_name ms) 0 None) as [idx|] eqn:Eidx; [|discriminate].
  apply bind_ok in H. destruct H as [ex [Hex H]].
  destruct (in_range 0 127 (t_velocity t)) eqn:Evel; [|discriminate]. apply in_range_spec in Evel.
  cbn [fx_channel all_fixed andb] in H.
  destruct (in_range 1 16 (t_channel t)) eqn:Ech; cbn [negb] in H; [|discriminate]. apply in_range_spec in Ech.
  injection H as <-.
  apply mapM_ok in Hms, Hex.
  assert (Fm := Forall2_imp _ _ (fun a b E => conv_mapping_ok T a b E) _ _ Hms).
  assert (Hnames : map pm_name ms = map tm_name (t_mappings t)).
  { apply Forall2_map_eq. eapply Forall2_imp; [|exact Fm]. cbn. intros a b [[Hn _] _]. exact Hn. }
  rewrite Hnames in Eidx. apply find_last_from_spec in Eidx.
  destruct Eidx as [[Hc _]|[j [Hj [Hnth Hlater]]]]; [discriminate|]. cbn in Hj. subst j.
  split; [|split].
  3:{ unfold default_is_last. cbn. intros j m Hlt Hm. apply (Hlater j (tm_name m) Hlt). apply nth_error_map_some. eauto. }
  - unfold reflects. cbn.
    repeat (split; [reflexivity|]).
    split; [eapply Forall2_imp; [|exact Fm]; cbn; tauto|].
    split; [eapply map_fold_reflects; [|exact Hacts]; intros k v code r E; apply conv_action_entry_ok in E; exact E|].
    split.
    { eapply Forall2_imp; [|exact Hex]. cbn. intros k code E. destruct (toml_key_to_evcode _ k); [|discriminate].
      injection E as ->. reflexivity. }
    split; [exact Ecm|].
    repeat (split; [reflexivity|]).
    split; [intros ->; reflexivity|].
    split; [intro Hne; apply Z.eqb_neq in Hne; rewrite Hne; reflexivity|].
    split; [apply nth_error_map_some in Hnth; exact Hnth|].
    apply colors_states.
  - unfold wf_pconfig. cbn.
    assert (Hlen : (idx < length ms)%nat).
    { rewrite <- (map_length pm_name), Hnames. apply nth_error_Some. rewrite Hnth. discriminate. }
    split; [intros ->; cbn in Hlen; lia|]. split; [exact Hlen|]. split; [|split; [|split]].
    + apply Forall_forall. intros pm Hin. destruct (Forall2_in_r _ _ _ _ Fm Hin) as [m [_ Hm]]. tauto.
    + eapply (map_fold_forall (fun a => a <> ANone)); [|exact Hacts]. intros k v code r E.
      apply conv_action_entry_ok in E. exact (action_of_string_supported _ _ (proj2 E)).
    + destruct (t_velocity t =? 0)%Z eqn:E0; [lia|]. apply Z.eqb_neq in E0. lia.
    + exact Ech.
Qed.

Lemma convert_sound T t c : convert T t = Ok c -> reflects T t c.
Proof. intro H. exact (proj1 (convert_ok T t c H)). Qed.

Lemma convert_ranges T t c : convert T t = Ok c -> wf_pconfig c.
Proof. intro H. exact (proj1 (proj2 (convert_ok T t c H))). Qed.

Lemma convert_default_is_last T t c : convert T t = Ok c -> default_is_last t c.
Proof. intro H. exact (proj2 (proj2 (convert_ok T t c H))). Qed.

(* ------------------------------------------------------------------ C10: which entries are refused *)
Lemma no_comma_count s : no_comma s -> comma_count s = 0%nat.
Proof.
  induction s as [|c r IH]; intro H; [reflexivity|]. cbn. destruct (c =? ch_comma) eqn:E.
  - apply N.eqb_eq in E. exfalso. apply H. left. auto.
  - apply IH. intro Hin. apply H. right. exact Hin.
Qed.

Lemma comma_count_app a b : comma_count (a ++ b) = (comma_count a + comma_count b)%nat.
Proof. induction a as [|c r IH]; [reflexivity|]. cbn. destruct (c =? ch_comma); cbn; rewrite IH; reflexivity. Qed.

Lemma note_piece_unique v a b : note_piece v a -> note_piece v b -> a = b.
Proof.
  intros Ha Hb. apply split_head in Ha, Hb. destruct Ha as [ra Ha]. destruct Hb as [rb Hb]. congruence.
Qed.

Lemma key_states_piece v k : key_states v k -> exists ns, note_piece v ns /\ note_states ns (k_note k).
Proof.
  intros [[H1 [H2 _]]|[ns [os [-> [H1 [H2 [H3 _]]]]]]].
  - exists v. split; [split; [exact H1|left; reflexivity]|exact H2].
  - exists ns. split; [split; [exact H1|right; eauto]|exact H3].
Qed.

Lemma note_states_fun s n : note_states s n ->
  (forall z, atoi s = Some z -> (0 <= z <= 127)%Z) /\ (atoi s = None -> string_to_note s <> None).
Proof.
  intros [[H1 H2]|[H1 H2]]; split.
  - intros z Hz. rewrite H1 in Hz. injection Hz as <-. lia.
  - intro H. congruence.
  - intros z Hz. congruence.
  - intros _. congruence.
Qed.

Lemma bad_key_entry_refused T k v : bad_key_entry T k v -> forall r, conv_key_entry T k v <> Ok r.
Proof.
  intros Hbad [code r] H. apply conv_key_entry_ok in H. destruct H as [Hc [Hs _]].
  destruct Hbad as [Hn|Hcc|ns os Hv H1 H2 Ho|ns z Hp Ha Hz|ns Hp Ha Hn].
  - congruence.
  - destruct Hs as [[Hnc _]|[ns [os [-> [H1 [H2 _]]]]]].
    + rewrite (no_comma_count _ Hnc) in Hcc. lia.
    + rewrite comma_count_app in Hcc. cbn [comma_count] in Hcc. change (ch_comma =? ch_comma) with true in Hcc. cbv iota in Hcc.
      rewrite (no_comma_count _ H1), (no_comma_count _ H2) in Hcc. lia.
  - destruct Hs as [[Hnc _]|[ns' [os' [Hv' [H1' [H2' [_ [Hoa Hor]]]]]]]].
    + apply Hnc. subst v. apply in_or_app. right. left. reflexivity.
    + assert (E1 : split_comma v = [ns; os]) by (apply split_two; auto).
      assert (E : split_comma v = [ns'; os']) by (apply split_two; auto).
      rewrite E1 in E. injection E as <- <-. destruct Ho as [Ho|[z [Ho Hz]]]; [congruence|].
      rewrite Hoa in Ho. injection Ho as <-. unfold out_of in Hz. lia.
  - apply key_states_piece in Hs. destruct Hs as [ns' [Hp' Hs]]. rewrite (note_piece_unique _ _ _ Hp' Hp) in Hs.
    apply note_states_fun in Hs. destruct Hs as [Hs _]. apply Hs in Ha. unfold out_of in Hz. lia.
  - apply key_states_piece in Hs. destruct Hs as [ns' [Hp' Hs]]. rewrite (note_piece_unique _ _ _ Hp' Hp) in Hs.
    apply note_states_fun in Hs. destruct Hs as [_ Hs]. exact (Hs Ha Hn).
Qed.

Lemma note_of_string_err ns e v : note_piece v ns -> note_of_string ns = Err e -> forall T k, bad_key_entry T k v.
Proof.
  intros Hp. unfold note_of_string. destruct (atoi ns) as [z|] eqn:Ea.
  - destruct (in_range 0 127 z) eqn:Er; [discriminate|]. apply in_range_false in Er. intros _ T k.
    exact (bk_note_range T k v ns z Hp Ea Er).
  - destruct (string_to_note ns) eqn:En; [discriminate|]. intros _ T k. exact (bk_note_name T k v ns Hp Ea En).
Qed.

Lemma key_entry_err_bad T k v e : conv_key_entry T k v = Err e -> bad_key_entry T k v.
Proof.
  unfold conv_key_entry. destruct (toml_key_to_evcode _ k) as [code|] eqn:Ec; [|intros _; apply bk_name; exact Ec].
  intro H. apply bind_err in H. destruct H as [H|[a [_ H]]]; [|discriminate].
  unfold conv_key_value in H. destruct (split_comma v) as [|n [|os [|x rest]]] eqn:Es.
  - exfalso. exact (split_nonempty v Es).
  - assert (Hp : note_piece v n) by (apply split_head; eauto).
    apply bind_err in H. destruct H as [H|[o [_ H]]]; [vm_compute in H; discriminate|].
    apply bind_err in H. destruct H as [H|[nn [_ H]]]; [|discriminate].
    exact (note_of_string_err _ _ _ Hp H T k).
  - assert (Hp : note_piece v n) by (apply split_head; eauto).
    apply split_two in Es. destruct Es as [Hv [H1 H2]].
    apply bind_err in H. destruct H as [H|[o [_ H]]].
    + apply (bk_offset T k v n os Hv H1 H2). unfold offset_of_string in H. destruct (atoi os) as [z|]; [|left; reflexivity].
      destruct (in_range 0 15 z) eqn:Er; [discriminate|]. apply in_range_false in Er. right. eauto.
    + apply bind_err in H. destruct H as [H|[nn [_ H]]]; [|discriminate].
      exact (note_of_string_err _ _ _ Hp H T k).
  - apply bk_commas. pose proof (split_length v) as L. rewrite Es in L. cbn in L. lia.
Qed.

Lemma opt_states_range hi o v b : opt_states o v b -> (Z.of_N v <= hi)%Z -> ~ opt_out_of hi o.
Proof.
  intros Hs Hr [z [-> Hz]]. cbn in Hs. destruct Hs as [<- _]. unfold out_of in Hz. lia.
Qed.

Lemma bad_axis_entry_refused T k x : bad_axis_entry T k x -> forall r, conv_axis_entry all_fixed T k x <> Ok r.
Proof.
  intros Hbad [code a] H. apply conv_axis_entry_ok in H. destruct H as [Hc [Hs Hw]].
  destruct Hs as [Hty [_ [_ Hs]]].
  destruct Hw as [_ [W1 [W2 [W3 [W4 [W5 [W6 _]]]]]]].
  destruct Hbad as [Hn|Ht|Ht Hx|Ht Hx|Ht Hx|Ht Hx|Ht Hx|Ht Hx|Ht Hx|Ht Hx|Ht Hx|Ht Hx|Ht Hx|Ht Hx|Ht Hx|Ht Hx];
    try congruence; rewrite Ht in Hty; injection Hty as Hty; rewrite <- Hty in Hs; unfold out_of in *.
  - destruct Hs as [Hs _]. rewrite Hx in Hs. cbn in Hs. destruct Hs. discriminate.
  - destruct Hs as [Hs _]. revert Hx. eapply opt_states_range; [exact Hs|lia].
  - destruct Hs as [_ [Hs _]]. revert Hx. eapply opt_states_range; [exact Hs|lia].
  - lia.
  - lia.
  - lia.
  - destruct Hs as [Hs _]. rewrite Hx in Hs. cbn in Hs. destruct Hs. discriminate.
  - destruct Hs as [Hs _]. destruct Hx as [s [Hx Hn]]. rewrite Hx in Hs. unfold action_states in Hs. destruct Hs. congruence.
  - destruct Hs as [_ [Hs _]]. destruct Hx as [s [Hx Hn]]. rewrite Hx in Hs. unfold action_states in Hs. destruct Hs. congruence.
  - destruct Hs as [Hs _]. rewrite Hx in Hs. cbn in Hs. destruct Hs. discriminate.
  - destruct Hs as [Hs _]. revert Hx. eapply opt_states_range; [exact Hs|lia].
  - destruct Hs as [_ [Hs _]]. revert Hx. eapply opt_states_range; [exact Hs|lia].
  - lia.
  - lia.
Qed.

Lemma opt_ranged_err hi e e' o : opt_ranged hi e o = Err e' -> opt_out_of hi o.
Proof.
  unfold opt_ranged. destruct o as [z|]; [|discriminate]. destruct (in_range 0 hi z) eqn:Er; [discriminate|].
  apply in_range_false in Er. intros _. exists z. auto.
Qed.

Lemma axis_offset_err z e : axis_offset all_fixed z = Err e -> out_of 0 15 z.
Proof.
  unfold axis_offset. cbn [fx_axis all_fixed]. destruct (in_range 0 15 z) eqn:Er; [discriminate|].
  intros _. apply in_range_false. exact Er.
Qed.

Lemma axis_entry_err_bad T k x e : conv_axis_entry all_fixed T k x = Err e -> bad_axis_entry T k x.
Proof.
  unfold conv_axis_entry. destruct (toml_key_to_evcode _ k) as [code|] eqn:Ec; [|intros _; apply ba_name; exact Ec].
  intro H. apply bind_err in H. destruct H as [H|[a [_ H]]]; [|discriminate].
  unfold conv_axis in H. destruct (type_of_string (x_type x)) as [[| | | |]|] eqn:Ety.
  - destruct (x_cc x) as [cc|] eqn:Ecc; [|apply ba_cc_absent; assumption].
    destruct (in_range 0 119 cc) eqn:Er; [|apply ba_cc_range; [assumption|]; apply in_range_false in Er; exists cc; auto].
    apply bind_err in H. destruct H as [H|[n [_ H]]]; [apply ba_ccneg_range; [assumption|]; eapply opt_ranged_err; exact H|].
    apply bind_err in H. destruct H as [H|[o [_ H]]]; [apply ba_cc_off; [assumption|]; eapply axis_offset_err; exact H|].
    apply bind_err in H. destruct H as [H|[on [_ H]]]; [apply ba_cc_offneg; [assumption|]; eapply axis_offset_err; exact H|].
    discriminate.
  - apply bind_err in H. destruct H as [H|[o [_ H]]]; [apply ba_pb_off; [assumption|]; eapply axis_offset_err; exact H|].
    discriminate.
  - destruct (x_note x) as [nt|] eqn:Ent; [|apply ba_note_absent; assumption].
    destruct (in_range 0 127 nt) eqn:Er; [|apply ba_note_range; [assumption|]; apply in_range_false in Er; exists nt; auto].
    apply bind_err in H. destruct H as [H|[n [_ H]]]; [apply ba_noteneg_range; [assumption|]; eapply opt_ranged_err; exact H|].
    apply bind_err in H. destruct H as [H|[o [_ H]]]; [apply ba_key_off; [assumption|]; eapply axis_offset_err; exact H|].
    apply bind_err in H. destruct H as [H|[on [_ H]]]; [apply ba_key_offneg; [assumption|]; eapply axis_offset_err; exact H|].
    discriminate.
  - destruct (x_act x) as [s|] eqn:Ea; [|apply ba_act_absent; assumption].
    destruct (action_of_string s) as [act|] eqn:Eas; [|apply ba_act; [assumption|]; exists s; auto].
    cbn [fx_actneg all_fixed] in H. destruct (x_actneg x) as [sn|] eqn:Ean; [|discriminate].
    destruct (action_of_string sn) eqn:Eans; [discriminate|]. apply ba_actneg; [assumption|]. exists sn. auto.
  - exfalso. unfold type_of_string in Ety. apply (get_some_in str_eqb str_eqb_spec) in Ety. unfold type_table in Ety.
    cbn [In] in Ety. repeat (destruct Ety as [Ety|Ety]; [discriminate|]). destruct Ety.
  - apply ba_type. exact Ety.
Qed.

(* ------------------------------------------------------------------ C10: acceptance = every entry is acceptable *)
Definition entries_ok (T : tables) (t : toml_cfg) : Prop :=
  (forall m ks k v, In m (t_mappings t) -> In ks (tm_keys m) -> In (k, v) (ks_map ks) ->
     exists r, conv_key_entry T k v = Ok r) /\
  (forall m a k x, In m (t_mappings t) -> In a (tm_analog m) -> In (k, x) (as_map a) ->
     exists r, conv_axis_entry all_fixed T k x = Ok r) /\
  (forall m a k b, In m (t_mappings t) -> In a (tm_analog m) -> In (k, b) (as_dz a) ->
     toml_key_to_evcode (tab_abs T) k <> None) /\
  (forall k v, In (k, v) (t_actions t) -> toml_key_to_evcode (tab_keys T) k <> None /\ action_of_string v <> None) /\
  cmode_of_string (t_cmode t) <> None /\
  In (t_defmap t) (map tm_name (t_mappings t)) /\
  (forall k, In k (t_exit t) -> toml_key_to_evcode (tab_keys T) k <> None) /\
  (0 <= t_velocity t <= 127)%Z /\ (1 <= t_channel t <= 16)%Z.

Lemma conv_mapping_name fx T m pm : conv_mapping fx T m = Ok pm -> pm_name pm = tm_name m.
Proof.
  unfold conv_mapping. intro H. apply bind_ok in H. destruct H as [ks [_ H]]. apply bind_ok in H.
  destruct H as [an [_ H]]. injection H as <-. reflexivity.
Qed.

Lemma convert_ok_entries T t c : convert T t = Ok c -> entries_ok T t.
Proof.
  unfold convert, convert_gen. intro H.
  apply bind_ok in H. destruct H as [ms [Hms H]]. apply bind_ok in H. destruct H as [acts [Hacts H]].
  destruct (cmode_of_string (t_cmode t)) as [cm|] eqn:Ecm; [|discriminate].
  destruct (find_last_from (t_defmap t) (map pm_name ms) 0 None) as [idx|] eqn:Eidx; [|discriminate].
  apply bind_ok in H. destruct H as [ex [Hex H]].
  destruct (in_range 0 127 (t_velocity t)) eqn:Evel; [|discriminate]. apply in_range_spec in Evel.
  cbn [fx_channel all_fixed andb] in H.
  destruct (in_range 1 16 (t_channel t)) eqn:Ech; cbn [negb] in H; [|discriminate]. apply in_range_spec in Ech.
  clear H. apply mapM_ok in Hms, Hex.
  assert (Hnames : map pm_name ms = map tm_name (t_mappings t)).
  { apply Forall2_map_eq. eapply Forall2_imp; [|exact Hms]. cbn. intros a b E. exact (conv_mapping_name _ _ _ _ E). }
  unfold entries_ok. repeat split; try lia.
  - intros m ks k v Hm Hks Hkv. destruct (Forall2_in_l _ _ _ _ Hms Hm) as [pm [_ Hpm]].
    unfold conv_mapping in Hpm. apply bind_ok in Hpm. destruct Hpm as [kss [Hkss _]]. apply mapM_ok in Hkss.
    destruct (Forall2_in_l _ _ _ _ Hkss Hks) as [p [_ Hp]]. unfold conv_keysub in Hp. apply bind_ok in Hp.
    destruct Hp as [mm [Hmm _]]. destruct (map_fold_all_ok _ _ _ k v Hmm Hkv) as [code [x [E _]]]. eauto.
  - intros m a k x Hm Ha Hkx. destruct (Forall2_in_l _ _ _ _ Hms Hm) as [pm [_ Hpm]].
    unfold conv_mapping in Hpm. apply bind_ok in Hpm. destruct Hpm as [kss [_ Hpm]]. apply bind_ok in Hpm.
    destruct Hpm as [an [Han _]]. apply mapM_ok in Han.
    destruct (Forall2_in_l _ _ _ _ Han Ha) as [p [_ Hp]]. unfold conv_analogsub in Hp. apply bind_ok in Hp.
    destruct Hp as [mm [Hmm _]]. destruct (map_fold_all_ok _ _ _ k x Hmm Hkx) as [code [y [E _]]]. eauto.
  - intros m a k b Hm Ha Hkb. destruct (Forall2_in_l _ _ _ _ Hms Hm) as [pm [_ Hpm]].
    unfold conv_mapping in Hpm. apply bind_ok in Hpm. destruct Hpm as [kss [_ Hpm]]. apply bind_ok in Hpm.
    destruct Hpm as [an [Han _]]. apply mapM_ok in Han.
    destruct (Forall2_in_l _ _ _ _ Han Ha) as [p [_ Hp]]. unfold conv_analogsub in Hp. apply bind_ok in Hp.
    destruct Hp as [mm [_ Hp]]. apply bind_ok in Hp. destruct Hp as [dd [Hdd _]].
    destruct (map_fold_all_ok _ _ _ k b Hdd Hkb) as [code [y [E _]]]. apply conv_dz_entry_ok in E. destruct E as [E _].
    congruence.
  - destruct (map_fold_all_ok _ _ _ k v Hacts H) as [code [y [E _]]]. apply conv_action_entry_ok in E. destruct E. congruence.
  - destruct (map_fold_all_ok _ _ _ k v Hacts H) as [code [y [E _]]]. apply conv_action_entry_ok in E. destruct E. congruence.
  - rewrite Ecm. discriminate.
  - rewrite <- Hnames. destruct (in_dec (list_eq_dec N.eq_dec) (t_defmap t) (map pm_name ms)) as [Hin|Hnin]; [exact Hin|].
    exfalso. assert (E : find_last_from (t_defmap t) (map pm_name ms) 0 None = None) by (apply find_last_from_none; auto).
    congruence.
  - intros k Hk. destruct (Forall2_in_l _ _ _ _ Hex Hk) as [code [_ E]]. cbn in E.
    destruct (toml_key_to_evcode _ k); [discriminate|discriminate].
Qed.

Lemma entries_ok_convert T t : entries_ok T t -> exists c, convert T t = Ok c.
Proof.
  intros [Hk [Ha [Hd [Hact [Hcm [Hdef [Hex [Hvel Hch]]]]]]]].
  unfold convert, convert_gen.
  assert (Hms : exists ms, mapM (conv_mapping all_fixed T) (t_mappings t) = Ok ms).
  { apply mapM_total. intros m Hm. unfold conv_mapping.
    destruct (mapM_total (conv_keysub T) (tm_keys m)) as [kss Hkss].
    { intros ks Hks. unfold conv_keysub. destruct (map_fold_total (conv_key_entry T) (ks_map ks) []) as [mm Hmm].
      - intros k v Hkv. exact (Hk m ks k v Hm Hks Hkv).
      - rewrite Hmm. cbn. eauto. }
    rewrite Hkss. cbn [bind].
    destruct (mapM_total (conv_analogsub all_fixed T) (tm_analog m)) as [an Han].
    { intros a Ha'. unfold conv_analogsub.
      destruct (map_fold_total (conv_axis_entry all_fixed T) (as_map a) []) as [mm Hmm].
      - intros k x Hkx. exact (Ha m a k x Hm Ha' Hkx).
      - rewrite Hmm. cbn [bind]. destruct (map_fold_total (conv_dz_entry T) (as_dz a) []) as [dd Hdd].
        + intros k b Hkb. unfold conv_dz_entry. specialize (Hd m a k b Hm Ha' Hkb).
          destruct (toml_key_to_evcode _ k); [eauto|congruence].
        + rewrite Hdd. cbn. eauto. }
    rewrite Han. cbn. eauto. }
  destruct Hms as [ms Hms]. rewrite Hms. cbn [bind].
  destruct (map_fold_total (conv_action_entry T) (t_actions t) []) as [acts Hacts].
  { intros k v Hkv. unfold conv_action_entry. destruct (Hact k v Hkv) as [H1 H2].
    destruct (toml_key_to_evcode _ k); [|congruence]. destruct (action_of_string v); [eauto|congruence]. }
  rewrite Hacts. cbn [bind].
  destruct (cmode_of_string (t_cmode t)) as [cm|]; [|congruence].
  assert (Hnames : map pm_name ms = map tm_name (t_mappings t)).
  { apply mapM_ok in Hms. apply Forall2_map_eq. eapply Forall2_imp; [|exact Hms]. cbn. intros a b E.
    exact (conv_mapping_name _ _ _ _ E). }
  destruct (find_last_from (t_defmap t) (map pm_name ms) 0 None) as [idx|] eqn:Eidx.
  2:{ apply find_last_from_none in Eidx. rewrite Hnames in Eidx. tauto. }
  destruct (mapM_total (fun k => match toml_key_to_evcode (tab_keys T) k with Some c => Ok c | None => Err EExitName end)
                       (t_exit t)) as [ex Hex'].
  { intros k Hk'. specialize (Hex k Hk'). destruct (toml_key_to_evcode _ k); [eauto|congruence]. }
  rewrite Hex'. cbn [bind].
  rewrite (proj2 (in_range_spec 0 127 _) Hvel). cbn [fx_channel all_fixed andb].
  rewrite (proj2 (in_range_spec 1 16 _) Hch). cbn [negb]. eauto.
Qed.

Lemma convert_rejects T t : invalid T t -> exists e, convert T t = Err e.
Proof.
  intro Hinv. destruct (convert T t) as [c|e|] eqn:E; [exfalso|eauto|exfalso; exact (convert_total T t E)].
  apply convert_ok_entries in E. destruct E as [Hk [Ha [Hd [Hact [Hcm [Hdef [Hex [Hvel Hch]]]]]]]].
  destruct Hinv as [m ks k v Hm Hks Hkv Hb|m a k x Hm Ha' Hkx Hb|m a k b Hm Ha' Hkb Hn|k v Hkv Hn|k v Hkv Hn|Hn|Hn|k Hk' Hn|Hv|Hc].
  - destruct (Hk m ks k v Hm Hks Hkv) as [r Hr]. exact (bad_key_entry_refused T k v Hb r Hr).
  - destruct (Ha m a k x Hm Ha' Hkx) as [r Hr]. exact (bad_axis_entry_refused T k x Hb r Hr).
  - exact (Hd m a k b Hm Ha' Hkb Hn).
  - exact (proj1 (Hact k v Hkv) Hn).
  - exact (proj2 (Hact k v Hkv) Hn).
  - exact (Hcm Hn).
  - exact (Hn Hdef).
  - exact (Hex k Hk' Hn).
  - unfold out_of in Hv. lia.
  - unfold out_of in Hc. lia.
Qed.

Lemma convert_complete T t : ~ invalid T t -> exists c, convert T t = Ok c.
Proof.
  intro Hn. apply entries_ok_convert. unfold entries_ok. repeat split.
  - intros m ks k v Hm Hks Hkv. destruct (conv_key_entry T k v) as [r|e|] eqn:E; [eauto| |].
    + exfalso. apply Hn. exact (inv_key T t m ks k v Hm Hks Hkv (key_entry_err_bad T k v e E)).
    + exfalso. exact (conv_key_entry_nc T k v E).
  - intros m a k x Hm Ha Hkx. destruct (conv_axis_entry all_fixed T k x) as [r|e|] eqn:E; [eauto| |].
    + exfalso. apply Hn. exact (inv_axis T t m a k x Hm Ha Hkx (axis_entry_err_bad T k x e E)).
    + exfalso. exact (conv_axis_entry_nc T k x E).
  - intros m a k b Hm Ha Hkb E. apply Hn. exact (inv_deadzone T t m a k b Hm Ha Hkb E).
  - intro E. apply Hn. exact (inv_action_key T t k v H E).
  - intro E. apply Hn. exact (inv_action T t k v H E).
  - intro E. apply Hn. exact (inv_cmode T t E).
  - destruct (in_dec (list_eq_dec N.eq_dec) (t_defmap t) (map tm_name (t_mappings t))) as [Hin|Hnin]; [exact Hin|].
    exfalso. apply Hn. exact (inv_default_mapping T t Hnin).
  - intros k Hk E. apply Hn. exact (inv_exit T t k Hk E).
  - destruct (Z_lt_le_dec (t_velocity t) 0) as [H|H]; [|exact H]. exfalso. apply Hn. apply inv_velocity. left. exact H.
  - destruct (Z_lt_le_dec 127 (t_velocity t)) as [H|H]; [|exact H]. exfalso. apply Hn. apply inv_velocity. right. exact H.
  - destruct (Z_lt_le_dec (t_channel t) 1) as [H|H]; [|exact H]. exfalso. apply Hn. apply inv_channel. left. exact H.
  - destruct (Z_lt_le_dec 16 (t_channel t)) as [H|H]; [|exact H]. exfalso. apply Hn. apply inv_channel. right. exact H.
Qed.

(* ------------------------------------------------------------------ the boolean monitors decide the relations *)
Lemma nodup_b_spec {K} (eqb : K -> K -> bool) (eqb_spec : forall a b, eqb a b = true <-> a = b) :
  forall l, nodup_b eqb l = true <-> NoDup l.
Proof.
  induction l as [|x r IH]; cbn; [split; [constructor|reflexivity]|].
  rewrite andb_true_iff, negb_true_iff, IH, (mem_false eqb eqb_spec). split.
  - intros [H1 H2]. constructor; assumption.
  - intro H. inversion H; subst. auto.
Qed.

Lemma forall2b_spec {A B} (f : A -> B -> bool) (R : A -> B -> Prop) :
  (forall a b, f a b = true <-> R a b) -> forall l m, forall2b f l m = true <-> Forall2 R l m.
Proof.
  intro Hf. induction l as [|a l IH]; destruct m as [|b m]; cbn; split; intro H; try discriminate; try constructor;
    try solve [inversion H].
  - apply andb_true_iff in H. apply Hf. tauto.
  - apply andb_true_iff in H. apply IH. tauto.
  - inversion H; subst. apply andb_true_iff. split; [apply Hf; assumption|apply IH; assumption].
Qed.

Lemma note_states_b_spec s n : note_states_b s n = true <-> note_states s n.
Proof.
  unfold note_states_b, note_states. destruct (atoi s) as [z|].
  - rewrite andb_true_iff, Z.eqb_eq, N.leb_le. split.
    + intros [-> H]. left. auto.
    + intros [[H1 H2]|[H1 _]]; [injection H1 as ->; auto|discriminate].
  - destruct (string_to_note s) as [m|].
    + rewrite N.eqb_eq. split; [intros ->; right; auto|intros [[H _]|[_ H]]; [discriminate|injection H as ->; reflexivity]].
    + split; [discriminate|intros [[H _]|[_ H]]; discriminate].
Qed.

Lemma offset_states_b_spec s o : offset_states_b s o = true <-> offset_states s o.
Proof.
  unfold offset_states_b, offset_states. destruct (atoi s) as [z|].
  - rewrite andb_true_iff, Z.eqb_eq, N.leb_le. split; [intros [-> H]; auto|intros [H1 H2]; injection H1 as ->; auto].
  - split; [discriminate|intros [H _]; discriminate].
Qed.

Lemma key_states_b_spec v k : key_states_b v k = true <-> key_states v k.
Proof.
  unfold key_states_b, key_states. split.
  - destruct (split_comma v) as [|ns [|os [|? ?]]] eqn:Es; try discriminate.
    + apply split_one in Es. destruct Es as [-> Hnc]. rewrite andb_true_iff, note_states_b_spec, N.eqb_eq. intros [H1 H2]. left. auto.
    + apply split_two in Es. destruct Es as [-> [H1 H2]]. rewrite andb_true_iff, note_states_b_spec, offset_states_b_spec.
      intros [H3 H4]. right. exists ns, os. auto.
  - intros [[H1 [H2 H3]]|[ns [os [-> [H1 [H2 [H3 H4]]]]]]].
    + rewrite (proj2 (split_one v v)) by auto. rewrite andb_true_iff, note_states_b_spec, N.eqb_eq. auto.
    + rewrite (proj2 (split_two (ns ++ ch_comma :: os) ns os)) by auto.
      rewrite andb_true_iff, note_states_b_spec, offset_states_b_spec. auto.
Qed.

Lemma opt_states_b_spec o v b : opt_states_b o v b = true <-> opt_states o v b.
Proof.
  unfold opt_states_b, opt_states. destruct o as [z|]; rewrite andb_true_iff.
  - rewrite Z.eqb_eq. tauto.
  - rewrite N.eqb_eq, negb_true_iff. tauto.
Qed.

Lemma opt_action_eqb_spec a b : opt_action_eqb a b = true <-> a = b.
Proof.
  destruct a as [x|], b as [y|]; cbn; try (split; [discriminate|discriminate]); try tauto.
  rewrite action_eqb_eq. split; [intros ->; reflexivity|intro H; injection H as ->; reflexivity].
Qed.

Lemma action_states_b_spec o a b : action_states_b o a b = true <-> action_states o a b.
Proof.
  unfold action_states_b, action_states. destruct o as [s|]; rewrite andb_true_iff.
  - rewrite opt_action_eqb_spec. tauto.
  - rewrite action_eqb_eq, negb_true_iff. tauto.
Qed.

Lemma opt_type_spec o ty : match o with Some t => atype_eqb t ty | None => false end = true <-> o = Some ty.
Proof.
  destruct o as [t|]; [rewrite atype_eqb_eq; split; [intros ->; reflexivity|intro H; injection H as ->; reflexivity]|].
  split; discriminate.
Qed.

Lemma axis_states_b_spec x a : axis_states_b x a = true <-> axis_states x a.
Proof.
  unfold axis_states_b, axis_states.
  rewrite !andb_true_iff, opt_type_spec, !Bool.eqb_true_iff.
  destruct (a_type a);
    rewrite ?andb_true_iff, ?opt_states_b_spec, ?action_states_b_spec, ?Z.eqb_eq, ?N.eqb_eq, ?action_eqb_eq, ?negb_true_iff;
    try tauto.
  split; [intros [_ H]; discriminate|tauto].
Qed.

Lemma map_reflects_b_spec {V R} tab (states_b : V -> R -> bool) (states : V -> R -> Prop) :
  (forall v r, states_b v r = true <-> states v r) ->
  forall fm rm, map_reflects_b tab states_b fm rm = true <-> map_reflects tab states fm rm.
Proof.
  intros Hs fm rm. unfold map_reflects_b, map_reflects.
  rewrite !andb_true_iff, (nodup_b_spec N.eqb neqb_spec), !forallb_forall.
  split; [intros [[H1 H2] H3]; (split; [exact H1|split])|intros [H1 [H2 H3]]; (split; [split; [exact H1|]|])].
  - intros k v Hin. specialize (H2 (k, v) Hin). cbn in H2. destruct (toml_key_to_evcode tab k) as [code|]; [|discriminate].
    exists code. split; [reflexivity|]. apply (mem_in N.eqb neqb_spec). exact H2.
  - intros code r Hin. specialize (H3 (code, r) Hin). apply existsb_exists in H3. destruct H3 as [[k v] [Hkv H3]]. cbn in H3.
    destruct (toml_key_to_evcode tab k) as [code'|] eqn:E; [|discriminate]. apply andb_true_iff in H3.
    destruct H3 as [H3 H4]. apply N.eqb_eq in H3. subst code'. exists k, v. split; [exact Hkv|]. split; [exact E|apply Hs; exact H4].
  - intros [k v] Hin. cbn. destruct (H2 k v Hin) as [code [E Hc]]. rewrite E. apply (mem_in N.eqb neqb_spec). exact Hc.
  - intros [code r] Hin. destruct (H3 code r Hin) as [k [v [Hkv [E Hst]]]]. apply existsb_exists. exists (k, v).
    split; [exact Hkv|]. cbn. rewrite E, N.eqb_refl. cbn. apply Hs. exact Hst.
Qed.

Lemma subs_reflect_b_spec {A R} (sub_of : A -> str) (keep : A -> bool) (rel_b : A -> R -> bool) (rel : A -> R -> Prop) :
  (forall a r, rel_b a r = true <-> rel a r) ->
  forall fl rm, subs_reflect_b sub_of keep rel_b fl rm = true <-> subs_reflect sub_of keep rel fl rm.
Proof.
  intros Hr fl rm. unfold subs_reflect_b, subs_reflect.
  rewrite andb_true_iff, (nodup_b_spec str_eqb str_eqb_spec), forallb_forall.
  split; intros [H1 H2]; (split; [exact H1|]).
  - intro s.
    assert (Hs : In s (keys rm ++ map sub_of fl) \/ (get str_eqb s rm = None /\ last_sub sub_of keep fl s = None)).
    { destruct (get str_eqb s rm) as [r|] eqn:Eg.
      - left. apply in_or_app. left. apply (get_some_in str_eqb str_eqb_spec) in Eg.
        unfold keys. apply in_map_iff. exists (s, r). auto.
      - destruct (last_sub sub_of keep fl s) as [a|] eqn:El; [|right; auto].
        left. apply in_or_app. right. unfold last_sub in El. apply find_some in El. destruct El as [Hin Hb].
        apply andb_true_iff in Hb. destruct Hb as [Hb _]. apply str_eqb_spec in Hb. subst s.
        apply in_map. apply in_rev. exact Hin. }
    destruct Hs as [Hs|[Hg Hl]].
    + specialize (H2 s Hs). destruct (get str_eqb s rm), (last_sub sub_of keep fl s); try discriminate; try exact I.
      apply Hr. exact H2.
    + rewrite Hg, Hl. exact I.
  - intros s _. specialize (H2 s). destruct (get str_eqb s rm), (last_sub sub_of keep fl s); try contradiction; try reflexivity.
    apply Hr. exact H2.
Qed.

Lemma mapping_reflects_b_spec T m pm : mapping_reflects_b T m pm = true <-> mapping_reflects T m pm.
Proof.
  unfold mapping_reflects_b, mapping_reflects. rewrite !andb_true_iff, str_eqb_spec.
  rewrite (subs_reflect_b_spec ks_sub _ _ (fun ks r => map_reflects (tab_keys T) key_states (ks_map ks) r))
    by (intros; apply map_reflects_b_spec; apply key_states_b_spec).
  rewrite (subs_reflect_b_spec as_sub _ _ (fun a r => map_reflects (tab_abs T) axis_states (as_map a) r))
    by (intros; apply map_reflects_b_spec; apply axis_states_b_spec).
  rewrite (subs_reflect_b_spec as_sub _ _ (fun a r => map_reflects (tab_abs T) (fun bits r => r = bits) (as_dz a) r))
    by (intros; apply map_reflects_b_spec; intros; apply N.eqb_eq).
  rewrite (subs_reflect_b_spec as_sub _ _ (fun a r => r = as_defdz a)) by (intros; apply N.eqb_eq).
  tauto.
Qed.

Lemma color_states_b_spec v c : color_states_b v c = true <-> color_states v c.
Proof. destruct c as [[r g] b]. cbn. rewrite !andb_true_iff, !Z.eqb_eq. tauto. Qed.

Lemma reflects_b_spec T t c : reflects_b T t c = true <-> reflects T t c.
Proof.
  unfold reflects_b, reflects.
  rewrite !andb_true_iff, !N.eqb_eq, !Z.eqb_eq, str_eqb_spec.
  rewrite (forall2b_spec _ _ (mapping_reflects_b_spec T)).
  rewrite (map_reflects_b_spec (tab_keys T) _ (fun s a => action_of_string s = Some a))
    by (intros; apply opt_action_eqb_spec).
  rewrite (forall2b_spec _ (fun k code => toml_key_to_evcode (tab_keys T) k = Some code)).
  2:{ intros k code. destruct (toml_key_to_evcode (tab_keys T) k) as [c'|].
      - rewrite N.eqb_eq. split; [intros ->; reflexivity|intro H; injection H as ->; reflexivity].
      - split; discriminate. }
  rewrite (forall2b_spec _ _ color_states_b_spec).
  assert (Hcm : opt_cmode_eqb (cmode_of_string (t_cmode t)) (p_cmode c) = true <->
                cmode_of_string (t_cmode t) = Some (p_cmode c)).
  { unfold opt_cmode_eqb. destruct (cmode_of_string (t_cmode t)) as [x|]; [|split; discriminate].
    rewrite cmode_eqb_eq. split; [intros ->; reflexivity|intro H; injection H as ->; reflexivity]. }
  rewrite Hcm.
  assert (Hv : (if (t_velocity t =? 0)%Z then (p_velocity c =? 64)%Z else (p_velocity c =? t_velocity t)%Z) = true <->
               (t_velocity t = 0%Z -> p_velocity c = 64%Z) /\ (t_velocity t <> 0%Z -> p_velocity c = t_velocity t)).
  { destruct (t_velocity t =? 0)%Z eqn:E; rewrite Z.eqb_eq.
    - apply Z.eqb_eq in E. split; [intro H; split; [auto|intro; contradiction]|intros [H _]; auto].
    - apply Z.eqb_neq in E. split; [intro H; split; [intro; contradiction|auto]|intros [_ H]; auto]. }
  rewrite Hv.
  assert (Hd : match nth_error (t_mappings t) (p_mapping c) with
               | Some m => str_eqb (tm_name m) (t_defmap t) | None => false end = true <->
               exists m, nth_error (t_mappings t) (p_mapping c) = Some m /\ tm_name m = t_defmap t).
  { destruct (nth_error (t_mappings t) (p_mapping c)) as [m|].
    - rewrite str_eqb_spec. split; [intro H; exists m; auto|intros [m' [H1 H2]]; injection H1 as ->; exact H2].
    - split; [discriminate|intros [m' [H1 _]]; discriminate]. }
  rewrite Hd. tauto.
Qed.

Lemma reflects_monitor T t c : convert T t = Ok c -> reflects_b T t c = true.
Proof. intro H. apply reflects_b_spec. apply convert_sound. exact H. Qed.

Lemma wf_key_b_spec k : wf_key_b k = true <-> wf_key k.
Proof. unfold wf_key_b, wf_key. rewrite andb_true_iff, !N.leb_le. tauto. Qed.

Lemma wf_analog_b_spec a : wf_analog_b a = true <-> wf_analog a.
Proof.
  unfold wf_analog_b, wf_analog. rewrite !andb_true_iff, !N.leb_le, negb_true_iff.
  assert (H0 : atype_eqb (a_type a) AUnknown = false <-> a_type a <> AUnknown).
  { destruct (atype_eqb (a_type a) AUnknown) eqn:E; [apply atype_eqb_eq in E; split; [discriminate|congruence]|].
    split; [intros _ H; apply atype_eqb_eq in H; congruence|reflexivity]. }
  rewrite H0.
  assert (H1 : (if atype_eqb (a_type a) AActionSim
                then negb (action_eqb (a_act a) ANone) && (if a_bidi a then negb (action_eqb (a_actneg a) ANone) else true)
                else true) = true <->
               (a_type a = AActionSim -> a_act a <> ANone /\ (a_bidi a = true -> a_actneg a <> ANone))).
  { destruct (atype_eqb (a_type a) AActionSim) eqn:E.
    - apply atype_eqb_eq in E. rewrite andb_true_iff, negb_true_iff.
      assert (Ha : forall x, action_eqb x ANone = false <-> x <> ANone).
      { intro x. destruct (action_eqb x ANone) eqn:Ex; [apply action_eqb_eq in Ex; split; [discriminate|congruence]|].
        split; [intros _ H; apply action_eqb_eq in H; congruence|reflexivity]. }
      rewrite Ha. destruct (a_bidi a); [rewrite negb_true_iff, Ha|]; split.
      + intros [H2 H3] _. auto.
      + intro H. destruct (H E) as [H2 H3]. auto.
      + intros [H2 _] _. split; [exact H2|discriminate].
      + intro H. destruct (H E) as [H2 _]. auto.
    - split; [intros _ H; apply atype_eqb_eq in H; congruence|reflexivity]. }
  rewrite H1. tauto.
Qed.

Lemma forallb_Forall {A} (f : A -> bool) (P : A -> Prop) : (forall a, f a = true <-> P a) ->
  forall l, forallb f l = true <-> Forall P l.
Proof.
  intros H l. rewrite forallb_forall, Forall_forall. split; intros H1 x Hx; apply H; apply H1; exact Hx.
Qed.

Lemma wf_mapping_b_spec pm : wf_mapping_b pm = true <-> wf_mapping pm.
Proof.
  unfold wf_mapping_b, wf_mapping. rewrite andb_true_iff.
  rewrite (forallb_Forall _ (fun sm => Forall (fun ck => wf_key (snd ck)) (snd sm)))
    by (intro; apply forallb_Forall; intro; apply wf_key_b_spec).
  rewrite (forallb_Forall _ (fun sm => Forall (fun ca => wf_analog (snd ca)) (snd sm)))
    by (intro; apply forallb_Forall; intro; apply wf_analog_b_spec).
  tauto.
Qed.

Lemma wf_pconfig_b_spec c : wf_pconfig_b c = true <-> wf_pconfig c.
Proof.
  unfold wf_pconfig_b, wf_pconfig. rewrite !andb_true_iff, !in_range_spec, Nat.ltb_lt, negb_true_iff.
  rewrite (forallb_Forall _ _ wf_mapping_b_spec).
  rewrite (forallb_Forall _ (fun ca => snd ca <> ANone)).
  2:{ intro ca. rewrite negb_true_iff. destruct (action_eqb (snd ca) ANone) eqn:E.
      - apply action_eqb_eq in E. split; [discriminate|congruence].
      - split; [intros _ H; apply action_eqb_eq in H; congruence|reflexivity]. }
  assert (H0 : is_nil (p_mappings c) = false <-> p_mappings c <> []).
  { destruct (p_mappings c); cbn; split; try discriminate; try congruence; reflexivity. }
  rewrite H0. tauto.
Qed.

Lemma ranges_monitor T t c : convert T t = Ok c -> wf_pconfig_b c = true.
Proof. intro H. apply wf_pconfig_b_spec. exact (convert_ranges T t c H). Qed.

(* ------------------------------------------------------------------ witnesses: the original code violates the properties *)
Definition T0 : tables :=
  {| tab_keys := [([75; 69; 89; 95; 65], 30)];            (* KEY_A *)
     tab_abs := [([65; 66; 83; 95; 88], 0)] |}.            (* ABS_X *)

Definition ax0 (ty : str) : t_axis :=
  {| x_type := ty; x_cc := None; x_ccneg := None; x_note := None; x_noteneg := None; x_off := 0; x_offneg := 0;
     x_act := None; x_actneg := None; x_flip := false; x_dzc := false |}.

Definition s_cc : str := [99; 99].
Definition s_key : str := [107; 101; 121].
Definition s_action : str := [97; 99; 116; 105; 111; 110].
Definition s_octave_up : str := [111; 99; 116; 97; 118; 101; 95; 117; 112].
Definition s_bogus : str := [98; 111; 103; 117; 115].
Definition s_off : str := [111; 102; 102].
Definition s_abs_x : str := [65; 66; 83; 95; 88].
Definition s_key_a : str := [75; 69; 89; 95; 65].

(* collision_mode = "off"; [defaults] mapping = "a", channel = chan; one mapping "a" with one analog sub-handler *)
Definition cfg0 (chan : Z) (keys : list (str * str)) (axes : list (str * t_axis)) : toml_cfg :=
  {| t_cmode := s_off; t_exit := []; t_bus := 0; t_vendor := 0; t_product := 0; t_version := 0; t_uniq := [];
     t_octave := 0; t_semitone := 0; t_channel := chan; t_defmap := [97]; t_velocity := 0; t_actions := [];
     t_rgb := [0; 0; 0; 0; 0; 0; 0]%Z;
     t_mappings := [{| tm_name := [97]; tm_keys := [{| ks_sub := []; ks_map := keys |}];
                       tm_analog := [{| as_sub := []; as_defdz := 0; as_map := axes; as_dz := [] |}] |}] |}.

Definition without_f2 : fixes := {| fx_channel := false; fx_actneg := true; fx_axis := true |}.
Definition without_f3 : fixes := {| fx_channel := true; fx_actneg := false; fx_axis := true |}.
Definition without_f4 : fixes := {| fx_channel := true; fx_actneg := true; fx_axis := false |}.

(* a valid file: accepted, and what comes out is checked by the monitors *)
Definition good_cfg : toml_cfg :=
  cfg0 1 [(s_key_a, [67; 51; 44; 50])]    (* KEY_A = "C3,2" *)
       [(s_abs_x, {| x_type := s_key; x_cc := None; x_ccneg := None; x_note := Some 60%Z; x_noteneg := Some 61%Z;
                     x_off := 3; x_offneg := 4; x_act := None; x_actneg := None; x_flip := true; x_dzc := false |})].

Lemma good_cfg_accepted : exists c, convert T0 good_cfg = Ok c /\ reflects T0 good_cfg c /\ wf_pconfig c /\ ~ invalid T0 good_cfg.
Proof.
  destruct (convert T0 good_cfg) as [c| |] eqn:E; [|vm_compute in E; discriminate|vm_compute in E; discriminate].
  exists c. split; [reflexivity|]. split; [exact (convert_sound _ _ _ E)|]. split; [exact (convert_ranges _ _ _ E)|].
  intro Hinv. destruct (convert_rejects _ _ Hinv) as [e He]. congruence.
Qed.

Lemma invalid_inhabited : invalid T0 (cfg0 0 [] []) /\ invalid T0 (cfg0 1 [(s_key_a, [72; 49])] []).   (* channel 0; KEY_A = "H1" *)
Proof.
  split.
  - apply inv_channel. left. cbn. lia.
  - eapply inv_key; [left; reflexivity|left; reflexivity|left; reflexivity|].
    apply (bk_note_name T0 s_key_a [72; 49] [72; 49]); [|reflexivity|reflexivity].
    split; [|left; reflexivity]. intros [H|[H|[]]]; discriminate.
Qed.

(* F2: default channel 0 is accepted by the original code *)
Lemma default_channel_refuted :
  exists c, convert_gen without_f2 T0 (cfg0 0 [] []) = Ok c /\ p_channel c = 0%Z /\ ~ wf_pconfig c /\ invalid T0 (cfg0 0 [] []).
Proof.
  destruct (convert_gen without_f2 T0 (cfg0 0 [] [])) as [c| |] eqn:E; [|vm_compute in E; discriminate|vm_compute in E; discriminate].
  exists c. split; [reflexivity|]. vm_compute in E. injection E as <-. split; [reflexivity|]. split.
  - intro H. apply wf_pconfig_b_spec in H. vm_compute in H. discriminate.
  - exact (proj1 invalid_inhabited).
Qed.

(* F3: {type="action", action="octave_up"} without action_negative dereferences nil;
       an unsupported negative action is accepted *)
Definition action_only : toml_cfg :=
  cfg0 1 [] [(s_abs_x, {| x_type := s_action; x_cc := None; x_ccneg := None; x_note := None; x_noteneg := None; x_off := 0;
                          x_offneg := 0; x_act := Some s_octave_up; x_actneg := None; x_flip := false; x_dzc := false |})].
Definition action_bogus_negative : toml_cfg :=
  cfg0 1 [] [(s_abs_x, {| x_type := s_action; x_cc := None; x_ccneg := None; x_note := None; x_noteneg := None; x_off := 0;
                          x_offneg := 0; x_act := Some s_octave_up; x_actneg := Some s_bogus; x_flip := false; x_dzc := false |})].

Lemma action_negative_refuted :
  convert_gen without_f3 T0 action_only = Crash /\
  (exists c, convert T0 action_only = Ok c) /\
  (exists c, convert_gen without_f3 T0 action_bogus_negative = Ok c /\ ~ wf_pconfig c) /\
  invalid T0 action_bogus_negative.
Proof.
  split; [vm_compute; reflexivity|]. split; [vm_compute; eauto|]. split.
  - destruct (convert_gen without_f3 T0 action_bogus_negative) as [c| |] eqn:E; [|vm_compute in E; discriminate|vm_compute in E; discriminate].
    exists c. split; [reflexivity|]. vm_compute in E. injection E as <-.
    intro H. apply wf_pconfig_b_spec in H. vm_compute in H. discriminate.
  - eapply inv_axis; [left; reflexivity|left; reflexivity|left; reflexivity|].
    apply ba_actneg; [reflexivity|]. exists s_bogus. split; reflexivity.
Qed.

(* F4: note_negative is overwritten by note; axis channel offsets are not copied for type="key" and wrap silently for cc *)
Definition cc_offset_300 : toml_cfg :=
  cfg0 1 [] [(s_abs_x, {| x_type := s_cc; x_cc := Some 7%Z; x_ccneg := None; x_note := None; x_noteneg := None; x_off := 300;
                          x_offneg := 0; x_act := None; x_actneg := None; x_flip := false; x_dzc := false |})].

Lemma analog_fields_refuted :
  (exists c, convert_gen without_f4 T0 good_cfg = Ok c /\ ~ reflects T0 good_cfg c) /\
  (exists c, convert_gen without_f4 T0 cc_offset_300 = Ok c /\ ~ wf_pconfig c /\ ~ reflects T0 cc_offset_300 c) /\
  invalid T0 cc_offset_300.
Proof.
  split; [|split].
  - destruct (convert_gen without_f4 T0 good_cfg) as [c| |] eqn:E; [|vm_compute in E; discriminate|vm_compute in E; discriminate].
    exists c. split; [reflexivity|]. vm_compute in E. injection E as <-.
    intro H. apply reflects_b_spec in H. vm_compute in H. discriminate.
  - destruct (convert_gen without_f4 T0 cc_offset_300) as [c| |] eqn:E; [|vm_compute in E; discriminate|vm_compute in E; discriminate].
    exists c. split; [reflexivity|]. vm_compute in E. injection E as <-. split.
    + intro H. apply wf_pconfig_b_spec in H. vm_compute in H. discriminate.
    + intro H. apply reflects_b_spec in H. vm_compute in H. discriminate.
  - eapply inv_axis; [left; reflexivity|left; reflexivity|left; reflexivity|].
    apply ba_cc_off; [reflexivity|]. right. cbn. lia.
Qed.

(* what exactly the original key-axis conversion produced for note = 60, note_negative = 61, offsets 3 / 4 *)
Lemma analog_fields_original_values :
  conv_axis without_f4 (snd (hd (s_abs_x, ax0 []) (as_map (hd {| as_sub := []; as_defdz := 0; as_map := []; as_dz := [] |}
                                                     (tm_analog (hd {| tm_name := []; tm_keys := []; tm_analog := [] |}
                                                                    (t_mappings good_cfg)))))))
  = Ok (mk_analog AKeySim 0 0 60 60 0 0 ANone ANone true true false).
Proof. vm_compute. reflexivity. Qed.

(* F7: pool_rate / discovery_rate 0 (or absent) divide by zero; a negative rate gives a negative period *)
Lemma hidi_rates_refuted :
  hidi_convert_gen false {| h_pool := 0; h_disc := 1; h_stab := 500 |} = Crash /\
  hidi_convert_gen false {| h_pool := 120; h_disc := 0; h_stab := 500 |} = Crash /\
  (exists c, hidi_convert_gen false {| h_pool := -4; h_disc := 1; h_stab := 500 |} = Ok c /\ (hc_throttle c < 0)%Z) /\
  hidi_convert {| h_pool := 120; h_disc := 1; h_stab := 500 |}
    = Ok {| hc_throttle := 8333333; hc_disc := 1000000000; hc_stab := 500000000 |}.
Proof.
  split; [reflexivity|]. split; [reflexivity|]. split; [|reflexivity].
  eexists. split; [vm_compute; reflexivity|]. cbn. lia.
Qed.

(* F8: without recover a panicking decoder takes ParseData down *)
Lemma decoder_panic_refuted :
  guard_gen false (@DecPanic toml_cfg) (convert T0) = Crash /\ guard_gen false (@DecPanic hidi_raw) hidi_convert = Crash.
Proof. split; reflexivity. Qed.

(* ------------------------------------------------------------------ sanity of the library models (examples) *)
Lemma library_examples :
  toml_key_to_evcode [] [120; 49; 101] = Some 30 /\              (* "x1e" *)
  toml_key_to_evcode [] [120; 48; 48; 48; 49; 69] = Some 30 /\   (* "x0001E": leading zeros, upper case *)
  toml_key_to_evcode [] [120] = None /\                          (* "x" *)
  toml_key_to_evcode [] [120; 49; 48; 48; 48; 48] = None /\      (* "x10000": out of uint16 *)
  toml_key_to_evcode [] [120; 43; 49] = None /\                  (* "x+1" *)
  toml_key_to_evcode [] [120; 49; 95; 48] = None /\              (* "x1_0" *)
  atoi [45; 48] = Some 0%Z /\ atoi [43; 55] = Some 7%Z /\ atoi [] = None /\ atoi [45] = None /\
  atoi [49; 95; 48] = None /\ atoi [32; 49] = None /\
  atoi [57; 50; 50; 51; 51; 55; 50; 48; 51; 54; 56; 53; 52; 55; 55; 53; 56; 48; 56] = None /\        (* 2^63 *)
  atoi [45; 57; 50; 50; 51; 51; 55; 50; 48; 51; 54; 56; 53; 52; 55; 55; 53; 56; 48; 56] = Some (- two63)%Z /\
  split_comma [54; 48; 44; 51] = [[54; 48]; [51]] /\ split_comma [44] = [[]; []] /\ split_comma [] = [[]].
Proof. vm_compute. repeat split; reflexivity. Qed.
