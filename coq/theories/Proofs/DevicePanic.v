(* C13: panic. *)
From Coq Require Import List NArith ZArith Bool Lia.
From HIDI Require Import Base.AList Model.Device Proofs.DeviceBasics Proofs.Recv Proofs.DeviceInv Proofs.ExitSeq
  Proofs.DevicePlay Proofs.DeviceActions.
Import ListNotations.
Open Scope N_scope.

Lemma state_eta s :
  {| octave := octave s; semitone := semitone s; channel := channel s; velocity := velocity s; mapidx := mapidx s;
     learning := learning s; noteT := noteT s; analogT := analogT s; counter := counter s; actionT := actionT s;
     ccZ := ccZ s; keyT := keyT s |} = s.
Proof. destruct s. reflexivity. Qed.

Lemma mem_sadd_other (a b : action) l : a <> b -> mem action_eqb a (sadd action_eqb b l) = mem action_eqb a l.
Proof.
  intro H. destruct (mem action_eqb a l) eqn:E.
  - apply (mem_in action_eqb action_eqb_spec). apply (in_sadd action_eqb action_eqb_spec). right.
    apply (mem_in action_eqb action_eqb_spec). exact E.
  - apply (mem_false action_eqb action_eqb_spec). intro Hin. apply (in_sadd action_eqb action_eqb_spec) in Hin.
    destruct Hin as [Hin|Hin]; [contradiction|]. apply (mem_in action_eqb action_eqb_spec) in Hin. congruence.
Qed.

Lemma pair_complete_sadd_panic l pk : pair_complete (sadd action_eqb Panic l) pk = pair_complete l pk.
Proof. destruct pk; cbn [pair_complete]; rewrite !mem_sadd_other by discriminate; reflexivity. Qed.

(* the panic key triggers: it is mapped to panic, does not complete the exit sequence, and no up/down pair is held *)
Definition panic_triggers (c : config) (s : state) (k : N) : Prop :=
  find_action c k = Some Panic /\ exit_complete c (sadd N.eqb k (keyT s)) = false /\
  (forall pk, pair_complete (actionT s) pk = false).

Lemma panic_press c s sub k :
  panic_triggers c s k ->
  step c s (EKey sub k 1) =
  (set_actionT (sadd action_eqb Panic (actionT s)) (set_keyT (sadd N.eqb k (keyT s)) s), emit (panic_burst (channel s))).
Proof.
  intros (Ha&Hex&Hp). rewrite (action_press_single c s sub k Panic Ha Hex); [reflexivity|].
  intro pk. cbn [actionT set_actionT set_keyT]. rewrite pair_complete_sadd_panic. apply Hp.
Qed.

Lemma panic_roundtrip c s sub sub' k :
  panic_triggers c s k -> ~ In k (keyT s) -> ~ In Panic (actionT s) ->
  let s2 := fst (step c s (EKey sub k 1)) in
  step c s2 (EKey sub' k 0) = (s, silent).
Proof.
  intros Ht Hk Hp s2. subst s2. rewrite (panic_press c s sub k Ht). cbn [fst].
  destruct Ht as (Ha&_&_). cbn [step]. change (0 =? 2)%Z with false. cbv iota. unfold handle_key.
  change (0 =? 1)%Z with false. change (0 =? 0)%Z with true. cbv iota. cbn [andb]. rewrite Ha.
  cbn [invoke_release keyT actionT set_keyT set_actionT].
  assert (S1 : forall (l : list N), ~ In k l -> srem N.eqb k (sadd N.eqb k l) = l).
  { intros l Hl. unfold sadd. rewrite (srem_notin N.eqb Neqb_spec k l Hl). unfold srem. cbn [filter].
    rewrite (proj2 (Neqb_spec k k) eq_refl). cbn [negb]. apply (srem_notin N.eqb Neqb_spec k l Hl). }
  assert (S2 : forall (l : list action), ~ In Panic l -> srem action_eqb Panic (sadd action_eqb Panic l) = l).
  { intros l Hl. unfold sadd. rewrite (srem_notin action_eqb action_eqb_spec Panic l Hl). unfold srem. cbn [filter action_eqb negb].
    apply (srem_notin action_eqb action_eqb_spec Panic l Hl). }
  rewrite (S1 _ Hk), (S2 _ Hp). f_equal. destruct s. reflexivity.
Qed.

(* the burst: All Notes Off plus 128 explicit Note Offs on the current channel, and it can start nothing *)
Lemma burst_shape ch :
  panic_burst ch = cc_event ch 123 0 :: map (fun n => note_off ch (N.of_nat n)) (seq 0 128) /\
  length (panic_burst ch) = 129%nat /\ (forall R, incl (recv R (panic_burst ch)) R).
Proof.
  split; [reflexivity|]. split; [unfold panic_burst; cbn [length]; rewrite map_length, seq_length; reflexivity|].
  apply harmless_burst.
Qed.

(* transparency: a triggered press-and-release of the panic key anywhere in a history changes neither the state nor
   any later output *)
Lemma panic_transparent c h1 sub sub' k h2 :
  let s1 := fst (run c h1) in
  panic_triggers c s1 k -> ~ In k (keys_down h1) -> ~ In Panic (actionT s1) ->
  run c (h1 ++ EKey sub k 1 :: EKey sub' k 0 :: h2) =
  (fst (run c (h1 ++ h2)),
   snd (run c h1) ++ emit (panic_burst (channel s1)) :: silent :: snd (run_from c s1 h2)) /\
  run c (h1 ++ h2) = (fst (run c (h1 ++ h2)), snd (run c h1) ++ snd (run_from c s1 h2)).
Proof.
  intros s1 Ht Hk Hp. rewrite <- (run_keyT c) in Hk. fold s1 in Hk.
  pose proof (panic_press c s1 sub k Ht) as E1.
  pose proof (panic_roundtrip c s1 sub sub' k Ht Hk Hp) as E2. cbv zeta in E2.
  unfold run in *. rewrite !run_from_app. destruct (run_from c (init c) h1) as [sa oa] eqn:Er.
  cbn [fst] in s1. subst s1. cbn [run_from].
  destruct (step c sa (EKey sub k 1)) as [sb ob]. cbn [fst] in E2. injection E1 as E1a E1b. subst ob.
  rewrite E2. destruct (run_from c sa h2) as [sc oc]. cbn [fst snd]. split; reflexivity.
Qed.
