(* C06: lifting the kernel-evaluated grid to statements over every position of every grid configuration. *)
From Coq Require Import List NArith ZArith Bool Lia.
From HIDI Require Import Base.AList Model.Device Model.AnalogF Model.AnalogSpec Proofs.AnalogGrid
  Proofs.AnalogGrid1 Proofs.AnalogGrid2 Proofs.AnalogGrid3 Proofs.AnalogGrid4.
Import ListNotations.

Lemma in_zrange n : forall lo z, (lo <= z < lo + Z.of_nat n)%Z -> In z (zrange lo n).
Proof.
  induction n as [|n IH]; intros lo z H; [lia|].
  cbn [zrange]. destruct (Z.eq_dec lo z) as [->|Hne]; [left; reflexivity|right; apply IH; lia].
Qed.

Lemma in_raws g raw : (q_mn g <= raw <= q_mx g)%Z -> In raw (raws g).
Proof. intro H. unfold raws. apply in_zrange. lia. Qed.

Lemma grid_config b g : In b dz_bits -> In g (grid_for (f_of_bits b)) -> c06_config_ok g = true.
Proof.
  unfold dz_bits. rewrite !in_app_iff. intros Hb Hg.
  assert (G : forallb c06_config_ok (grid_for (f_of_bits b)) = true).
  { destruct Hb as [Hb|[Hb|[Hb|Hb]]];
      [exact (grid_part1 b Hb)|exact (grid_part2 b Hb)|exact (grid_part3 b Hb)|exact (grid_part4 b Hb)]. }
  rewrite forallb_forall in G. exact (G g Hg).
Qed.

Lemma grid_event b g raw :
  In b dz_bits -> In g (grid_for (f_of_bits b)) -> (q_mn g <= raw <= q_mx g)%Z ->
  c06_event_ok g raw (axis_msgs g raw) = true.
Proof.
  intros Hb Hg Hr. pose proof (grid_config b g Hb Hg) as H. unfold c06_config_ok in H.
  apply andb_true_iff in H. destruct H as [H _]. rewrite forallb_forall in H.
  specialize (H raw (in_raws g raw Hr)). apply andb_true_iff in H. tauto.
Qed.

Lemma grid_wf b g raw :
  In b dz_bits -> In g (grid_for (f_of_bits b)) -> (q_mn g <= raw <= q_mx g)%Z ->
  forallb wf_msgb (axis_msgs g raw) = true.
Proof.
  intros Hb Hg Hr. pose proof (grid_config b g Hb Hg) as H. unfold c06_config_ok in H.
  apply andb_true_iff in H. destruct H as [H _]. rewrite forallb_forall in H.
  specialize (H raw (in_raws g raw Hr)). apply andb_true_iff in H. tauto.
Qed.

Lemma grid_monotone b g :
  In b dz_bits -> In g (grid_for (f_of_bits b)) ->
  c06_monotone g (map (fun raw => (raw, axis_msgs g raw)) (raws g)) = true.
Proof.
  intros Hb Hg. pose proof (grid_config b g Hb Hg) as H. unfold c06_config_ok in H.
  apply andb_true_iff in H. tauto.
Qed.

(* D9: with the rounded reciprocal of the original code the end stop of an axis with deadzone 0.05 does not reach 1.0 *)
Lemma reciprocal_endstop_refuted :
  let dz := f_of_bits 4587366580439587226 in    (* 0.05 *)
  cc_byte (fst (shape_gen true 0 255 false dz 255)) = 126%N /\ cc_byte (fst (shape 0 255 false dz 255)) = 127%N.
Proof. vm_compute. split; reflexivity. Qed.
