(* C06: lifting the kernel-evaluated grid to statements over every position of every grid configuration. *)
From Coq Require Import List NArith ZArith Bool Lia.
From HIDI Require Import Base.AList Model.Device Model.AnalogF Model.AnalogSpec Proofs.AnalogGrid
  Proofs.AnalogGrid1 Proofs.AnalogGrid2 Proofs.AnalogGrid3 Proofs.AnalogGrid4.
Import ListNotations.

Lemma in_zrange n : forall lo z, (lo <= z < lo + Z.of_nat n)%Z -> In z (zrange lo n).
Proof.
  induction n as [|n IH]; intros lo z H; [lia|].
  cbn [zrange]. destruct (Z.eq_dec lo z) as [->|Hne]; [left; reflexivity|right; apply IH; lia].
Qed.

Lemma in_raws g raw : (q_mn g <= raw <= q_mx g)%Z -> In raw (raws g).
Proof. intro H. unfold raws. apply in_zrange. lia. Qed.

Lemma grid_config b g : In b dz_bits -> In g (grid_for (f_of_bits b)) -> c06_config_ok g = true.
Proof.
  unfold dz_bits. rewrite !in_app_iff. intros Hb Hg.
  assert (G : forallb c06_config_ok (grid_for (f_of_bits b)) = true).
  { destruct Hb as [Hb|[Hb|[Hb|Hb]]];
      [exact (grid_part1 b Hb)|exact (grid_part2 b Hb)|exact (grid_part3 b Hb)|exact (grid_part4 b Hb)]. }
  rewrite forallb_forall in G. exact (G g Hg).
Qed.

Lemma grid_event b g raw :
  In b dz_bits -> In g (grid_for (f_of_bits b)) -> (q_mn g <= raw <= q_mx g)%Z ->
  c06_event_ok g raw (axis_msgs g raw) = true.
Proof.
  intros Hb Hg Hr. pose proof (grid_config b g Hb Hg) as H. unfold c06_config_ok in H.
  apply andb_true_iff in H. destruct H as [H _]. rewrite forallb_forall in H.
  specialize (H raw (in_raws g raw Hr)). apply andb_true_iff in H. tauto.
Qed.

Lemma grid_wf b g raw :
  In b dz_bits -> In g (grid_for (f_of_bits b)) -> (q_mn g <= raw <= q_mx g)%Z ->
  forallb wf_msgb (axis_msgs g raw) = true.
Proof.
  intros Hb Hg Hr. pose proof (grid_config b g Hb Hg) as H. unfold c06_config_ok in H.
  apply andb_true_iff in H. destruct H as [H _]. rewrite forallb_forall in H.
  specialize (H raw (in_raws g raw Hr)). apply andb_true_iff in H. tauto.
Qed.

Lemma grid_monotone b g :
  In b dz_bits -> In g (grid_for (f_of_bits b)) ->
  c06_monotone g (map (fun raw => (raw, axis_msgs g raw)) (raws g)) = true.
Proof.
  intros Hb Hg. pose proof (grid_config b g Hb Hg) as H. unfold c06_config_ok in H.
  apply andb_true_iff in H. tauto.
Qed.

(* D9: with the rounded reciprocal of the original code the end stop of an axis with deadzone 0.05 does not reach 1.0 *)
Lemma reciprocal_endstop_refuted :
  let dz := f_of_bits 4587366580439587226 in    (* 0.05 *)
  cc_byte (fst (shape_gen true 0 255 false dz 255)) = 126%N /\ cc_byte (fst (shape 0 255 false dz 255)) = 127%N.
Proof. vm_compute. split; reflexivity. Qed.

(* ---------------------------------------------------------------------- bounds that hold for EVERY float (NaN, infinities included) *)
Lemma land127_bound (t : Z) : (Z.to_N (Z.land t 127) < 128)%N.
Proof.
  change 127%Z with (Z.ones 7). rewrite Z.land_ones by lia.
  pose proof (Z.mod_pos_bound t (2 ^ 7) ltac:(reflexivity)) as H. change (2 ^ 7)%Z with 128%Z in *.
  apply N2Z.inj_lt. rewrite Z2N.id by lia. change (Z.of_N 128) with 128%Z. lia.
Qed.

Lemma pb_bytes_bound r v : (fst (pb_bytes r v) < 128)%N /\ (snd (pb_bytes r v) < 128)%N.
Proof. unfold pb_bytes. cbn [fst snd]. split; apply land127_bound. Qed.

Lemma cc_byte_lt_256 adj : (cc_byte adj < 256)%N.
Proof.
  unfold cc_byte, byte_of_Z.
  pose proof (Z.mod_pos_bound (f2int (fmul f127 adj)) 256 ltac:(reflexivity)) as H.
  apply N2Z.inj_lt. rewrite Z2N.id by lia. change (Z.of_N 256) with 256%Z. lia.
Qed.

(* the sample handed to the state machine carries the Analog entry it was given and pitch-bend data bytes below 128 *)
Lemma make_sample_fields code a canneg v :
  sa_an (make_sample code a canneg v) = a /\ sa_code (make_sample code a canneg v) = code /\
  (sa_lsb (make_sample code a canneg v) < 128)%N /\ (sa_msb (make_sample code a canneg v) < 128)%N.
Proof.
  unfold make_sample. destruct (cc_encode canneg (a_bidi a) v) as [neg ccv].
  pose proof (pb_bytes_bound true (centred canneg v)) as [B1 B2].
  destruct (pb_bytes true (centred canneg v)) as [lsb msb]. cbn in *. auto.
Qed.
