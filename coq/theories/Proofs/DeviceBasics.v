(* Basic facts about the device model: equality tests, frame lemmas (what each operation leaves alone),
   history-defined key set, alternation. *)
From Coq Require Import List NArith ZArith Bool Lia.
From HIDI Require Import Base.AList Model.Device.
Import ListNotations.
Open Scope N_scope.

Lemma Neqb_spec : forall a b : N, (a =? b) = true <-> a = b.
Proof. intros. apply N.eqb_eq. Qed.

Lemma pair_eqb_spec : forall a b : pair, pair_eqb a b = true <-> a = b.
Proof.
  intros [a1 a2] [b1 b2]. unfold pair_eqb. cbn. rewrite andb_true_iff, !N.eqb_eq.
  split; [intros [-> ->]; reflexivity|intro H; injection H; auto].
Qed.

Lemma skey_eqb_spec : forall a b : skey, skey_eqb a b = true <-> a = b.
Proof. exact pair_eqb_spec. Qed.

Lemma aid_eqb_spec : forall a b : aid, aid_eqb a b = true <-> a = b.
Proof.
  intros [a1 a2] [b1 b2]. unfold aid_eqb. cbn. rewrite andb_true_iff, N.eqb_eq, Bool.eqb_true_iff.
  split; [intros [-> ->]; reflexivity|intro H; injection H; auto].
Qed.

Lemma action_eqb_spec : forall a b : action, action_eqb a b = true <-> a = b.
Proof. intros a b. destruct a, b; cbn; split; intro H; try reflexivity; try discriminate. Qed.

Global Hint Resolve Neqb_spec pair_eqb_spec skey_eqb_spec aid_eqb_spec action_eqb_spec : eqbs.

(* ------------------------------------------------------------------ the "playing state" that actions may change *)
Definition same_trackers (s s' : state) : Prop :=
  noteT s' = noteT s /\ analogT s' = analogT s /\ counter s' = counter s /\ ccZ s' = ccZ s.

Definition same_play (s s' : state) : Prop :=
  octave s' = octave s /\ semitone s' = semitone s /\ channel s' = channel s /\ velocity s' = velocity s /\
  mapidx s' = mapidx s /\ learning s' = learning s.

Lemma same_trackers_refl s : same_trackers s s.
Proof. repeat split. Qed.
Lemma same_trackers_trans a b c : same_trackers a b -> same_trackers b c -> same_trackers a c.
Proof. unfold same_trackers. intros (?&?&?&?) (?&?&?&?). repeat split; congruence. Qed.

(* ------------------------------------------------------------------ frame lemmas *)
Lemma invoke_press_frame c a s :
  let s' := fst (invoke_press c a s) in
  same_trackers s s' /\ keyT s' = keyT s /\ actionT s' = actionT s /\ velocity s' = velocity s.
Proof.
  destruct a; cbn; unfold same_trackers;
    repeat match goal with |- context [if ?b then _ else _] => destruct b end; cbn; repeat split.
Qed.

Lemma invoke_press_silent c a s : a <> Panic -> snd (invoke_press c a s) = [].
Proof. destruct a; cbn; intro H; try reflexivity; congruence. Qed.

Lemma invoke_release_frame a s :
  let s' := invoke_release a s in
  same_trackers s s' /\ keyT s' = keyT s /\ actionT s' = actionT s /\ velocity s' = velocity s /\
  octave s' = octave s /\ semitone s' = semitone s /\ channel s' = channel s /\ mapidx s' = mapidx s /\ True.
Proof. destruct a; cbn; unfold same_trackers; repeat split. Qed.

Lemma check_double_frame s s' :
  check_double s = Some s' ->
  same_trackers s s' /\ keyT s' = keyT s /\ actionT s' = actionT s /\ velocity s' = velocity s /\ True /\
  learning s' = learning s.
Proof.
  unfold check_double, same_trackers.
  repeat match goal with |- context [if ?b then _ else _] => destruct b end;
    intro H; try discriminate; injection H as <-; cbn; repeat split.
Qed.

Lemma note_on_key_frame c s sub code :
  let s' := fst (note_on_key c s sub code) in
  same_play s s' /\ keyT s' = keyT s /\ actionT s' = actionT s /\ analogT s' = analogT s /\ ccZ s' = ccZ s /\ True.
Proof.
  unfold note_on_key, same_play. destruct (find_key c s sub code); [|cbn; repeat split].
  destruct (in_midi_range _); cbn; repeat split.
Qed.

Lemma note_off_key_frame c s code :
  let s' := fst (note_off_key c s code) in
  same_play s s' /\ keyT s' = keyT s /\ actionT s' = actionT s /\ analogT s' = analogT s /\ ccZ s' = ccZ s /\ True.
Proof.
  unfold note_off_key, same_play. destruct (get N.eqb code (noteT s)) as [[n ch]|]; cbn; repeat split.
Qed.

Lemma analog_note_on_frame s id n off :
  let s' := fst (analog_note_on s id n off) in
  same_play s s' /\ keyT s' = keyT s /\ actionT s' = actionT s /\ noteT s' = noteT s /\ counter s' = counter s /\
  ccZ s' = ccZ s /\ True.
Proof. unfold analog_note_on, same_play. destruct (in_midi_range _); cbn; repeat split. Qed.

Lemma analog_note_off_frame s id :
  let s' := fst (analog_note_off s id) in
  same_play s s' /\ keyT s' = keyT s /\ actionT s' = actionT s /\ noteT s' = noteT s /\ counter s' = counter s /\
  ccZ s' = ccZ s /\ True.
Proof. unfold analog_note_off, same_play. destruct (get aid_eqb id (analogT s)) as [[n ch]|]; cbn; repeat split. Qed.

(* ------------------------------------------------------------------ keys down, defined from the history alone *)
Definition next_keys (kt : list N) (e : ev) : list N :=
  match e with
  | EKey _ k v => if (v =? 2)%Z then kt else if (v =? 1)%Z then sadd N.eqb k kt else srem N.eqb k kt
  | _ => kt
  end.

Definition keys_down (h : list ev) : list N := fold_left next_keys h [].

(* press and release of each key code alternate: a key is pressed only while it is up *)
Definition ok_press (kt : list N) (e : ev) : Prop :=
  match e with
  | EKey _ k v => (v = 1%Z -> ~ In k kt) /\ (v = 0 \/ v = 1 \/ v = 2)%Z
  | _ => True
  end.

Fixpoint alternating_from (kt : list N) (h : list ev) : Prop :=
  match h with
  | [] => True
  | e :: r => ok_press kt e /\ alternating_from (next_keys kt e) r
  end.

Definition alternating (h : list ev) : Prop := alternating_from [] h.

Lemma handle_sample_keyT c s sa : keyT (fst (handle_sample c s sa)) = keyT s.
Proof.
  unfold handle_sample. destruct (learning s && negb (sa_gate sa)); [reflexivity|].
  destruct (a_type (sa_an sa)); cbn [fst].
  - unfold handle_cc. destruct (a_bidi _); [|reflexivity].
    destruct (sa_neg sa).
    + destruct (cc_zeroed s (a_cc (sa_an sa))); reflexivity.
    + destruct (cc_zeroed s (a_ccneg (sa_an sa))); reflexivity.
  - reflexivity.
  - unfold handle_keysim. destruct (sa_zone sa).
    + destruct (get aid_eqb (sa_code sa, true) (analogT s)).
      * destruct (analog_note_off s (sa_code sa, false)) as [s2 m2] eqn:E2. cbn.
        pose proof (analog_note_off_frame s (sa_code sa, false)) as F. rewrite E2 in F. cbn in F. tauto.
      * destruct (a_bidi (sa_an sa)).
        -- destruct (analog_note_on s _ _ _) as [s1 m1] eqn:E1.
           destruct (analog_note_off s1 _) as [s2 m2] eqn:E2. cbn.
           pose proof (analog_note_on_frame s (sa_code sa, true) (a_noteneg (sa_an sa)) (a_offneg (sa_an sa))) as F1.
           pose proof (analog_note_off_frame s1 (sa_code sa, false)) as F2.
           rewrite E1 in F1. rewrite E2 in F2. cbn in F1, F2.
           destruct F1 as (_&F1&_). destruct F2 as (_&F2&_). congruence.
        -- destruct (analog_note_off s _) as [s2 m2] eqn:E2. cbn.
           pose proof (analog_note_off_frame s (sa_code sa, false)) as F. rewrite E2 in F. cbn in F. tauto.
    + destruct (analog_note_off s _) as [s1 m1] eqn:E1.
      destruct (analog_note_off s1 _) as [s2 m2] eqn:E2. cbn.
      pose proof (analog_note_off_frame s (sa_code sa, false)) as F1.
      pose proof (analog_note_off_frame s1 (sa_code sa, true)) as F2.
      rewrite E1 in F1. rewrite E2 in F2. cbn in F1, F2.
      destruct F1 as (_&F1&_). destruct F2 as (_&F2&_). congruence.
    + destruct (get aid_eqb (sa_code sa, false) (analogT s)).
      * destruct (analog_note_off s _) as [s2 m2] eqn:E2. cbn.
        pose proof (analog_note_off_frame s (sa_code sa, true)) as F. rewrite E2 in F. cbn in F. tauto.
      * destruct (analog_note_on s _ _ _) as [s1 m1] eqn:E1.
        destruct (analog_note_off s1 _) as [s2 m2] eqn:E2. cbn.
        pose proof (analog_note_on_frame s (sa_code sa, false) (a_note (sa_an sa)) (a_off (sa_an sa))) as F1.
        pose proof (analog_note_off_frame s1 (sa_code sa, true)) as F2.
        rewrite E1 in F1. rewrite E2 in F2. cbn in F1, F2.
        destruct F1 as (_&F1&_). destruct F2 as (_&F2&_). congruence.
    + reflexivity.
  - unfold handle_actionsim. destruct (check_double s) as [s'|] eqn:E.
    + cbn. apply check_double_frame in E. tauto.
    + destruct (sa_zone sa).
      * destruct (invoke_press c (a_actneg (sa_an sa)) s) as [s1 m] eqn:E1. cbn.
        pose proof (invoke_press_frame c (a_actneg (sa_an sa)) s) as F. rewrite E1 in F. cbn in F.
        destruct (a_act (sa_an sa)); cbn; tauto.
      * destruct (a_act (sa_an sa)), (a_actneg (sa_an sa)); reflexivity.
      * destruct (invoke_press c (a_act (sa_an sa)) s) as [s1 m] eqn:E1. cbn.
        pose proof (invoke_press_frame c (a_act (sa_an sa)) s) as F. rewrite E1 in F. cbn in F.
        destruct (a_actneg (sa_an sa)); cbn; tauto.
      * reflexivity.
  - reflexivity.
Qed.

Lemma handle_key_keyT c s sub code val :
  keyT (fst (handle_key c s sub code val)) =
  if (val =? 1)%Z then sadd N.eqb code (keyT s) else srem N.eqb code (keyT s).
Proof.
  unfold handle_key.
  set (s1 := if (val =? 1)%Z then set_keyT (sadd N.eqb code (keyT s)) s else set_keyT (srem N.eqb code (keyT s)) s).
  assert (H1 : keyT s1 = if (val =? 1)%Z then sadd N.eqb code (keyT s) else srem N.eqb code (keyT s))
    by (subst s1; destruct (val =? 1)%Z; reflexivity).
  rewrite <- H1. clearbody s1. clear H1.
  destruct ((val =? 1)%Z && exit_complete c (keyT s1)); [reflexivity|].
  destruct (find_action c code) as [a|].
  - destruct (val =? 1)%Z.
    + destruct (check_double _) as [s3|] eqn:E.
      * cbn. apply check_double_frame in E. destruct E as (_&E&_). rewrite E. reflexivity.
      * destruct (invoke_press c a _) as [s3 m] eqn:E1. cbn.
        pose proof (invoke_press_frame c a (set_actionT (sadd action_eqb a (actionT s1)) s1)) as F.
        rewrite E1 in F. cbn in F. tauto.
    + destruct (val =? 0)%Z; [|reflexivity]. cbn.
      pose proof (invoke_release_frame a s1) as F. cbn in F. tauto.
  - destruct (find_key c s sub code).
    + destruct (val =? 1)%Z.
      * destruct (note_on_key c s1 sub code) as [s2 m] eqn:E. cbn.
        pose proof (note_on_key_frame c s1 sub code) as F. rewrite E in F. cbn in F. tauto.
      * destruct (val =? 0)%Z; [|reflexivity].
        destruct (note_off_key c s1 code) as [s2 m] eqn:E. cbn.
        pose proof (note_off_key_frame c s1 code) as F. rewrite E in F. cbn in F. tauto.
    + destruct (val =? 0)%Z; [|reflexivity].
      destruct (note_off_key c s1 code) as [s2 m] eqn:E. cbn.
      pose proof (note_off_key_frame c s1 code) as F. rewrite E in F. cbn in F. tauto.
Qed.

Lemma step_keyT c s e : keyT (fst (step c s e)) = next_keys (keyT s) e.
Proof.
  destruct e as [sub code val|sa|]; cbn [step next_keys].
  - destruct (val =? 2)%Z; [reflexivity|]. apply handle_key_keyT.
  - apply handle_sample_keyT.
  - reflexivity.
Qed.

Lemma run_from_app c s h1 h2 :
  run_from c s (h1 ++ h2) =
  let '(s1, o1) := run_from c s h1 in let '(s2, o2) := run_from c s1 h2 in (s2, o1 ++ o2).
Proof.
  revert s. induction h1 as [|e r IH]; intro s; cbn.
  - destruct (run_from c s h2); reflexivity.
  - destruct (step c s e) as [s1 o]. rewrite IH.
    destruct (run_from c s1 r) as [s2 os]. destruct (run_from c s2 h2). reflexivity.
Qed.

Lemma run_from_keyT c s h : keyT (fst (run_from c s h)) = fold_left next_keys h (keyT s).
Proof.
  revert s. induction h as [|e r IH]; intro s; cbn; [reflexivity|].
  destruct (step c s e) as [s1 o] eqn:E. specialize (IH s1).
  destruct (run_from c s1 r) as [s2 os]. cbn in *. rewrite IH.
  pose proof (step_keyT c s e) as K. rewrite E in K. cbn in K. rewrite K. reflexivity.
Qed.

Lemma run_keyT c h : keyT (fst (run c h)) = keys_down h.
Proof. unfold run. rewrite run_from_keyT. reflexivity. Qed.

(* ------------------------------------------------------------------ key-side fields are untouched by analog samples *)
Definition kf (s : state) := (noteT s, counter s, keyT s).

Lemma analog_note_on_kf s id n off s1 m : analog_note_on s id n off = (s1, m) -> kf s1 = kf s.
Proof. unfold analog_note_on. destruct (in_midi_range _); intro H; injection H as <- <-; reflexivity. Qed.
Lemma analog_note_off_kf s id s1 m : analog_note_off s id = (s1, m) -> kf s1 = kf s.
Proof. unfold analog_note_off. destruct (get aid_eqb id (analogT s)) as [[n ch]|]; intro H; injection H as <- <-; reflexivity. Qed.
Lemma invoke_press_kf c a s s1 m : invoke_press c a s = (s1, m) -> kf s1 = kf s.
Proof.
  destruct a; cbn; repeat match goal with |- context [if ?b then _ else _] => destruct b end;
    intro H; injection H as <- <-; reflexivity.
Qed.
Lemma invoke_release_kf a s : kf (invoke_release a s) = kf s.
Proof. destruct a; reflexivity. Qed.
Lemma check_double_kf s s' : check_double s = Some s' -> kf s' = kf s.
Proof.
  unfold check_double. repeat match goal with |- context [if ?b then _ else _] => destruct b end;
    intro H; try discriminate; injection H as <-; reflexivity.
Qed.

Lemma handle_sample_kf c s sa : kf (fst (handle_sample c s sa)) = kf s.
Proof.
  unfold handle_sample. destruct (learning s && negb (sa_gate sa)); [reflexivity|].
  destruct (a_type (sa_an sa)); cbn [fst]; try reflexivity.
  - unfold handle_cc. destruct (a_bidi _); [|reflexivity].
    destruct (sa_neg sa);
      [destruct (cc_zeroed s (a_cc (sa_an sa)))|destruct (cc_zeroed s (a_ccneg (sa_an sa)))]; reflexivity.
  - unfold handle_keysim.
    destruct (sa_zone sa); try reflexivity;
      repeat match goal with
             | |- context [match get aid_eqb ?i ?l with _ => _ end] => destruct (get aid_eqb i l)
             | |- context [if a_bidi ?a then _ else _] => destruct (a_bidi a)
             | |- context [let '(_, _) := analog_note_on ?s ?i ?n ?o in _] =>
                 let E := fresh "E" in destruct (analog_note_on s i n o) eqn:E; apply analog_note_on_kf in E
             | |- context [let '(_, _) := analog_note_off ?s ?i in _] =>
                 let E := fresh "E" in destruct (analog_note_off s i) eqn:E; apply analog_note_off_kf in E
             end; cbn [fst]; congruence.
  - unfold handle_actionsim. destruct (check_double s) as [s'|] eqn:E.
    + cbn. apply check_double_kf in E. exact E.
    + destruct (sa_zone sa); try reflexivity.
      * destruct (invoke_press c (a_actneg (sa_an sa)) s) as [s1 m] eqn:E1. apply invoke_press_kf in E1.
        cbn [fst]. unfold untrack_action, track_action.
        change (kf (set_actionT ?l ?x)) with (kf x). rewrite invoke_release_kf.
        change (kf (set_actionT ?l ?x)) with (kf x). exact E1.
      * cbn [fst]. unfold untrack_action.
        change (kf (set_actionT ?l ?x)) with (kf x). change (kf (set_actionT ?l ?x)) with (kf x).
        rewrite !invoke_release_kf. reflexivity.
      * destruct (invoke_press c (a_act (sa_an sa)) s) as [s1 m] eqn:E1. apply invoke_press_kf in E1.
        cbn [fst]. rewrite invoke_release_kf. unfold untrack_action, track_action.
        change (kf (set_actionT ?l ?x)) with (kf x). change (kf (set_actionT ?l ?x)) with (kf x). exact E1.
Qed.

(* decidable alternation (used for examples and by the runners) *)
Definition ok_pressb (kt : list N) (e : ev) : bool :=
  match e with
  | EKey _ k v => (negb (v =? 1)%Z || negb (mem N.eqb k kt)) && ((v =? 0)%Z || (v =? 1)%Z || (v =? 2)%Z)
  | _ => true
  end.
Fixpoint alternatingb_from (kt : list N) (h : list ev) : bool :=
  match h with
  | [] => true
  | e :: r => ok_pressb kt e && alternatingb_from (next_keys kt e) r
  end.
Definition alternatingb (h : list ev) : bool := alternatingb_from [] h.

Lemma alternatingb_from_sound h : forall kt, alternatingb_from kt h = true -> alternating_from kt h.
Proof.
  induction h as [|e r IH]; intros kt H; cbn in *; [exact I|].
  apply andb_true_iff in H. destruct H as [H1 H2]. split; [|apply IH; exact H2].
  destruct e as [sub k v|sa|]; cbn in *; try exact I.
  apply andb_true_iff in H1. destruct H1 as [H1 H3]. split.
  - intros -> Hin. cbn in H1. apply negb_true_iff in H1. apply (mem_false N.eqb Neqb_spec) in H1. contradiction.
  - rewrite !orb_true_iff, !Z.eqb_eq in H3. tauto.
Qed.
Lemma alternatingb_sound h : alternatingb h = true -> alternating h.
Proof. apply alternatingb_from_sound. Qed.
