(* C04: transposition, channel arithmetic, state actions. *)
From Coq Require Import List NArith ZArith Bool Lia ZifyN ZifyNat ZifyBool.
From HIDI Require Import Base.AList Model.Device Proofs.DeviceBasics Proofs.Recv Proofs.DeviceInv Proofs.ExitSeq
  Proofs.DevicePlay Proofs.DeviceWf.
Import ListNotations.
Open Scope N_scope.

Lemma chan_of_mod16 s off : chan_of s off = (channel s + off) mod 16.
Proof.
  unfold chan_of. generalize (channel s + off). intro a.
  pose proof (N.div_mod a 256 ltac:(discriminate)) as H1. pose proof (N.mod_lt a 256 ltac:(discriminate)) as H2.
  pose proof (N.div_mod (a mod 256) 16 ltac:(discriminate)) as H3. pose proof (N.mod_lt (a mod 256) 16 ltac:(discriminate)) as H4.
  pose proof (N.div_mod a 16 ltac:(discriminate)) as H5. pose proof (N.mod_lt a 16 ltac:(discriminate)) as H6.
  lia.
Qed.

(* ---- a press of a mapped note key: base + 12*octave + semitone, velocity, (channel + offset) mod 16; silence outside 0..127 *)
Lemma press_formula c s sub k key :
  find_action c k = None -> exit_complete c (sadd N.eqb k (keyT s)) = false ->
  find_key c s sub k = Some key ->
  let p := (Z.of_N (k_note key) + 12 * octave s + semitone s)%Z in
  let ch := (channel s + k_off key) mod 16 in
  let st := step c s (EKey sub k 1) in
  if ((0 <=? p) && (p <=? 127))%Z
  then midi (snd st) = press_msgs (cmode_of c) (velocity s) (Z.to_N p, ch) (count_of s (Z.to_N p, ch)) /\
       get N.eqb k (noteT (fst st)) = Some (Z.to_N p, ch)
  else midi (snd st) = [] /\ fst st = set_keyT (sadd N.eqb k (keyT s)) s.
Proof.
  intros Ha Hex Hk p ch st. subst st. rewrite (press_step c s sub k Ha Hex). cbv zeta.
  unfold resolved. rewrite Hk. cbv zeta. unfold transpose, in_midi_range.
  replace (Z.of_N (k_note key) + octave s * 12 + semitone s)%Z with p by (subst p; lia).
  rewrite chan_of_mod16. fold ch.
  destruct ((0 <=? p) && (p <=? 127))%Z.
  - cbn [fst snd midi emit noteT bump set_counter set_noteT set_keyT]. split; [reflexivity|].
    apply (get_set_same N.eqb Neqb_spec).
  - cbn. split; reflexivity.
Qed.

(* every Note On of a press carries exactly that triple; in off / retrigger mode the press sends exactly one *)
Lemma press_msgs_note_on m vel p holders :
  forall x, In x (press_msgs m vel p holders) -> x = note_on (snd p) (fst p) vel \/ x = note_off (snd p) (fst p).
Proof. intros x. apply press_msgs_shape. Qed.

(* ---- a press of an action key *)
Lemma action_press_step c s sub k a :
  find_action c k = Some a -> exit_complete c (sadd N.eqb k (keyT s)) = false ->
  let s2 := set_actionT (sadd action_eqb a (actionT s)) (set_keyT (sadd N.eqb k (keyT s)) s) in
  step c s (EKey sub k 1) =
  match check_double s2 with
  | Some s3 => (s3, silent)
  | None => (fst (invoke_press c a s2), emit (snd (invoke_press c a s2)))
  end.
Proof.
  intros Ha Hex. cbn [step]. change (1 =? 2)%Z with false. cbv iota. unfold handle_key.
  change (1 =? 1)%Z with true. cbv iota. cbn [keyT set_keyT andb actionT]. rewrite Hex, Ha.
  destruct (check_double _); [reflexivity|]. destruct (invoke_press c a _); reflexivity.
Qed.

Lemma wrap8_id z : (-128 <= z <= 127)%Z -> wrap8 z = z.
Proof. intro H. unfold wrap8. rewrite Z.mod_small by lia. lia. Qed.

(* the four playing parameters *)
Definition play4 (s : state) := (octave s, semitone s, channel s, mapidx s).

(* what each action does to the playing parameters, as the property states it *)
Definition spec_action (nmaps : nat) (a : action) (p : Z * Z * N * nat) : Z * Z * N * nat :=
  let '(o, st, ch, m) := p in
  match a with
  | OctaveUp => ((o + 1)%Z, st, ch, m)
  | OctaveDown => ((o - 1)%Z, st, ch, m)
  | SemitoneUp => (o, (st + 1)%Z, ch, m)
  | SemitoneDown => (o, (st - 1)%Z, ch, m)
  | ChannelUp => (o, st, N.min 15 (ch + 1), m)
  | ChannelDown => (o, st, ch - 1, m)                      (* truncated: 0 stays 0 *)
  | MappingUp => (o, st, ch, Nat.min (nmaps - 1) (m + 1))
  | MappingDown => (o, st, ch, Nat.pred m)                 (* 0 stays 0 *)
  | _ => p
  end.

Lemma invoke_press_spec c a s :
  (-128 < octave s < 127)%Z -> (-128 < semitone s < 127)%Z -> channel s < 16 -> (mapidx s < length (mappings c))%nat ->
  play4 (fst (invoke_press c a s)) = spec_action (length (mappings c)) a (play4 s).
Proof.
  intros Ho Hs Hc Hm. unfold play4. destruct a; cbn [invoke_press fst spec_action];
    repeat match goal with |- context [if ?b then _ else _] => destruct b eqn:? end;
    cbn [octave semitone channel mapidx set_octave set_semitone set_channel set_mapidx set_learning];
    rewrite ?wrap8_id by lia; repeat match goal with |- (_, _) = (_, _) => f_equal end; try lia.
  all: repeat match goal with
              | H : Nat.eqb _ _ = true |- _ => apply Nat.eqb_eq in H
              | H : Nat.eqb _ _ = false |- _ => apply Nat.eqb_neq in H
              | H : N.eqb _ _ = true |- _ => apply N.eqb_eq in H
              | H : N.eqb _ _ = false |- _ => apply N.eqb_neq in H
              end; try rewrite N.mod_small by lia; lia.
Qed.

(* K1: at the int8 boundary the unit step wraps *)
Lemma octave_wrap_refuted :
  forall c s, octave s = 127%Z -> octave (fst (invoke_press c OctaveUp s)) = (-128)%Z.
Proof. intros c s H. cbn. rewrite H. reflexivity. Qed.

(* ---- pairs *)
Inductive pairkind := PMapping | POctave | PSemitone | PChannel.

Definition pair_complete (l : list action) (pk : pairkind) : bool :=
  match pk with
  | PMapping => mem action_eqb MappingUp l && mem action_eqb MappingDown l
  | POctave => mem action_eqb OctaveUp l && mem action_eqb OctaveDown l
  | PSemitone => mem action_eqb SemitoneUp l && mem action_eqb SemitoneDown l
  | PChannel => mem action_eqb ChannelUp l && mem action_eqb ChannelDown l
  end.

Definition reset_pair (pk : pairkind) (s : state) : state :=
  match pk with
  | PMapping => set_mapidx 0%nat s
  | POctave => set_octave 0%Z s
  | PSemitone => set_semitone 0%Z s
  | PChannel => set_channel 0 s
  end.

Lemma two_members_length (l : list action) a b :
  mem action_eqb a l = true -> mem action_eqb b l = true -> a <> b -> (1 < length l)%nat.
Proof.
  intros Ha Hb Hne. apply (mem_in action_eqb action_eqb_spec) in Ha, Hb.
  destruct l as [|x [|y r]]; cbn in *; try tauto; [|lia].
  destruct Ha as [<-|[]], Hb as [<-|[]]. congruence.
Qed.

Lemma check_double_none s : (forall pk, pair_complete (actionT s) pk = false) -> check_double s = None.
Proof.
  intro H. unfold check_double, has_action.
  pose proof (H PMapping) as H1. pose proof (H POctave) as H2. pose proof (H PSemitone) as H3. pose proof (H PChannel) as H4.
  cbn in H1, H2, H3, H4. rewrite H1, H2, H3, H4. destruct (Nat.ltb 1 (length (actionT s))); reflexivity.
Qed.

Lemma check_double_pair s pk :
  pair_complete (actionT s) pk = true -> (forall pk', pk' <> pk -> pair_complete (actionT s) pk' = false) ->
  check_double s = Some (reset_pair pk s).
Proof.
  intros Hc Hother. unfold check_double, has_action.
  assert (Hlen : Nat.ltb 1 (length (actionT s)) = true).
  { apply Nat.ltb_lt. destruct pk; cbn in Hc; apply andb_true_iff in Hc; destruct Hc as [Hc1 Hc2];
      [apply (two_members_length _ MappingUp MappingDown)|apply (two_members_length _ OctaveUp OctaveDown)
      |apply (two_members_length _ SemitoneUp SemitoneDown)|apply (two_members_length _ ChannelUp ChannelDown)];
      auto; discriminate. }
  rewrite Hlen.
  destruct pk.
  - cbn in Hc. rewrite Hc. reflexivity.
  - pose proof (Hother PMapping ltac:(congruence)) as H1. cbn in H1, Hc. rewrite H1, Hc. reflexivity.
  - pose proof (Hother PMapping ltac:(congruence)) as H1. pose proof (Hother POctave ltac:(congruence)) as H2.
    cbn in H1, H2, Hc. rewrite H1, H2, Hc. reflexivity.
  - pose proof (Hother PMapping ltac:(congruence)) as H1. pose proof (Hother POctave ltac:(congruence)) as H2.
    pose proof (Hother PSemitone ltac:(congruence)) as H3.
    cbn in H1, H2, H3, Hc. rewrite H1, H2, H3, Hc. reflexivity.
Qed.

(* pressing an action key: either it completes exactly one pair - that parameter is reset to its neutral value and the
   single action is NOT applied - or it completes none and the action is applied *)
Lemma action_press_pair c s sub k a pk :
  find_action c k = Some a -> exit_complete c (sadd N.eqb k (keyT s)) = false ->
  let held := sadd action_eqb a (actionT s) in
  pair_complete held pk = true -> (forall pk', pk' <> pk -> pair_complete held pk' = false) ->
  step c s (EKey sub k 1) =
  (reset_pair pk (set_actionT held (set_keyT (sadd N.eqb k (keyT s)) s)), silent).
Proof.
  intros Ha Hex held Hc Ho. rewrite (action_press_step c s sub k a Ha Hex). cbv zeta.
  rewrite (check_double_pair _ pk); [reflexivity|exact Hc|exact Ho].
Qed.

Lemma action_press_single c s sub k a :
  find_action c k = Some a -> exit_complete c (sadd N.eqb k (keyT s)) = false ->
  let s2 := set_actionT (sadd action_eqb a (actionT s)) (set_keyT (sadd N.eqb k (keyT s)) s) in
  (forall pk, pair_complete (actionT s2) pk = false) ->
  step c s (EKey sub k 1) = (fst (invoke_press c a s2), emit (snd (invoke_press c a s2))).
Proof.
  intros Ha Hex s2 Hn. rewrite (action_press_step c s sub k a Ha Hex). cbv zeta. fold s2.
  rewrite (check_double_none s2 Hn). reflexivity.
Qed.

(* ---- the configured defaults are the initial state *)
Lemma initial_state c :
  (-128 <= d_octave c <= 127)%Z -> (-128 <= d_semitone c <= 127)%Z -> (1 <= d_channel c <= 16)%Z -> (0 <= d_velocity c <= 127)%Z ->
  octave (init c) = d_octave c /\ semitone (init c) = d_semitone c /\
  Z.of_N (channel (init c)) = (d_channel c - 1)%Z /\ Z.of_N (velocity (init c)) = d_velocity c /\
  mapidx (init c) = d_mapping c /\ learning (init c) = false /\ noteT (init c) = [] /\ analogT (init c) = [].
Proof.
  intros Ho Hs Hc Hv. cbn. rewrite !wrap8_id by lia. unfold u8. rewrite !Z.mod_small by lia.
  repeat split; lia.
Qed.

(* reachable states keep channel and mapping within range *)
Lemma mapidx_step c s e : (mapidx s < length (mappings c))%nat -> (mapidx (fst (step c s e)) < length (mappings c))%nat.
Proof.
  intro H.
  assert (IP : forall a s0, (mapidx s0 < length (mappings c))%nat -> (mapidx (fst (invoke_press c a s0)) < length (mappings c))%nat).
  { intros a s0 H0. destruct a; cbn; repeat match goal with |- context [if ?b then _ else _] => destruct b eqn:? end; cbn; lia. }
  assert (CD : forall s0 s1, check_double s0 = Some s1 -> (mapidx s0 < length (mappings c))%nat -> (mapidx s1 < length (mappings c))%nat).
  { intros s0 s1. unfold check_double. repeat match goal with |- context [if ?b then _ else _] => destruct b end;
      intro E; try discriminate; injection E as <-; cbn; lia. }
  assert (IR : forall a s0, mapidx (invoke_release a s0) = mapidx s0) by (intros a s0; destruct a; reflexivity).
  destruct e as [sub code val|sa|]; cbn [step]; [|pose proof (handle_sample_kf c s sa) as _|exact H].
  - destruct (val =? 2)%Z; [exact H|]. unfold handle_key.
    set (s1 := if (val =? 1)%Z then set_keyT (sadd N.eqb code (keyT s)) s else set_keyT (srem N.eqb code (keyT s)) s).
    assert (H1 : (mapidx s1 < length (mappings c))%nat) by (subst s1; destruct (val =? 1)%Z; exact H). clearbody s1.
    destruct ((val =? 1)%Z && exit_complete c (keyT s1)); [exact H1|].
    destruct (find_action c code) as [a|].
    + destruct (val =? 1)%Z.
      * destruct (check_double _) as [s3|] eqn:E; [apply (CD _ _ E); exact H1|].
        pose proof (IP a (set_actionT (sadd action_eqb a (actionT s1)) s1) H1) as G.
        destruct (invoke_press c a _); exact G.
      * destruct (val =? 0)%Z; [|exact H1]. cbn [fst mapidx set_actionT]. rewrite IR. exact H1.
    + destruct (find_key c s sub code).
      * destruct (val =? 1)%Z.
        -- pose proof (note_on_key_frame c s1 sub code) as F. destruct (note_on_key c s1 sub code). cbn in F.
           destruct F as ((_&_&_&_&F&_)&_). cbn [fst]. rewrite F. exact H1.
        -- destruct (val =? 0)%Z; [|exact H1].
           pose proof (note_off_key_frame c s1 code) as F. destruct (note_off_key c s1 code). cbn in F.
           destruct F as ((_&_&_&_&F&_)&_). cbn [fst]. rewrite F. exact H1.
      * destruct (val =? 0)%Z; [|exact H1].
        pose proof (note_off_key_frame c s1 code) as F. destruct (note_off_key c s1 code). cbn in F.
        destruct F as ((_&_&_&_&F&_)&_). cbn [fst]. rewrite F. exact H1.
  - unfold handle_sample. destruct (learning s && negb (sa_gate sa)); [exact H|].
    destruct (a_type (sa_an sa)); cbn [fst]; try exact H.
    + unfold handle_cc. destruct (a_bidi _); [|exact H].
      destruct (sa_neg sa); [destruct (cc_zeroed s (a_cc (sa_an sa)))|destruct (cc_zeroed s (a_ccneg (sa_an sa)))]; exact H.
    + unfold handle_keysim.
      assert (ON : forall s0 i n o, mapidx (fst (analog_note_on s0 i n o)) = mapidx s0)
        by (intros; unfold analog_note_on; destruct (in_midi_range _); reflexivity).
      assert (OFF : forall s0 i, mapidx (fst (analog_note_off s0 i)) = mapidx s0)
        by (intros s0 i; unfold analog_note_off; destruct (get aid_eqb i (analogT s0)) as [[? ?]|]; reflexivity).
      destruct (sa_zone sa); try exact H;
        repeat match goal with
               | |- context [match get aid_eqb ?i ?l with _ => _ end] => destruct (get aid_eqb i l)
               | |- context [if a_bidi ?a then _ else _] => destruct (a_bidi a)
               | |- context [let '(_, _) := analog_note_on ?s ?i ?n ?o in _] =>
                   let E := fresh "E" in pose proof (ON s i n o) as E; destruct (analog_note_on s i n o); cbn [fst] in E
               | |- context [let '(_, _) := analog_note_off ?s ?i in _] =>
                   let E := fresh "E" in pose proof (OFF s i) as E; destruct (analog_note_off s i); cbn [fst] in E
               end; cbn [fst]; congruence.
    + unfold handle_actionsim. destruct (check_double s) as [s'|] eqn:E; [apply (CD _ _ E H)|].
      destruct (sa_zone sa); try exact H.
      * pose proof (IP (a_actneg (sa_an sa)) s H) as G. destruct (invoke_press c (a_actneg (sa_an sa)) s). cbn [fst] in *.
        unfold untrack_action, track_action. cbn [mapidx set_actionT]. rewrite IR. exact G.
      * cbn [fst]. unfold untrack_action. cbn [mapidx set_actionT]. rewrite !IR. exact H.
      * pose proof (IP (a_act (sa_an sa)) s H) as G. destruct (invoke_press c (a_act (sa_an sa)) s). cbn [fst] in *.
        rewrite IR. unfold untrack_action, track_action. cbn [mapidx set_actionT]. exact G.
Qed.

Lemma mapidx_run c h : (d_mapping c < length (mappings c))%nat -> (mapidx (fst (run c h)) < length (mappings c))%nat.
Proof.
  intro H. unfold run. assert (G : (mapidx (init c) < length (mappings c))%nat) by exact H.
  revert G. generalize (init c). induction h as [|e r IH]; intros s G; cbn [run_from]; [exact G|].
  pose proof (mapidx_step c s e G) as G1. destruct (step c s e) as [s1 o]. cbn [fst] in G1.
  specialize (IH s1 G1). destruct (run_from c s1 r). exact IH.
Qed.
