From Coq Require Import List NArith ZArith Bool.
From HIDI Require Import Model.AnalogF Model.AnalogSpec Proofs.AnalogGrid.
Import ListNotations.
(* stated pointwise (not as [grid_ok chunk = true]) so that no later conversion ever has to evaluate the grid again *)
Lemma grid_part2 : forall b, In b dz_chunk2 -> forallb c06_config_ok (grid_for (f_of_bits b)) = true.
Proof.
  intros b Hb. unfold dz_chunk2 in Hb.
  destruct Hb as [<-|[<-|[<-|[<-|[<-|[]]]]]]; vm_cast_no_check (eq_refl true).
Qed.
