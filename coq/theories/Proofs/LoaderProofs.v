(* Proofs about Model/Loader.v (property C12). *)
From Coq Require Import List NArith Bool Lia Permutation Sorted.
From HIDI Require Import Base.AList Model.Loader.
Import ListNotations.
Open Scope N_scope.

Arguments is_toml : simpl never.
Arguments lower : simpl never.
Arguments insert : simpl never.
Arguments lookup : simpl never.

(* ---------------------------------------------------------------- identifiers and maps *)

Lemma id_eqb_spec : forall a b : id, id_eqb a b = true <-> a = b.
Proof.
  intros [[[a1 a2] a3] a4] [[[b1 b2] b3] b4]. unfold id_eqb.
  rewrite !andb_true_iff, !N.eqb_eq. split.
  - intros [[[-> ->] ->] ->]. reflexivity.
  - intro H. injection H as -> -> -> ->. auto.
Qed.

Lemma id_eqb_refl i : id_eqb i i = true.
Proof. apply id_eqb_spec. reflexivity. Qed.

Lemma lookup_insert_same i h m : lookup (insert i h m) i = Some h.
Proof. apply (get_set_same id_eqb id_eqb_spec). Qed.

Lemma lookup_insert_other i j h m : i <> j -> lookup (insert j h m) i = lookup m i.
Proof. apply (get_set_other id_eqb id_eqb_spec). Qed.

Lemma lookup_insert i j h m : lookup (insert j h m) i = if id_eqb i j then Some h else lookup m i.
Proof.
  destruct (id_eqb i j) eqn:E.
  - apply id_eqb_spec in E. subst. apply lookup_insert_same.
  - apply lookup_insert_other. intros ->. rewrite id_eqb_refl in E. discriminate.
Qed.

Lemma opt_handle_eqb_spec a b : opt_handle_eqb a b = true <-> a = b.
Proof.
  destruct a, b; cbn; try rewrite N.eqb_eq; split; intro H; try congruence; try discriminate.
Qed.

Lemma result_eqb_spec a b : result_eqb a b = true <-> a = b.
Proof.
  destruct a, b; cbn; try rewrite N.eqb_eq; split; intro H; try congruence; try discriminate.
Qed.

(* ---------------------------------------------------------------- FindConfig *)

Lemma find_in_spec user factory i :
  find_in user factory i =
  match first_some (candidates user factory i) with Some h => Found h | None => ErrNoDefault end.
Proof.
  unfold find_in, candidates. cbn.
  destruct (lookup user i); [reflexivity|].
  destruct (lookup user zero_id); [reflexivity|].
  destruct (lookup factory i); [reflexivity|].
  destruct (lookup factory zero_id); reflexivity.
Qed.

Lemma find_config_spec cs i ty : find_config cs i ty = spec_find cs i ty.
Proof. destruct ty; cbn; try reflexivity; apply find_in_spec. Qed.

Lemma find_ok_model cs i ty : find_ok cs i ty (find_config cs i ty) = true.
Proof. unfold find_ok. apply result_eqb_spec. apply find_config_spec. Qed.

(* the chain spelled out, one implication per rank *)
Lemma find_in_chain user factory i :
  (forall h, lookup user i = Some h -> find_in user factory i = Found h) /\
  (forall h, lookup user i = None -> lookup user zero_id = Some h -> find_in user factory i = Found h) /\
  (forall h, lookup user i = None -> lookup user zero_id = None -> lookup factory i = Some h ->
             find_in user factory i = Found h) /\
  (forall h, lookup user i = None -> lookup user zero_id = None -> lookup factory i = None ->
             lookup factory zero_id = Some h -> find_in user factory i = Found h) /\
  (find_in user factory i = ErrNoDefault <->
   lookup user i = None /\ lookup user zero_id = None /\ lookup factory i = None /\ lookup factory zero_id = None).
Proof.
  unfold find_in. repeat split.
  - intros h ->. reflexivity.
  - intros h -> ->. reflexivity.
  - intros h -> -> ->. reflexivity.
  - intros h -> -> -> ->. reflexivity.
  - destruct (lookup user i); [discriminate|reflexivity].
  - destruct (lookup user i); [discriminate|]. destruct (lookup user zero_id); [discriminate|reflexivity].
  - destruct (lookup user i); [discriminate|]. destruct (lookup user zero_id); [discriminate|].
    destruct (lookup factory i); [discriminate|reflexivity].
  - destruct (lookup user i); [discriminate|]. destruct (lookup user zero_id); [discriminate|].
    destruct (lookup factory i); [discriminate|]. destruct (lookup factory zero_id); [discriminate|reflexivity].
  - intros [-> [-> [-> ->]]]. reflexivity.
Qed.

Definition precedence_statement : Prop :=
  forall (cs : configs) (i : id),
    (* keyboards: the keyboard maps, in the documented order *)
    find_config cs i Keyboard =
      match first_some [lookup (u_kb cs) i; lookup (u_kb cs) zero_id; lookup (f_kb cs) i; lookup (f_kb cs) zero_id] with
      | Some h => Found h | None => ErrNoDefault end
    (* joysticks: the gamepad maps *)
    /\ find_config cs i Joystick =
      match first_some [lookup (u_gp cs) i; lookup (u_gp cs) zero_id; lookup (f_gp cs) i; lookup (f_gp cs) zero_id] with
      | Some h => Found h | None => ErrNoDefault end
    (* an error exactly when all four candidates are absent *)
    /\ (find_config cs i Keyboard = ErrNoDefault <->
        lookup (u_kb cs) i = None /\ lookup (u_kb cs) zero_id = None /\ lookup (f_kb cs) i = None /\ lookup (f_kb cs) zero_id = None)
    /\ (find_config cs i Joystick = ErrNoDefault <->
        lookup (u_gp cs) i = None /\ lookup (u_gp cs) zero_id = None /\ lookup (f_gp cs) i = None /\ lookup (f_gp cs) zero_id = None)
    (* every other device type is unsupported whatever the maps hold; Keyboard/Joystick never are *)
    /\ (forall ty, ty <> Keyboard -> ty <> Joystick -> find_config cs i ty = ErrUnsupported)
    /\ find_config cs i Keyboard <> ErrUnsupported /\ find_config cs i Joystick <> ErrUnsupported
    (* keyboards never see the gamepad maps and vice versa *)
    /\ (forall fg' ug', find_config (mk_configs (f_kb cs) fg' (u_kb cs) ug') i Keyboard = find_config cs i Keyboard)
    /\ (forall fk' uk', find_config (mk_configs fk' (f_gp cs) uk' (u_gp cs)) i Joystick = find_config cs i Joystick).

Lemma find_in_supported user factory i : find_in user factory i <> ErrUnsupported.
Proof.
  unfold find_in.
  destruct (lookup user i); [discriminate|]. destruct (lookup user zero_id); [discriminate|].
  destruct (lookup factory i); [discriminate|]. destruct (lookup factory zero_id); discriminate.
Qed.

Lemma precedence : precedence_statement.
Proof.
  intros cs i.
  split; [apply find_in_spec|].
  split; [apply find_in_spec|].
  split; [exact (proj2 (proj2 (proj2 (proj2 (find_in_chain (u_kb cs) (f_kb cs) i)))))|].
  split; [exact (proj2 (proj2 (proj2 (proj2 (find_in_chain (u_gp cs) (f_gp cs) i)))))|].
  split; [intros ty Hk Hj; destruct ty; try reflexivity; congruence|].
  split; [apply find_in_supported|].
  split; [apply find_in_supported|].
  split; reflexivity.
Qed.

(* ---------------------------------------------------------------- loadDirectory: isolation *)

Lemma visit_skippable v it m : skippable it -> visit v it m = Continue m.
Proof.
  destruct it as [name verdict|name|name|]; cbn; try tauto.
  intros [H|H].
  - rewrite H. reflexivity.
  - subst. destruct (is_toml name); reflexivity.
Qed.

Lemma isolation v l1 bad l2 m :
  skippable bad -> load_directory v (l1 ++ bad :: l2) m = load_directory v (l1 ++ l2) m.
Proof.
  intro Hs. revert m. induction l1 as [|it r IH]; intro m; cbn.
  - rewrite (visit_skippable v bad m Hs). reflexivity.
  - destruct (visit v it m); auto.
Qed.

(* the same for the whole of LoadDeviceConfigs, a skippable entry in any of the four directories *)
Lemma isolation_all v l1 bad l2 a b c :
  skippable bad ->
  load_all v (l1 ++ bad :: l2) a b c = load_all v (l1 ++ l2) a b c /\
  load_all v a (l1 ++ bad :: l2) b c = load_all v a (l1 ++ l2) b c /\
  load_all v a b (l1 ++ bad :: l2) c = load_all v a b (l1 ++ l2) c /\
  load_all v a b c (l1 ++ bad :: l2) = load_all v a b c (l1 ++ l2).
Proof.
  intro Hs. unfold load_all. rewrite !(isolation v l1 bad l2 [] Hs). auto.
Qed.

(* the reports of the other files are not affected either *)
Lemma reports_isolation v l1 name verdict l2 :
  is_toml name = false ->
  reports v (l1 ++ IFile name verdict :: l2) = reports v (l1 ++ l2).
Proof.
  intro Hn. induction l1 as [|it r IH]; cbn.
  - rewrite Hn. destruct verdict as [[i h]|]; reflexivity.
  - destruct (visit v it []); [|reflexivity|reflexivity].
    destruct it as [n [p|]|n|n|]; try exact IH. destruct (is_toml n); [f_equal|]; exact IH.
Qed.

(* ---------------------------------------------------------------- loadDirectory: contents *)

Lemma contents_gen v l : forall m m',
  load_directory v l m = Ok m' ->
  forall i, lookup m' i = match last_for i (parsed l) with Some h => Some h | None => lookup m i end.
Proof.
  induction l as [|it r IH]; intros m m' H i; cbn in *.
  - injection H as ->. reflexivity.
  - destruct it as [name [[j h]|]|name|name|]; cbn in H.
    + destruct (is_toml name); cbn.
      * rewrite (IH _ _ H i). destruct (last_for i (parsed r)); [reflexivity|]. rewrite lookup_insert. destruct (id_eqb i j); reflexivity.
      * apply (IH _ _ H i).
    + destruct (is_toml name); apply (IH _ _ H i).
    + apply (IH _ _ H i).
    + destruct v; [discriminate|]. apply (IH _ _ H i).
    + destruct v; discriminate.
Qed.

Lemma contents v l m : load_directory v l [] = Ok m -> forall i, lookup m i = last_for i (parsed l).
Proof.
  intros H i. rewrite (contents_gen v l [] m H i). destruct (last_for i (parsed l)); reflexivity.
Qed.

Lemma nodup_gen v l : forall m m',
  NoDup (keys m) -> load_directory v l m = Ok m' -> NoDup (keys m').
Proof.
  induction l as [|it r IH]; intros m m' Hn H; cbn in H.
  - injection H as ->. exact Hn.
  - destruct (visit v it m) as [m1| |] eqn:E; try discriminate.
    apply (IH m1 m'); [|exact H].
    destruct it as [name [[j h]|]|name|name|]; cbn in E.
    + destruct (is_toml name); injection E as <-; [apply (nodup_set id_eqb id_eqb_spec)|]; exact Hn.
    + destruct (is_toml name); injection E as <-; exact Hn.
    + injection E as <-. exact Hn.
    + destruct v; [discriminate|]. injection E as <-. exact Hn.
    + destruct v; discriminate.
Qed.

Lemma last_for_some_in i pl h : last_for i pl = Some h -> In (i, h) pl.
Proof.
  induction pl as [|[j h'] r IH]; cbn; [discriminate|].
  destruct (last_for i r) as [h2|].
  - intro H. injection H as ->. right. apply IH. reflexivity.
  - destruct (id_eqb i j) eqn:E; [|discriminate]. intro H. injection H as ->.
    apply id_eqb_spec in E. subst. left. reflexivity.
Qed.

Lemma last_for_none i pl : last_for i pl = None <-> forall h, ~ In (i, h) pl.
Proof.
  induction pl as [|[j h'] r IH]; cbn.
  - split; [intros _ h []|reflexivity].
  - destruct (last_for i r) as [h2|] eqn:E.
    + split; [discriminate|]. intro H. exfalso. apply (H h2). right. apply last_for_some_in. exact E.
    + destruct (id_eqb i j) eqn:E2.
      * apply id_eqb_spec in E2. subst. split; [discriminate|]. intro H. exfalso. apply (H h'). left. reflexivity.
      * split; [|reflexivity]. intros _ h [H|H].
        -- injection H as -> ->. rewrite id_eqb_refl in E2. discriminate.
        -- exact (proj1 IH eq_refl h H).
Qed.

Lemma last_for_app i a b :
  last_for i (a ++ b) = match last_for i b with Some h => Some h | None => last_for i a end.
Proof.
  induction a as [|[j h] r IH]; cbn.
  - destruct (last_for i b); reflexivity.
  - rewrite IH. destruct (last_for i b); reflexivity.
Qed.

Lemma parsed_app a b : parsed (a ++ b) = parsed a ++ parsed b.
Proof.
  induction a as [|it r IH]; cbn; [reflexivity|].
  destruct it as [name [p|]|name|name|]; try exact IH.
  destruct (is_toml name); cbn; [f_equal|]; exact IH.
Qed.

(* an entry of [parsed] is a *.toml file of the listing that parsed to it *)
Lemma parsed_in l p : In p (parsed l) <-> exists name, In (IFile name (Some p)) l /\ is_toml name = true.
Proof.
  induction l as [|it r IH]; cbn.
  - split; [tauto|intros [n [[] _]]].
  - assert (Hskip : (exists name, (it = IFile name (Some p) \/ In (IFile name (Some p)) r) /\ is_toml name = true) <->
                    (exists name, it = IFile name (Some p) /\ is_toml name = true) \/ In p (parsed r)).
    { rewrite IH. split.
      - intros [n [[H|H] Ht]]; [left|right]; exists n; auto.
      - intros [[n [H Ht]]|[n [H Ht]]]; exists n; auto. }
    rewrite Hskip. clear Hskip.
    destruct it as [name [q|]|name|name|].
    + destruct (is_toml name) eqn:E; cbn.
      * split.
        -- intros [->|H]; [left; exists name; auto|right; exact H].
        -- intros [[n [H Ht]]|H]; [left; congruence|right; exact H].
      * split; [intro H; right; exact H|]. intros [[n [H Ht]]|H]; [|exact H].
        injection H as -> ->. congruence.
    + split; [intro H; right; exact H|]. intros [[n [H Ht]]|H]; [discriminate|exact H].
    + split; [intro H; right; exact H|]. intros [[n [H Ht]]|H]; [discriminate|exact H].
    + split; [intro H; right; exact H|]. intros [[n [H Ht]]|H]; [discriminate|exact H].
    + split; [intro H; right; exact H|]. intros [[n [H Ht]]|H]; [discriminate|exact H].
Qed.

Definition contents_statement : Prop :=
  forall v l m, load_directory v l [] = Ok m ->
    (* for every identifier: the last successfully parsed *.toml file carrying it, in walk order *)
    (forall i, lookup m i = last_for i (parsed l))
    (* nothing else: every key comes from a *.toml file of the listing that parsed to that identifier ... *)
    /\ (forall i h, In (i, h) m -> exists name, In (IFile name (Some (i, h))) l /\ is_toml name = true)
    (* ... every such file's identifier is a key ... *)
    /\ (forall name i h, In (IFile name (Some (i, h))) l -> is_toml name = true -> exists h', lookup m i = Some h')
    (* ... and the result is a map (one entry per identifier) *)
    /\ NoDup (keys m).

Lemma contents_full : contents_statement.
Proof.
  intros v l m H.
  assert (Hc := contents v l m H).
  assert (Hn : NoDup (keys m)) by (apply (nodup_gen v l [] m); [constructor|exact H]).
  repeat split.
  - exact Hc.
  - intros i h Hin. apply parsed_in. apply last_for_some_in. rewrite <- Hc.
    apply (nodup_in_get id_eqb id_eqb_spec); assumption.
  - intros name i h Hin Ht. rewrite Hc. destruct (last_for i (parsed l)) as [h'|] eqn:E; [exists h'; reflexivity|].
    exfalso. apply (proj1 (last_for_none i (parsed l)) E h). apply parsed_in. exists name. auto.
  - exact Hn.
Qed.

Definition later_wins_statement : Prop :=
  forall v l1 name i h l2 m,
    is_toml name = true ->
    (forall n h', In (IFile n (Some (i, h'))) l2 -> is_toml n = false) ->   (* no later parsed *.toml file with this identifier *)
    load_directory v (l1 ++ IFile name (Some (i, h)) :: l2) [] = Ok m ->
    lookup m i = Some h.

Lemma later_wins : later_wins_statement.
Proof.
  intros v l1 name i h l2 m Ht Hlater H.
  rewrite (contents v _ m H i).
  change (l1 ++ IFile name (Some (i, h)) :: l2) with (l1 ++ [IFile name (Some (i, h))] ++ l2).
  rewrite !parsed_app, !last_for_app. cbn. rewrite Ht. cbn.
  assert (E : last_for i (parsed l2) = None).
  { apply last_for_none. intros h' Hin. apply parsed_in in Hin. destruct Hin as [n [Hin Hn]].
    rewrite (Hlater n h' Hin) in Hn. discriminate. }
  rewrite E, id_eqb_refl. reflexivity.
Qed.

(* ---------------------------------------------------------------- no crash *)

Lemma fixed_outcome l : forall m,
  (existsb is_error_item l = false /\ exists m', load_directory Fixed l m = Ok m') \/
  (existsb is_error_item l = true /\ load_directory Fixed l m = Err).
Proof.
  induction l as [|it r IH]; intro m; cbn.
  - left. split; [reflexivity|]. exists m. reflexivity.
  - destruct it as [name [[j h]|]|name|name|]; cbn; try (right; split; reflexivity).
    + destruct (is_toml name); apply IH.
    + destruct (is_toml name); apply IH.
    + apply IH.
Qed.

Lemma fixed_no_crash l m : load_directory Fixed l m <> Crash.
Proof.
  destruct (fixed_outcome l m) as [[_ [m' H]]|[_ H]]; rewrite H; discriminate.
Qed.

Lemma existsb_app4 {A} (f : A -> bool) a b c d :
  existsb f (a ++ b ++ c ++ d) = existsb f a || existsb f b || existsb f c || existsb f d.
Proof. rewrite !existsb_app, !orb_assoc. reflexivity. Qed.

Lemma fixed_all_outcome fg fk ug uk :
  (existsb is_error_item (fg ++ fk ++ ug ++ uk) = false /\ exists cs, load_all Fixed fg fk ug uk = Ok cs) \/
  (existsb is_error_item (fg ++ fk ++ ug ++ uk) = true /\ load_all Fixed fg fk ug uk = Err).
Proof.
  rewrite existsb_app4. unfold load_all.
  destruct (fixed_outcome fg []) as [[E1 [m1 H1]]|[E1 H1]]; rewrite E1, H1; cbn; [|right; auto].
  destruct (fixed_outcome fk []) as [[E2 [m2 H2]]|[E2 H2]]; rewrite E2, H2; cbn; [|right; auto].
  destruct (fixed_outcome ug []) as [[E3 [m3 H3]]|[E3 H3]]; rewrite E3, H3; cbn; [|right; auto].
  destruct (fixed_outcome uk []) as [[E4 [m4 H4]]|[E4 H4]]; rewrite E4, H4; cbn; [|right; auto].
  left. split; [reflexivity|]. eexists. reflexivity.
Qed.

Definition no_crash_statement : Prop :=
  (* any listings whatsoever, error entries included: never a panic *)
  (forall l m, load_directory Fixed l m <> Crash)
  /\ (forall fg fk ug uk, load_all Fixed fg fk ug uk <> Crash)
  (* any trees, any of the four roots missing or unreadable *)
  /\ (forall fg fk ug uk, load_trees Fixed fg fk ug uk <> Crash)
  (* an error is returned exactly when something could not be listed ... *)
  /\ (forall fg fk ug uk, load_all Fixed fg fk ug uk = Err <-> existsb is_error_item (fg ++ fk ++ ug ++ uk) = true)
  (* ... in particular when one of the four directories is missing *)
  /\ (forall fg fk ug uk, fg = RMissing \/ fk = RMissing \/ ug = RMissing \/ uk = RMissing ->
        load_trees Fixed fg fk ug uk = Err)
  (* or exists but cannot be read *)
  /\ (forall fg fk ug uk name ch,
        fg = RNode (NDir name false ch) \/ fk = RNode (NDir name false ch) \/
        ug = RNode (NDir name false ch) \/ uk = RNode (NDir name false ch) ->
        load_trees Fixed fg fk ug uk = Err).

Lemma no_crash : no_crash_statement.
Proof.
  assert (Hall : forall fg fk ug uk, load_all Fixed fg fk ug uk <> Crash).
  { intros fg fk ug uk. destruct (fixed_all_outcome fg fk ug uk) as [[_ [cs H]]|[_ H]]; rewrite H; discriminate. }
  assert (Hiff : forall fg fk ug uk, load_all Fixed fg fk ug uk = Err <-> existsb is_error_item (fg ++ fk ++ ug ++ uk) = true).
  { intros fg fk ug uk. destruct (fixed_all_outcome fg fk ug uk) as [[E [cs H]]|[E H]]; rewrite E, H; split; congruence. }
  split; [apply fixed_no_crash|].
  split; [exact Hall|].
  split; [intros; apply Hall|].
  split; [exact Hiff|].
  split.
  - intros fg fk ug uk H. unfold load_trees. apply Hiff. rewrite existsb_app4.
    destruct H as [ -> | [ -> | [ -> | -> ]]]; cbn; rewrite ?orb_true_r; reflexivity.
  - intros fg fk ug uk name ch H. unfold load_trees. apply Hiff. rewrite existsb_app4.
    destruct H as [ -> | [ -> | [ -> | -> ]]]; cbn; rewrite ?orb_true_r; reflexivity.
Qed.

(* ---------------------------------------------------------------- the monitors hold of the model *)

Lemma map_ok_iff l m : map_ok l m = true <-> forall i, lookup m i = last_for i (parsed l).
Proof.
  unfold map_ok. rewrite forallb_forall. split.
  - intros H i.
    destruct (lookup m i) as [h|] eqn:E1.
    + rewrite <- E1. apply opt_handle_eqb_spec. apply H. apply in_or_app. left.
      apply (get_some_in id_eqb id_eqb_spec) in E1. apply in_map_iff. exists (i, h). auto.
    + destruct (last_for i (parsed l)) as [h|] eqn:E2; [|reflexivity].
      rewrite <- E1, <- E2. apply opt_handle_eqb_spec. apply H. apply in_or_app. right.
      apply last_for_some_in in E2. apply in_map_iff. exists (i, h). auto.
  - intros H i _. apply opt_handle_eqb_spec. apply H.
Qed.

Lemma load_ok_any v fg fk ug uk :
  load_all v fg fk ug uk <> Crash ->
  (load_all v fg fk ug uk = Err -> existsb is_error_item (fg ++ fk ++ ug ++ uk) = true) ->
  load_ok fg fk ug uk (observe (load_all v fg fk ug uk)) = true.
Proof.
  intros Hc He. destruct (load_all v fg fk ug uk) as [cs| |] eqn:E; cbn.
  - unfold load_all in E.
    destruct (load_directory v fg []) as [m1| |] eqn:E1; try discriminate.
    destruct (load_directory v fk []) as [m2| |] eqn:E2; try discriminate.
    destruct (load_directory v ug []) as [m3| |] eqn:E3; try discriminate.
    destruct (load_directory v uk []) as [m4| |] eqn:E4; try discriminate.
    cbn in E. injection E as <-. cbn.
    rewrite !andb_true_iff. repeat split; apply map_ok_iff; eapply contents; eassumption.
  - apply He. reflexivity.
  - congruence.
Qed.

Lemma load_ok_fixed fg fk ug uk : load_ok fg fk ug uk (observe (load_all Fixed fg fk ug uk)) = true.
Proof.
  apply load_ok_any.
  - apply no_crash.
  - apply no_crash.
Qed.

(* the original callback: never an error; a panic exactly when some callback invocation has no FileInfo;
   otherwise (an unreadable directory that could still be Lstat-ed) the directory is counted as empty *)
Lemma original_outcome l : forall m,
  (existsb (fun it => match it with INoInfo => true | _ => false end) l = false /\ exists m', load_directory Original l m = Ok m') \/
  (existsb (fun it => match it with INoInfo => true | _ => false end) l = true /\ load_directory Original l m = Crash).
Proof.
  induction l as [|it r IH]; intro m; cbn.
  - left. split; [reflexivity|]. exists m. reflexivity.
  - destruct it as [name [[j h]|]|name|name|]; cbn; try (right; split; reflexivity).
    + destruct (is_toml name); apply IH.
    + destruct (is_toml name); apply IH.
    + apply IH.
    + apply IH.
Qed.

Lemma original_never_err fg fk ug uk : load_all Original fg fk ug uk <> Err.
Proof.
  unfold load_all.
  destruct (original_outcome fg []) as [[_ [m1 H1]]|[_ H1]]; rewrite H1; cbn; [|discriminate].
  destruct (original_outcome fk []) as [[_ [m2 H2]]|[_ H2]]; rewrite H2; cbn; [|discriminate].
  destruct (original_outcome ug []) as [[_ [m3 H3]]|[_ H3]]; rewrite H3; cbn; [|discriminate].
  destruct (original_outcome uk []) as [[_ [m4 H4]]|[_ H4]]; rewrite H4; cbn; discriminate.
Qed.

Lemma load_ok_original fg fk ug uk :
  load_all Original fg fk ug uk <> Crash ->
  load_ok fg fk ug uk (observe (load_all Original fg fk ug uk)) = true.
Proof.
  intro H. apply load_ok_any; [exact H|]. intro E. exfalso. exact (original_never_err _ _ _ _ E).
Qed.

(* a complete pass reports every *.toml file that failed to parse, in order, and nothing else *)
Lemma reports_complete v l : forall m m', load_directory v l m = Ok m' -> reports v l = failed_names l.
Proof.
  induction l as [|it r IH]; intros m m' H; cbn in *; [reflexivity|].
  destruct it as [name [[j h]|]|name|name|]; cbn in *.
  - destruct (is_toml name); apply (IH _ _ H).
  - destruct (is_toml name); [f_equal|]; apply (IH _ _ H).
  - apply (IH _ _ H).
  - destruct v; [discriminate|]. apply (IH _ _ H).
  - destruct v; discriminate.
Qed.

Lemma failed_names_in l name : In (IFile name None) l -> is_toml name = true -> In (map lower name) (failed_names l).
Proof.
  intros Hin Ht. induction l as [|it r IH]; cbn in *; [tauto|].
  destruct Hin as [->|Hin].
  - rewrite Ht. left. reflexivity.
  - destruct it as [n [p|]|n|n|]; try (apply IH; exact Hin).
    destruct (is_toml n); [right|]; apply IH; exact Hin.
Qed.

Definition reported_statement : Prop :=
  forall v l m m' name, load_directory v l m = Ok m' ->
    In (IFile name None) l -> is_toml name = true -> In (map lower name) (reports v l).

Lemma reported : reported_statement.
Proof.
  intros v l m m' name H Hin Ht. rewrite (reports_complete v l m m' H). apply failed_names_in; assumption.
Qed.

(* ---------------------------------------------------------------- the defect of the original code (D11) *)

Definition some_cfg : list N := [97; 46; 116; 111; 109; 108].  (* "a.toml" *)

Lemma missing_dir_crash :
  (* hidi-config/user/keyboard absent, the other three directories fine *)
  load_trees Original (RNode (NDir [103] true [])) (RNode (NDir [107] true [NFile some_cfg true (Some (zero_id, 1))]))
                      (RNode (NDir [103] true [])) RMissing = Crash
  /\ load_ok (walk_root (RNode (NDir [103] true []))) (walk_root (RNode (NDir [107] true [NFile some_cfg true (Some (zero_id, 1))])))
             (walk_root (RNode (NDir [103] true []))) (walk_root RMissing)
             (observe (load_trees Original (RNode (NDir [103] true [])) (RNode (NDir [107] true [NFile some_cfg true (Some (zero_id, 1))]))
                                  (RNode (NDir [103] true [])) RMissing)) = false
  (* the fixed callback on the same tree *)
  /\ load_trees Fixed (RNode (NDir [103] true [])) (RNode (NDir [107] true [NFile some_cfg true (Some (zero_id, 1))]))
                      (RNode (NDir [103] true [])) RMissing = Err.
Proof. vm_compute. auto. Qed.

Lemma original_crash_iff fg fk ug uk :
  load_all Original fg fk ug uk = Crash <->
  existsb (fun it => match it with INoInfo => true | _ => false end) (fg ++ fk ++ ug ++ uk) = true.
Proof.
  rewrite existsb_app4. unfold load_all.
  destruct (original_outcome fg []) as [[E1 [m1 H1]]|[E1 H1]]; rewrite E1, H1; cbn; [|tauto].
  destruct (original_outcome fk []) as [[E2 [m2 H2]]|[E2 H2]]; rewrite E2, H2; cbn; [|tauto].
  destruct (original_outcome ug []) as [[E3 [m3 H3]]|[E3 H3]]; rewrite E3, H3; cbn; [|tauto].
  destruct (original_outcome uk []) as [[E4 [m4 H4]]|[E4 H4]]; rewrite E4, H4; cbn; [|tauto].
  split; discriminate.
Qed.

(* ---------------------------------------------------------------- Walk order *)

(* name_leb is the bytewise order of sort.Strings *)
Lemma name_leb_refl a : name_leb a a = true.
Proof. induction a as [|x r IH]; cbn; [reflexivity|]. rewrite N.ltb_irrefl. exact IH. Qed.

Lemma name_leb_total a : forall b, name_leb a b = true \/ name_leb b a = true.
Proof.
  induction a as [|x r IH]; intros [|y s]; cbn; auto.
  destruct (x <? y) eqn:E1; [auto|]. destruct (y <? x) eqn:E2; [auto|]. apply IH.
Qed.

Lemma name_leb_antisym a : forall b, name_leb a b = true -> name_leb b a = true -> a = b.
Proof.
  induction a as [|x r IH]; intros [|y s]; cbn; try discriminate; auto.
  destruct (x <? y) eqn:E1; destruct (y <? x) eqn:E2; try discriminate.
  - apply N.ltb_lt in E1, E2. lia.
  - intros H1 H2. apply N.ltb_ge in E1, E2. assert (x = y) by lia. subst. f_equal. apply IH; assumption.
Qed.

Lemma name_leb_trans a : forall b c, name_leb a b = true -> name_leb b c = true -> name_leb a c = true.
Proof.
  induction a as [|x r IH]; intros [|y s] [|z t]; cbn; try discriminate; auto.
  destruct (x <? y) eqn:E1; destruct (y <? x) eqn:E2; destruct (y <? z) eqn:E3; destruct (z <? y) eqn:E4;
    destruct (x <? z) eqn:E5; destruct (z <? x) eqn:E6; try discriminate; auto;
    rewrite ?N.ltb_lt, ?N.ltb_ge in *; try lia.
  apply IH.
Qed.

(* the walk of a readable directory: the directory itself, then its entries in name order, each walked in place *)
Lemma walk_dir_eq name ch :
  walk (NDir name true ch) =
  IDir name :: concat (map snd (sort_by_name (map (fun c => (node_name c, walk c)) ch))).
Proof.
  reflexivity.
Qed.

Fixpoint insert_node (c : node) (l : list node) : list node :=
  match l with
  | [] => [c]
  | d :: r => if name_leb (node_name c) (node_name d) then c :: l else d :: insert_node c r
  end.

Definition sort_nodes (l : list node) : list node := fold_right insert_node [] l.

Definition node_le (a b : node) : Prop := name_leb (node_name a) (node_name b) = true.

Lemma insert_node_perm c l : Permutation.Permutation (c :: l) (insert_node c l).
Proof.
  induction l as [|d r IH]; cbn; [apply Permutation.Permutation_refl|].
  destruct (name_leb (node_name c) (node_name d)); [apply Permutation.Permutation_refl|].
  eapply Permutation.perm_trans; [apply Permutation.perm_swap|]. apply Permutation.perm_skip. exact IH.
Qed.

Lemma sort_nodes_perm l : Permutation.Permutation l (sort_nodes l).
Proof.
  induction l as [|c r IH]; cbn; [constructor|].
  eapply Permutation.perm_trans; [apply Permutation.perm_skip; exact IH|]. apply insert_node_perm.
Qed.

Lemma insert_node_sorted c l : Sorted.StronglySorted node_le l -> Sorted.StronglySorted node_le (insert_node c l).
Proof.
  induction l as [|d r IH]; cbn; intro H.
  - constructor; constructor.
  - inversion H as [|? ? Hr Hd]; subst.
    destruct (name_leb (node_name c) (node_name d)) eqn:E.
    + constructor; [exact H|]. constructor; [exact E|].
      apply Forall_forall. intros x Hx. unfold node_le.
      apply (name_leb_trans _ (node_name d)); [exact E|]. exact (proj1 (Forall_forall _ _) Hd x Hx).
    + constructor; [apply IH; exact Hr|].
      apply Forall_forall. intros x Hx.
      apply (Permutation.Permutation_in x (Permutation.Permutation_sym (insert_node_perm c r))) in Hx.
      destruct Hx as [<-|Hx].
      * unfold node_le. destruct (name_leb_total (node_name d) (node_name c)) as [H1|H1]; [exact H1|congruence].
      * exact (proj1 (Forall_forall _ _) Hd x Hx).
Qed.

Lemma sort_nodes_sorted l : Sorted.StronglySorted node_le (sort_nodes l).
Proof. induction l as [|c r IH]; cbn; [constructor|apply insert_node_sorted; exact IH]. Qed.

Lemma insert_sorted_nodes c l :
  insert_sorted (node_name c) (walk c) (map (fun c => (node_name c, walk c)) l) =
  map (fun c => (node_name c, walk c)) (insert_node c l).
Proof.
  induction l as [|d r IH]; cbn [map insert_sorted insert_node]; [reflexivity|].
  destruct (name_leb (node_name c) (node_name d)); [reflexivity|]. cbn [map]. f_equal. exact IH.
Qed.

Lemma sort_by_name_nodes l :
  sort_by_name (map (fun c => (node_name c, walk c)) l) = map (fun c => (node_name c, walk c)) (sort_nodes l).
Proof.
  induction l as [|c r IH]; [reflexivity|].
  cbn [map sort_nodes fold_right]. unfold sort_by_name in *. cbn [fold_right fst snd]. rewrite IH. apply insert_sorted_nodes.
Qed.

Definition walk_order_statement : Prop :=
  (forall name ch, exists ch',
      Permutation.Permutation ch ch' /\ Sorted.StronglySorted node_le ch' /\
      walk (NDir name true ch) = IDir name :: flat_map walk ch')
  /\ (forall name ch, walk (NDir name false ch) = [IDirErr name])
  /\ (forall name r p, walk (NFile name r p) = [IFile name (if r then p else None)])
  (* the order is a total order on names (so the sorted arrangement of distinct names is unique) *)
  /\ (forall a b, name_leb a b = true \/ name_leb b a = true)
  /\ (forall a b, name_leb a b = true -> name_leb b a = true -> a = b)
  /\ (forall a b c, name_leb a b = true -> name_leb b c = true -> name_leb a c = true).

Lemma walk_order : walk_order_statement.
Proof.
  split.
  - intros name ch. exists (sort_nodes ch). split; [apply sort_nodes_perm|]. split; [apply sort_nodes_sorted|].
    rewrite walk_dir_eq, sort_by_name_nodes. f_equal. rewrite flat_map_concat_map, map_map. reflexivity.
  - split; [reflexivity|]. split; [reflexivity|].
    split; [exact name_leb_total|]. split; [exact name_leb_antisym|exact name_leb_trans].
Qed.
