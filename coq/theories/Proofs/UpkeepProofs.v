(* Proofs about the start-up upkeep model (Model/Upkeep.v); the statements of C18 are collected in Properties/C18.v. *)
From Coq Require Import List NArith Bool Arith Lia.
From HIDI Require Import Base.AList Model.Upkeep.
Import ListNotations.
Open Scope N_scope.

Arguments lookup : simpl never.
Arguments update : simpl never.

(* ------------------------------------------------------------------ equality tests *)

Lemma list_eqb_spec : forall a b, list_eqb a b = true <-> a = b.
Proof.
  induction a as [|x a IH]; destruct b as [|y b]; cbn; split; try congruence; try discriminate.
  - intro H. apply andb_true_iff in H. destruct H as [H1 H2]. apply N.eqb_eq in H1. apply IH in H2. congruence.
  - intro H. injection H as -> ->. rewrite N.eqb_refl. cbn. apply IH. reflexivity.
Qed.

Lemma path_eqb_spec : forall a b : path, path_eqb a b = true <-> a = b.
Proof. exact list_eqb_spec. Qed.

Lemma data_eqb_spec : forall a b, data_eqb a b = true <-> a = b.
Proof. exact list_eqb_spec. Qed.

Lemma path_eqb_refl : forall p, path_eqb p p = true.
Proof. intro p. apply path_eqb_spec. reflexivity. Qed.

Lemma path_eq_dec : forall a b : path, {a = b} + {a <> b}.
Proof. intros a b. destruct (path_eqb a b) eqn:E; [left; apply path_eqb_spec; exact E|right]. intros ->. rewrite path_eqb_refl in E. discriminate. Qed.

Lemma lookup_update_same : forall s p n, lookup (update s p n) p = Some n.
Proof. intros. unfold lookup, update. apply (get_set_same path_eqb path_eqb_spec). Qed.

Lemma lookup_update_other : forall s p q n, q <> p -> lookup (update s p n) q = lookup s q.
Proof. intros. unfold lookup, update. apply (get_set_other path_eqb path_eqb_spec). assumption. Qed.

Lemma lookup_in : forall (s : list (path * node)) p n, lookup s p = Some n -> In (p, n) s.
Proof. intros s p n. unfold lookup. apply (get_some_in path_eqb path_eqb_spec). Qed.

Lemma in_lookup : forall (s : list (path * node)) p n, NoDup (keys s) -> In (p, n) s -> lookup s p = Some n.
Proof. intros s p n H1 H2. unfold lookup. apply (nodup_in_get path_eqb path_eqb_spec); assumption. Qed.

Lemma lookup_none_notin : forall (s : list (path * node)) p, lookup s p = None -> ~ In p (keys s).
Proof. intros s p. unfold lookup. apply (get_none_notin path_eqb path_eqb_spec). Qed.

Lemma notin_lookup_none : forall (s : list (path * node)) p, ~ In p (keys s) -> lookup s p = None.
Proof. intros s p. unfold lookup. apply (notin_get_none path_eqb path_eqb_spec). Qed.

Lemma in_keys : forall (s : list (path * node)) p n, In (p, n) s -> In p (keys s).
Proof. intros s p n H. unfold keys. apply in_map_iff. exists (p, n). split; [reflexivity|exact H]. Qed.

Lemma nodup_same_node : forall (T : list (path * node)) p n m, NoDup (keys T) -> In (p, n) T -> In (p, m) T -> n = m.
Proof.
  intros T p n m Hnd H1 H2. apply (in_lookup _ _ _ Hnd) in H1. apply (in_lookup _ _ _ Hnd) in H2. congruence.
Qed.

Lemma cons_neq : forall (x : name) (p : path), p <> x :: p.
Proof. intros x p H. apply (f_equal (@length name)) in H. cbn in H. lia. Qed.

Lemma parent_neq : forall p : path, p <> [] -> parent p <> p.
Proof. intros [|x p] H; [congruence|]. cbn. apply cons_neq. Qed.

(* ------------------------------------------------------------------ is_under *)

Lemma is_under_unfold : forall q p,
  is_under q p = path_eqb p q || match p with [] => false | _ :: p' => is_under q p' end.
Proof. intros q [|x p]; reflexivity. Qed.

Lemma is_under_refl : forall p, is_under p p = true.
Proof. intro p. rewrite is_under_unfold, path_eqb_refl. reflexivity. Qed.

Lemma is_under_cases : forall q p, is_under q p = true -> p = q \/ exists x p', p = x :: p' /\ is_under q p' = true.
Proof.
  intros q p H. rewrite is_under_unfold in H. destruct p as [|x p']; apply orb_true_iff in H; destruct H as [H|H].
  - left. apply path_eqb_spec. exact H.
  - discriminate.
  - left. apply path_eqb_spec. exact H.
  - right. exists x, p'. split; [reflexivity|exact H].
Qed.

Lemma is_under_cons : forall q x p, is_under q p = true -> is_under q (x :: p) = true.
Proof. intros q x p H. rewrite is_under_unfold, H. apply orb_true_r. Qed.

Lemma is_under_length : forall q p, is_under q p = true -> (length q <= length p)%nat.
Proof.
  intros q p. induction p as [|x p IH]; intro H; apply is_under_cases in H; destruct H as [->|[y [p' [E H]]]];
    try lia; try discriminate.
  injection E as -> ->. cbn. apply IH in H. lia.
Qed.

(* ------------------------------------------------------------------ effect of operations *)

Lemma apply_op_other : forall s op q, target op <> q -> lookup (apply_op s op) q = lookup s q.
Proof.
  intros s op q H. destruct op as [p|p|p|p d]; cbn in *.
  - destruct (lookup s p); [reflexivity|]. destruct (is_dir _); [|reflexivity]. apply lookup_update_other. congruence.
  - destruct (lookup s p); [reflexivity|]. destruct (is_dir _); [|reflexivity]. apply lookup_update_other. congruence.
  - destruct (lookup s p) as [[|old]|].
    + reflexivity.
    + apply lookup_update_other. congruence.
    + destruct (is_dir _); [|reflexivity]. apply lookup_update_other. congruence.
  - destruct (lookup s p) as [[|old]|]; try reflexivity. apply lookup_update_other. congruence.
Qed.

Lemma apply_nil : forall s, apply s [] = s.
Proof. reflexivity. Qed.

Lemma apply_cons : forall s op ops, apply s (op :: ops) = apply (apply_op s op) ops.
Proof. reflexivity. Qed.

Lemma apply_app : forall s a b, apply s (a ++ b) = apply (apply s a) b.
Proof. intros. unfold apply. apply fold_left_app. Qed.

Lemma apply_other : forall ops s q, Forall (fun op => target op <> q) ops -> lookup (apply s ops) q = lookup s q.
Proof.
  induction ops as [|op ops IH]; intros s q H; [reflexivity|].
  rewrite apply_cons. inversion H; subst. rewrite IH by assumption. apply apply_op_other. assumption.
Qed.

Lemma Forall_firstn : forall (A : Type) (P : A -> Prop) k l, Forall P l -> Forall P (firstn k l).
Proof.
  intros A P k. induction k as [|k IH]; intros l H; [constructor|].
  destruct l as [|x l]; [constructor|]. cbn. inversion H; subst. constructor; [assumption|apply IH; assumption].
Qed.

(* operations never change the kind of a node that exists *)
Lemma apply_op_kind : forall s op q m, lookup s q = Some m ->
  exists m', lookup (apply_op s op) q = Some m' /\ same_kind m m' = true.
Proof.
  intros s op q m H.
  assert (Hsame : exists m', lookup s q = Some m' /\ same_kind m m' = true) by (exists m; split; [exact H|destruct m; reflexivity]).
  destruct (path_eq_dec (target op) q) as [E|E]; [|rewrite apply_op_other by exact E; exact Hsame].
  destruct op as [p|p|p|p d]; cbn in E; subst p; cbn [apply_op]; rewrite H; try exact Hsame.
  - destruct m; [exact Hsame|]. exists (File []). split; [apply lookup_update_same|reflexivity].
  - destruct m; [exact Hsame|]. eexists. split; [apply lookup_update_same|reflexivity].
Qed.

Lemma apply_kind : forall ops s q m, lookup s q = Some m ->
  exists m', lookup (apply s ops) q = Some m' /\ same_kind m m' = true.
Proof.
  induction ops as [|op ops IH]; intros s q m H.
  - exists m. split; [exact H|destruct m; reflexivity].
  - rewrite apply_cons. destruct (apply_op_kind s op q m H) as [m1 [H1 K1]].
    destruct (IH _ _ _ H1) as [m2 [H2 K2]]. exists m2. split; [exact H2|].
    destruct m, m1, m2; cbn in *; congruence.
Qed.

(* ------------------------------------------------------------------ well-formed states are preserved *)

Lemma update_wf : forall s p n, fs_wf s -> p <> [] -> lookup s (parent p) = Some Dir ->
  (n = Dir \/ lookup s p <> Some Dir) -> fs_wf (update s p n).
Proof.
  intros s p n [H0 Hp] Hne Hpar Hk. split.
  - rewrite lookup_update_other by congruence. exact H0.
  - intros q m Hq. destruct (path_eq_dec q p) as [->|Hqp].
    + rewrite lookup_update_other by (apply parent_neq; exact Hne). exact Hpar.
    + rewrite lookup_update_other in Hq by exact Hqp. specialize (Hp _ _ Hq).
      destruct (path_eq_dec (parent q) p) as [E|E].
      * rewrite E in *. destruct Hk as [->|Hk]; [apply lookup_update_same|contradiction].
      * rewrite lookup_update_other by exact E. exact Hp.
Qed.

Lemma is_dir_true : forall o, is_dir o = true -> o = Some Dir.
Proof. intros [[|d]|]; cbn; congruence. Qed.

Lemma apply_op_wf : forall s op, fs_wf s -> fs_wf (apply_op s op).
Proof.
  intros s op Hwf. pose proof Hwf as [H0 Hp].
  assert (Hnil : forall p, lookup s p = None -> p <> []) by (intros p H ->; congruence).
  assert (Hnil' : forall p d, lookup s p = Some (File d) -> p <> []) by (intros p d H ->; congruence).
  destruct op as [p|p|p|p d]; cbn.
  - destruct (lookup s p) eqn:E; [exact Hwf|]. destruct (is_dir _) eqn:D; [|exact Hwf].
    apply update_wf; auto. apply is_dir_true. exact D.
  - destruct (lookup s p) eqn:E; [exact Hwf|]. destruct (is_dir _) eqn:D; [|exact Hwf].
    apply update_wf; auto. apply is_dir_true. exact D. right. congruence.
  - destruct (lookup s p) as [[|old]|] eqn:E; [exact Hwf| |].
    + apply update_wf; eauto. right. congruence.
    + destruct (is_dir _) eqn:D; [|exact Hwf]. apply update_wf; auto. apply is_dir_true. exact D. right. congruence.
  - destruct (lookup s p) as [[|old]|] eqn:E; try exact Hwf.
    apply update_wf; eauto. right. congruence.
Qed.

Lemma apply_wf : forall ops s, fs_wf s -> fs_wf (apply s ops).
Proof. induction ops as [|op ops IH]; intros s H; [exact H|]. rewrite apply_cons. apply IH. apply apply_op_wf. exact H. Qed.

Lemma wf_no_file_ancestor : forall s p, fs_wf s -> lookup s p = Some Dir -> forall x, file_ancestor s (x :: p) = false.
Proof.
  intros s p [H0 Hp]. induction p as [|y p IH]; intros H x; cbn.
  - rewrite H. reflexivity.
  - rewrite H. cbn. specialize (Hp _ _ H). cbn in Hp. specialize (IH Hp y). cbn in IH. exact IH.
Qed.

Lemma under_absent : forall s q p, fs_wf s -> lookup s q = None -> is_under q p = true -> lookup s p = None.
Proof.
  intros s q p [H0 Hp] Hq. induction p as [|x p IH]; intro Hu; apply is_under_cases in Hu;
    destruct Hu as [->|[y [p' [E Hu]]]]; try assumption; try discriminate.
  injection E as -> ->. specialize (IH Hu). destruct (lookup s (y :: p')) eqn:L; [|reflexivity].
  specialize (Hp _ _ L). cbn in Hp. congruence.
Qed.

(* ------------------------------------------------------------------ template order *)

Lemma ordered_dirs_disjoint : forall es dirs, ordered dirs es -> forall q, In q dirs -> ~ In q (keys es).
Proof.
  induction es as [|[p n] es IH]; intros dirs H q Hq; [intros []|].
  cbn in H. destruct H as [_ [_ [Hnd [_ Ho]]]]. cbn. intros [E|Hin].
  - subst. contradiction.
  - eapply IH; [exact Ho| |exact Hin]. destruct n; [right|]; exact Hq.
Qed.

Lemma ordered_nodup : forall es dirs, ordered dirs es -> NoDup (keys es).
Proof.
  induction es as [|[p n] es IH]; intros dirs H; [constructor|].
  cbn in H. destruct H as [_ [_ [_ [Hn Ho]]]]. cbn. constructor; [exact Hn|eapply IH; exact Ho].
Qed.

Lemma in_factory_part : forall T p n, In (p, n) (factory_part T) <-> In (p, n) T /\ is_under factoryp p = true.
Proof. intros. unfold factory_part. rewrite filter_In. reflexivity. Qed.

Lemma keys_factory_part : forall T p, In p (keys (factory_part T)) -> In p (keys T) /\ is_under factoryp p = true.
Proof.
  intros T p H. unfold keys in H. apply in_map_iff in H. destruct H as [[q n] [E H]]. cbn in E. subst q.
  apply in_factory_part in H. destruct H as [H1 H2]. split; [eapply in_keys; exact H1|exact H2].
Qed.

Lemma ordered_filter : forall f, f <> [] -> forall es dirs dirs',
  ordered dirs es ->
  (forall q, In q dirs -> is_under f q = true -> In q dirs') ->
  (forall q, In q dirs' -> q = parent f \/ In q dirs) ->
  In (parent f) dirs' ->
  ordered dirs' (filter (fun e => is_under f (fst e)) es).
Proof.
  intros f Hf. induction es as [|[p n] es IH]; intros dirs dirs' Ho H1 H2 H3; [exact I|].
  cbn in Ho. destruct Ho as [Hp [Hpar [Hnd [Hnk Ho]]]]. cbn [filter fst].
  destruct (is_under f p) eqn:U.
  - cbn. repeat split.
    + exact Hp.
    + apply is_under_cases in U. destruct U as [->|[x [p' [-> U]]]]; [exact H3|]. cbn in *. apply H1; assumption.
    + intro Hin. apply H2 in Hin. destruct Hin as [E|Hin]; [|contradiction].
      apply is_under_length in U. rewrite E in U. destruct f; [congruence|]. cbn in U. lia.
    + intro Hin. apply Hnk. unfold keys in *. apply in_map_iff in Hin. destruct Hin as [e [E Hin]].
      apply filter_In in Hin. apply in_map_iff. exists e. tauto.
    + apply (IH _ _ Ho).
      * intros q Hq Uq. destruct n; [|apply H1; assumption]. destruct Hq as [<-|Hq]; [left; reflexivity|right; apply H1; assumption].
      * intros q Hq. destruct n; [|apply H2; assumption]. destruct Hq as [<-|Hq]; [right; left; reflexivity|].
        apply H2 in Hq. destruct Hq; [left; assumption|right; right; assumption].
      * destruct n; [right|]; exact H3.
  - apply (IH _ _ Ho).
    + intros q Hq Uq. destruct n; [|apply H1; assumption]. destruct Hq as [<-|Hq]; [congruence|apply H1; assumption].
    + intros q Hq. apply H2 in Hq. destruct Hq as [Hq|Hq]; [left; exact Hq|right]. destruct n; [right|]; exact Hq.
    + exact H3.
Qed.

Lemma ordered_factory_part : forall T, ordered [[]] T -> ordered [cfgp] (factory_part T).
Proof.
  intros T H. unfold factory_part. apply (ordered_filter factoryp ltac:(discriminate) T [[]] [cfgp] H).
  - intros q [<-|[]] U. discriminate.
  - intros q [<-|[]]. left. reflexivity.
  - left. reflexivity.
Qed.

(* ------------------------------------------------------------------ every operation of a run is a template operation *)

Lemma op_for_mono : forall T T' op, (forall e, In e T -> In e T') -> op_for T op -> op_for T' op.
Proof.
  intros T T' op H. destruct op; cbn; [apply H|intros [d' Hd]; exists d'; apply H; exact Hd..].
Qed.

Lemma fresh_step_for : forall s e, Forall (op_for [e]) (fst (fresh_step s e)).
Proof.
  intros s [p [|d]]; cbn.
  - destruct (lookup s p); [constructor|]. destruct (is_dir _); cbn; repeat constructor.
  - assert (F : Forall (op_for [(p, File d)]) [Create p; Write p d]) by (repeat constructor; exists d; left; reflexivity).
    destruct (lookup s p) as [[|old]|]; cbn; [constructor|exact F|]. destruct (is_dir _); cbn; [exact F|constructor].
Qed.

Lemma factory_step_for : forall s e, Forall (op_for [e]) (fst (factory_step s e)).
Proof.
  intros s [p [|d]]; cbn.
  - destruct (stat s p); cbn; try constructor. destruct (is_dir _); cbn; repeat constructor.
  - assert (F : Forall (op_for [(p, File d)]) [Create p; Write p d]) by (repeat constructor; exists d; left; reflexivity).
    assert (F' : Forall (op_for [(p, File d)]) [Truncate p; Write p d]) by (repeat constructor; exists d; left; reflexivity).
    destruct (stat s p) as [[|old]| |]; cbn; try constructor.
    + destruct (data_eqb old d); cbn; [constructor|exact F'].
    + destruct (is_dir _); cbn; [exact F|constructor].
Qed.

Lemma walk_for : forall step, (forall s e, Forall (op_for [e]) (fst (step s e))) ->
  forall es s, Forall (op_for es) (fst (walk step es s)).
Proof.
  intros step Hstep. induction es as [|e es IH]; intro s; cbn; [constructor|].
  specialize (Hstep s e). destruct (step s e) as [ops ok]. cbn in Hstep.
  assert (H1 : Forall (op_for (e :: es)) ops).
  { eapply Forall_impl; [|exact Hstep]. intros op. apply op_for_mono. intros e' [<-|[]]. left. reflexivity. }
  destruct ok; [|exact H1].
  specialize (IH (apply s ops)). destruct (walk step es (apply s ops)) as [ops' r]. cbn in *.
  apply Forall_app. split; [exact H1|]. eapply Forall_impl; [|exact IH]. intros op. apply op_for_mono. intros e' He. right. exact He.
Qed.

Lemma op_for_target : forall T op, op_for T op -> In (target op) (keys T).
Proof. intros T op. destruct op; cbn; [apply in_keys|intros [d' Hd]; eapply in_keys; exact Hd..]. Qed.

Lemma blacklist_step_for : forall T s, (exists d, In (blp, File d) T) -> Forall (op_for T) (fst (blacklist_step T s)).
Proof.
  intros T s [d Hd]. unfold blacklist_step. destruct (stat s blp); try constructor.
  destruct (is_dir _); [|constructor].
  destruct (lookup T blp) as [[|d']|] eqn:L; cbn; repeat constructor; try (exists d; exact Hd).
Qed.

Lemma upkeep_for : forall T s, (exists d, In (blp, File d) T) -> Forall (op_for T) (fst (upkeep T s)).
Proof.
  intros T s Hb. unfold upkeep. destruct (stat s cfgp); [|destruct T; [constructor|apply walk_for; exact fresh_step_for]|constructor].
  destruct (factory_part T) as [|e Tf] eqn:E; [constructor|]. rewrite <- E.
  pose proof (walk_for factory_step factory_step_for (factory_part T) s) as H.
  destruct (walk factory_step (factory_part T) s) as [ops r]. cbn in H.
  assert (H' : Forall (op_for T) ops).
  { eapply Forall_impl; [|exact H]. intros op. apply op_for_mono. intros [p0 n0] He. apply in_factory_part in He. tauto. }
  destruct r; try exact H'.
  pose proof (blacklist_step_for T (apply s ops) Hb) as H2. destruct (blacklist_step T (apply s ops)) as [ops2 r2].
  cbn in *. apply Forall_app. split; assumption.
Qed.

(* ------------------------------------------------------------------ type consistency is preserved *)

Lemma apply_op_tc : forall T s op, NoDup (keys T) -> type_consistent T s -> op_for T op -> type_consistent T (apply_op s op).
Proof.
  intros T s op Hnd Htc Hop p n m Hin Hl.
  destruct (path_eq_dec (target op) p) as [E|E]; [|rewrite apply_op_other in Hl by exact E; eapply Htc; eassumption].
  destruct op as [q|q|q|q d]; cbn in E; subst q; cbn [apply_op op_for] in *.
  - destruct (lookup s p) eqn:L; [eapply Htc; eassumption|]. destruct (is_dir _); [|congruence].
    rewrite lookup_update_same in Hl. injection Hl as <-. rewrite (nodup_same_node _ _ _ _ Hnd Hin Hop). reflexivity.
  - destruct Hop as [d Hd]. rewrite (nodup_same_node _ _ _ _ Hnd Hin Hd).
    destruct (lookup s p) eqn:L; [rewrite <- (nodup_same_node _ _ _ _ Hnd Hin Hd); eapply Htc; eassumption|].
    destruct (is_dir _); [|congruence]. rewrite lookup_update_same in Hl. injection Hl as <-. reflexivity.
  - destruct Hop as [d Hd]. rewrite (nodup_same_node _ _ _ _ Hnd Hin Hd).
    destruct (lookup s p) as [[|old]|] eqn:L.
    + rewrite <- (nodup_same_node _ _ _ _ Hnd Hin Hd); eapply Htc; eassumption.
    + rewrite lookup_update_same in Hl. injection Hl as <-. reflexivity.
    + destruct (is_dir _); [|congruence]. rewrite lookup_update_same in Hl. injection Hl as <-. reflexivity.
  - destruct Hop as [d' Hd]. rewrite (nodup_same_node _ _ _ _ Hnd Hin Hd).
    destruct (lookup s p) as [[|old]|] eqn:L.
    + rewrite <- (nodup_same_node _ _ _ _ Hnd Hin Hd); eapply Htc; eassumption.
    + rewrite lookup_update_same in Hl. injection Hl as <-. reflexivity.
    + congruence.
Qed.

Lemma apply_tc : forall T ops s, NoDup (keys T) -> type_consistent T s -> Forall (op_for T) ops -> type_consistent T (apply s ops).
Proof.
  intros T ops. induction ops as [|op ops IH]; intros s Hnd Htc Hf; [exact Htc|].
  rewrite apply_cons. inversion Hf; subst. apply IH; [exact Hnd| |assumption]. apply apply_op_tc; assumption.
Qed.

(* ------------------------------------------------------------------ one walk step restores its entry *)

Definition pre_absent (s : fs) (p : path) (n : node) : Prop := lookup s p = None.
Definition pre_kind (s : fs) (p : path) (n : node) : Prop := forall m, lookup s p = Some m -> same_kind n m = true.

Definition step_ok (pre : fs -> path -> node -> Prop) (st : fs -> path * node -> list fsop * bool) : Prop :=
  forall s p n, fs_wf s -> p <> [] -> lookup s (parent p) = Some Dir -> pre s p n ->
    exists ops, st s (p, n) = (ops, true) /\ lookup (apply s ops) p = Some n /\ Forall (fun op => target op = p) ops.

Lemma overwrite_nil : forall d, overwrite d [] = d.
Proof. intro d. unfold overwrite. rewrite skipn_nil. apply app_nil_r. Qed.

Lemma create_write : forall s p d, lookup s p = None -> lookup s (parent p) = Some Dir ->
  lookup (apply s [Create p; Write p d]) p = Some (File d).
Proof.
  intros s p d H1 H2. cbn [apply fold_left apply_op]. rewrite H1, H2. cbn [is_dir].
  rewrite lookup_update_same. rewrite lookup_update_same. rewrite overwrite_nil. reflexivity.
Qed.

Lemma truncate_write : forall s p d old, lookup s p = Some (File old) ->
  lookup (apply s [Truncate p; Write p d]) p = Some (File d).
Proof.
  intros s p d old H1. cbn [apply fold_left apply_op]. rewrite H1.
  rewrite lookup_update_same. rewrite lookup_update_same. rewrite overwrite_nil. reflexivity.
Qed.

Lemma mkdir_new : forall s p, lookup s p = None -> lookup s (parent p) = Some Dir ->
  lookup (apply s [Mkdir p]) p = Some Dir.
Proof. intros s p H1 H2. cbn [apply fold_left apply_op]. rewrite H1, H2. cbn [is_dir]. apply lookup_update_same. Qed.

Lemma fresh_step_ok : step_ok pre_absent fresh_step.
Proof.
  intros s p n Hwf Hne Hpar Hpre. unfold pre_absent in Hpre. destruct n as [|d]; cbn [fresh_step]; rewrite Hpre, Hpar; cbn [is_dir].
  - eexists. split; [reflexivity|]. split; [apply mkdir_new; assumption|repeat constructor].
  - eexists. split; [reflexivity|]. split; [apply create_write; assumption|repeat constructor].
Qed.

Lemma stat_absent : forall s p, fs_wf s -> p <> [] -> lookup s (parent p) = Some Dir -> lookup s p = None -> stat s p = SNoEnt.
Proof.
  intros s p Hwf Hne Hpar Hl. unfold stat. rewrite Hl. destruct p as [|x p]; [congruence|].
  rewrite (wf_no_file_ancestor s p Hwf Hpar x). reflexivity.
Qed.

Lemma factory_step_ok : step_ok pre_kind factory_step.
Proof.
  intros s p n Hwf Hne Hpar Hpre. unfold pre_kind in Hpre. destruct (lookup s p) as [m|] eqn:L.
  - specialize (Hpre m eq_refl). assert (Hst : stat s p = SNode m) by (unfold stat; rewrite L; reflexivity).
    destruct n as [|d]; destruct m as [|old]; try discriminate; cbn [factory_step]; rewrite Hst.
    + exists []. split; [reflexivity|]. split; [exact L|constructor].
    + destruct (data_eqb old d) eqn:E.
      * apply data_eqb_spec in E. subst old. exists []. split; [reflexivity|]. split; [exact L|constructor].
      * eexists. split; [reflexivity|]. split; [eapply truncate_write; exact L|repeat constructor].
  - pose proof (stat_absent s p Hwf Hne Hpar L) as Hst.
    destruct n as [|d]; cbn [factory_step]; rewrite Hst, Hpar; cbn [is_dir].
    + eexists. split; [reflexivity|]. split; [apply mkdir_new; assumption|repeat constructor].
    + eexists. split; [reflexivity|]. split; [apply create_write; assumption|repeat constructor].
Qed.

Lemma targets_other : forall ops (p q : path), Forall (fun op => target op = p) ops -> q <> p -> Forall (fun op => target op <> q) ops.
Proof. intros ops p q H Hne. eapply Forall_impl; [|exact H]. cbn. intros op E. congruence. Qed.

Lemma targets_notin : forall ops (ks : list path) q, Forall (fun op => In (target op) ks) ops -> ~ In q ks -> Forall (fun op => target op <> q) ops.
Proof. intros ops ks q H Hn. eapply Forall_impl; [|exact H]. cbn. intros op Hin E. subst. contradiction. Qed.

Lemma walk_cons : forall st e es s ops, st s e = (ops, true) ->
  walk st (e :: es) s = let (ops', r) := walk st es (apply s ops) in (ops ++ ops', r).
Proof. intros st e es s ops H. cbn [walk]. rewrite H. reflexivity. Qed.

(* the walk restores every entry, provided each entry satisfies the step's precondition when it is reached *)
Lemma walk_restores : forall pre st, step_ok pre st ->
  (forall s s' p n, lookup s' p = lookup s p -> pre s p n -> pre s' p n) ->
  forall es dirs s, ordered dirs es -> fs_wf s ->
    (forall q, In q dirs -> lookup s q = Some Dir) ->
    (forall p n, In (p, n) es -> pre s p n) ->
    exists ops, walk st es s = (ops, Ok) /\
                (forall p n, In (p, n) es -> lookup (apply s ops) p = Some n) /\
                Forall (fun op => In (target op) (keys es)) ops.
Proof.
  intros pre st Hst Hloc. induction es as [|[p n] es IH]; intros dirs s Ho Hwf Hd Hpre.
  - exists []. split; [reflexivity|]. split; [intros p n []|constructor].
  - cbn in Ho. destruct Ho as [Hne [Hpar [Hnd [Hnk Ho]]]].
    destruct (Hst s p n Hwf Hne (Hd _ Hpar) (Hpre p n (or_introl eq_refl))) as [ops1 [E1 [L1 T1]]].
    set (s1 := apply s ops1) in *.
    assert (Hwf1 : fs_wf s1) by (apply apply_wf; exact Hwf).
    assert (Hoth : forall q, q <> p -> lookup s1 q = lookup s q).
    { intros q Hq. apply apply_other. eapply targets_other; eassumption. }
    destruct (IH _ s1 Ho Hwf1) as [ops2 [E2 [L2 T2]]].
    + intros q Hq. destruct n as [|d].
      * destruct Hq as [<-|Hq]; [exact L1|]. rewrite Hoth; [apply Hd; exact Hq|]. intros ->. contradiction.
      * rewrite Hoth; [apply Hd; exact Hq|]. intros ->. contradiction.
    + intros q m Hin. eapply Hloc; [|apply Hpre; right; exact Hin]. apply Hoth. intros ->. apply Hnk. eapply in_keys. exact Hin.
    + exists (ops1 ++ ops2). split; [|split].
      * rewrite (walk_cons _ _ _ _ _ E1). fold s1. rewrite E2. reflexivity.
      * intros q m [E|Hin].
        -- injection E as <- <-. rewrite apply_app. fold s1. rewrite apply_other; [exact L1|]. eapply targets_notin; eassumption.
        -- rewrite apply_app. apply L2. exact Hin.
      * apply Forall_app. split.
        -- eapply Forall_impl; [|exact T1]. cbn. intros op ->. left. reflexivity.
        -- eapply Forall_impl; [|exact T2]. cbn. intros op H. right. exact H.
Qed.

(* a tree that already holds the template is left alone *)
Lemma walk_intact : forall es s, (forall p n, In (p, n) es -> lookup s p = Some n) -> walk factory_step es s = ([], Ok).
Proof.
  induction es as [|[p n] es IH]; intros s H; [reflexivity|].
  assert (E : factory_step s (p, n) = ([], true)).
  { pose proof (H p n (or_introl eq_refl)) as L. unfold factory_step, stat. rewrite L. destruct n as [|d]; [reflexivity|].
    rewrite (proj2 (data_eqb_spec d d) eq_refl). reflexivity. }
  rewrite (walk_cons _ _ _ _ _ E). rewrite apply_nil. rewrite IH; [reflexivity|]. intros q m Hin. apply H. right. exact Hin.
Qed.

(* ------------------------------------------------------------------ the complete run *)

Lemma wf_template_nodup : forall T, wf_template T -> NoDup (keys T).
Proof. intros T [H _]. eapply ordered_nodup. exact H. Qed.

Lemma blp_not_factory : is_under factoryp blp = false.
Proof. reflexivity. Qed.

Lemma cfgp_not_factory : is_under factoryp cfgp = false.
Proof. reflexivity. Qed.

Lemma nil_not_factory : is_under factoryp [] = false.
Proof. reflexivity. Qed.

(* present branch *)
Lemma upkeep_present : forall T s m, wf_template T -> fs_wf s -> type_consistent T s -> lookup s cfgp = Some m ->
  exists ops1 ops2,
    upkeep T s = (ops1 ++ ops2, Ok) /\
    Forall (fun op => In (target op) (keys (factory_part T))) ops1 /\
    (forall p n, In (p, n) (factory_part T) -> lookup (apply s ops1) p = Some n) /\
    ((exists n, lookup s blp = Some n) /\ ops2 = [] \/
     lookup s blp = None /\ exists d, In (blp, File d) T /\ ops2 = [Create blp; Write blp d] /\
                                     lookup (apply (apply s ops1) ops2) blp = Some (File d)).
Proof.
  intros T s m HT Hwf Htc Hc. pose proof (wf_template_nodup T HT) as Hnd.
  destruct HT as [Ho [Hu [Hcfg [Hfac [d Hbl]]]]].
  assert (Hm : m = Dir) by (specialize (Htc _ _ _ Hcfg Hc); destruct m; [reflexivity|discriminate]). subst m.
  destruct (walk_restores pre_kind factory_step factory_step_ok ltac:(unfold pre_kind; intros ? ? ? ? E H; rewrite E; exact H)
              (factory_part T) [cfgp] s (ordered_factory_part T Ho) Hwf) as [ops1 [E1 [L1 T1]]].
  { intros q [<-|[]]. exact Hc. }
  { intros p n Hin m Hl. apply in_factory_part in Hin. eapply Htc; [apply Hin|exact Hl]. }
  set (s1 := apply s ops1) in *.
  assert (Hwf1 : fs_wf s1) by (apply apply_wf; exact Hwf).
  assert (Hkeep : forall q, is_under factoryp q = false -> lookup s1 q = lookup s q).
  { intros q Hq. apply apply_other. eapply targets_notin; [exact T1|]. intro Hin. apply keys_factory_part in Hin. destruct Hin. congruence. }
  assert (Hne : factory_part T <> []).
  { intro E. assert (Hin : In (factoryp, Dir) (factory_part T)) by (apply in_factory_part; split; [exact Hfac|reflexivity]). rewrite E in Hin. exact Hin. }
  assert (Hup : forall ops2 r2, blacklist_step T s1 = (ops2, r2) -> upkeep T s = (ops1 ++ ops2, r2)).
  { intros ops2 r2 E2. unfold upkeep, stat. rewrite Hc. destruct (factory_part T) as [|e Tf] eqn:EF; [congruence|].
    rewrite E1. fold s1. rewrite E2. reflexivity. }
  destruct (lookup s blp) as [nb|] eqn:Lb.
  - exists ops1, []. split; [|split; [exact T1|split; [exact L1|left; split; [eexists; reflexivity|reflexivity]]]].
    apply Hup. fold s1. unfold blacklist_step, stat. rewrite (Hkeep blp blp_not_factory), Lb. reflexivity.
  - exists ops1, [Create blp; Write blp d]. split; [|split; [exact T1|split; [exact L1|right]]].
    + apply Hup. fold s1. unfold blacklist_step.
      assert (Lb1 : lookup s1 blp = None) by (rewrite (Hkeep blp blp_not_factory); exact Lb).
      assert (Lc1 : lookup s1 (parent blp) = Some Dir) by (change (parent blp) with cfgp; rewrite (Hkeep cfgp cfgp_not_factory); exact Hc).
      rewrite (stat_absent s1 blp Hwf1 ltac:(discriminate) Lc1 Lb1). rewrite Lc1. cbn [is_dir].
      rewrite (in_lookup T blp (File d) Hnd Hbl). reflexivity.
    + split; [reflexivity|]. exists d. split; [exact Hbl|]. split; [reflexivity|].
      apply create_write; fold s1.
      * rewrite (Hkeep blp blp_not_factory). exact Lb.
      * change (parent blp) with cfgp. rewrite (Hkeep cfgp cfgp_not_factory). exact Hc.
Qed.

(* absent branch *)
Lemma upkeep_fresh : forall T s, wf_template T -> fs_wf s -> lookup s cfgp = None ->
  exists ops, upkeep T s = (ops, Ok) /\
    (forall p n, In (p, n) T -> lookup (apply s ops) p = Some n) /\
    Forall (fun op => In (target op) (keys T)) ops.
Proof.
  intros T s HT Hwf Hc. destruct HT as [Ho [Hu [Hcfg _]]].
  destruct (walk_restores pre_absent fresh_step fresh_step_ok ltac:(unfold pre_absent; intros ? ? ? ? E H; rewrite E; exact H)
              T [[]] s Ho Hwf) as [ops [E [L Tg]]].
  - intros q [<-|[]]. apply Hwf.
  - intros p n Hin. unfold pre_absent. eapply under_absent; [exact Hwf|exact Hc|].
    rewrite Forall_forall in Hu. apply Hu. eapply in_keys. exact Hin.
  - exists ops. split; [|split; assumption].
    assert (Hst : stat s cfgp = SNoEnt) by (apply stat_absent; [exact Hwf|discriminate|apply Hwf|exact Hc]).
    unfold upkeep. rewrite Hst. destruct T; [contradiction|exact E].
Qed.

Lemma blacklist_step_targets : forall T s,
  Forall (fun op => target op = blp) (fst (blacklist_step T s)) /\
  (fst (blacklist_step T s) <> [] -> lookup s blp = None).
Proof.
  intros T s. unfold blacklist_step, stat. destruct (lookup s blp) eqn:L.
  - split; [constructor|intro H; exfalso; apply H; reflexivity].
  - split; [|reflexivity]. destruct (file_ancestor s blp); [constructor|].
    destruct (is_dir _); [|constructor]. destruct (lookup T blp) as [[|d]|]; cbn; repeat constructor.
Qed.

(* which paths a run can touch, for ANY state of the tree (no type consistency needed) *)
Lemma upkeep_targets_safe : forall T s, wf_template T -> fs_wf s ->
  forall p n, lookup s p = Some n -> is_under factoryp p = false -> Forall (fun op => target op <> p) (fst (upkeep T s)).
Proof.
  intros T s HT Hwf p n Hl Hu. destruct HT as [Ho [Hund [Hcfg [Hfac Hbl]]]].
  unfold upkeep, stat. destruct (lookup s cfgp) as [m|] eqn:Lc.
  - destruct (factory_part T) as [|e Tf] eqn:E; [constructor|]. rewrite <- E.
    pose proof (walk_for factory_step factory_step_for (factory_part T) s) as H.
    destruct (walk factory_step (factory_part T) s) as [ops r]. cbn in H.
    assert (H1 : Forall (fun op => is_under factoryp (target op) = true) ops).
    { eapply Forall_impl; [|exact H]. intros op Hop. apply op_for_target in Hop. apply keys_factory_part in Hop. tauto. }
    assert (H1' : Forall (fun op => target op <> p) ops).
    { eapply Forall_impl; [|exact H1]. cbn. intros op Hop E'. congruence. }
    destruct r; try exact H1'.
    pose proof (blacklist_step_targets T (apply s ops)) as [H2 H3].
    destruct (blacklist_step T (apply s ops)) as [ops2 r2]. cbn in *.
    apply Forall_app. split; [exact H1'|].
    destruct ops2 as [|o ops2]; [constructor|].
    assert (L : lookup (apply s ops) blp = None) by (apply H3; discriminate).
    rewrite apply_other in L.
    + eapply Forall_impl; [|exact H2]. cbn. intros op Ea Eb. rewrite Ea in Eb. subst p. congruence.
    + eapply Forall_impl; [|exact H1]. cbn. intros op Hop E'. rewrite E' in Hop. discriminate.
  - destruct (file_ancestor s cfgp); [constructor|]. destruct T as [|e T']; [constructor|].
    pose proof (walk_for fresh_step fresh_step_for (e :: T') s) as H.
    eapply Forall_impl; [|exact H]. cbn beta. intros op Hop E'. apply op_for_target in Hop.
    rewrite Forall_forall in Hund. apply Hund in Hop. rewrite E' in Hop.
    rewrite (under_absent s cfgp p Hwf Lc Hop) in Hl. discriminate.
Qed.

Theorem user_untouched : forall T s, wf_template T -> fs_wf s ->
  forall k,
    (forall p n, lookup s p = Some n -> is_under factoryp p = false ->
                 lookup (apply s (firstn k (fst (upkeep T s)))) p = Some n) /\
    (forall p, ~ In p (keys T) -> lookup (apply s (firstn k (fst (upkeep T s)))) p = lookup s p).
Proof.
  intros T s HT Hwf k. split.
  - intros p n Hl Hu. rewrite apply_other; [exact Hl|]. apply Forall_firstn. eapply upkeep_targets_safe; eassumption.
  - intros p Hn. apply apply_other. apply Forall_firstn.
    destruct HT as [_ [_ [_ [_ Hbl]]]]. eapply targets_notin; [|exact Hn].
    eapply Forall_impl; [|apply upkeep_for; exact Hbl]. intros op. apply op_for_target.
Qed.

(* everything a complete run guarantees on a well-formed, type-consistent tree *)
Lemma upkeep_total : forall T s, wf_template T -> fs_wf s -> type_consistent T s ->
  snd (upkeep T s) = Ok /\
  (forall p n, In (p, n) T -> is_under factoryp p = true -> lookup (run T s) p = Some n) /\
  (lookup s blp = None -> lookup (run T s) blp = lookup T blp) /\
  lookup (run T s) cfgp = Some Dir /\
  (exists n, lookup (run T s) blp = Some n).
Proof.
  intros T s HT Hwf Htc. pose proof (wf_template_nodup T HT) as Hnd. unfold run.
  destruct (lookup s cfgp) as [m|] eqn:Lc.
  - destruct (upkeep_present T s m HT Hwf Htc Lc) as [ops1 [ops2 [E [T1 [L1 Hb]]]]]. rewrite E. cbn [fst snd].
    assert (Hm : m = Dir).
    { destruct HT as [_ [_ [Hcfg _]]]. specialize (Htc _ _ _ Hcfg Lc). destruct m; [reflexivity|discriminate]. }
    subst m.
    assert (T2 : Forall (fun op => target op = blp) ops2).
    { destruct Hb as [[_ ->]|[_ [d [_ [-> _]]]]]; repeat constructor. }
    assert (Hc1 : lookup (apply s ops1) cfgp = Some Dir).
    { rewrite apply_other; [exact Lc|]. eapply targets_notin; [exact T1|]. intro Hin. apply keys_factory_part in Hin. destruct Hin. discriminate. }
    assert (Hb1 : lookup (apply s ops1) blp = lookup s blp).
    { apply apply_other. eapply targets_notin; [exact T1|]. intro Hin. apply keys_factory_part in Hin. destruct Hin. discriminate. }
    rewrite apply_app. split; [reflexivity|]. split; [|split; [|split]].
    + intros p n Hin Hu. rewrite apply_other; [apply L1; apply in_factory_part; tauto|].
      eapply targets_other; [exact T2|]. intros ->. discriminate.
    + intro Lb. destruct Hb as [[[n Hn] _]|[_ [d [Hd [_ Hfin]]]]]; [congruence|].
      rewrite Hfin. symmetry. apply in_lookup; assumption.
    + rewrite apply_other; [exact Hc1|]. eapply targets_other; [exact T2|]. discriminate.
    + destruct Hb as [[[n Hn] ->]|[_ [d [_ [_ Hfin]]]]]; [|eexists; exact Hfin].
      exists n. rewrite apply_nil, Hb1. exact Hn.
  - destruct (upkeep_fresh T s HT Hwf Lc) as [ops [E [L Tg]]]. rewrite E. cbn [fst snd].
    destruct HT as [_ [_ [Hcfg [_ [d Hd]]]]].
    split; [reflexivity|]. split; [|split; [|split]].
    + intros p n Hin _. apply L. exact Hin.
    + intros _. rewrite (L _ _ Hd). symmetry. apply in_lookup; assumption.
    + apply L. exact Hcfg.
    + eexists. apply L. exact Hd.
Qed.

Theorem factory_restored : forall T s, wf_template T -> fs_wf s -> type_consistent T s ->
  snd (upkeep T s) = Ok /\
  forall p n, In (p, n) T -> is_under factoryp p = true -> lookup (run T s) p = Some n.
Proof. intros T s HT Hwf Htc. destruct (upkeep_total T s HT Hwf Htc) as [H1 [H2 _]]. split; assumption. Qed.

Theorem blacklist_rule : forall T s, wf_template T -> fs_wf s -> type_consistent T s ->
  (lookup s blp = None -> exists d, In (blp, File d) T /\ lookup (run T s) blp = Some (File d)) /\
  (forall n, lookup s blp = Some n ->
     Forall (fun op => target op <> blp) (fst (upkeep T s)) /\ forall k, lookup (apply s (firstn k (fst (upkeep T s)))) blp = Some n).
Proof.
  intros T s HT Hwf Htc. split.
  - intro Lb. destruct (upkeep_total T s HT Hwf Htc) as [_ [_ [H3 _]]]. specialize (H3 Lb).
    pose proof (wf_template_nodup T HT) as Hnd. destruct HT as [_ [_ [_ [_ [d Hd]]]]]. exists d. split; [exact Hd|].
    rewrite H3. apply in_lookup; assumption.
  - intros n Lb. split.
    + eapply upkeep_targets_safe; try eassumption. reflexivity.
    + intro k. apply (proj1 (user_untouched T s HT Hwf k)); [exact Lb|reflexivity].
Qed.

Theorem fresh_tree : forall T s, wf_template T -> fs_wf s -> lookup s cfgp = None ->
  snd (upkeep T s) = Ok /\
  forall p, lookup (run T s) p = match lookup T p with Some n => Some n | None => lookup s p end.
Proof.
  intros T s HT Hwf Lc. pose proof (wf_template_nodup T HT) as Hnd.
  destruct (upkeep_fresh T s HT Hwf Lc) as [ops [E [L Tg]]]. unfold run. rewrite E. cbn [fst snd].
  split; [reflexivity|]. intro p. destruct (lookup T p) as [n|] eqn:LT.
  - apply L. apply lookup_in. exact LT.
  - apply apply_other. eapply targets_notin; [exact Tg|]. apply lookup_none_notin. exact LT.
Qed.

(* a tree in which cfg and the blacklist exist and every factory entry holds its template: nothing to do *)
Lemma upkeep_noop : forall T s, In (factoryp, Dir) T -> (exists m, lookup s cfgp = Some m) -> (exists n, lookup s blp = Some n) ->
  (forall p n, In (p, n) T -> is_under factoryp p = true -> lookup s p = Some n) ->
  upkeep T s = ([], Ok).
Proof.
  intros T s Hfac [m Lc] [nb Lb] H. unfold upkeep, stat. rewrite Lc.
  destruct (factory_part T) as [|e Tf] eqn:E.
  - exfalso. assert (Hin : In (factoryp, Dir) (factory_part T)) by (apply in_factory_part; split; [exact Hfac|reflexivity]).
    rewrite E in Hin. exact Hin.
  - rewrite <- E. rewrite walk_intact.
    + rewrite apply_nil. unfold blacklist_step, stat. rewrite Lb. reflexivity.
    + intros p n Hin. apply in_factory_part in Hin. apply H; tauto.
Qed.

Theorem idempotent : forall T s, wf_template T -> fs_wf s -> type_consistent T s ->
  upkeep T (run T s) = ([], Ok).
Proof.
  intros T s HT Hwf Htc. destruct (upkeep_total T s HT Hwf Htc) as [_ [H2 [_ [H4 H5]]]].
  apply upkeep_noop; [apply HT|eexists; exact H4|exact H5|exact H2].
Qed.

(* states reachable by template operations stay inside the domain *)
Lemma reachable_domain : forall T s ops, wf_template T -> fs_wf s -> type_consistent T s -> Forall (op_for T) ops ->
  fs_wf (apply s ops) /\ type_consistent T (apply s ops).
Proof.
  intros T s ops HT Hwf Htc Hf. split; [apply apply_wf; exact Hwf|]. apply apply_tc; [apply wf_template_nodup; exact HT|exact Htc|exact Hf].
Qed.

Definition crash_prefix (ops crash : list fsop) : Prop :=
  exists k, crash = firstn k ops \/
            exists p d j, nth_error ops k = Some (Write p d) /\ crash = firstn k ops ++ [Write p (firstn j d)].

Lemma crash_prefix_for : forall T ops crash, Forall (op_for T) ops -> crash_prefix ops crash -> Forall (op_for T) crash.
Proof.
  intros T ops crash Hf [k [->|[p [d [j [Hn ->]]]]]].
  - apply Forall_firstn. exact Hf.
  - apply Forall_app. split; [apply Forall_firstn; exact Hf|]. constructor; [|constructor].
    apply nth_error_In in Hn. rewrite Forall_forall in Hf. apply Hf in Hn. exact Hn.
Qed.

Lemma crash_prefix_targets : forall ops crash (P : path -> Prop), Forall (fun op => P (target op)) ops -> crash_prefix ops crash ->
  Forall (fun op => P (target op)) crash.
Proof.
  intros ops crash P Hf [k [->|[p [d [j [Hn ->]]]]]].
  - apply Forall_firstn. exact Hf.
  - apply Forall_app. split; [apply Forall_firstn; exact Hf|]. constructor; [|constructor].
    apply nth_error_In in Hn. rewrite Forall_forall in Hf. apply Hf in Hn. exact Hn.
Qed.

Theorem crash_recovery : forall T s, wf_template T -> fs_wf s -> type_consistent T s ->
  forall crash, crash_prefix (fst (upkeep T s)) crash ->
    let s' := apply s crash in
    snd (upkeep T s') = Ok /\
    (forall p n, In (p, n) T -> is_under factoryp p = true -> lookup (run T s') p = Some n) /\
    (forall p n, lookup s p = Some n -> is_under factoryp p = false -> lookup (run T s') p = Some n) /\
    upkeep T (run T s') = ([], Ok).
Proof.
  intros T s HT Hwf Htc crash Hc s'.
  assert (Hb : exists d, In (blp, File d) T) by apply HT.
  pose proof (crash_prefix_for T _ _ (upkeep_for T s Hb) Hc) as Hf.
  destruct (reachable_domain T s crash HT Hwf Htc Hf) as [Hwf' Htc']. fold s' in Hwf', Htc'.
  destruct (upkeep_total T s' HT Hwf' Htc') as [H1 [H2 _]].
  split; [exact H1|]. split; [exact H2|]. split; [|apply idempotent; assumption].
  intros p n Hl Hu.
  assert (Hl' : lookup s' p = Some n).
  { unfold s'. rewrite apply_other; [exact Hl|].
    apply (crash_prefix_targets (fst (upkeep T s)) crash (fun q => q <> p)); [|exact Hc]. eapply upkeep_targets_safe; eassumption. }
  pose proof (proj1 (user_untouched T s' HT Hwf' (length (fst (upkeep T s')))) p n Hl' Hu) as H.
  rewrite firstn_all in H. exact H.
Qed.

(* ------------------------------------------------------------------ type conflicts: the run stops with an error *)

Lemma stat_node : forall s p n, stat s p = SNode n -> lookup s p = Some n.
Proof. intros s p n. unfold stat. destruct (lookup s p); [congruence|]. destruct (file_ancestor s p); discriminate. Qed.

Lemma stat_noent : forall s p, stat s p = SNoEnt -> lookup s p = None.
Proof. intros s p. unfold stat. destruct (lookup s p); [discriminate|reflexivity]. Qed.

Lemma factory_step_file_ok : forall s p d ops, factory_step s (p, File d) = (ops, true) ->
  lookup (apply s ops) p = Some (File d) /\ Forall (fun op => target op = p) ops.
Proof.
  intros s p d ops. cbn [factory_step]. destruct (stat s p) as [[|old]| |] eqn:St; try discriminate.
  - apply stat_node in St. destruct (data_eqb old d) eqn:E; intro H; injection H as <-.
    + apply data_eqb_spec in E. subst old. split; [exact St|constructor].
    + split; [eapply truncate_write; exact St|repeat constructor].
  - apply stat_noent in St. destruct (is_dir _) eqn:D; [|discriminate]. intro H. injection H as <-.
    split; [apply create_write; [exact St|apply is_dir_true; exact D]|repeat constructor].
Qed.

Lemma walk_ok_files : forall es s ops, NoDup (keys es) -> walk factory_step es s = (ops, Ok) ->
  forall p d, In (p, File d) es -> lookup (apply s ops) p = Some (File d).
Proof.
  induction es as [|e es IH]; intros s ops Hnd H p d Hin; [destruct Hin|].
  cbn [walk] in H. destruct (factory_step s e) as [ops1 ok] eqn:E1. destruct ok; [|discriminate].
  destruct (walk factory_step es (apply s ops1)) as [ops2 r] eqn:E2. injection H as <- ->.
  cbn in Hnd. inversion Hnd as [|k ks Hn Hnd']; subst. rewrite apply_app. destruct Hin as [->|Hin].
  - destruct (factory_step_file_ok _ _ _ _ E1) as [L _]. rewrite apply_other; [exact L|].
    pose proof (walk_for factory_step factory_step_for es (apply s ops1)) as Hf. rewrite E2 in Hf. cbn in Hf.
    eapply targets_notin; [|exact Hn]. eapply Forall_impl; [|exact Hf]. intros op. apply op_for_target.
  - eapply IH; eassumption.
Qed.

Lemma walk_not_panic : forall st es s, snd (walk st es s) <> Panic.
Proof.
  intros st. induction es as [|e es IH]; intro s; cbn [walk]; [discriminate|].
  destruct (st s e) as [ops ok]. destruct ok; [|discriminate].
  specialize (IH (apply s ops)). destruct (walk st es (apply s ops)). exact IH.
Qed.

Lemma wf_ancestors_dir : forall s q p n, fs_wf s -> lookup s p = Some n -> is_under q p = true -> q <> p -> lookup s q = Some Dir.
Proof.
  intros s q p. induction p as [|x p IH]; intros n Hwf Hl Hu Hne; apply is_under_cases in Hu;
    destruct Hu as [E0|[y [p' [E Hu]]]]; try congruence.
  injection E as -> ->. pose proof (proj2 Hwf _ _ Hl) as Hp. cbn in Hp.
  destruct (path_eq_dec q p') as [->|Hq]; [exact Hp|]. eapply IH; eassumption.
Qed.

(* a directory where the template has file p, or a regular file at one of p's ancestors *)
Definition conflict (s : fs) (p : path) : Prop :=
  lookup s p = Some Dir \/ exists q d, q <> p /\ is_under q p = true /\ lookup s q = Some (File d).

Theorem type_conflict_err : forall T s p d, wf_template T -> fs_wf s -> lookup s cfgp <> None ->
  In (p, File d) T -> is_under factoryp p = true -> conflict s p ->
  snd (upkeep T s) = Err.
Proof.
  intros T s p d HT Hwf Hc Hin Hu Hconf. pose proof HT as [Ho [_ [_ [Hfac _]]]].
  unfold upkeep, stat. destruct (lookup s cfgp) as [m|]; [clear Hc|congruence].
  destruct (factory_part T) as [|e Tf] eqn:EF.
  { exfalso. assert (Hi : In (factoryp, Dir) (factory_part T)) by (apply in_factory_part; split; [exact Hfac|reflexivity]). rewrite EF in Hi. exact Hi. }
  rewrite <- EF. pose proof (walk_not_panic factory_step (factory_part T) s) as Hnp.
  destruct (walk factory_step (factory_part T) s) as [ops r] eqn:E. cbn in Hnp. destruct r; [exfalso|reflexivity|congruence].
  assert (L : lookup (apply s ops) p = Some (File d)).
  { eapply walk_ok_files; [|exact E|apply in_factory_part; tauto]. eapply ordered_nodup. apply ordered_factory_part. exact Ho. }
  pose proof (apply_wf ops s Hwf) as Hwf'.
  destruct Hconf as [Hd|[q [dq [Hne [Hq Lq]]]]].
  - destruct (apply_kind ops s p Dir Hd) as [m' [L' K]]. rewrite L in L'. injection L' as <-. discriminate.
  - destruct (apply_kind ops s q (File dq) Lq) as [m' [L' K]].
    rewrite (wf_ancestors_dir _ _ _ _ Hwf' L Hq Hne) in L'. injection L' as <-. discriminate.
Qed.

(* ------------------------------------------------------------------ the decidable domain checks are sound *)

Lemma pmem_in : forall p l, pmem p l = true <-> In p l.
Proof. intros. unfold pmem. apply (mem_in path_eqb path_eqb_spec). Qed.

Lemma pmem_notin : forall p l, pmem p l = false <-> ~ In p l.
Proof. intros. unfold pmem. apply (mem_false path_eqb path_eqb_spec). Qed.

Lemma orderedb_sound : forall es dirs, orderedb dirs es = true -> ordered dirs es.
Proof.
  induction es as [|[p n] es IH]; intros dirs H; [exact I|].
  cbn [orderedb] in H. repeat (apply andb_true_iff in H; destruct H as [H ?]).
  cbn [ordered]. repeat split.
  - intros ->. discriminate.
  - apply pmem_in. assumption.
  - apply pmem_notin. apply negb_true_iff. assumption.
  - apply pmem_notin. apply negb_true_iff. assumption.
  - apply IH. assumption.
Qed.

Lemma node_eqb_spec : forall a b, node_eqb a b = true -> a = b.
Proof. intros [|x] [|y]; cbn; try congruence. intro H. apply data_eqb_spec in H. congruence. Qed.

Lemma node_eqb_refl : forall a, node_eqb a a = true.
Proof. intros [|x]; cbn; [reflexivity|]. apply data_eqb_spec. reflexivity. Qed.

Lemma onode_eqb_spec : forall a b, onode_eqb a b = true <-> a = b.
Proof.
  intros [a|] [b|]; cbn; split; try congruence.
  - intro H. apply node_eqb_spec in H. congruence.
  - intro H. injection H as ->. apply node_eqb_refl.
Qed.

Theorem wf_templateb_sound : forall T, wf_templateb T = true -> wf_template T.
Proof.
  intros T H. unfold wf_templateb in H. repeat (apply andb_true_iff in H; destruct H as [H ?]).
  repeat split.
  - apply orderedb_sound. assumption.
  - apply Forall_forall. apply forallb_forall. assumption.
  - apply lookup_in. apply onode_eqb_spec. assumption.
  - apply lookup_in. apply onode_eqb_spec. assumption.
  - destruct (lookup T blp) as [[|d]|] eqn:L; try discriminate. exists d. apply lookup_in. exact L.
Qed.

Theorem fs_wfb_sound : forall s, fs_wfb s = true -> fs_wf s.
Proof.
  intros s H. unfold fs_wfb in H. repeat (apply andb_true_iff in H; destruct H as [H ?]). split.
  - apply is_dir_true. assumption.
  - intros p n L. apply lookup_in in L. rewrite forallb_forall in H0. apply H0 in L. apply is_dir_true. exact L.
Qed.

Theorem type_consistentb_sound : forall T s, type_consistentb T s = true -> type_consistent T s.
Proof.
  intros T s H p n m Hin L. unfold type_consistentb in H. rewrite forallb_forall in H. apply H in Hin. cbn in Hin.
  rewrite L in Hin. exact Hin.
Qed.

(* ------------------------------------------------------------------ the monitor decides the specification *)

Lemma fs_eqb_sound : forall x y, fs_eqb x y = true -> forall p, lookup x p = lookup y p.
Proof.
  intros x y H p. unfold fs_eqb in H. rewrite forallb_forall in H.
  destruct (in_dec path_eq_dec p (keys x ++ keys y)) as [Hin|Hn].
  - apply H in Hin. apply onode_eqb_spec. exact Hin.
  - rewrite in_app_iff in Hn. rewrite !notin_lookup_none; tauto.
Qed.

Lemma untouched_sound : forall T b a, c18_untouched T b a = true ->
  (forall p n, lookup b p = Some n -> is_under factoryp p = false -> lookup a p = Some n) /\
  (forall p, lookup T p = None -> lookup a p = lookup b p).
Proof.
  intros T b a H. unfold c18_untouched in H. apply andb_true_iff in H. destruct H as [M1 M2]. split.
  - intros p n L U. rewrite forallb_forall in M1. apply lookup_in in L. apply M1 in L. cbn [fst] in L.
    rewrite U in L. cbn in L. apply onode_eqb_spec in L. exact L.
  - intros p LT. rewrite forallb_forall in M2.
    destruct (in_dec path_eq_dec p (keys a ++ keys b)) as [Hin|Hn].
    + apply M2 in Hin. rewrite LT in Hin. cbn in Hin. apply onode_eqb_spec. exact Hin.
    + rewrite in_app_iff in Hn. rewrite !notin_lookup_none; tauto.
Qed.

Theorem monitor_sound : forall T b a a2, c18_monitor T b a a2 = true -> c18_spec T b a a2.
Proof.
  intros T b a a2 H. unfold c18_monitor, c18_untouched in H. repeat (apply andb_true_iff in H; destruct H as [H ?]).
  rename H into M1, H4 into M2, H3 into M3, H2 into M4, H1 into M5, H0 into M6.
  unfold c18_spec. repeat split.
  - intros p n L U. rewrite forallb_forall in M1. apply lookup_in in L. apply M1 in L. cbn [fst] in L.
    rewrite U in L. cbn in L. apply onode_eqb_spec in L. exact L.
  - intros p LT. rewrite forallb_forall in M2.
    destruct (in_dec path_eq_dec p (keys a ++ keys b)) as [Hin|Hn].
    + apply M2 in Hin. rewrite LT in Hin. cbn in Hin. apply onode_eqb_spec. exact Hin.
    + rewrite in_app_iff in Hn. rewrite !notin_lookup_none; tauto.
  - intros p n Hin U. rewrite forallb_forall in M3. apply M3 in Hin. cbn [fst] in Hin. rewrite U in Hin. cbn in Hin.
    apply onode_eqb_spec in Hin. exact Hin.
  - intro L. rewrite L in M4. cbn in M4. apply onode_eqb_spec. exact M4.
  - intros L p. rewrite L in M5. cbn in M5. rewrite forallb_forall in M5.
    destruct (in_dec path_eq_dec p (keys a ++ keys T ++ keys b)) as [Hin|Hn].
    + apply M5 in Hin. apply onode_eqb_spec. exact Hin.
    + rewrite !in_app_iff in Hn. unfold overlay. rewrite !notin_lookup_none; tauto.
  - apply fs_eqb_sound. exact M6.
Qed.

(* the model satisfies the specification the monitor decides *)
Theorem model_spec : forall T s, wf_template T -> fs_wf s -> type_consistent T s ->
  c18_spec T s (run T s) (run T (run T s)).
Proof.
  intros T s HT Hwf Htc. unfold c18_spec.
  pose proof (user_untouched T s HT Hwf (length (fst (upkeep T s)))) as [U1 U2]. rewrite firstn_all in U1, U2.
  destruct (upkeep_total T s HT Hwf Htc) as [_ [R2 [R3 _]]].
  repeat split.
  - exact U1.
  - intros p L. apply U2. apply lookup_none_notin. exact L.
  - exact R2.
  - exact R3.
  - intros Lc p. apply (fresh_tree T s HT Hwf Lc).
  - intro p. unfold run at 1. rewrite (idempotent T s HT Hwf Htc). reflexivity.
Qed.

Theorem type_conflict_safe : forall T s p d, wf_template T -> fs_wf s -> lookup s cfgp <> None ->
  In (p, File d) T -> is_under factoryp p = true -> conflict s p ->
  snd (upkeep T s) = Err /\
  forall k q n, lookup s q = Some n -> is_under factoryp q = false ->
                lookup (apply s (firstn k (fst (upkeep T s)))) q = Some n.
Proof.
  intros T s p d HT Hwf Hc Hin Hu Hconf. split; [eapply type_conflict_err; eassumption|].
  intro k. exact (proj1 (user_untouched T s HT Hwf k)).
Qed.
