(* C07: bidirectional controllers - one side at a time, the side left behind is zeroed. Discrete level: arbitrary samples. *)
From Coq Require Import List NArith ZArith Bool Lia.
From HIDI Require Import Base.AList Model.Device Proofs.DeviceBasics Proofs.Recv Proofs.DeviceInv Proofs.DeviceActions.
Import ListNotations.
Open Scope N_scope.

Definition ckey := pair.   (* (controller, channel) *)

Lemma analog_eq_dec (a b : analog) : {a = b} + {a <> b}.
Proof. decide equality; try apply N.eq_dec; try apply Bool.bool_dec; decide equality. Qed.

Lemma cc_value_set k v R k' :
  cc_value (set pair_eqb k v R) k' = if pair_eqb k' k then v else cc_value R k'.
Proof.
  unfold cc_value. destruct (pair_eqb k' k) eqn:E.
  - apply pair_eqb_spec in E. subst. rewrite (get_set_same pair_eqb pair_eqb_spec). reflexivity.
  - rewrite (get_set_other pair_eqb pair_eqb_spec); [reflexivity|]. intros ->.
    rewrite (proj2 (pair_eqb_spec k k) eq_refl) in E. discriminate.
Qed.

Lemma recv_cc1_cc R ch fn v : ch < 16 -> recv_cc1 R (cc_event ch fn v) = set pair_eqb (fn, ch) v R.
Proof.
  intro H. unfold recv_cc1, cc_event.
  destruct (status_decode CONTROL_CHANGE ch ltac:(cbn; auto) H) as [H1 H2]. rewrite H1, H2. reflexivity.
Qed.

Lemma cc_zeroed_set cc b s cc' :
  cc_zeroed (set_ccz cc b s) cc' = if cc' =? cc then b else cc_zeroed s cc'.
Proof.
  unfold cc_zeroed, set_ccz. cbn [ccZ set_ccZ]. destruct (cc' =? cc) eqn:E.
  - apply N.eqb_eq in E. subst. rewrite (get_set_same N.eqb Neqb_spec). reflexivity.
  - apply N.eqb_neq in E. rewrite (get_set_other N.eqb Neqb_spec) by exact E. reflexivity.
Qed.

(* the controller keys of a bidirectional axis in state s *)
Definition pos_key (s : state) (a : analog) : ckey := (a_cc a, chan_of s (a_off a)).
Definition neg_key (s : state) (a : analog) : ckey := (a_ccneg a, chan_of s (a_offneg a)).

(* invariant per bidirectional axis: a controller flagged "zeroed" is 0 at the receiver *)
Definition J (s : state) (R : list (ckey * N)) (a : analog) : Prop :=
  (cc_zeroed s (a_cc a) = true -> cc_value R (pos_key s a) = 0) /\
  (cc_zeroed s (a_ccneg a) = true -> cc_value R (neg_key s a) = 0).

Lemma pos_key_ccz cc b s a : pos_key (set_ccz cc b s) a = pos_key s a.
Proof. reflexivity. Qed.
Lemma neg_key_ccz cc b s a : neg_key (set_ccz cc b s) a = neg_key s a.
Proof. reflexivity. Qed.

(* ---- one transmitted event of a bidirectional axis *)
Lemma handle_cc_bidi s R sa :
  let a := sa_an sa in
  a_bidi a = true -> a_cc a <> a_ccneg a -> J s R a ->
  let '(s', ms) := handle_cc s sa in
  let R' := recv_cc R ms in
  channel s' = channel s /\
  (* the side the stick is on carries the value, the other side is 0 *)
  (if sa_neg sa
   then cc_value R' (neg_key s a) = sa_ccv sa /\ cc_value R' (pos_key s a) = 0
   else cc_value R' (pos_key s a) = sa_ccv sa /\ cc_value R' (neg_key s a) = 0) /\
  (* a controller that was non-zero and is being left gets an explicit 0 in this very step *)
  (sa_neg sa = true -> cc_value R (pos_key s a) <> 0 -> In (cc_event (snd (pos_key s a)) (a_cc a) 0) ms) /\
  (sa_neg sa = false -> cc_value R (neg_key s a) <> 0 -> In (cc_event (snd (neg_key s a)) (a_ccneg a) 0) ms) /\
  J s' R' a /\
  (* nothing else at the receiver changes *)
  (forall k, k <> pos_key s a -> k <> neg_key s a -> cc_value R' k = cc_value R k) /\
  (forall cc, cc <> a_cc a -> cc <> a_ccneg a -> cc_zeroed s' cc = cc_zeroed s cc).
Proof.
  intros a Hb Hne [J1 J2]. subst a. unfold handle_cc. set (a := sa_an sa) in *. rewrite Hb.
  pose proof (chan_of_lt s (a_off a)) as Hc. pose proof (chan_of_lt s (a_offneg a)) as Hcn.
  assert (Kne : pos_key s a <> neg_key s a) by (unfold pos_key, neg_key; intro E; injection E; auto).
  assert (Kne' : pair_eqb (pos_key s a) (neg_key s a) = false).
  { destruct (pair_eqb (pos_key s a) (neg_key s a)) eqn:E; [apply pair_eqb_spec in E; congruence|reflexivity]. }
  assert (Kne'' : pair_eqb (neg_key s a) (pos_key s a) = false).
  { destruct (pair_eqb (neg_key s a) (pos_key s a)) eqn:E; [apply pair_eqb_spec in E; congruence|reflexivity]. }
  assert (Neq : forall x y : N, x <> y -> (x =? y) = false) by (intros; apply N.eqb_neq; assumption).
  destruct (sa_neg sa).
  - destruct (cc_zeroed s (a_cc a)) eqn:Ez; cbn [app recv_cc fold_left].
    + (* positive side already zeroed *)
      rewrite (recv_cc1_cc _ _ _ _ Hcn). fold (neg_key s a).
      split; [reflexivity|]. split; [split|].
      * rewrite cc_value_set, (proj2 (pair_eqb_spec _ _) eq_refl). reflexivity.
      * rewrite cc_value_set, Kne'. apply J1. reflexivity.
      * split; [intros _ Hnz; exfalso; apply Hnz; apply J1; reflexivity|]. split; [discriminate|].
        unfold J; rewrite ?pos_key_ccz, ?neg_key_ccz; split; [split|split].
        -- intros _. rewrite cc_value_set, Kne'. apply J1. reflexivity.
        -- rewrite cc_zeroed_set, N.eqb_refl. discriminate.
        -- intros k Hk1 Hk2. rewrite cc_value_set. destruct (pair_eqb k (neg_key s a)) eqn:E; [apply pair_eqb_spec in E; contradiction|reflexivity].
        -- intros cc H1 H2. rewrite cc_zeroed_set, (Neq _ _ H2). reflexivity.
    + rewrite (recv_cc1_cc _ _ _ _ Hcn), (recv_cc1_cc _ _ _ _ Hc). fold (neg_key s a). fold (pos_key s a).
      split; [reflexivity|]. split; [split|].
      * rewrite cc_value_set, Kne'', cc_value_set, (proj2 (pair_eqb_spec _ _) eq_refl). reflexivity.
      * rewrite cc_value_set, (proj2 (pair_eqb_spec _ _) eq_refl). reflexivity.
      * split; [intros _ _; right; left; reflexivity|]. split; [discriminate|].
        unfold J; rewrite ?pos_key_ccz, ?neg_key_ccz; split; [split|split].
        -- intros _. rewrite cc_value_set, (proj2 (pair_eqb_spec _ _) eq_refl). reflexivity.
        -- rewrite cc_zeroed_set, N.eqb_refl. discriminate.
        -- intros k Hk1 Hk2. rewrite !cc_value_set.
           destruct (pair_eqb k (pos_key s a)) eqn:E1; [apply pair_eqb_spec in E1; contradiction|].
           destruct (pair_eqb k (neg_key s a)) eqn:E2; [apply pair_eqb_spec in E2; contradiction|reflexivity].
        -- intros cc H1 H2. rewrite !cc_zeroed_set, (Neq _ _ H2), (Neq _ _ H1). reflexivity.
  - destruct (cc_zeroed s (a_ccneg a)) eqn:Ez; cbn [app recv_cc fold_left].
    + rewrite (recv_cc1_cc _ _ _ _ Hc). fold (pos_key s a).
      split; [reflexivity|]. split; [split|].
      * rewrite cc_value_set, (proj2 (pair_eqb_spec _ _) eq_refl). reflexivity.
      * rewrite cc_value_set, Kne''. apply J2. reflexivity.
      * split; [discriminate|]. split; [intros _ Hnz; exfalso; apply Hnz; apply J2; reflexivity|].
        unfold J; rewrite ?pos_key_ccz, ?neg_key_ccz; split; [split|split].
        -- rewrite cc_zeroed_set, N.eqb_refl. discriminate.
        -- intros _. rewrite cc_value_set, Kne''. apply J2. reflexivity.
        -- intros k Hk1 Hk2. rewrite cc_value_set. destruct (pair_eqb k (pos_key s a)) eqn:E; [apply pair_eqb_spec in E; contradiction|reflexivity].
        -- intros cc H1 H2. rewrite cc_zeroed_set, (Neq _ _ H1). reflexivity.
    + rewrite (recv_cc1_cc _ _ _ _ Hc), (recv_cc1_cc _ _ _ _ Hcn). fold (neg_key s a). fold (pos_key s a).
      split; [reflexivity|]. split; [split|].
      * rewrite cc_value_set, Kne', cc_value_set, (proj2 (pair_eqb_spec _ _) eq_refl). reflexivity.
      * rewrite cc_value_set, (proj2 (pair_eqb_spec _ _) eq_refl). reflexivity.
      * split; [discriminate|]. split; [intros _ _; right; left; reflexivity|].
        unfold J; rewrite ?pos_key_ccz, ?neg_key_ccz; split; [split|split].
        -- rewrite cc_zeroed_set, N.eqb_refl. discriminate.
        -- intros _. rewrite cc_value_set, (proj2 (pair_eqb_spec _ _) eq_refl). reflexivity.
        -- intros k Hk1 Hk2. rewrite !cc_value_set.
           destruct (pair_eqb k (neg_key s a)) eqn:E1; [apply pair_eqb_spec in E1; contradiction|].
           destruct (pair_eqb k (pos_key s a)) eqn:E2; [apply pair_eqb_spec in E2; contradiction|reflexivity].
        -- intros cc H1 H2. rewrite !cc_zeroed_set, (Neq _ _ H1), (Neq _ _ H2). reflexivity.
Qed.

(* a unidirectional controller touches only its own key *)
Lemma handle_cc_uni s R sa :
  a_bidi (sa_an sa) = false ->
  let '(s', ms) := handle_cc s sa in
  s' = s /\ forall k, k <> pos_key s (sa_an sa) -> cc_value (recv_cc R ms) k = cc_value R k.
Proof.
  intro Hb. unfold handle_cc. rewrite Hb. split; [reflexivity|].
  intros k Hk. cbn [recv_cc fold_left]. rewrite (recv_cc1_cc _ _ _ _ (chan_of_lt _ _)), cc_value_set.
  destruct (pair_eqb k _) eqn:E; [apply pair_eqb_spec in E; contradiction|reflexivity].
Qed.

(* ---- the learning gate: while CC-learning is held only deflections beyond half travel are processed at all *)
Lemma learning_gate c s sa :
  learning s = true -> sa_gate sa = false -> handle_sample c s sa = (s, silent).
Proof. intros H1 H2. unfold handle_sample. rewrite H1, H2. reflexivity. Qed.

Lemma learning_gate_open c s sa :
  learning s = true -> sa_gate sa = true -> a_type (sa_an sa) = ACC ->
  handle_sample c s sa = (fst (handle_cc s sa), emit (snd (handle_cc s sa))).
Proof.
  intros H1 H2 H3. unfold handle_sample. rewrite H1, H2, H3. cbn [negb andb]. destruct (handle_cc s sa). reflexivity.
Qed.

(* ------------------------------------------------------------------ histories *)
(* a family of CC axes with pairwise distinct controller numbers *)
Definition ccs_of (a : analog) : list N := if a_bidi a then [a_cc a; a_ccneg a] else [a_cc a].
Definition cc_family (A : list analog) : Prop :=
  NoDup (flat_map ccs_of A) /\ forall a, In a A -> a_type a = ACC.

(* the events of C07's quantifier: positions of those axes and the CC-learning key *)
Definition c07_event (c : config) (A : list analog) (e : ev) : Prop :=
  match e with
  | ESample sa => In (sa_an sa) A
  | EKey _ k _ => find_action c k = Some Learning
  | ESyn => True
  end.

Definition no_pair (s : state) : Prop := forall pk, pair_complete (actionT s) pk = false.

Lemma mem_sadd_learning (a : action) l : a <> Learning -> mem action_eqb a (sadd action_eqb Learning l) = mem action_eqb a l.
Proof.
  intro H. destruct (mem action_eqb a l) eqn:E.
  - apply (mem_in action_eqb action_eqb_spec). apply (in_sadd action_eqb action_eqb_spec). right.
    apply (mem_in action_eqb action_eqb_spec). exact E.
  - apply (mem_false action_eqb action_eqb_spec). intro Hin. apply (in_sadd action_eqb action_eqb_spec) in Hin.
    destruct Hin as [Hin|Hin]; [contradiction|]. apply (mem_in action_eqb action_eqb_spec) in Hin. congruence.
Qed.
Lemma mem_srem_learning (a : action) l : a <> Learning -> mem action_eqb a (srem action_eqb Learning l) = mem action_eqb a l.
Proof.
  intro H. destruct (mem action_eqb a l) eqn:E.
  - apply (mem_in action_eqb action_eqb_spec). apply (in_srem action_eqb action_eqb_spec). split; [|exact H].
    apply (mem_in action_eqb action_eqb_spec). exact E.
  - apply (mem_false action_eqb action_eqb_spec). intro Hin. apply (in_srem action_eqb action_eqb_spec) in Hin.
    destruct Hin as [Hin _]. apply (mem_in action_eqb action_eqb_spec) in Hin. congruence.
Qed.
Lemma pair_complete_sadd_learning l pk : pair_complete (sadd action_eqb Learning l) pk = pair_complete l pk.
Proof. destruct pk; cbn [pair_complete]; rewrite !mem_sadd_learning by discriminate; reflexivity. Qed.
Lemma pair_complete_srem_learning l pk : pair_complete (srem action_eqb Learning l) pk = pair_complete l pk.
Proof. destruct pk; cbn [pair_complete]; rewrite !mem_srem_learning by discriminate; reflexivity. Qed.

(* the CC-learning key emits nothing and changes neither the channel nor any CC flag *)
Lemma learning_key_step c s sub k v :
  find_action c k = Some Learning -> no_pair s ->
  let '(s', o) := step c s (EKey sub k v) in
  midi o = [] /\ channel s' = channel s /\ ccZ s' = ccZ s /\ no_pair s'.
Proof.
  intros Ha Hn. cbn [step]. destruct (v =? 2)%Z; [cbn; auto|]. unfold handle_key.
  set (s1 := if (v =? 1)%Z then set_keyT (sadd N.eqb k (keyT s)) s else set_keyT (srem N.eqb k (keyT s)) s).
  assert (E1 : channel s1 = channel s /\ ccZ s1 = ccZ s /\ actionT s1 = actionT s) by (subst s1; destruct (v =? 1)%Z; cbn; auto).
  destruct E1 as (E1&E2&E3). clearbody s1.
  assert (Hn1 : no_pair s1) by (intro pk; rewrite E3; apply Hn).
  destruct ((v =? 1)%Z && exit_complete c (keyT s1)); [cbn; auto|].
  rewrite Ha. destruct (v =? 1)%Z.
  - rewrite (check_double_none (set_actionT (sadd action_eqb Learning (actionT s1)) s1)).
    + cbn [invoke_press fst snd midi emit channel ccZ set_learning set_actionT]. repeat split; auto.
      intro pk. cbn [actionT set_learning set_actionT]. rewrite pair_complete_sadd_learning. apply Hn1.
    + intro pk. cbn [actionT set_actionT]. rewrite pair_complete_sadd_learning. apply Hn1.
  - destruct (v =? 0)%Z; [|cbn; auto]. cbn [invoke_release fst snd midi silent channel ccZ set_learning set_actionT].
    repeat split; auto. intro pk. cbn [actionT set_learning set_actionT]. rewrite pair_complete_srem_learning. apply Hn1.
Qed.

(* invariant of a whole family: per bidirectional axis, flagged-zeroed controllers are 0 and at most one side is non-zero *)
Definition Inv7 (A : list analog) (s : state) (R : list (ckey * N)) : Prop :=
  forall a, In a A -> a_bidi a = true ->
    J s R a /\ (cc_value R (pos_key s a) = 0 \/ cc_value R (neg_key s a) = 0).

Lemma NoDup_app_remove_l {X} (l1 l2 : list X) : NoDup (l1 ++ l2) -> NoDup l2.
Proof. induction l1 as [|x l IH]; cbn; [auto|]. intro H. inversion H; subst. auto. Qed.
Lemma NoDup_app_remove_r {X} (l1 l2 : list X) : NoDup (l1 ++ l2) -> NoDup l1.
Proof.
  induction l1 as [|x l IH]; cbn; [constructor|]. intro H. inversion H as [|? ? Hn Hr]; subst.
  constructor; [intro Hin; apply Hn; apply in_or_app; left; exact Hin|apply IH; exact Hr].
Qed.

Lemma in_ccs_pos a : In (a_cc a) (ccs_of a).
Proof. unfold ccs_of. destruct (a_bidi a); left; reflexivity. Qed.
Lemma in_ccs_neg a : a_bidi a = true -> In (a_ccneg a) (ccs_of a).
Proof. intro H. unfold ccs_of. rewrite H. right. left. reflexivity. Qed.

Lemma nodup_flat_distinct (A : list analog) a b x y :
  NoDup (flat_map ccs_of A) -> In a A -> In b A -> a <> b -> In x (ccs_of a) -> In y (ccs_of b) -> x <> y.
Proof.
  induction A as [|h t IH]; intros Hnd Ha Hb Hab Hx Hy; [contradiction|].
  cbn [flat_map] in Hnd. pose proof (NoDup_app_remove_l _ _ Hnd) as Ht.
  assert (Cross : forall u v, In u (ccs_of h) -> In v (flat_map ccs_of t) -> u <> v).
  { intros u v Hu Hv ->. clear -Hnd Hu Hv. revert Hnd Hu. generalize (ccs_of h). intros l Hnd Hu.
    induction l as [|z l IHl]; [contradiction|]. cbn in Hnd. inversion Hnd as [|? ? Hn Hr]; subst.
    destruct Hu as [->|Hu]; [apply Hn; apply in_or_app; right; exact Hv|apply IHl; assumption]. }
  destruct Ha as [->|Ha], Hb as [->|Hb].
  - congruence.
  - apply Cross; [exact Hx|apply in_flat_map; exists b; auto].
  - intro E. symmetry in E. revert E. apply Cross; [exact Hy|apply in_flat_map; exists a; auto].
  - apply (IH Ht Ha Hb Hab Hx Hy).
Qed.

Lemma nodup_self_distinct (A : list analog) a :
  NoDup (flat_map ccs_of A) -> In a A -> a_bidi a = true -> a_cc a <> a_ccneg a.
Proof.
  induction A as [|h t IH]; intros Hnd Ha Hb; [contradiction|].
  cbn [flat_map] in Hnd. destruct Ha as [->|Ha].
  - apply NoDup_app_remove_r in Hnd. unfold ccs_of in Hnd. rewrite Hb in Hnd.
    inversion Hnd as [|? ? Hn _]; subst. intro E. apply Hn. left. symmetry. exact E.
  - apply IH; [apply NoDup_app_remove_l in Hnd; exact Hnd|exact Ha|exact Hb].
Qed.

Lemma handle_cc_frame s sa : channel (fst (handle_cc s sa)) = channel s /\ actionT (fst (handle_cc s sa)) = actionT s.
Proof.
  unfold handle_cc. destruct (a_bidi (sa_an sa)); [|split; reflexivity].
  destruct (sa_neg sa); [destruct (cc_zeroed s (a_cc (sa_an sa)))|destruct (cc_zeroed s (a_ccneg (sa_an sa)))]; split; reflexivity.
Qed.

Lemma key_of_channel s s' a : channel s' = channel s -> pos_key s' a = pos_key s a /\ neg_key s' a = neg_key s a.
Proof. intro H. unfold pos_key, neg_key, chan_of. rewrite H. auto. Qed.

Lemma c07_step c A s R e :
  cc_family A -> c07_event c A e -> no_pair s -> Inv7 A s R ->
  channel (fst (step c s e)) = channel s /\ no_pair (fst (step c s e)) /\
  Inv7 A (fst (step c s e)) (recv_cc R (midi (snd (step c s e)))).
Proof.
  intros [Hnd Hty] He Hn HI.
  destruct e as [sub k v|sa|]; cbn [c07_event] in He.
  - pose proof (learning_key_step c s sub k v He Hn) as L. destruct (step c s (EKey sub k v)) as [s' o].
    destruct L as (L1&L2&L3&L4). cbn [fst snd]. rewrite L1. cbn [recv_cc fold_left].
    split; [exact L2|]. split; [exact L4|].
    intros a Ha Hb. destruct (key_of_channel s s' a L2) as [K1 K2]. destruct (HI a Ha Hb) as [[J1 J2] O].
    unfold J, cc_zeroed. rewrite K1, K2, L3. split; [split|]; assumption.
  - cbn [step]. unfold handle_sample.
    destruct (learning s && negb (sa_gate sa)); [cbn [fst snd midi silent recv_cc fold_left]; auto|].
    rewrite (Hty _ He).
    pose proof (handle_cc_frame s sa) as [F1 F2].
    destruct (a_bidi (sa_an sa)) eqn:Eb.
    + pose proof (nodup_self_distinct A _ Hnd He Eb) as Hne.
      destruct (HI _ He Eb) as [HJ _].
      pose proof (handle_cc_bidi s R sa Eb Hne HJ) as B.
      destruct (handle_cc s sa) as [s' ms]. cbn [fst snd midi emit] in *.
      destruct B as (B0&B1&_&_&B4&B5&B6).
      split; [exact F1|]. split; [intro pk; rewrite F2; apply Hn|].
      intros a Ha Hb. destruct (key_of_channel s s' a F1) as [K1 K2].
      destruct (analog_eq_dec a (sa_an sa)) as [->|Hneq].
      * split; [exact B4|]. rewrite K1, K2. destruct (sa_neg sa); tauto.
      * destruct (HI a Ha Hb) as [[J1 J2] O].
        assert (D1 : a_cc a <> a_cc (sa_an sa)) by (apply (nodup_flat_distinct A a (sa_an sa)); auto using in_ccs_pos).
        assert (D2 : a_cc a <> a_ccneg (sa_an sa)) by (apply (nodup_flat_distinct A a (sa_an sa)); auto using in_ccs_pos, in_ccs_neg).
        assert (D3 : a_ccneg a <> a_cc (sa_an sa)) by (apply (nodup_flat_distinct A a (sa_an sa)); auto using in_ccs_pos, in_ccs_neg).
        assert (D4 : a_ccneg a <> a_ccneg (sa_an sa)) by (apply (nodup_flat_distinct A a (sa_an sa)); auto using in_ccs_neg).
        assert (P : cc_value (recv_cc R ms) (pos_key s a) = cc_value R (pos_key s a))
          by (apply B5; unfold pos_key, neg_key; intro E; injection E; auto).
        assert (Q : cc_value (recv_cc R ms) (neg_key s a) = cc_value R (neg_key s a))
          by (apply B5; unfold pos_key, neg_key; intro E; injection E; auto).
        unfold J. rewrite K1, K2, P, Q, (B6 _ D1 D2), (B6 _ D3 D4). split; [split|]; assumption.
    + pose proof (handle_cc_uni s R sa Eb) as U.
      destruct (handle_cc s sa) as [s' ms]. cbn [fst snd midi emit] in *. destruct U as [-> U].
      split; [reflexivity|]. split; [exact Hn|].
      intros a Ha Hb. destruct (HI a Ha Hb) as [[J1 J2] O].
      assert (Hneq : a <> sa_an sa) by (intros ->; congruence).
      assert (D1 : a_cc a <> a_cc (sa_an sa)) by (apply (nodup_flat_distinct A a (sa_an sa)); auto using in_ccs_pos).
      assert (D3 : a_ccneg a <> a_cc (sa_an sa)) by (apply (nodup_flat_distinct A a (sa_an sa)); auto using in_ccs_pos, in_ccs_neg).
      assert (P : cc_value (recv_cc R ms) (pos_key s a) = cc_value R (pos_key s a))
        by (apply U; unfold pos_key; intro E; injection E; auto).
      assert (Q : cc_value (recv_cc R ms) (neg_key s a) = cc_value R (neg_key s a))
        by (apply U; unfold pos_key, neg_key; intro E; injection E; auto).
      unfold J. rewrite P, Q. split; [split|]; assumption.
  - cbn. auto.
Qed.

Lemma c07_run c A h : forall s R,
  cc_family A -> Forall (c07_event c A) h -> no_pair s -> Inv7 A s R ->
  channel (fst (run_from c s h)) = channel s /\
  Inv7 A (fst (run_from c s h)) (recv_cc R (all_midi (snd (run_from c s h)))).
Proof.
  induction h as [|e r IH]; intros s R HA He Hn HI; cbn [run_from]; [cbn; auto|].
  inversion He as [|? ? H1 H2]; subst.
  destruct (c07_step c A s R e HA H1 Hn HI) as (C1&C2&C3).
  destruct (step c s e) as [s1 o]. cbn [fst snd] in *.
  destruct (IH s1 _ HA H2 C2 C3) as [D1 D2].
  destruct (run_from c s1 r) as [s2 os]. cbn [fst snd] in *.
  split; [congruence|]. unfold all_midi. cbn [flat_map]. unfold recv_cc in *. rewrite fold_left_app. exact D2.
Qed.

Lemma init_Inv7 c A : Inv7 A (init c) [].
Proof. intros a _ _. split; [split; intros _; reflexivity|left; reflexivity]. Qed.

Lemma init_no_pair c : no_pair (init c).
Proof. intros []; reflexivity. Qed.

(* after every event of every history of axis positions and CC-learning presses/releases: at most one side non-zero *)
Lemma at_most_one c A h :
  cc_family A -> Forall (c07_event c A) h ->
  let s := fst (run c h) in let R := recv_cc [] (all_midi (snd (run c h))) in
  forall a, In a A -> a_bidi a = true -> cc_value R (pos_key s a) = 0 \/ cc_value R (neg_key s a) = 0.
Proof.
  intros HA He s R a Ha Hb.
  destruct (c07_run c A h (init c) [] HA He (init_no_pair c) (init_Inv7 c A)) as [_ HI].
  destruct (HI a Ha Hb) as [_ O]. exact O.
Qed.

Lemma forall_prefix {X} (P : X -> Prop) h1 h2 : Forall P (h1 ++ h2) -> Forall P h1.
Proof. intro H. apply Forall_app in H. tauto. Qed.
