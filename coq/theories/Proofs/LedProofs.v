(* C17: the LED frame (Model/Led.v) shows the device state. *)
From Coq Require Import List NArith ZArith Bool Arith Lia.
From HIDI Require Import Base.AList Model.Device Model.Led Proofs.DeviceBasics Proofs.DeviceInv.
Import ListNotations.
Open Scope N_scope.

(* ====================================================================== arrays and writes *)
(* the value index [i] ends with after the writes [ws], having started at [d]: the last write aimed at [i] wins *)
Fixpoint val (ws : list write) (i : nat) (d : colour) : colour :=
  match ws with
  | [] => d
  | w :: r => val r i (if Nat.eqb (fst w) i then snd w else d)
  end.

Definition hit (ws : list write) (i : nat) : bool := existsb (fun w : write => Nat.eqb (fst w) i) ws.

Lemma val_app ws1 ws2 i d : val (ws1 ++ ws2) i d = val ws2 i (val ws1 i d).
Proof. revert d. induction ws1 as [|w r IH]; intro d; cbn; [reflexivity|apply IH]. Qed.

Lemma upd_length j v l : length (upd j v l) = length l.
Proof. revert j. induction l as [|x r IH]; intros [|j]; cbn; auto. Qed.

Lemma nth_upd j v l i d : (i < length l)%nat -> nth i (upd j v l) d = if Nat.eqb j i then v else nth i l d.
Proof.
  revert j i. induction l as [|x r IH]; intros j i H; cbn in H; [lia|].
  destruct j as [|j], i as [|i]; cbn; try reflexivity. apply IH. lia.
Qed.

Lemma apply_writes_length ws arr : length (apply_writes ws arr) = length arr.
Proof.
  unfold apply_writes. revert arr. induction ws as [|w r IH]; intro arr; cbn; [reflexivity|].
  rewrite IH. apply upd_length.
Qed.

Lemma nth_apply ws : forall arr i d, (i < length arr)%nat -> nth i (apply_writes ws arr) d = val ws i (nth i arr d).
Proof.
  unfold apply_writes. induction ws as [|w r IH]; intros arr i d H; cbn; [reflexivity|].
  rewrite IH by (rewrite upd_length; exact H). rewrite nth_upd by exact H. reflexivity.
Qed.

(* all writes aimed at [i] carry [v] *)
Lemma val_uniform ws i v : (forall v', In (i, v') ws -> v' = v) -> forall d, val ws i d = if hit ws i then v else d.
Proof.
  induction ws as [|[j v'] r IH]; intros H d; cbn; [reflexivity|].
  assert (Hr : forall v'', In (i, v'') r -> v'' = v) by (intros v'' Hin; apply H; right; exact Hin).
  rewrite (IH Hr). destruct (Nat.eqb j i) eqn:E; cbn.
  - apply Nat.eqb_eq in E. subst j. rewrite (H v') by (left; reflexivity). destruct (hit r i); reflexivity.
  - reflexivity.
Qed.

Lemma hit_false_iff ws i : hit ws i = false <-> forall v, ~ In (i, v) ws.
Proof.
  unfold hit. split.
  - intros H v Hin. assert (E : existsb (fun w : write => Nat.eqb (fst w) i) ws = true).
    { apply existsb_exists. exists (i, v). split; [exact Hin|apply Nat.eqb_refl]. }
    congruence.
  - intro H. destruct (existsb _ ws) eqn:E; [|reflexivity]. apply existsb_exists in E. destruct E as [[j v] [Hin Hj]].
    cbn in Hj. apply Nat.eqb_eq in Hj. subst j. exfalso. exact (H v Hin).
Qed.

Lemma hit_true_iff ws i : hit ws i = true <-> exists v, In (i, v) ws.
Proof.
  unfold hit. rewrite existsb_exists. split.
  - intros [[j v] [Hin Hj]]. cbn in Hj. apply Nat.eqb_eq in Hj. subst j. exists v. exact Hin.
  - intros [v Hin]. exists (i, v). split; [exact Hin|apply Nat.eqb_refl].
Qed.

Lemma val_none ws i d : (forall v, ~ In (i, v) ws) -> val ws i d = d.
Proof.
  intro H. rewrite (val_uniform ws i d) by (intros v' Hin; exfalso; exact (H v' Hin)).
  destruct (hit ws i); reflexivity.
Qed.

(* a flat_map of write lists that all aim value [v] at [i] *)
Lemma val_flat_uniform {A} (f : A -> list write) (hitf : A -> bool) (l : list A) i v :
  (forall a, In a l -> forall v', In (i, v') (f a) -> v' = v) ->
  (forall a, In a l -> hit (f a) i = hitf a) ->
  forall d, val (flat_map f l) i d = if existsb hitf l then v else d.
Proof.
  induction l as [|a r IH]; intros H1 H2 d; cbn; [reflexivity|].
  rewrite val_app. rewrite IH; [|intros; eapply H1; [right; eassumption|eassumption]|intros; apply H2; right; assumption].
  rewrite (val_uniform (f a) i v) by (apply H1; left; reflexivity). rewrite (H2 a) by (left; reflexivity).
  destruct (hitf a), (existsb hitf r); reflexivity.
Qed.

(* writes grouped by an ordered list of classes, processed from the LAST class to the first: the first class that hits wins *)
Lemma val_flat_rev {A} (g : A -> list write) (hitg : A -> bool) (col : A -> colour) (l : list A) i :
  (forall a d, In a l -> val (g a) i d = if hitg a then col a else d) ->
  forall d, val (flat_map g (rev l)) i d = match find hitg l with Some a => col a | None => d end.
Proof.
  induction l as [|a r IH]; intros H d; cbn; [reflexivity|].
  rewrite flat_map_app, val_app. cbn. rewrite app_nil_r. rewrite (H a) by (left; reflexivity).
  rewrite IH by (intros; apply H; right; assumption).
  destruct (hitg a); reflexivity.
Qed.

(* ====================================================================== index maps *)
Lemma imap_from_some ly : forall i0 code j,
  imap_from i0 ly code = Some j -> (i0 <= j)%nat /\ nth_error ly (j - i0) = Some (Some code).
Proof.
  induction ly as [|l r IH]; intros i0 code j H; cbn in H; [discriminate|].
  destruct (imap_from (S i0) r code) as [j'|] eqn:E.
  - injection H as <-. destruct (IH _ _ _ E) as [H1 H2]. split; [lia|].
    replace (j' - i0)%nat with (S (j' - S i0)) by lia. exact H2.
  - destruct l as [k|]; [|discriminate]. destruct (k =? code) eqn:Ek; [|discriminate].
    injection H as <-. apply N.eqb_eq in Ek. subst k. split; [lia|]. rewrite Nat.sub_diag. reflexivity.
Qed.

Lemma imap_some ly code j : imap ly code = Some j -> nth_error ly j = Some (Some code) /\ (j < length ly)%nat.
Proof.
  intro H. destruct (imap_from_some ly 0 code j H) as [_ H2]. rewrite Nat.sub_0_r in H2. split; [exact H2|].
  apply nth_error_Some. congruence.
Qed.

Lemma imap_inj ly k1 k2 j : imap ly k1 = Some j -> imap ly k2 = Some j -> k1 = k2.
Proof. intros H1 H2. apply imap_some in H1, H2. destruct H1 as [H1 _], H2 as [H2 _]. congruence. Qed.

(* a NoDup layout: every LED of a key is the LED the index map designates *)
Lemma imap_from_complete ly : forall i0 code j,
  nth_error ly j = Some (Some code) -> exists j', imap_from i0 ly code = Some j'.
Proof.
  induction ly as [|l r IH]; intros i0 code j H; [destruct j; discriminate|].
  cbn. destruct (imap_from (S i0) r code) as [j'|] eqn:E; [eexists; reflexivity|].
  destruct j as [|j]; cbn in H.
  - injection H as ->. rewrite N.eqb_refl. eexists; reflexivity.
  - destruct (IH (S i0) code j H) as [j' Hj']. congruence.
Qed.

Lemma key_eqb_spec a b : key_eqb a b = true <-> a = b.
Proof.
  destruct a as [n1 o1], b as [n2 o2]. unfold key_eqb. cbn. rewrite andb_true_iff, !N.eqb_eq. split.
  - intros [-> ->]. reflexivity.
  - intro H. injection H as -> ->. split; reflexivity.
Qed.

Lemma in_sub0_bindings m code k : In (code, k) (sub0_bindings m) <-> get skey_eqb (0, code) (m_midi m) = Some k.
Proof.
  unfold sub0_bindings. rewrite in_flat_map. split.
  - intros [[[sub code'] k'] [Hin H]].
    destruct (sub =? 0) eqn:Es; cbn [andb] in H; [|contradiction].
    destruct (get skey_eqb (sub, code') (m_midi m)) as [k''|] eqn:Eg; [|contradiction].
    destruct (key_eqb k' k'') eqn:Ek; [|contradiction].
    destruct H as [H|[]]. injection H as <- <-. apply N.eqb_eq in Es. subst sub. apply key_eqb_spec in Ek. subst k''. exact Eg.
  - intro Hg. exists ((0, code), k). split; [apply (get_some_in skey_eqb skey_eqb_spec); exact Hg|].
    cbn. rewrite Hg. rewrite (proj2 (key_eqb_spec k k) eq_refl). left. reflexivity.
Qed.

Lemma in_codes_of m t code : In code (codes_of m t) <-> exists k, get skey_eqb (0, code) (m_midi m) = Some k /\ k_note k = t.
Proof.
  unfold codes_of. rewrite in_map_iff. split.
  - intros [[code' k] [H1 H2]]. cbn in H1. subst code'. apply filter_In in H2. destruct H2 as [H2 H3]. cbn in H3.
    exists k. split; [apply in_sub0_bindings; exact H2|apply N.eqb_eq; exact H3].
  - intros [k [H1 H2]]. exists (code, k). split; [reflexivity|]. apply filter_In. split; [apply in_sub0_bindings; exact H1|].
    cbn. apply N.eqb_eq. exact H2.
Qed.

(* ====================================================================== one key's LED *)
Section KeyLed.
  Variables (ly : layout) (m : mapping) (kc : N) (key : key) (i : nat).
  Hypothesis Hled : imap ly kc = Some i.
  Hypothesis Hkey : get skey_eqb (0, kc) (m_midi m) = Some key.

  Lemma in_highlight off n col v :
    In (i, v) (highlight ly m off n col) <-> v = col /\ sub8 n off = k_note key.
  Proof.
    unfold highlight. rewrite in_flat_map. split.
    - intros [code [Hc Hin]]. destruct (imap ly code) as [id|] eqn:Ei; [|contradiction].
      destruct Hin as [Hin|[]]. injection Hin as -> <-. split; [reflexivity|].
      assert (code = kc) by (eapply imap_inj; eassumption). subst code.
      apply in_codes_of in Hc. destruct Hc as [k [Hk Hn]]. congruence.
    - intros [-> Hn]. exists kc. split; [apply in_codes_of; exists key; split; [exact Hkey|symmetry; exact Hn]|].
      rewrite Hled. left. reflexivity.
  Qed.

  Lemma hit_highlight off n col : hit (highlight ly m off n col) i = (sub8 n off =? k_note key).
  Proof.
    destruct (sub8 n off =? k_note key) eqn:E.
    - apply hit_true_iff. exists col. apply in_highlight. split; [reflexivity|apply N.eqb_eq; exact E].
    - apply hit_false_iff. intros v Hin. apply in_highlight in Hin. destruct Hin as [_ Hin]. apply N.eqb_eq in Hin. congruence.
  Qed.

  Lemma val_held off nt d :
    val (held_writes ly m off nt) i d =
    if existsb (fun e : N * pair => sub8 (fst (snd e)) off =? k_note key) nt then Active else d.
  Proof.
    unfold held_writes. apply val_flat_uniform.
    - intros a _ v' Hin. apply in_highlight in Hin. tauto.
    - intros a _. apply hit_highlight.
  Qed.

  Lemma val_tagged off (x : ext) ch col d :
    val (flat_map (fun p : pair => if snd p =? ch then highlight ly m off (fst p) col else []) x) i d =
    if existsb (fun p : pair => (snd p =? ch) && (sub8 (fst p) off =? k_note key)) x then col else d.
  Proof.
    apply val_flat_uniform.
    - intros a _ v' Hin. destruct (snd a =? ch); [|contradiction]. apply in_highlight in Hin. tauto.
    - intros a _. destruct (snd a =? ch); cbn [andb]; [apply hit_highlight|reflexivity].
  Qed.

  Lemma val_ext off x d :
    val (ext_writes ly m off x) i d =
    match find (fun ch => existsb (fun p : pair => (snd p =? ch) && (sub8 (fst p) off =? k_note key)) x)
               (map N.of_nat (seq 0 16)) with
    | Some ch => chan_colour ch
    | None => d
    end.
  Proof.
    unfold ext_writes. change chans_desc with (rev (map N.of_nat (seq 0 16))).
    apply (val_flat_rev (ext_chan_writes ly m off x)
             (fun ch => existsb (fun p : pair => (snd p =? ch) && (sub8 (fst p) off =? k_note key)) x) chan_colour).
    intros ch d' _. unfold ext_chan_writes. apply val_tagged.
  Qed.

  Lemma val_keys ctl off d :
    val (key_writes ctl ly m off) i d =
    if in_midi_range (Z.of_N (k_note key) + off) then pitch_colour ctl (Z.of_N (k_note key) + off) else d.
  Proof.
    unfold key_writes.
    assert (Hb : forall a, In a (sub0_bindings m) -> fst a = kc -> snd a = key).
    { intros [code k] Hin Hc. cbn in Hc. subst code. apply in_sub0_bindings in Hin. cbn. congruence. }
    rewrite (val_flat_uniform _ (fun a : N * Device.key => (fst a =? kc) && in_midi_range (Z.of_N (k_note key) + off))
               (sub0_bindings m) i (pitch_colour ctl (Z.of_N (k_note key) + off))).
    - assert (E : existsb (fun a : N * Device.key => (fst a =? kc) && in_midi_range (Z.of_N (k_note key) + off)) (sub0_bindings m)
                  = in_midi_range (Z.of_N (k_note key) + off)).
      { destruct (in_midi_range (Z.of_N (k_note key) + off)) eqn:Er.
        - apply existsb_exists. exists (kc, key). split; [apply in_sub0_bindings; exact Hkey|]. cbn. rewrite N.eqb_refl. reflexivity.
        - destruct (existsb _ (sub0_bindings m)) eqn:Ex; [|reflexivity]. apply existsb_exists in Ex.
          destruct Ex as [a [_ Ha]]. rewrite andb_false_r in Ha. discriminate. }
      rewrite E. reflexivity.
    - intros a Hin v' Hw. destruct (imap ly (fst a)) as [id|] eqn:Ei; [|contradiction].
      destruct (in_midi_range (Z.of_N (k_note (snd a)) + off)) eqn:Er; [|contradiction].
      destruct Hw as [Hw|[]]. injection Hw as -> <-.
      assert (fst a = kc) by (eapply imap_inj; eassumption). rewrite (Hb a Hin H). reflexivity.
    - intros a Hin. destruct (fst a =? kc) eqn:Ec; cbn [andb].
      + apply N.eqb_eq in Ec. rewrite (Hb a Hin Ec) in *. rewrite Ec, Hled.
        destruct (in_midi_range (Z.of_N (k_note key) + off)); [unfold hit; cbn; rewrite Nat.eqb_refl; reflexivity|reflexivity].
      + apply hit_false_iff. intros v Hw. destruct (imap ly (fst a)) as [id|] eqn:Ei; [|contradiction].
        destruct (in_midi_range _); [|contradiction]. destruct Hw as [Hw|[]]. injection Hw as -> _.
        assert (fst a = kc) by (eapply imap_inj; eassumption). apply N.eqb_neq in Ec. contradiction.
  Qed.
End KeyLed.

(* an LED whose key is not a note key of the mapping is untouched by the key / highlight phases *)
Section NonKeyLed.
  Variables (ly : layout) (m : mapping) (kc : N) (i : nat).
  Hypothesis Hled : imap ly kc = Some i.
  Hypothesis Hnokey : get skey_eqb (0, kc) (m_midi m) = None.

  Lemma no_highlight off n col v : ~ In (i, v) (highlight ly m off n col).
  Proof.
    unfold highlight. rewrite in_flat_map. intros [code [Hc Hin]]. destruct (imap ly code) as [id|] eqn:Ei; [|contradiction].
    destruct Hin as [Hin|[]]. injection Hin as -> _. assert (code = kc) by (eapply imap_inj; eassumption). subst code.
    apply in_codes_of in Hc. destruct Hc as [k [Hk _]]. congruence.
  Qed.

  Lemma val_keys_none ctl off d : val (key_writes ctl ly m off) i d = d.
  Proof.
    apply val_none. intros v Hin. unfold key_writes in Hin. apply in_flat_map in Hin. destruct Hin as [[code k] [Hb Hw]].
    cbn in Hw. destruct (imap ly code) as [id|] eqn:Ei; [|contradiction]. destruct (in_midi_range _); [|contradiction].
    destruct Hw as [Hw|[]]. injection Hw as -> _. assert (code = kc) by (eapply imap_inj; eassumption). subst code.
    apply in_sub0_bindings in Hb. congruence.
  Qed.

  Lemma val_tagged_none off (x : ext) ch col d :
    val (flat_map (fun p : pair => if snd p =? ch then highlight ly m off (fst p) col else []) x) i d = d.
  Proof.
    apply val_none. intros v Hin. apply in_flat_map in Hin. destruct Hin as [p [_ Hw]].
    destruct (snd p =? ch); [|contradiction]. exact (no_highlight _ _ _ _ Hw).
  Qed.

  Lemma val_ext_none off x d : val (ext_writes ly m off x) i d = d.
  Proof.
    apply val_none. intros v Hin. unfold ext_writes in Hin. apply in_flat_map in Hin. destruct Hin as [ch [_ Hw]].
    unfold ext_chan_writes in Hw. apply in_flat_map in Hw. destruct Hw as [p [_ Hw]].
    destruct (snd p =? ch); [|contradiction]. exact (no_highlight _ _ _ _ Hw).
  Qed.

  Lemma val_held_none off nt d : val (held_writes ly m off nt) i d = d.
  Proof.
    apply val_none. intros v Hin. unfold held_writes in Hin. apply in_flat_map in Hin. destruct Hin as [e [_ Hw]].
    exact (no_highlight _ _ _ _ Hw).
  Qed.
End NonKeyLed.

(* ====================================================================== uint8 subtraction without aliasing *)
Lemma sub8_exact n b off :
  (-128 <= off <= 128)%Z -> n < 128 -> b < 128 ->
  (sub8 n off =? b) = (Z.of_N n =? Z.of_N b + off)%Z.
Proof.
  intros Ho Hn Hb. unfold sub8.
  pose proof (Z.mod_pos_bound (Z.of_N n - off) 256 ltac:(lia)) as Hm.
  pose proof (Z.div_mod (Z.of_N n - off) 256 ltac:(lia)) as Hd.
  destruct (Z.of_N n =? Z.of_N b + off)%Z eqn:E.
  - apply Z.eqb_eq in E. apply N.eqb_eq. replace (Z.of_N n - off)%Z with (Z.of_N b) by lia.
    rewrite Z.mod_small by lia. apply N2Z.id.
  - apply N.eqb_neq. intro H. apply Z.eqb_neq in E. apply E.
    assert (H' : ((Z.of_N n - off) mod 256 = Z.of_N b)%Z) by (rewrite <- H; rewrite Z2N.id; lia).
    lia.
Qed.

(* ====================================================================== C17_key_colour_partial *)
Definition ext_valid (x : ext) : Prop := forall p, In p x -> fst p < 128.
Definition held_valid (s : state) : Prop := forall e, In e (noteT s) -> fst (snd e) < 128.

Lemma existsb_ext {A} (f g : A -> bool) l : (forall a, In a l -> f a = g a) -> existsb f l = existsb g l.
Proof.
  induction l as [|a r IH]; intro H; cbn; [reflexivity|].
  rewrite (H a) by (left; reflexivity). rewrite IH by (intros; apply H; right; assumption). reflexivity.
Qed.

Lemma existsb_map' {A B} (f : B -> bool) (g : A -> B) l : existsb f (map g l) = existsb (fun a => f (g a)) l.
Proof. induction l as [|a r IH]; cbn; [reflexivity|]. rewrite IH. reflexivity. Qed.

Lemma find_ext {A} (f g : A -> bool) l : (forall a, f a = g a) -> find f l = find g l.
Proof. intro H. induction l as [|a r IH]; cbn; [reflexivity|]. rewrite H, IH. reflexivity. Qed.

Lemma frame_length c ctl ly ls : length (frame c ctl ly ls) = length ly.
Proof. unfold frame. rewrite apply_writes_length. apply repeat_length. Qed.

Lemma nth_repeat {A} (a d : A) n i : (i < n)%nat -> nth i (repeat a n) d = a.
Proof. revert i. induction n as [|n IH]; intros i H; [lia|]. destruct i; cbn; [reflexivity|apply IH; lia]. Qed.

(* no action write is aimed at the LED of a key that carries no action *)
Lemma a2c_find_action c a k : a2c c a = Some k -> find_action c k = Some a.
Proof.
  unfold a2c. destruct (find _ (actions c)) as [[k' a']|] eqn:E; [|discriminate]. intro H. injection H as <-.
  apply find_some in E. destruct E as [_ E]. cbn in E. apply andb_true_iff in E. destruct E as [_ E].
  destruct (find_action c k') as [a''|]; [|discriminate]. apply action_eqb_spec in E. congruence.
Qed.

Lemma set_action_led_other c ly a col kc i v :
  imap ly kc = Some i -> find_action c kc <> Some a -> ~ In (i, v) (set_action_led c ly a col).
Proof.
  intros Hled Hna Hin. unfold set_action_led in Hin. destruct (a2c c a) as [code|] eqn:Ea; [|contradiction].
  destruct (imap ly code) as [id|] eqn:Ei; [|contradiction]. destruct Hin as [Hin|[]]. injection Hin as -> _.
  assert (code = kc) by (eapply imap_inj; eassumption). subst code. apply a2c_find_action in Ea. contradiction.
Qed.

Lemma val_action_other (W : action -> colour -> list write) c s i d :
  (forall a col v, ~ In (i, v) (W a col)) -> val (action_writes W c s) i d = d.
Proof.
  intro H. apply val_none. intros v Hin. unfold action_writes in Hin.
  repeat (apply in_app_or in Hin; destruct Hin as [Hin|Hin];
          [repeat match type of Hin with In _ (if ?b then _ else _) => destruct b end; try contradiction; exact (H _ _ _ Hin)|]).
  exact (H _ _ _ Hin).
Qed.

Lemma key_colour c ctl ly s x kc key i :
  (-128 <= offset s <= 128)%Z ->
  imap ly kc = Some i ->
  find_key c s 0 kc = Some key -> k_note key < 128 ->
  find_action c kc = None ->
  held_valid s -> ext_valid x ->
  nth i (frame c ctl ly (s, x)) Off =
  spec_colour (m_name (cur_mapping c s) =? ctl) (offset s) (held_notes s) x (channel s) (k_note key).
Proof.
  intros Ho Hled Hkey Hb Hna Hh Hx. unfold find_key in Hkey.
  pose proof (imap_some _ _ _ Hled) as [_ Hlt].
  unfold frame. rewrite nth_apply by (rewrite repeat_length; exact Hlt). rewrite nth_repeat by exact Hlt.
  unfold frame_writes. cbn [fst snd]. rewrite !val_app.
  rewrite (val_held ly _ kc key i Hled Hkey).
  unfold cur_writes. rewrite (val_tagged ly _ kc key i Hled Hkey).
  rewrite (val_ext ly _ kc key i Hled Hkey).
  rewrite (val_keys ly _ kc key i Hled Hkey).
  rewrite val_action_other by (intros a col v; apply (set_action_led_other c ly a col kc i v Hled); congruence).
  unfold spec_colour, held_notes. rewrite existsb_map'. cbn beta.
  rewrite (existsb_ext (fun e : N * pair => sub8 (fst (snd e)) (offset s) =? k_note key)
                       (fun e : N * pair => (Z.of_N (fst (snd e)) =? Z.of_N (k_note key) + offset s)%Z))
    by (intros e He; apply sub8_exact; [exact Ho|apply Hh; exact He|exact Hb]).
  destruct (existsb _ (noteT s)); [reflexivity|].
  rewrite (existsb_ext (fun p : pair => (snd p =? channel s) && (sub8 (fst p) (offset s) =? k_note key))
                       (fun q : pair => (Z.of_N (fst q) =? Z.of_N (k_note key) + offset s)%Z && (snd q =? channel s)))
    by (intros p Hp; rewrite (sub8_exact _ _ _ Ho (Hx p Hp) Hb); apply andb_comm).
  destruct (existsb _ x); [reflexivity|].
  rewrite (find_ext (fun ch => existsb (fun p : pair => (snd p =? ch) && (sub8 (fst p) (offset s) =? k_note key)) x)
                    (fun c0 => existsb (fun q : pair => (Z.of_N (fst q) =? Z.of_N (k_note key) + offset s)%Z && (snd q =? c0)) x))
    by (intro ch; apply existsb_ext; intros p Hp; rewrite (sub8_exact _ _ _ Ho (Hx p Hp) Hb); apply andb_comm).
  reflexivity.
Qed.

(* ====================================================================== C17_state_keys *)
Lemma val_if (b : bool) (x y : list write) i d : val (if b then x else y) i d = if b then val x i d else val y i d.
Proof. destruct b; reflexivity. Qed.

Lemma if_same {A} (b : bool) (x : A) : (if b then x else x) = x.
Proof. destruct b; reflexivity. Qed.

Lemma set_action_led_self c ly a col kc i d :
  a2c c a = Some kc -> imap ly kc = Some i -> val (set_action_led c ly a col) i d = col.
Proof. unfold set_action_led. intros -> ->. cbn. rewrite Nat.eqb_refl. reflexivity. Qed.

Lemma set_action_led_skip c ly a a' col kc i d :
  a2c c a = Some kc -> imap ly kc = Some i -> a' <> a -> val (set_action_led c ly a' col) i d = d.
Proof.
  intros Ha Hled Hne. apply val_none. intro v. apply (set_action_led_other c ly a' col kc i v Hled).
  rewrite (a2c_find_action _ _ _ Ha). congruence.
Qed.

Ltac bool_to_prop :=
  repeat match goal with
         | H : (_ <? _)%Z = true |- _ => apply Z.ltb_lt in H
         | H : (_ <? _)%Z = false |- _ => apply Z.ltb_ge in H
         | H : (_ <=? _)%Z = true |- _ => apply Z.leb_le in H
         | H : (_ <=? _)%Z = false |- _ => apply Z.leb_gt in H
         | H : (_ =? _)%Z = true |- _ => apply Z.eqb_eq in H
         | H : (_ =? _)%Z = false |- _ => apply Z.eqb_neq in H
         | H : Nat.eqb _ _ = true |- _ => apply Nat.eqb_eq in H
         | H : Nat.eqb _ _ = false |- _ => apply Nat.eqb_neq in H
         | H : (_ =? _) = true |- _ => apply N.eqb_eq in H
         | H : (_ =? _) = false |- _ => apply N.eqb_neq in H
         end.

Lemma val_action_self c ly s a kc i :
  is_state_action a = true -> a2c c a = Some kc -> imap ly kc = Some i ->
  val (action_writes (set_action_led c ly) c s) i Unavailable = spec_action_colour (length (mappings c)) s a.
Proof.
  intros Hs Ha Hled.
  pose proof (fun col d => set_action_led_self c ly a col kc i d Ha Hled) as Hself.
  pose proof (fun a' col d => set_action_led_skip c ly a a' col kc i d Ha Hled) as Hskip.
  unfold action_writes. rewrite !val_app, !val_if. cbn [val].
  destruct a; try discriminate Hs; clear Hs;
    rewrite ?Hself;
    rewrite ?(Hskip Panic), ?(Hskip OctaveUp), ?(Hskip OctaveDown), ?(Hskip SemitoneUp), ?(Hskip SemitoneDown),
            ?(Hskip MappingUp), ?(Hskip MappingDown), ?(Hskip ChannelUp), ?(Hskip ChannelDown), ?(Hskip Multinote) by discriminate;
    rewrite ?if_same; unfold spec_action_colour, level, PanicRed;
    repeat match goal with |- context [if ?b then _ else _] => destruct b eqn:? end;
    bool_to_prop; try reflexivity; try lia; try congruence.
Qed.

Lemma state_keys c ctl ly s x a kc i :
  is_state_action a = true -> a2c c a = Some kc -> imap ly kc = Some i -> find_key c s 0 kc = None ->
  nth i (frame c ctl ly (s, x)) Off = spec_action_colour (length (mappings c)) s a.
Proof.
  intros Hs Ha Hled Hnk. unfold find_key in Hnk.
  pose proof (imap_some _ _ _ Hled) as [_ Hlt].
  unfold frame. rewrite nth_apply by (rewrite repeat_length; exact Hlt). rewrite nth_repeat by exact Hlt.
  unfold frame_writes. cbn [fst snd]. rewrite !val_app.
  rewrite (val_held_none ly _ kc i Hled Hnk).
  unfold cur_writes. rewrite (val_tagged_none ly _ kc i Hled Hnk).
  rewrite (val_ext_none ly _ kc i Hled Hnk).
  rewrite (val_keys_none ly _ kc i Hled Hnk).
  exact (val_action_self c ly s a kc i Hs Ha Hled).
Qed.

(* ====================================================================== C17_ext_clear *)
Lemma lt16_cases ch : ch < 16 -> In ch (map N.of_nat (seq 0 16)).
Proof. intro H. rewrite <- (N2Nat.id ch). apply in_map. apply in_seq. lia. Qed.

Lemma midi_in_rules x ch n v :
  ch < 16 ->
  midi_in x [NOTE_OFF + ch; n; v] = Some (srem pair_eqb (n, ch) x) /\
  midi_in x [NOTE_OFF + ch; n] = Some (srem pair_eqb (n, ch) x) /\
  midi_in x [NOTE_ON + ch; n; 0] = Some (srem pair_eqb (n, ch) x) /\
  (v <> 0 -> midi_in x [NOTE_ON + ch; n; v] = Some (sadd pair_eqb (n, ch) x)).
Proof.
  intro H. apply lt16_cases in H. cbn in H.
  repeat (destruct H as [<-|H]; [repeat split; try reflexivity; intro Hv; unfold midi_in; cbn;
                                 destruct (v =? 0) eqn:E; [apply N.eqb_eq in E; contradiction|reflexivity]|]).
  contradiction.
Qed.

Lemma ext_removed (x : ext) p : ~ In p (srem pair_eqb p x) /\ (forall q, q <> p -> (In q (srem pair_eqb p x) <-> In q x)).
Proof.
  split.
  - intro H. apply (in_srem pair_eqb pair_eqb_spec) in H. destruct H as [_ H]. congruence.
  - intros q Hq. rewrite (in_srem pair_eqb pair_eqb_spec). tauto.
Qed.

Lemma ext_added (x : ext) p : In p (sadd pair_eqb p x) /\ (forall q, q <> p -> (In q (sadd pair_eqb p x) <-> In q x)).
Proof.
  split.
  - apply (in_sadd pair_eqb pair_eqb_spec). left. reflexivity.
  - intros q Hq. rewrite (in_sadd pair_eqb pair_eqb_spec). tauto.
Qed.

Lemma panic_clears c s x e :
  lstep c (s, x) (LDev e) = Some ((fst (step c s e), if fires_panic c s e then [] else x), snd (step c s e)).
Proof. cbn. destruct (step c s e). reflexivity. Qed.

(* [fires_panic] is the event on which the device emits the panic burst *)
Lemma fires_panic_burst c s e : fires_panic c s e = true -> midi (snd (step c s e)) = panic_burst (channel s).
Proof.
  destruct e as [sub code val|sa|]; cbn [fires_panic step]; [| |discriminate].
  - destruct (val =? 2)%Z; [discriminate|]. unfold handle_key.
    destruct (val =? 1)%Z; cbn [andb].
    + destruct (exit_complete c (keyT (set_keyT (sadd N.eqb code (keyT s)) s))); [discriminate|].
      destruct (find_action c code) as [a|]; [|discriminate].
      destruct (check_double _); [discriminate|]. intro H. apply action_eqb_spec in H. subst a. reflexivity.
    + destruct (find_action c code); discriminate.
  - unfold handle_sample. destruct (learning s && negb (sa_gate sa)); [discriminate|].
    destruct (a_type (sa_an sa)); try discriminate. unfold handle_actionsim.
    destruct (check_double s); [discriminate|].
    destruct (sa_zone sa); try discriminate; intro H; apply action_eqb_spec in H; rewrite H; reflexivity.
Qed.

(* ====================================================================== C17_final_red *)
Lemma final_red ly : length (final_frame ly) = length ly /\ forall i, (i < length ly)%nat -> nth i (final_frame ly) Off = Red.
Proof. unfold final_frame. split; [apply repeat_length|intros i H; apply nth_repeat; exact H]. Qed.

(* ====================================================================== reachable states *)
Definition dev_events (h : list lev) : list ev := flat_map (fun e => match e with LDev e' => [e'] | LMidi _ => [] end) h.
(* MIDI-input messages carry data bytes (< 128) where a note number is read *)
Definition midi_valid (h : list lev) : Prop :=
  forall m, In (LMidi m) h -> match m with _ :: n :: _ => n < 128 | _ => True end.

Lemma lrun_state c h : forall s x ls os,
  lrun_from c (s, x) h = Some (ls, os) -> fst ls = fst (run_from c s (dev_events h)).
Proof.
  induction h as [|e r IH]; intros s x ls os H; cbn in H.
  - injection H as <- _. reflexivity.
  - destruct e as [e|m].
    + cbn [lstep fst snd] in H. cbn [dev_events flat_map app]. cbn [run_from]. destruct (step c s e) as [s1 o].
      destruct (lrun_from c (s1, if fires_panic c s e then [] else x) r) as [[ls2 os2]|] eqn:E; [|discriminate]. injection H as <- _.
      rewrite (IH _ _ _ _ E). fold (dev_events r). destruct (run_from c s1 (dev_events r)). reflexivity.
    + cbn [lstep fst snd] in H. destruct (midi_in x m) as [x'|]; [|discriminate].
      destruct (lrun_from c (s, x') r) as [[ls2 os2]|] eqn:E; [|discriminate]. injection H as <- _.
      cbn [dev_events flat_map app]. exact (IH _ _ _ _ E).
Qed.

Lemma midi_in_valid x m x' :
  ext_valid x -> match m with _ :: n :: _ => n < 128 | _ => True end -> midi_in x m = Some x' -> ext_valid x'.
Proof.
  intros Hx Hm. unfold midi_in.
  assert (Hrem : forall p, ext_valid (srem pair_eqb p x)).
  { intros p q Hq. apply (in_srem pair_eqb pair_eqb_spec) in Hq. apply Hx. tauto. }
  assert (Hadd : forall n ch, n < 128 -> ext_valid (sadd pair_eqb (n, ch) x)).
  { intros n ch Hn q Hq. apply (in_sadd pair_eqb pair_eqb_spec) in Hq. destruct Hq as [->|Hq]; [exact Hn|apply Hx; exact Hq]. }
  destruct (ev_type m =? NOTE_ON).
  - destruct m as [|st [|n rest]]; try discriminate. destruct rest as [|v rest'].
    + intro H. injection H as <-. apply Hadd. exact Hm.
    + destruct (v =? 0); intro H; injection H as <-; [apply Hrem|apply Hadd; exact Hm].
  - destruct (ev_type m =? NOTE_OFF).
    + destruct m as [|st [|n rest]]; try discriminate. intro H. injection H as <-. apply Hrem.
    + intro H. injection H as <-. exact Hx.
Qed.

Lemma lrun_ext_valid c h : forall s x ls os,
  ext_valid x -> midi_valid h -> lrun_from c (s, x) h = Some (ls, os) -> ext_valid (snd ls).
Proof.
  induction h as [|e r IH]; intros s x ls os Hx Hm H; cbn in H.
  - injection H as <- _. exact Hx.
  - assert (Hm' : midi_valid r) by (intros m Hin; apply Hm; right; exact Hin).
    destruct e as [e|m].
    + cbn [lstep fst snd] in H. destruct (step c s e) as [s1 o].
      destruct (lrun_from c (s1, if fires_panic c s e then [] else x) r) as [[ls2 os2]|] eqn:E; [|discriminate]. injection H as <- _.
      refine (IH _ _ _ _ _ Hm' E). destruct (fires_panic c s e); [intros p []|exact Hx].
    + cbn [lstep fst snd] in H. destruct (midi_in x m) as [x'|] eqn:Em; [|discriminate].
      destruct (lrun_from c (s, x') r) as [[ls2 os2]|] eqn:E; [|discriminate]. injection H as <- _.
      refine (IH _ _ _ _ _ Hm' E). apply (midi_in_valid x m x' Hx); [apply Hm; left; reflexivity|exact Em].
Qed.

Lemma key_colour_reachable c ctl ly h ls os kc key i :
  lrun_from c (linit c) h = Some (ls, os) ->
  alternating (dev_events h) -> midi_valid h ->
  (-128 <= offset (fst ls) <= 128)%Z ->
  imap ly kc = Some i ->
  find_key c (fst ls) 0 kc = Some key -> k_note key < 128 ->
  find_action c kc = None ->
  nth i (frame c ctl ly ls) Off =
  spec_colour (m_name (cur_mapping c (fst ls)) =? ctl) (offset (fst ls)) (held_notes (fst ls)) (snd ls) (channel (fst ls)) (k_note key).
Proof.
  intros Hrun Halt Hm Ho Hled Hkey Hb Hna.
  pose proof (lrun_state c h _ _ _ _ Hrun) as Hs.
  pose proof (lrun_ext_valid c h _ _ _ _ (fun p (H : In p []) => match H with end) Hm Hrun) as Hx.
  destruct (run_inv c (dev_events h) Halt) as [HI _]. fold (run c (dev_events h)) in Hs. rewrite <- Hs in HI.
  destruct ls as [s x]. cbn [fst snd] in *.
  apply (key_colour c ctl ly s x kc key i); try assumption.
  intros [k p] Hin. cbn. exact (proj2 (inv_ch c s HI k p Hin)).
Qed.
