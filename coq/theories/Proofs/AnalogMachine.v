(* C05 for the full machine: float layer (Model/AnalogF.v) + state machine (Model/Device.v).  In the domain of the general
   C06 theorems every sample the float layer hands to the state machine satisfies [wf_sample], the "no deadzone configured"
   panic is unreachable, hence every emitted message is well-formed - without the sample bounds being a hypothesis. *)
From Coq Require Import List NArith ZArith Bool Reals Lra Lia.
From Flocq Require Import Core.Core.
From Flocq Require IEEE754.BinarySingleNaN.
From HIDI Require Import Base.AList Model.Device Model.AnalogF Model.AnalogSpec Proofs.DeviceBasics Proofs.DeviceWf
  Proofs.AnalogProofs Proofs.AnalogEndstop Proofs.AnalogGeneral Proofs.AnalogGeneral2.
Import ListNotations.

Definition absinfo_of (ai : absinfos) (code : N) : Z * Z :=
  match get N.eqb code ai with Some p => p | None => (0%Z, 0%Z) end.

(* the axis entry the device finds for (sub, code) while mapping number m is selected (none beyond the last mapping) *)
Definition axis_entry (c : config) (m : nat) (sub code : N) : option analog :=
  get skey_eqb (sub, code) (m_analog (nth m (mappings c) empty_mapping)).

(* For every axis entry the device can look up in any mapping: controller numbers below 128 (what the parser guarantees,
   C05_parser_axis_in_range), the axis' reported range is in the domain -2^31 <= min <= 0 < max < 2^31 with
   deadzone_at_center only for min = 0 (an axis WITHOUT absinfo reads as (0, 0) in Go and in the model and is NOT in the
   domain), and a deadzone is configured for it in the same mapping (else the device panics) and is a finite float in
   [0, 1 - 2^-10]. *)
Definition machine_dom (c : config) (fc : fconfig) (ai : absinfos) : Prop :=
  forall m sub code a, axis_entry c m sub code = Some a ->
    (a_cc a < 128)%N /\ (a_ccneg a < 128)%N /\
    axis_dom (fst (absinfo_of ai code)) (snd (absinfo_of ai code)) (a_dzc a) /\
    exists dz, lookup_deadzone (nth m fc empty_fmapping) sub code = Some dz /\ dz_dom dz.

(* an event of a mapped axis carries a value of the axis' reported range; key events, SYN and events of axes that no mapping
   mentions are unrestricted *)
Definition fev_in_range (c : config) (ai : absinfos) (e : fev) : Prop :=
  match e with
  | FAbs sub code raw =>
      (exists m a, axis_entry c m sub code = Some a) ->
      (fst (absinfo_of ai code) <= raw <= snd (absinfo_of ai code))%Z
  | _ => True
  end.

(* ---------------------------------------------------------------------- the sample of an in-domain axis event *)
Lemma ccv_bound canneg bidi x : B.is_finite x = true -> in_range canneg (B.B2R x) ->
  (snd (cc_encode canneg bidi x) < 128)%N.
Proof.
  intros Hf Hr. pose proof (tx_int_ok (if bidi then KCCbidi else KCCuni) canneg x Hf Hr) as T.
  pose proof (TXR_range (if bidi then KCCbidi else KCCuni) canneg _ Hr) as R. rewrite <- T in R.
  destruct bidi; unfold tx_int, full in R; lia.
Qed.

Lemma sample_wf code a mn mx dz raw :
  (a_cc a < 128)%N -> (a_ccneg a < 128)%N -> axis_dom mn mx (a_dzc a) -> dz_dom dz -> (mn <= raw <= mx)%Z ->
  wf_sample (make_sample code a (snd (shape mn mx (a_dzc a) dz raw))
               (flip_value (a_flip a) (snd (shape mn mx (a_dzc a) dz raw)) (fst (shape mn mx (a_dzc a) dz raw)))).
Proof.
  intros Hc Hn Hd Hdz Hr.
  pose proof (shape_in_range mn mx (a_dzc a) dz raw Hd Hdz Hr) as Hin.
  destruct (shape_finite_range mn mx (a_dzc a) dz raw Hd Hdz Hr) as [Hf _].
  set (cn := snd (shape mn mx (a_dzc a) dz raw)) in *. set (v := fst (shape mn mx (a_dzc a) dz raw)) in *.
  destruct (flip_ok (a_flip a) cn v Hf Hin) as [F1 F2].
  pose proof (FR_range (a_flip a) cn _ Hin) as Fr. rewrite <- F1 in Fr.
  set (x := flip_value (a_flip a) cn v) in *.
  destruct (make_sample_fields code a cn x) as (S1&_&S3&S4).
  unfold wf_sample. rewrite S1. repeat split; try assumption.
  unfold make_sample. pose proof (ccv_bound cn (a_bidi a) x F2 Fr) as B.
  destruct (cc_encode cn (a_bidi a) x) as [neg ccv]. destruct (pb_bytes true (centred cn x)) as [lsb msb]. exact B.
Qed.

(* ---------------------------------------------------------------------- one step of the full machine *)
Lemma digest_wf c fc ai s fs sub code raw :
  machine_dom c fc ai -> fev_in_range c ai (FAbs sub code raw) ->
  match digest (nth (mapidx s) fc empty_fmapping) ai (find_analog c s sub code) fs sub code raw with
  | (FCrash, _) => False
  | (FNone, _) => True
  | (FSample sa, _) => wf_sample sa
  end.
Proof.
  intros Hm He. unfold digest. destruct (find_analog c s sub code) as [a|] eqn:Fa; [|exact I].
  unfold find_analog, cur_mapping in Fa. fold (axis_entry c (mapidx s) sub code) in Fa.
  destruct (Hm _ _ _ _ Fa) as (Hc&Hn&Hd&dz&Ld&Hdz). cbn [fev_in_range] in He.
  specialize (He (ex_intro _ (mapidx s) (ex_intro _ a Fa))).
  unfold absinfo_of in *. destruct (match get N.eqb code ai with Some p => p | None => (0%Z, 0%Z) end) as [mn mx].
  cbn [fst snd] in *. rewrite Ld.
  pose proof (sample_wf code a mn mx dz raw Hc Hn Hd Hdz He) as W.
  destruct (shape mn mx (a_dzc a) dz raw) as [v cn]. cbn [fst snd] in W.
  destruct (feq _ v); [exact I|exact W].
Qed.

Lemma fstep_wf c fc ai s fs e :
  machine_dom c fc ai -> fev_in_range c ai e -> Wf s ->
  exists s' fs' o, fstep c fc ai (s, fs) e = Some ((s', fs'), o) /\ Wf s' /\ Forall wf_msg (midi o).
Proof.
  intros Hm He HW. destruct e as [sub code val|sub code raw|]; cbn [fstep].
  - destruct (step_Wf c s (EKey sub code val) I HW) as [W F].
    destruct (step c s (EKey sub code val)) as [s' o]. exists s', fs, o. split; [reflexivity|split; assumption].
  - pose proof (digest_wf c fc ai s fs sub code raw Hm He) as D.
    destruct (digest (nth (mapidx s) fc empty_fmapping) ai (find_analog c s sub code) fs sub code raw) as [[|sa|] fs'].
    + exists s, fs', silent. split; [reflexivity|split; [exact HW|constructor]].
    + destruct (step_Wf c s (ESample sa) D HW) as [W F].
      destruct (step c s (ESample sa)) as [s' o]. exists s', fs', o. split; [reflexivity|split; assumption].
    + destruct D.
  - exists s, fs, silent. split; [reflexivity|split; [exact HW|constructor]].
Qed.

Lemma frun_from_wf c fc ai h : forall s fs,
  machine_dom c fc ai -> Forall (fev_in_range c ai) h -> Wf s ->
  exists st outs, frun_from c fc ai (s, fs) h = Some (st, outs) /\ Wf (fst st) /\ Forall wf_msg (all_midi outs).
Proof.
  induction h as [|e r IH]; intros s fs Hm He HW; cbn [frun_from].
  - exists (s, fs), []. split; [reflexivity|split; [exact HW|constructor]].
  - inversion He as [|? ? H1 H2]; subst.
    destruct (fstep_wf c fc ai s fs e Hm H1 HW) as (s'&fs'&o&E&W&F). rewrite E.
    destruct (IH s' fs' Hm H2 W) as (st&outs&E2&W2&F2). rewrite E2.
    exists st, (o :: outs). split; [reflexivity|]. split; [exact W2|]. unfold all_midi. cbn [flat_map]. apply Forall_app. split; assumption.
Qed.

(* ====================================================================== C05 for the full machine *)
Theorem machine_wf c fc ai h :
  wf_defaults c -> machine_dom c fc ai -> Forall (fev_in_range c ai) h ->
  exists st outs, frun c fc ai h = Some (st, outs) /\
    Forall wf_msg (all_midi outs ++ snd (cleanup c (fst st))) /\ (channel (fst st) < 16)%N.
Proof.
  intros Hc Hm He. unfold frun.
  destruct (frun_from_wf c fc ai h (init c) [] Hm He (init_Wf c Hc)) as (st&outs&E&W&F).
  exists st, outs. split; [exact E|]. split; [|apply (wf_channel _ W)].
  apply Forall_app. split; [exact F|apply cleanup_Wf; exact W].
Qed.

(* ====================================================================== the domain is inhabited *)
(* a bidirectional controller pair on a 16-bit stick (code 0) in both mappings, a flipped pitch bend with deadzone_at_center
   on an 8-bit trigger (code 2) in the second one; default deadzone 0.05, deadzone 0 for the trigger *)
Definition ex_cc : analog :=
  {| a_type := ACC; a_cc := 1; a_ccneg := 2; a_note := 0; a_noteneg := 0; a_off := 0; a_offneg := 0;
     a_act := ANone; a_actneg := ANone; a_flip := false; a_bidi := true; a_dzc := false |}.
Definition ex_pb : analog :=
  {| a_type := APitchBend; a_cc := 0; a_ccneg := 0; a_note := 0; a_noteneg := 0; a_off := 1; a_offneg := 0;
     a_act := ANone; a_actneg := ANone; a_flip := true; a_bidi := false; a_dzc := true |}.
Definition ex_config : config :=
  {| mappings := [ {| m_name := 0; m_midi := []; m_analog := [((0, 0), ex_cc)] |};
                   {| m_name := 1; m_midi := []; m_analog := [((0, 2), ex_pb); ((0, 0), ex_cc)] |} ]%N;
     actions := [(1, MappingUp)]%N; exitseq := []; cmode_of := COff;
     d_octave := 0; d_semitone := 0; d_channel := 1; d_mapping := 0; d_velocity := 64 |}.
Definition ex_fconfig : fconfig :=
  [ {| fm_dz := []; fm_dzdef := [(0%N, dz005)] |}; {| fm_dz := [((0, 2)%N, f0)]; fm_dzdef := [(0%N, dz005)] |} ].
Definition ex_absinfos : absinfos := [(0%N, (-32768, 32767)%Z); (2%N, (0, 255)%Z)].

Lemma ex_machine_dom : wf_defaults ex_config /\ machine_dom ex_config ex_fconfig ex_absinfos.
Proof.
  split; [unfold wf_defaults; cbn; lia|].
  destruct dom_examples as (D1&D2&_).
  assert (L : forall sub, lookup_deadzone {| fm_dz := []; fm_dzdef := [(0%N, dz005)] |} sub 0 = Some dz005).
  { intro sub. unfold lookup_deadzone. cbn. destruct (sub =? 0)%N; reflexivity. }
  intros m sub code a H. unfold axis_entry in H. destruct m as [|[|m]].
  - cbn in H. unfold skey_eqb in H. cbn in H. revert H. destruct (N.eqb_spec sub 0) as [->|]; [|cbn; discriminate]. destruct (N.eqb_spec code 0) as [->|]; [|cbn; discriminate].
    cbn. intro H. injection H as <-. split; [reflexivity|]. split; [reflexivity|]. split; [exact D1|].
    exists dz005. split; [reflexivity|exact dz005_dom].
  - cbn in H. unfold skey_eqb in H. cbn in H. revert H. destruct (N.eqb_spec sub 0) as [->|]; [|cbn; discriminate].
    destruct (N.eqb_spec code 2) as [->|].
    + cbn. intro H. injection H as <-. split; [reflexivity|]. split; [reflexivity|]. split; [exact D2|].
      exists f0. split; [reflexivity|exact f0_dom].
    + cbn. destruct (N.eqb_spec code 0) as [->|]; [|cbn; discriminate].
      intro H. injection H as <-. split; [reflexivity|]. split; [reflexivity|]. split; [exact D1|].
      exists dz005. split; [reflexivity|exact dz005_dom].
  - exfalso. destruct m; cbn in H; discriminate.
Qed.

(* ... and a history in range: move the stick, switch to the second mapping, move the trigger *)
Definition ex_history : list fev :=
  [FAbs 0 0 (-32768); FAbs 0 0 12345; FKey 0 1 1; FKey 0 1 0; FAbs 0 2 255; FAbs 0 2 0; FSyn; FAbs 0 7 99999]%N%Z.

Lemma ex_history_in_range : Forall (fev_in_range ex_config ex_absinfos) ex_history.
Proof.
  assert (U : forall m a, axis_entry ex_config m 0 7 = Some a -> False).
  { intros m a H. unfold axis_entry in H. destruct m as [|[|[|m]]]; cbn in H; discriminate. }
  unfold ex_history. repeat (apply Forall_cons); try apply Forall_nil; cbn [fev_in_range]; try exact I;
    try (intros _; cbn; lia).
  intros (m&a&H). exfalso. exact (U m a H).
Qed.
