(* Core invariants of the device state machine (DESIGN I1-I4) and the receiver-side soundness relation:
   everything sounding at the receiver is backed by a tracker entry. *)
From Coq Require Import List NArith ZArith Bool Lia.
From HIDI Require Import Base.AList Model.Device Proofs.DeviceBasics Proofs.Recv.
Import ListNotations.
Open Scope N_scope.

Definition mult (p : pair) (l : list pair) : nat := length (filter (pair_eqb p) l).

Lemma mult_cons q p l : mult q (p :: l) = ((if pair_eqb q p then 1 else 0) + mult q l)%nat.
Proof. unfold mult. cbn. destruct (pair_eqb q p); reflexivity. Qed.

Lemma mult_pos_in q l : (0 < mult q l)%nat -> In q l.
Proof.
  unfold mult. induction l as [|x r IH]; cbn; [lia|].
  destruct (pair_eqb q x) eqn:E.
  - intros _. left. symmetry. apply pair_eqb_spec. exact E.
  - intro H. right. apply IH. exact H.
Qed.

Lemma in_mult_pos q l : In q l -> (0 < mult q l)%nat.
Proof.
  unfold mult. induction l as [|x r IH]; cbn; [tauto|].
  intros [->|H].
  - rewrite (proj2 (pair_eqb_spec q q) eq_refl). cbn. lia.
  - destruct (pair_eqb q x); cbn; [lia|apply IH; exact H].
Qed.

Section Vals.
  Context {K : Type} (eqb : K -> K -> bool) (eqb_spec : forall a b, eqb a b = true <-> a = b).

  Lemma vals_set_notin k (v : pair) (l : list (K * pair)) :
    ~ In k (keys l) -> vals (set eqb k v l) = v :: vals l.
  Proof. intro H. unfold set. cbn. rewrite (del_notin eqb eqb_spec k l H). reflexivity. Qed.

  Lemma mult_vals_del k p q (l : list (K * pair)) :
    NoDup (keys l) -> get eqb k l = Some p ->
    mult q (vals l) = ((if pair_eqb q p then 1 else 0) + mult q (vals (del eqb k l)))%nat.
  Proof.
    induction l as [|[k2 v2] r IH]; cbn [get]; [discriminate|].
    intros Hnd Hg. cbn [keys map fst] in Hnd. inversion Hnd as [|? ? Hn Hr]; subst.
    cbn [del]. destruct (eqb k k2) eqn:E.
    - injection Hg as ->. apply eqb_spec in E. subst k2.
      rewrite (del_notin eqb eqb_spec k r Hn). cbn [vals map snd]. rewrite mult_cons. reflexivity.
    - cbn [vals map snd]. rewrite !mult_cons. fold (vals r). fold (vals (del eqb k r)). rewrite (IH Hr Hg). lia.
  Qed.

  Lemma in_vals_del k p q (l : list (K * pair)) :
    NoDup (keys l) -> get eqb k l = Some p -> In q (vals l) -> q <> p -> In q (vals (del eqb k l)).
  Proof.
    intros Hnd Hg Hin Hne. unfold vals in *. apply in_map_iff in Hin. destruct Hin as [[k2 v2] [E Hin]]. cbn in E. subst v2.
    apply in_map_iff. exists (k2, q). split; [reflexivity|]. apply (in_del_intro eqb eqb_spec); [exact Hin|].
    intros ->. rewrite (nodup_in_get eqb eqb_spec _ _ _ Hnd Hin) in Hg. congruence.
  Qed.

  Lemma in_vals_of_del k q (l : list (K * pair)) : In q (vals (del eqb k l)) -> In q (vals l).
  Proof.
    unfold vals. intro H. apply in_map_iff in H. destruct H as [[k2 v2] [E H]]. cbn in E. subst v2.
    apply (in_del eqb eqb_spec) in H. apply in_map_iff. exists (k2, q). tauto.
  Qed.
End Vals.

(* ------------------------------------------------------------------ tracker invariants *)
Record InvT (c : config) (s : state) : Prop := mkInvT {
  inv_nodup : NoDup (keys (noteT s));
  inv_noact : forall k, In k (keys (noteT s)) -> find_action c k = None;
  inv_count : forall p, count_of s p = Z.of_nat (mult p (vals (noteT s)));
  inv_ch : forall k p, In (k, p) (noteT s) -> snd p < 16 /\ fst p < 128;
  inv_anodup : NoDup (keys (analogT s));
  inv_ach : forall i p, In (i, p) (analogT s) -> snd p < 16 /\ fst p < 128
}.

Definition Sub (s : state) : Prop := forall k, In k (keys (noteT s)) -> In k (keyT s).

Definition Sound (s : state) (R : list pair) : Prop := incl R (vals (noteT s) ++ vals (analogT s)).

Lemma init_InvT c : InvT c (init c).
Proof.
  constructor; cbn.
  - constructor.
  - intros k [].
  - intro p. reflexivity.
  - intros k p [].
  - constructor.
  - intros i p [].
Qed.
Lemma init_Sub c : Sub (init c).
Proof. intros k []. Qed.
Lemma init_Sound c : Sound (init c) [].
Proof. intros q []. Qed.

Lemma count_of_bump p d s q :
  count_of (bump p d s) q = if pair_eqb q p then (count_of s p + d)%Z else count_of s q.
Proof.
  unfold count_of, bump. cbn [counter set_counter].
  destruct (pair_eqb q p) eqn:E.
  - apply pair_eqb_spec in E. subst q. rewrite (get_set_same pair_eqb pair_eqb_spec). reflexivity.
  - rewrite (get_set_other pair_eqb pair_eqb_spec); [reflexivity|]. intros ->.
    rewrite (proj2 (pair_eqb_spec p p) eq_refl) in E. discriminate.
Qed.

Lemma in_midi_range_spec z : in_midi_range z = true -> (0 <= z <= 127)%Z.
Proof. unfold in_midi_range. rewrite andb_true_iff, !Z.leb_le. tauto. Qed.

(* An operation on the state producing messages keeps the invariants and the soundness relation. *)
Definition Keeps (c : config) (s : state) (r : state * list msg) : Prop :=
  forall R, InvT c s -> Sound s R -> InvT c (fst r) /\ Sound (fst r) (recv R (snd r)).

Lemma keeps_seq c s f g :
  Keeps c s (f s) -> (Keeps c (fst (f s)) (g (fst (f s)))) ->
  Keeps c s (let '(s1, m1) := f s in let '(s2, m2) := g s1 in (s2, m1 ++ m2)).
Proof.
  intros Hf Hg R HI HS. destruct (f s) as [s1 m1]. cbn [fst snd] in *.
  destruct (g s1) as [s2 m2]. cbn [fst snd] in *.
  destruct (Hf R HI HS) as [HI1 HS1]. destruct (Hg _ HI1 HS1) as [HI2 HS2].
  split; [exact HI2|]. rewrite recv_app. exact HS2.
Qed.

Lemma keeps_id c s : Keeps c s (s, []).
Proof. intros R HI HS. split; assumption. Qed.

(* ---- NoteOn *)
Lemma note_on_key_keeps c s sub code :
  ~ In code (keys (noteT s)) -> find_action c code = None -> Keeps c s (note_on_key c s sub code).
Proof.
  intros Hnot Hact R HI HS. unfold note_on_key.
  destruct (find_key c s sub code) as [k|]; [|split; assumption].
  destruct (in_midi_range (transpose s (k_note k))) eqn:Er; [|split; assumption].
  apply in_midi_range_spec in Er.
  set (note := Z.to_N (transpose s (k_note k))). set (ch := chan_of s (k_off k)). set (p := (note, ch)).
  assert (Hn : note < 128) by (subst note; lia).
  assert (Hc : ch < 16) by apply chan_of_lt.
  cbn [fst snd].
  assert (HV : vals (noteT (bump p 1 (set_noteT (set N.eqb code p (noteT s)) s))) = p :: vals (noteT s)).
  { cbn [noteT bump set_counter set_noteT]. apply (vals_set_notin N.eqb Neqb_spec). exact Hnot. }
  split.
  - destruct HI as [H1 H2 H3 H4 H5 H6]. constructor.
    + cbn [noteT bump set_counter set_noteT]. apply (nodup_set N.eqb Neqb_spec). exact H1.
    + cbn [noteT bump set_counter set_noteT]. intros k0 Hk. unfold set in Hk. cbn [keys map fst] in Hk.
      destruct Hk as [<-|Hk]; [exact Hact|]. fold (keys (del N.eqb code (noteT s))) in Hk.
      apply (in_keys_del N.eqb Neqb_spec) in Hk. apply H2. tauto.
    + intro q. rewrite count_of_bump. rewrite HV, mult_cons.
      change (count_of (set_noteT ?x s) ?y) with (count_of s y).
      rewrite !H3. destruct (pair_eqb q p) eqn:E; [apply pair_eqb_spec in E; subst q|]; lia.
    + cbn [noteT bump set_counter set_noteT]. intros k0 p0 Hin. unfold set in Hin. destruct Hin as [Hin|Hin].
      * injection Hin as <- <-. cbn. split; assumption.
      * apply (in_del N.eqb Neqb_spec) in Hin. apply (H4 k0). tauto.
    + exact H5.
    + exact H6.
  - unfold Sound. rewrite HV. change (analogT (bump _ _ _)) with (analogT s).
    assert (Hbase : forall R', incl R' R -> incl R' ((p :: vals (noteT s)) ++ vals (analogT s))).
    { intros R' Hi q Hq. right. apply HS. apply Hi. exact Hq. }
    assert (Hon : forall R', incl R' R -> incl (recv1 R' (note_on ch note (velocity s))) ((p :: vals (noteT s)) ++ vals (analogT s))).
    { intros R' Hi q Hq. apply (recv1_note_on _ _ _ _ Hc) in Hq. destruct Hq as [<-|Hq]; [left; reflexivity|].
      right. apply HS. apply Hi. exact Hq. }
    destruct (cmode_of c); cbn [recv fold_left].
    + apply Hon. apply incl_refl.
    + destruct (0 <? count_of s p)%Z; cbn [recv fold_left]; [apply Hbase|apply Hon]; apply incl_refl.
    + destruct (0 <? count_of s p)%Z; cbn [recv fold_left].
      * apply Hon. rewrite (recv1_note_off _ _ _ Hc). apply incl_srem.
      * apply Hon. apply incl_refl.
    + apply Hon. apply incl_refl.
Qed.

(* ---- NoteOff *)
Lemma note_off_key_keeps c s code : Keeps c s (note_off_key c s code).
Proof.
  intros R HI HS. unfold note_off_key.
  destruct (get N.eqb code (noteT s)) as [[note ch]|] eqn:Eg; [|split; assumption].
  set (p := (note, ch)) in *.
  destruct HI as [H1 H2 H3 H4 H5 H6].
  pose proof (get_some_in N.eqb Neqb_spec _ _ _ Eg) as Hin.
  destruct (H4 _ _ Hin) as [Hc Hn]. cbn in Hc, Hn.
  cbn [fst snd].
  split.
  - constructor; cbn [noteT analogT bump set_counter set_noteT].
    + apply (nodup_del N.eqb Neqb_spec). exact H1.
    + intros k0 Hk. apply (in_keys_del N.eqb Neqb_spec) in Hk. apply H2. tauto.
    + intro q. rewrite count_of_bump. change (count_of (set_noteT ?x s) ?y) with (count_of s y).
      rewrite !H3. rewrite (mult_vals_del N.eqb Neqb_spec code p q _ H1 Eg).
      rewrite (mult_vals_del N.eqb Neqb_spec code p p _ H1 Eg).
      rewrite (proj2 (pair_eqb_spec p p) eq_refl).
      destruct (pair_eqb q p) eqn:E; [apply pair_eqb_spec in E; subst q|]; lia.
    + intros k0 p0 Hin0. apply (in_del N.eqb Neqb_spec) in Hin0. apply (H4 k0). tauto.
    + exact H5.
    + exact H6.
  - unfold Sound. cbn [noteT analogT bump set_counter set_noteT].
    assert (Hoff : incl (srem pair_eqb p R) (vals (del N.eqb code (noteT s)) ++ vals (analogT s))).
    { intros q Hq. apply (in_srem pair_eqb pair_eqb_spec) in Hq. destruct Hq as [Hq Hne].
      apply HS in Hq. apply in_app_or in Hq. apply in_or_app. destruct Hq as [Hq|Hq]; [left|right; exact Hq].
      apply (in_vals_del N.eqb Neqb_spec code p q _ H1 Eg Hq Hne). }
    assert (Hkeep : count_of s p <> 1%Z -> incl R (vals (del N.eqb code (noteT s)) ++ vals (analogT s))).
    { intros Hcnt q Hq. apply HS in Hq. apply in_app_or in Hq. apply in_or_app. destruct Hq as [Hq|Hq]; [left|right; exact Hq].
      destruct (pair_eqb q p) eqn:E.
      - apply pair_eqb_spec in E. subst q. apply mult_pos_in.
        rewrite H3 in Hcnt. rewrite (mult_vals_del N.eqb Neqb_spec code p p _ H1 Eg) in Hcnt.
        rewrite (proj2 (pair_eqb_spec p p) eq_refl) in Hcnt. lia.
      - apply (in_vals_del N.eqb Neqb_spec code p q _ H1 Eg Hq). intros ->.
        rewrite (proj2 (pair_eqb_spec p p) eq_refl) in E. discriminate. }
    destruct (cmode_of c); cbn [recv fold_left];
      try (destruct (count_of s p =? 1)%Z eqn:E1; cbn [recv fold_left];
           [|apply Hkeep; intro Hx; rewrite Hx in E1; discriminate]);
      subst p; rewrite (recv1_note_off _ _ _ Hc); exact Hoff.
Qed.

(* ---- analog notes *)
Lemma analog_note_on_keeps c s id note off :
  get aid_eqb id (analogT s) = None -> Keeps c s (analog_note_on s id note off).
Proof.
  intros Hg R HI HS. unfold analog_note_on.
  destruct (in_midi_range (transpose s note)) eqn:Er; [|split; assumption].
  apply in_midi_range_spec in Er.
  set (n := Z.to_N (transpose s note)). set (ch := chan_of s off).
  assert (Hn : n < 128) by (subst n; lia). assert (Hc : ch < 16) by apply chan_of_lt.
  pose proof (get_none_notin aid_eqb aid_eqb_spec _ _ Hg) as Hnot.
  destruct HI as [H1 H2 H3 H4 H5 H6]. cbn [fst snd]. split.
  - constructor; cbn [noteT analogT set_analogT]; try assumption.
    + apply (nodup_set aid_eqb aid_eqb_spec). exact H5.
    + intros i p Hin. unfold set in Hin. destruct Hin as [Hin|Hin].
      * injection Hin as <- <-. cbn. split; assumption.
      * apply (in_del aid_eqb aid_eqb_spec) in Hin. apply (H6 i). tauto.
  - unfold Sound. cbn [noteT analogT set_analogT recv fold_left].
    rewrite (vals_set_notin aid_eqb aid_eqb_spec _ _ _ Hnot).
    intros q Hq. apply (recv1_note_on _ _ _ _ Hc) in Hq. apply in_or_app.
    destruct Hq as [<-|Hq]; [right; left; reflexivity|].
    apply HS in Hq. apply in_app_or in Hq. destruct Hq; [left|right; right]; assumption.
Qed.

Lemma analog_note_off_keeps c s id : Keeps c s (analog_note_off s id).
Proof.
  intros R HI HS. unfold analog_note_off.
  destruct (get aid_eqb id (analogT s)) as [[n ch]|] eqn:Eg; [|split; assumption].
  destruct HI as [H1 H2 H3 H4 H5 H6].
  pose proof (get_some_in aid_eqb aid_eqb_spec _ _ _ Eg) as Hin.
  destruct (H6 _ _ Hin) as [Hc Hn]. cbn in Hc, Hn. cbn [fst snd]. split.
  - constructor; cbn [noteT analogT set_analogT]; try assumption.
    + apply (nodup_del aid_eqb aid_eqb_spec). exact H5.
    + intros i p Hin0. apply (in_del aid_eqb aid_eqb_spec) in Hin0. apply (H6 i). tauto.
  - unfold Sound. cbn [noteT analogT set_analogT recv fold_left]. rewrite (recv1_note_off _ _ _ Hc).
    intros q Hq. apply (in_srem pair_eqb pair_eqb_spec) in Hq. destruct Hq as [Hq Hne].
    apply HS in Hq. apply in_app_or in Hq. apply in_or_app. destruct Hq as [Hq|Hq]; [left; exact Hq|right].
    apply (in_vals_del aid_eqb aid_eqb_spec id (n, ch) q _ H5 Eg Hq Hne).
Qed.

(* ---- operations that only touch playing state / cc flags and emit messages that start nothing *)
Definition harmless (ms : list msg) : Prop := forall R, incl (recv R ms) R.

Lemma harmless_nil : harmless [].
Proof. intro R. apply incl_refl. Qed.

Lemma harmless_app a b : harmless a -> harmless b -> harmless (a ++ b).
Proof. intros Ha Hb R. rewrite recv_app. eapply incl_tran; [apply Hb|apply Ha]. Qed.

Lemma harmless_cc ch fn v : ch < 16 -> harmless [cc_event ch fn v].
Proof. intros H R. cbn. apply recv1_cc. exact H. Qed.

Lemma harmless_burst ch : harmless (panic_burst ch).
Proof. intro R. apply recv_all_zero. apply panic_burst_zero. Qed.

Lemma keeps_frame c s s' ms :
  noteT s' = noteT s -> analogT s' = analogT s -> counter s' = counter s -> harmless ms -> Keeps c s (s', ms).
Proof.
  intros E1 E2 E3 Hh R HI HS. cbn [fst snd]. split.
  - destruct HI as [H1 H2 H3 H4 H5 H6]. constructor; rewrite ?E1, ?E2; try assumption.
    intro p. unfold count_of. rewrite E3. apply H3.
  - unfold Sound. rewrite E1, E2. eapply incl_tran; [apply Hh|exact HS].
Qed.

Lemma invoke_press_harmless c a s : harmless (snd (invoke_press c a s)).
Proof. destruct a; cbn; try apply harmless_nil. apply harmless_burst. Qed.

Lemma invoke_press_keeps c a s : Keeps c s (invoke_press c a s).
Proof.
  pose proof (invoke_press_frame c a s) as F. pose proof (invoke_press_harmless c a s) as Hh.
  destruct (invoke_press c a s) as [s' m]. cbn in F, Hh. destruct F as ((F1&F2&F3&_)&_).
  apply keeps_frame; assumption.
Qed.

(* ------------------------------------------------------------------ analog samples *)
Definition tf (s : state) := (noteT s, analogT s, counter s).

Lemma keeps_tf c s s' ms : tf s' = tf s -> harmless ms -> Keeps c s (s', ms).
Proof. unfold tf. intros E Hh. injection E as E1 E2 E3. apply keeps_frame; assumption. Qed.

Lemma invoke_press_tf c a s s1 m : invoke_press c a s = (s1, m) -> tf s1 = tf s.
Proof.
  destruct a; cbn; repeat match goal with |- context [if ?b then _ else _] => destruct b end;
    intro H; injection H as <- <-; reflexivity.
Qed.
Lemma invoke_release_tf a s : tf (invoke_release a s) = tf s.
Proof. destruct a; reflexivity. Qed.
Lemma check_double_tf s s' : check_double s = Some s' -> tf s' = tf s.
Proof.
  unfold check_double. repeat match goal with |- context [if ?b then _ else _] => destruct b end;
    intro H; try discriminate; injection H as <-; reflexivity.
Qed.

Lemma handle_cc_keeps c s sa : Keeps c s (handle_cc s sa).
Proof.
  unfold handle_cc.
  pose proof (chan_of_lt s (a_off (sa_an sa))) as Hc. pose proof (chan_of_lt s (a_offneg (sa_an sa))) as Hcn.
  destruct (a_bidi (sa_an sa)).
  - destruct (sa_neg sa).
    + destruct (cc_zeroed s (a_cc (sa_an sa))); apply keeps_tf; try reflexivity.
      * apply (harmless_app [_] []); [apply harmless_cc; exact Hcn|apply harmless_nil].
      * apply (harmless_app [_] [_]); apply harmless_cc; assumption.
    + destruct (cc_zeroed s (a_ccneg (sa_an sa))); apply keeps_tf; try reflexivity.
      * apply (harmless_app [_] []); [apply harmless_cc; exact Hc|apply harmless_nil].
      * apply (harmless_app [_] [_]); apply harmless_cc; assumption.
  - apply keeps_tf; [reflexivity|apply harmless_cc; exact Hc].
Qed.

Lemma handle_actionsim_keeps c s sa : Keeps c s (handle_actionsim c s sa).
Proof.
  unfold handle_actionsim. destruct (check_double s) as [s'|] eqn:E.
  - apply keeps_tf; [apply check_double_tf; exact E|apply harmless_nil].
  - destruct (sa_zone sa).
    + pose proof (invoke_press_harmless c (a_actneg (sa_an sa)) s) as Hh.
      destruct (invoke_press c (a_actneg (sa_an sa)) s) as [s1 m] eqn:E1. apply invoke_press_tf in E1.
      apply keeps_tf; [|exact Hh]. unfold untrack_action, track_action.
      change (tf (set_actionT ?l ?x)) with (tf x). rewrite invoke_release_tf.
      change (tf (set_actionT ?l ?x)) with (tf x). exact E1.
    + apply keeps_tf; [|apply harmless_nil]. unfold untrack_action.
      change (tf (set_actionT ?l ?x)) with (tf x). change (tf (set_actionT ?l ?x)) with (tf x).
      rewrite !invoke_release_tf. reflexivity.
    + pose proof (invoke_press_harmless c (a_act (sa_an sa)) s) as Hh.
      destruct (invoke_press c (a_act (sa_an sa)) s) as [s1 m] eqn:E1. apply invoke_press_tf in E1.
      apply keeps_tf; [|exact Hh]. rewrite invoke_release_tf. unfold untrack_action, track_action.
      change (tf (set_actionT ?l ?x)) with (tf x). change (tf (set_actionT ?l ?x)) with (tf x). exact E1.
    + apply keeps_id.
Qed.

Lemma analog_note_off_get s id id' :
  get aid_eqb id' (analogT (fst (analog_note_off s id))) =
  if aid_eqb id' id then None else get aid_eqb id' (analogT s).
Proof.
  unfold analog_note_off. destruct (get aid_eqb id (analogT s)) as [[n ch]|] eqn:E; cbn [fst analogT set_analogT].
  - destruct (aid_eqb id' id) eqn:E2.
    + apply aid_eqb_spec in E2. subst. apply (get_del_same aid_eqb).
    + apply (get_del_other aid_eqb aid_eqb_spec). intros ->. rewrite (proj2 (aid_eqb_spec id id) eq_refl) in E2. discriminate.
  - destruct (aid_eqb id' id) eqn:E2; [|reflexivity]. apply aid_eqb_spec in E2. subst. exact E.
Qed.

Lemma handle_keysim_keeps c s sa : Keeps c s (handle_keysim s sa).
Proof.
  unfold handle_keysim. destruct (sa_zone sa).
  - (* ZNeg *)
    apply (keeps_seq c s
             (fun s => match get aid_eqb (sa_code sa, true) (analogT s) with
                       | Some _ => (s, [])
                       | None => if a_bidi (sa_an sa) then analog_note_on s (sa_code sa, true) (a_noteneg (sa_an sa)) (a_offneg (sa_an sa)) else (s, [])
                       end)
             (fun s1 => analog_note_off s1 (sa_code sa, false))).
    + destruct (get aid_eqb (sa_code sa, true) (analogT s)) eqn:E; [apply keeps_id|].
      destruct (a_bidi (sa_an sa)); [apply analog_note_on_keeps; exact E|apply keeps_id].
    + apply analog_note_off_keeps.
  - (* ZMid *)
    apply (keeps_seq c s (fun s => analog_note_off s (sa_code sa, false)) (fun s1 => analog_note_off s1 (sa_code sa, true)));
      apply analog_note_off_keeps.
  - (* ZPos *)
    apply (keeps_seq c s
             (fun s => match get aid_eqb (sa_code sa, false) (analogT s) with
                       | Some _ => (s, [])
                       | None => analog_note_on s (sa_code sa, false) (a_note (sa_an sa)) (a_off (sa_an sa))
                       end)
             (fun s1 => analog_note_off s1 (sa_code sa, true))).
    + destruct (get aid_eqb (sa_code sa, false) (analogT s)) eqn:E; [apply keeps_id|].
      apply analog_note_on_keeps; exact E.
    + apply analog_note_off_keeps.
  - apply keeps_id.
Qed.

Definition with_out (r : state * list msg) : state * out := (fst r, emit (snd r)).

Lemma handle_sample_keeps c s sa :
  Keeps c s (fst (handle_sample c s sa), midi (snd (handle_sample c s sa))).
Proof.
  unfold handle_sample. destruct (learning s && negb (sa_gate sa)); [apply keeps_id|].
  destruct (a_type (sa_an sa)).
  - pose proof (handle_cc_keeps c s sa) as K. destruct (handle_cc s sa). exact K.
  - cbn [fst snd midi emit]. apply keeps_tf; [reflexivity|].
    intro R. unfold recv. cbn [fold_left]. rewrite recv1_pb; [apply incl_refl|apply chan_of_lt].
  - pose proof (handle_keysim_keeps c s sa) as K. destruct (handle_keysim s sa). exact K.
  - pose proof (handle_actionsim_keeps c s sa) as K. destruct (handle_actionsim c s sa). exact K.
  - apply keeps_id.
Qed.

(* ------------------------------------------------------------------ key events *)
Lemma keeps_keyT c s kt r :
  Keeps c s r -> Keeps c (set_keyT kt s) r.
Proof.
  intros K R HI HS. apply K.
  - destruct HI as [H1 H2 H3 H4 H5 H6]. constructor; assumption.
  - exact HS.
Qed.

Lemma InvT_keyT c s kt : InvT c s -> InvT c (set_keyT kt s).
Proof. intros [H1 H2 H3 H4 H5 H6]. constructor; assumption. Qed.
Lemma InvT_actionT c s l : InvT c s -> InvT c (set_actionT l s).
Proof. intros [H1 H2 H3 H4 H5 H6]. constructor; assumption. Qed.

Lemma handle_key_keeps c s sub code val :
  ((val = 1)%Z -> ~ In code (keys (noteT s))) ->
  Keeps c s (fst (handle_key c s sub code val), midi (snd (handle_key c s sub code val))).
Proof.
  intros Hpress R HI HS. unfold handle_key.
  set (s1 := if (val =? 1)%Z then set_keyT (sadd N.eqb code (keyT s)) s else set_keyT (srem N.eqb code (keyT s)) s).
  assert (HI1 : InvT c s1) by (subst s1; destruct (val =? 1)%Z; apply InvT_keyT; exact HI).
  assert (HS1 : Sound s1 R) by (subst s1; destruct (val =? 1)%Z; exact HS).
  assert (HN1 : noteT s1 = noteT s) by (subst s1; destruct (val =? 1)%Z; reflexivity).
  clearbody s1.
  destruct ((val =? 1)%Z && exit_complete c (keyT s1)); [split; assumption|].
  destruct (find_action c code) as [a|] eqn:Ea.
  - destruct (val =? 1)%Z.
    + destruct (check_double _) as [s3|] eqn:E.
      * apply (keeps_tf c s1 s3 []); [|apply harmless_nil|exact HI1|exact HS1].
        apply check_double_tf in E. exact E.
      * pose proof (invoke_press_keeps c a (set_actionT (sadd action_eqb a (actionT s1)) s1)) as K.
        destruct (invoke_press c a _) as [s3 m]. cbn [fst snd midi emit] in *.
        apply K; [apply InvT_actionT; exact HI1|exact HS1].
    + destruct (val =? 0)%Z; [|split; assumption]. cbn [fst snd midi silent].
      apply (keeps_tf c s1 _ []); [|apply harmless_nil|exact HI1|exact HS1].
      change (tf (set_actionT ?l ?x)) with (tf x). apply invoke_release_tf.
  - destruct (find_key c s sub code).
    + destruct (val =? 1)%Z eqn:Ev.
      * apply Z.eqb_eq in Ev.
        pose proof (note_on_key_keeps c s1 sub code ltac:(rewrite HN1; auto) Ea) as K.
        destruct (note_on_key c s1 sub code) as [s2 m]. cbn [fst snd midi emit] in *. apply K; assumption.
      * destruct (val =? 0)%Z; [|split; assumption].
        pose proof (note_off_key_keeps c s1 code) as K.
        destruct (note_off_key c s1 code) as [s2 m]. cbn [fst snd midi emit] in *. apply K; assumption.
    + destruct (val =? 0)%Z; [|split; assumption].
      pose proof (note_off_key_keeps c s1 code) as K.
      destruct (note_off_key c s1 code) as [s2 m]. cbn [fst snd midi emit] in *. apply K; assumption.
Qed.

(* ------------------------------------------------------------------ I1: tracked keys are down *)
Lemma note_on_key_keys c s sub code k :
  In k (keys (noteT (fst (note_on_key c s sub code)))) -> k = code \/ In k (keys (noteT s)).
Proof.
  unfold note_on_key. destruct (find_key c s sub code); [|right; assumption].
  destruct (in_midi_range _); [|right; assumption].
  cbn [fst noteT bump set_counter set_noteT]. unfold set. cbn [keys map fst].
  intros [H|H]; [left; auto|right]. fold (keys (del N.eqb code (noteT s))) in H.
  apply (in_keys_del N.eqb Neqb_spec) in H. tauto.
Qed.

Lemma note_off_key_keys c s code k :
  In k (keys (noteT (fst (note_off_key c s code)))) -> In k (keys (noteT s)) /\ k <> code.
Proof.
  unfold note_off_key. destruct (get N.eqb code (noteT s)) as [[n ch]|] eqn:E.
  - cbn [fst noteT bump set_counter set_noteT]. apply (in_keys_del N.eqb Neqb_spec).
  - cbn [fst]. intro H. split; [exact H|]. intros ->. exact (get_none_notin N.eqb Neqb_spec _ _ E H).
Qed.

Lemma handle_key_Sub c s sub code val :
  InvT c s -> Sub s -> (val = 0 \/ val = 1)%Z -> Sub (fst (handle_key c s sub code val)).
Proof.
  intros HI HSub Hval k. rewrite handle_key_keyT. unfold handle_key.
  set (s1 := if (val =? 1)%Z then set_keyT (sadd N.eqb code (keyT s)) s else set_keyT (srem N.eqb code (keyT s)) s).
  assert (HN1 : noteT s1 = noteT s) by (subst s1; destruct (val =? 1)%Z; reflexivity).
  clearbody s1.
  assert (Hsame : In k (keys (noteT s)) -> (val = 1%Z \/ k <> code) ->
                  In k (if (val =? 1)%Z then sadd N.eqb code (keyT s) else srem N.eqb code (keyT s))).
  { intros Hk Hc. destruct (val =? 1)%Z eqn:Ev.
    - apply (in_sadd N.eqb Neqb_spec). right. apply HSub. exact Hk.
    - apply (in_srem N.eqb Neqb_spec). split; [apply HSub; exact Hk|].
      destruct Hc as [Hc|Hc]; [subst val; discriminate|exact Hc]. }
  destruct ((val =? 1)%Z && exit_complete c (keyT s1)) eqn:Eex.
  { cbn [fst]. rewrite HN1. intro Hk. apply Hsame; [exact Hk|]. left.
    apply andb_true_iff in Eex. destruct Eex as [Eex _]. apply Z.eqb_eq in Eex. exact Eex. }
  destruct (find_action c code) as [a|] eqn:Ea.
  - assert (Hnc : In k (keys (noteT s)) -> k <> code).
    { intros Hk ->. rewrite (inv_noact _ _ HI _ Hk) in Ea. discriminate. }
    destruct (val =? 1)%Z eqn:Ev.
    + destruct (check_double _) as [s3|] eqn:E.
      * cbn [fst]. apply check_double_tf in E. unfold tf in E. injection E as E1 _ _. rewrite E1.
        cbn [noteT set_actionT]. rewrite HN1. intro Hk. apply (in_sadd N.eqb Neqb_spec). right. apply HSub. exact Hk.
      * destruct (invoke_press c a _) as [s3 m] eqn:E1. cbn [fst]. apply invoke_press_tf in E1.
        unfold tf in E1. injection E1 as E1 _ _. rewrite E1. cbn [noteT set_actionT]. rewrite HN1.
        intro Hk. apply (in_sadd N.eqb Neqb_spec). right. apply HSub. exact Hk.
    + destruct (val =? 0)%Z.
      * cbn [fst noteT set_actionT].
        assert (E : noteT (invoke_release a s1) = noteT s1) by (destruct a; reflexivity). rewrite E, HN1.
        intro Hk. apply (in_srem N.eqb Neqb_spec). split; [apply HSub; exact Hk|apply Hnc; exact Hk].
      * cbn [fst]. rewrite HN1. intro Hk. apply (in_srem N.eqb Neqb_spec). split; [apply HSub; exact Hk|apply Hnc; exact Hk].
  - assert (Hoff : forall s2 m, note_off_key c s1 code = (s2, m) -> In k (keys (noteT s2)) ->
                   In k (srem N.eqb code (keyT s))).
    { intros s2 m E Hk. assert (Hk2 : In k (keys (noteT (fst (note_off_key c s1 code))))) by (rewrite E; exact Hk).
      apply note_off_key_keys in Hk2. rewrite HN1 in Hk2. destruct Hk2 as [Hk2 Hne].
      apply (in_srem N.eqb Neqb_spec). split; [apply HSub; exact Hk2|exact Hne]. }
    destruct (find_key c s sub code).
    + destruct (val =? 1)%Z eqn:Ev.
      * destruct (note_on_key c s1 sub code) as [s2 m] eqn:E. intro Hk.
        assert (Hk' : In k (keys (noteT (fst (note_on_key c s1 sub code))))) by (rewrite E; exact Hk).
        apply note_on_key_keys in Hk'. rewrite HN1 in Hk'. apply (in_sadd N.eqb Neqb_spec).
        destruct Hk' as [->|Hk']; [left; reflexivity|right; apply HSub; exact Hk'].
      * destruct (val =? 0)%Z eqn:E0.
        -- destruct (note_off_key c s1 code) as [s2 m] eqn:E. intro Hk. exact (Hoff _ _ eq_refl Hk).
        -- exfalso. destruct Hval as [->| ->]; discriminate.
    + destruct (val =? 0)%Z eqn:E0.
      * destruct (note_off_key c s1 code) as [s2 m] eqn:E. intro Hk.
        destruct (val =? 1)%Z eqn:Ev; [apply Z.eqb_eq in Ev; apply Z.eqb_eq in E0; congruence|].
        exact (Hoff _ _ eq_refl Hk).
      * cbn [fst]. rewrite HN1. intro Hk. apply Hsame; [exact Hk|]. left.
        destruct Hval as [->| ->]; [discriminate|reflexivity].
Qed.

(* ------------------------------------------------------------------ one step, whole runs *)
Lemma step_inv c s e R :
  InvT c s -> Sub s -> Sound s R -> ok_press (keyT s) e ->
  InvT c (fst (step c s e)) /\ Sub (fst (step c s e)) /\ Sound (fst (step c s e)) (recv R (midi (snd (step c s e)))).
Proof.
  intros HI HSub HS Hok. destruct e as [sub code val|sa|]; cbn [step].
  - destruct (val =? 2)%Z eqn:E2; [cbn; auto|].
    cbn in Hok. destruct Hok as [Hp Hv].
    assert (Hv' : (val = 0 \/ val = 1)%Z).
    { destruct Hv as [Hv|[Hv|Hv]]; [left; exact Hv|right; exact Hv|subst val; discriminate]. }
    assert (Hpress : val = 1%Z -> ~ In code (keys (noteT s))).
    { intros Hv1 Hin. apply (Hp Hv1). apply HSub. exact Hin. }
    destruct (handle_key_keeps c s sub code val Hpress R HI HS) as [K1 K2]. cbn [fst snd] in K1, K2.
    split; [exact K1|]. split; [apply handle_key_Sub; assumption|exact K2].
  - destruct (handle_sample_keeps c s sa R HI HS) as [K1 K2]. cbn [fst snd] in K1, K2.
    split; [exact K1|]. split; [|exact K2].
    pose proof (handle_sample_kf c s sa) as F. unfold kf in F. injection F as F1 _ F3.
    intros k Hk. rewrite F3. apply HSub. rewrite <- F1. exact Hk.
  - cbn. auto.
Qed.

Lemma all_midi_cons o os : all_midi (o :: os) = midi o ++ all_midi os.
Proof. reflexivity. Qed.

Lemma run_from_inv c h : forall s R,
  InvT c s -> Sub s -> Sound s R -> alternating_from (keyT s) h ->
  InvT c (fst (run_from c s h)) /\ Sub (fst (run_from c s h)) /\
  Sound (fst (run_from c s h)) (recv R (all_midi (snd (run_from c s h)))).
Proof.
  induction h as [|e r IH]; intros s R HI HSub HS Halt; cbn [run_from].
  - cbn. auto.
  - cbn in Halt. destruct Halt as [Hok Halt].
    destruct (step_inv c s e R HI HSub HS Hok) as (K1&K2&K3).
    pose proof (step_keyT c s e) as KT.
    destruct (step c s e) as [s1 o]. cbn [fst snd] in *.
    rewrite <- KT in Halt. specialize (IH s1 _ K1 K2 K3 Halt).
    destruct (run_from c s1 r) as [s2 os]. cbn [fst snd] in *.
    rewrite all_midi_cons, recv_app. exact IH.
Qed.

Lemma run_inv c h :
  alternating h ->
  InvT c (fst (run c h)) /\ Sub (fst (run c h)) /\ Sound (fst (run c h)) (recv [] (all_midi (snd (run c h)))).
Proof.
  intro H. apply run_from_inv; [apply init_InvT|apply init_Sub|apply init_Sound|exact H].
Qed.

(* ------------------------------------------------------------------ disconnect clean-up *)
Lemma cleanup_keys_keeps c l : forall s, Keeps c s (cleanup_keys c s l).
Proof.
  induction l as [|k r IH]; intro s; cbn [cleanup_keys]; [apply keeps_id|].
  apply (keeps_seq c s (fun s => note_off_key c s k) (fun s1 => cleanup_keys c s1 r)); [apply note_off_key_keeps|apply IH].
Qed.

Lemma cleanup_analog_keeps c l : forall s, Keeps c s (cleanup_analog s l).
Proof.
  induction l as [|k r IH]; intro s; cbn [cleanup_analog]; [apply keeps_id|].
  apply (keeps_seq c s (fun s => analog_note_off s k) (fun s1 => cleanup_analog s1 r)); [apply analog_note_off_keeps|apply IH].
Qed.

Lemma keys_nil_nil {K V} (l : list (K * V)) : (forall k, In k (keys l) -> False) -> l = [].
Proof. destruct l as [|[k v] r]; [reflexivity|]. intro H. exfalso. apply (H k). left. reflexivity. Qed.

Lemma cleanup_keys_empties c l : forall s,
  (forall k, In k (keys (noteT s)) -> In k l) -> noteT (fst (cleanup_keys c s l)) = [].
Proof.
  induction l as [|k r IH]; intros s H; cbn [cleanup_keys].
  - cbn. apply keys_nil_nil. exact H.
  - destruct (note_off_key c s k) as [s1 m1] eqn:E1.
    specialize (IH s1). destruct (cleanup_keys c s1 r) as [s2 m2]. cbn [fst] in *. apply IH.
    intros k' Hk'. assert (Hk2 : In k' (keys (noteT (fst (note_off_key c s k))))) by (rewrite E1; exact Hk').
    apply note_off_key_keys in Hk2. destruct Hk2 as [Hk2 Hne]. destruct (H k' Hk2) as [->|Hr]; [congruence|exact Hr].
Qed.

Lemma cleanup_analog_noteT l : forall s, noteT (fst (cleanup_analog s l)) = noteT s.
Proof.
  induction l as [|k r IH]; intro s; cbn [cleanup_analog]; [reflexivity|].
  destruct (analog_note_off s k) as [s1 m1] eqn:E1. specialize (IH s1).
  destruct (cleanup_analog s1 r) as [s2 m2]. cbn [fst] in *. rewrite IH.
  apply analog_note_off_kf in E1. unfold kf in E1. injection E1 as E1 _ _. exact E1.
Qed.

Lemma analog_note_off_keys s id k :
  In k (keys (analogT (fst (analog_note_off s id)))) -> In k (keys (analogT s)) /\ k <> id.
Proof.
  unfold analog_note_off. destruct (get aid_eqb id (analogT s)) as [[n ch]|] eqn:E.
  - cbn [fst analogT set_analogT]. apply (in_keys_del aid_eqb aid_eqb_spec).
  - cbn [fst]. intro H. split; [exact H|]. intros ->. exact (get_none_notin aid_eqb aid_eqb_spec _ _ E H).
Qed.

Lemma cleanup_analog_empties l : forall s,
  (forall k, In k (keys (analogT s)) -> In k l) -> analogT (fst (cleanup_analog s l)) = [].
Proof.
  induction l as [|k r IH]; intros s H; cbn [cleanup_analog].
  - cbn. apply keys_nil_nil. exact H.
  - destruct (analog_note_off s k) as [s1 m1] eqn:E1.
    specialize (IH s1). destruct (cleanup_analog s1 r) as [s2 m2]. cbn [fst] in *. apply IH.
    intros k' Hk'. assert (Hk2 : In k' (keys (analogT (fst (analog_note_off s k))))) by (rewrite E1; exact Hk').
    apply analog_note_off_keys in Hk2. destruct Hk2 as [Hk2 Hne]. destruct (H k' Hk2) as [->|Hr]; [congruence|exact Hr].
Qed.

Lemma cleanup_silences c s R :
  InvT c s -> Sound s R -> recv R (snd (cleanup c s)) = [].
Proof.
  intros HI HS. unfold cleanup.
  pose proof (cleanup_keys_keeps c (keys (noteT s)) s R HI HS) as [K1 K2].
  pose proof (cleanup_keys_empties c (keys (noteT s)) s (fun k H => H)) as E1.
  destruct (cleanup_keys c s (keys (noteT s))) as [s1 m1]. cbn [fst snd] in *.
  pose proof (cleanup_analog_keeps c (keys (analogT s1)) s1 _ K1 K2) as [K3 K4].
  pose proof (cleanup_analog_empties (keys (analogT s1)) s1 (fun k H => H)) as E2.
  pose proof (cleanup_analog_noteT (keys (analogT s1)) s1) as E3.
  destruct (cleanup_analog s1 (keys (analogT s1))) as [s2 m2]. cbn [fst snd] in *.
  rewrite recv_app. unfold Sound in K4. rewrite E2, E3, E1 in K4. cbn in K4.
  destruct (recv (recv R m1) m2) as [|q r]; [reflexivity|]. exfalso. apply (K4 q). left. reflexivity.
Qed.

(* ------------------------------------------------------------------ C01 *)
Lemma disconnect_silences c h :
  alternating h ->
  recv [] (all_midi (snd (run c h)) ++ snd (cleanup c (fst (run c h)))) = [].
Proof.
  intro Halt. destruct (run_inv c h Halt) as (HI&_&HS). rewrite recv_app. apply cleanup_silences; assumption.
Qed.

Lemma quiescent_silent c h :
  alternating h -> keys_down h = [] -> analogT (fst (run c h)) = [] ->
  recv [] (all_midi (snd (run c h))) = [].
Proof.
  intros Halt Hk Ha. destruct (run_inv c h Halt) as (HI&HSub&HS).
  assert (HN : noteT (fst (run c h)) = []).
  { apply keys_nil_nil. intros k Hin. apply HSub in Hin. rewrite run_keyT, Hk in Hin. exact Hin. }
  unfold Sound in HS. rewrite HN, Ha in HS. cbn in HS.
  destruct (recv [] (all_midi (snd (run c h)))) as [|q r]; [reflexivity|]. exfalso. apply (HS q). left. reflexivity.
Qed.

Lemma alternating_from_app kt h1 h2 :
  alternating_from kt (h1 ++ h2) -> alternating_from kt h1 /\ alternating_from (fold_left next_keys h1 kt) h2.
Proof.
  revert kt. induction h1 as [|e r IH]; intros kt H; cbn in *; [auto|].
  destruct H as [H1 H2]. destruct (IH _ H2) as [H3 H4]. auto.
Qed.

Lemma alternating_prefix h1 h2 : alternating (h1 ++ h2) -> alternating h1.
Proof. intro H. apply (alternating_from_app [] h1 h2 H). Qed.
